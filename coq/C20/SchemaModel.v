(** C20 — "the schema validation applied to the file accepts exactly the
    mechanism types and options that the loader supports".

    Two tables are regenerated on every run into Gen/SchemaTables.v by
    harness/tools/schema: what schema/config.schema.json allows for the pipeline
    mechanisms, and what the loader accepts (type registries and the config
    structs the constructors decode into, with ErrorUnused).  This file defines
    their vocabulary, the row-by-row agreement check, the acceptance prediction
    used by the dynamic replay stream, and the table of recorded disagreements
    (finding C20-F1). *)
From HV Require Import Base.Prelude.
Open Scope string_scope.

(** value constraint of an option: none, or membership in a finite set (JSON
    schema enum/const, validator oneof); values are rendered as text *)
Inductive constr :=
| CAny
| CEnum (vals : list string)
| CRange (lo hi : Z)
| CClass (name : string) (acc rej : list string).
(** [CClass name acc rej]: a syntactic class of values (a schema `pattern`, a Go type with its own
    text syntax such as time.Duration); [acc]/[rej] are the members of a fixed sample universe the class
    accepts/rejects, computed by the translator with the real pattern / the Go grammar *)

(** required: yes / no / conditionally (required_without, oneOf ... : not compared) *)
Inductive req := RYes | RNo | RCond.

Record opt := { o_name : string; o_req : req; o_constr : constr }.

Record mech := {
  m_kind : string;            (* authenticators, authorizers, contextualizers, finalizers, error_handlers *)
  m_type : string;
  m_has_config : bool;        (* takes a config object at all *)
  m_cfg_req : bool;           (* the config object must be there (schema: `config` required; loader: some option is required) *)
  m_opts : list opt }.

Definition table := list mech.

Definition find_mech (t : table) (k ty : string) : option mech :=
  find (fun m => String.eqb (m_kind m) k && String.eqb (m_type m) ty) t.

Definition find_opt (m : mech) (n : string) : option opt :=
  find (fun o => String.eqb (o_name o) n) (m_opts m).

Definition subset (a b : list string) : bool := forallb (fun x => existsb (String.eqb x) b) a.

Definition constr_eqb (a b : constr) : bool :=
  match a, b with
  | CAny, CAny => true
  | CEnum x, CEnum y => subset x y && subset y x
  | CRange a b, CRange a' b' => Z.eqb a a' && Z.eqb b b'
  | CClass n a r, CClass n' a' r' => String.eqb n n' && subset a a' && subset a' a && subset r r' && subset r' r
  | _, _ => false
  end.

Definition req_agree (a b : req) : bool :=
  match a, b with
  | RCond, _ | _, RCond => true
  | RYes, RYes | RNo, RNo => true
  | _, _ => false
  end.

(** a row of the comparison: a mechanism type, or one of its options *)
Inductive row := RType (k ty : string) | RCfg (k ty : string) | ROpt (k ty n : string).

Definition row_eqb (a b : row) : bool :=
  match a, b with
  | RType k t, RType k' t' => String.eqb k k' && String.eqb t t'
  | RCfg k t, RCfg k' t' => String.eqb k k' && String.eqb t t'
  | ROpt k t n, ROpt k' t' n' => String.eqb k k' && String.eqb t t' && String.eqb n n'
  | _, _ => false
  end.

Definition rows_of (t : table) : list row :=
  flat_map (fun m => RType (m_kind m) (m_type m) :: RCfg (m_kind m) (m_type m) ::
                     map (fun o => ROpt (m_kind m) (m_type m) (o_name o)) (m_opts m)) t.

Definition all_rows (s l : table) : list row := rows_of s ++ rows_of l.

(** schema and loader agree on a row: both know the type (and both or neither
    take a config); both know the option, with the same value constraint and
    the same requiredness; both insist on the config object or neither does.
    A config/option row of a type that only one side knows is charged to the
    type row. *)
Definition row_agrees (s l : table) (r : row) : bool :=
  match r with
  | RType k ty =>
      match find_mech s k ty, find_mech l k ty with
      | Some a, Some b => Bool.eqb (m_has_config a) (m_has_config b)
      | _, _ => false
      end
  | RCfg k ty =>
      match find_mech s k ty, find_mech l k ty with
      | Some a, Some b => Bool.eqb (m_cfg_req a) (m_cfg_req b)
      | _, _ => true
      end
  | ROpt k ty n =>
      match find_mech s k ty, find_mech l k ty with
      | Some a, Some b =>
          match find_opt a n, find_opt b n with
          | Some x, Some y => constr_eqb (o_constr x) (o_constr y) && req_agree (o_req x) (o_req y)
          | _, _ => false
          end
      | _, _ => true
      end
  end.

(** recorded disagreements (C20-F1), in six groups a-f, each with its own repair
    flag [fixed_F1x] (a: the schema was wrong, 80621e4; b: the loader did not
    validate, 6c5864d; c: c343928; d: cc49e3a; e: 86b640c; f: open).  The generated
    file proves that every other row of the current tables agrees; for the
    repaired groups a, b, c SchemaPinned.v shows that each row disagrees in the
    tables as they were extracted when the finding was recorded; for the open
    group f Properties/C20.v shows it on the current tables (C20_F1f_refuted). *)
Definition known_F1a : list row :=
  [ RType "error_handlers" "www-authenticate";      (* the schema's spelling *)
    RType "error_handlers" "www_authenticate";      (* the loader's (and the documentation's) spelling *)
    (* the schema lets `config` be absent although the loader requires options in it *)
    RCfg "authenticators" "basic_auth";
    RCfg "authenticators" "generic";
    RCfg "authenticators" "jwt";
    RCfg "authenticators" "oauth2_introspection";
    RCfg "authorizers" "cel";
    RCfg "authorizers" "remote";
    RCfg "finalizers" "jwt" ].

Definition known_F1b : list row :=
  [ ROpt "error_handlers" "redirect" "code" ].      (* enum {301,302} only in the schema *)

(** found when the tables were widened to nested objects: the generic
    authenticator's loader requires [subject.id], the schema does not; the
    schema accepts unlisted options inside [assertions] ("<any>": an option that
    is not listed), the loader rejects them *)
Definition known_F1c : list row :=
  [ ROpt "authenticators" "generic" "subject.id";
    ROpt "authenticators" "jwt" "assertions.<any>";
    ROpt "authenticators" "oauth2_introspection" "assertions.<any>" ].

(** found when the tables got value classes (audit): emptiness of lists/maps.
    Group d (repaired by cc49e3a): the header/cookie finalizers' maps may not be
    empty for the loader (gt=0) but could for the schema.  Group e (repaired by
    86b640c): the remote authorizer's [expressions] may not be empty for the
    schema (minItems 1) but could for the loader. *)
Definition known_F1d : list row :=
  [ ROpt "finalizers" "cookie" "cookies";
    ROpt "finalizers" "header" "headers" ].

Definition known_F1e : list row :=
  [ ROpt "authorizers" "remote" "expressions" ].

(** group f (open, names of the non-mechanism sections against the koanf tags of the
    Configuration struct): the Mechanism struct carries an `if` that the schema does
    not know (and that the loader rejects later anyway, see the notes); the
    ServiceConfig struct shared by the three services is wider than what the schema
    allows per service; the schema's `version` has no field *)
Definition known_F1f : list row :=
  [ ROpt "section" "mechanisms" "authenticators[].if";
    ROpt "section" "mechanisms" "authorizers[].if";
    ROpt "section" "mechanisms" "contextualizers[].if";
    ROpt "section" "mechanisms" "error_handlers[].if";
    ROpt "section" "mechanisms" "finalizers[].if";
    ROpt "section" "serve" "decision.connections_limit";
    ROpt "section" "serve" "decision.cors";
    ROpt "section" "serve" "management.connections_limit";
    ROpt "section" "serve" "management.respond";
    RType "section" "version" ].

Definition fixed_F1d : bool := true.
Definition fixed_F1e : bool := true.
Definition fixed_F1f : bool := false.

Definition known_F1 : list row := known_F1a ++ known_F1b ++ known_F1c ++ known_F1d ++ known_F1e ++ known_F1f.

(** flipped by hand when the repair of group c is applied to /repo *)
Definition fixed_F1c : bool := true.

(** [fa]/[fb]: the repair of the group is in the tree, its rows are no longer excused *)
Definition guard_F1 (fa fb : bool) (r : row) : bool :=
  existsb (row_eqb r) ((if fa then [] else known_F1a) ++ (if fb then [] else known_F1b) ++
                       (if fixed_F1c then [] else known_F1c) ++ (if fixed_F1d then [] else known_F1d) ++
                       (if fixed_F1e then [] else known_F1e) ++ (if fixed_F1f then [] else known_F1f)).

(** flipped by hand when a repair is applied to /repo *)
Definition fixed_F1a : bool := true.
Definition fixed_F1b : bool := true.

Definition disagreements (s l : table) : list row :=
  filter (fun r => negb (row_agrees s l r)) (all_rows s l).

(** C20-F6 at the level of the tables: the schema's duration pattern (one number, one unit)
    against Go's duration syntax (time.ParseDuration: several units, fractions) *)
Definition fixed_F6 : bool := false.

Definition guard_F6_row (s l : table) (r : row) : bool :=
  negb fixed_F6 &&
  match r with
  | ROpt k ty n =>
      match find_mech s k ty, find_mech l k ty with
      | Some a, Some b =>
          match find_opt a n, find_opt b n with
          | Some x, Some y =>
              match o_constr x, o_constr y with
              | CClass cs _ _, CClass cl _ _ =>
                  String.eqb cs "duration_single_unit" && String.eqb cl "go_duration" && req_agree (o_req x) (o_req y)
              | _, _ => false
              end
          | _, _ => false
          end
      | _, _ => false
      end
  | _ => false
  end.

(** the finite statement checked over the regenerated tables *)
Definition tables_ok (fa fb : bool) (s l : table) : bool :=
  forallb (fun r => guard_F1 fa fb r || guard_F6_row s l r || row_agrees s l r) (all_rows s l).

(** every recorded row is a row of the tables on which they disagree (no stale guard) *)
Definition recorded_all_disagree (known : list row) (s l : table) : bool :=
  forallb (fun r => existsb (row_eqb r) (disagreements s l)) known.

(* ------------------------------------------------------------------ acceptance prediction *)

(** one probe of the replay stream: a mechanism definition with some options
    set to rendered values, on top of a base configuration that both sides
    accept (checked by a control probe) *)
Record probe := {
  p_kind : string; p_type : string;
  p_config : bool;                       (* the definition has a config object *)
  p_opts : list (string * string);       (* options set on top of the base, with their values *)
  p_missing : list string }.             (* options of the base left out *)

(** decimal text of an integer *)
Fixpoint digits_to_N (acc : N) (s : string) : option N :=
  match s with
  | EmptyString => Some acc
  | String c r =>
      let n := N_of_ascii c in
      if ((48 <=? n) && (n <=? 57))%N then digits_to_N (acc * 10 + (n - 48))%N r else None
  end.

Definition z_of_text (s : string) : option Z :=
  match s with
  | EmptyString => None
  | String "-" r => match r with EmptyString => None | _ => option_map (fun n => (- Z.of_N n)%Z) (digits_to_N 0%N r) end
  | _ => option_map Z.of_N (digits_to_N 0%N s)
  end.

Definition value_ok (c : constr) (v : string) : bool :=
  match c with
  | CAny => true
  | CEnum vals => existsb (String.eqb v) vals
  | CRange lo hi => match z_of_text v with Some z => (lo <=? z)%Z && (z <=? hi)%Z | None => false end
  | CClass _ acc rej => existsb (String.eqb v) acc || negb (existsb (String.eqb v) rej)
  end.

Definition accepts (t : table) (p : probe) : bool :=
  match find_mech t (p_kind p) (p_type p) with
  | None => false
  | Some m =>
      (p_config p || negb (m_cfg_req m)) &&
      forallb (fun n => match find_opt m n with
                        | Some o => match o_req o with RYes => false | _ => true end
                        | None => true
                        end) (p_missing p) &&
      forallb (fun nv => match find_opt m (fst nv) with
                         | Some o => value_ok (o_constr o) (snd nv)
                         | None => false
                         end) (p_opts p)
  end.

Definition probe_rows (p : probe) : list row :=
  RType (p_kind p) (p_type p) ::
  (if p_config p then [] else [RCfg (p_kind p) (p_type p)]) ++
  map (fun nv => ROpt (p_kind p) (p_type p) (fst nv)) (p_opts p) ++
  map (fun n => ROpt (p_kind p) (p_type p) n) (p_missing p).

Definition probe_guard (fa fb : bool) (p : probe) : bool := existsb (guard_F1 fa fb) (probe_rows p).

Definition probe_guard_F6 (s l : table) (p : probe) : bool := existsb (guard_F6_row s l) (probe_rows p).

(* short constructors for the generated file *)
Definition mk_opt n r c := {| o_name := n; o_req := r; o_constr := c |}.
Definition mk_mech k t h r o := {| m_kind := k; m_type := t; m_has_config := h; m_cfg_req := r; m_opts := o |}.

(* ------------------------------------------------------------------ agreement that decides acceptance *)

(** requiredness as far as acceptance is concerned: "yes" against anything else matters *)
Definition req_acc (a b : req) : bool :=
  match a, b with
  | RYes, RYes => true
  | RYes, _ | _, RYes => false
  | _, _ => true
  end.

(** row agreement without wildcards *)
Definition strict_row (s l : table) (r : row) : bool :=
  match r with
  | RType k ty =>
      match find_mech s k ty, find_mech l k ty with
      | Some a, Some b => Bool.eqb (m_cfg_req a) (m_cfg_req b)
      | _, _ => false
      end
  | RCfg _ _ => true
  | ROpt k ty n =>
      match find_mech s k ty, find_mech l k ty with
      | Some a, Some b =>
          match find_opt a n, find_opt b n with
          | Some x, Some y => constr_eqb (o_constr x) (o_constr y) && req_acc (o_req x) (o_req y)
          | _, _ => false
          end
      | _, _ => true
      end
  end.

Definition strict_ok (s l : table) : bool := forallb (strict_row s l) (all_rows s l).

(** the tables without the value classes (the syntax of duration values, where
    schema and loader are known to differ: C20-F6); the identity once that is repaired *)
Definition erase_constr (c : constr) : constr := match c with CClass _ _ _ => CAny | _ => c end.

Definition erase_classes (t : table) : table :=
  if fixed_F6 then t else
  map (fun m => {| m_kind := m_kind m; m_type := m_type m; m_has_config := m_has_config m; m_cfg_req := m_cfg_req m;
                   m_opts := map (fun o => {| o_name := o_name o; o_req := o_req o; o_constr := erase_constr (o_constr o) |})
                                 (m_opts m) |}) t.

(** the rows about pipeline mechanisms (the other rows, kind "section", compare only names of the
    non-mechanism sections with the koanf tags of the Configuration struct) *)
Definition mech_only (t : table) : table := filter (fun m => negb (String.eqb (m_kind m) "section")) t.
