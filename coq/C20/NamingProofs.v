(** C20 — the documented naming rules: a configuration path given as the
    variable [prefix ++ SEG1_SEG2_...] (segments upper-cased, a literal
    underscore written "__") is read back by koanfFromEnv's key normalisation as
    exactly that path. *)
From HV Require Import Base.Prelude C20.Model C20.Spec.
Local Open Scope string_scope.

(* ------------------------------------------------------------------ the naming rule *)

Definition is_lower (c : ascii) : bool :=
  let n := nat_of_ascii c in (97 <=? n)%nat && (n <=? 122)%nat.

Definition upper_ascii (c : ascii) : ascii :=
  if is_lower c then ascii_of_nat (nat_of_ascii c - 32) else c.

(** characters of a key segment besides the underscore: lower-case letters and digits *)
Definition plain (c : ascii) : bool := is_lower c || is_digit c.

(** one segment as it is written in a variable name *)
Fixpoint enc_seg (s : string) : string :=
  match s with
  | EmptyString => EmptyString
  | String c r => if Ascii.eqb c "_" then String "_" (String "_" (enc_seg r))
                  else String (upper_ascii c) (enc_seg r)
  end.

Fixpoint join (sep : string) (l : list string) : string :=
  match l with
  | [] => EmptyString
  | [s] => s
  | s :: r => s ++ sep ++ join sep r
  end.

Definition env_name (pfx : string) (segs : list string) : string := pfx ++ join "_" (map enc_seg segs).

Fixpoint seg_chars_ok (s : string) : bool :=
  match s with
  | EmptyString => true
  | String c r => (plain c || Ascii.eqb c "_") && seg_chars_ok r
  end.

(** a key segment: not empty, starts with a letter or digit, then letters, digits, underscores *)
Definition valid_seg (s : string) : bool :=
  match s with
  | EmptyString => false
  | String c r => plain c && seg_chars_ok r
  end.

(* ------------------------------------------------------------------ tokens *)

Inductive tok := T (c : ascii) | U | B.

Fixpoint toks_seg (s : string) : list tok :=
  match s with
  | EmptyString => []
  | String c r => (if Ascii.eqb c "_" then U else T c) :: toks_seg r
  end.

Fixpoint toks (segs : list string) : list tok :=
  match segs with
  | [] => []
  | [s] => toks_seg s
  | s :: r => toks_seg s ++ B :: toks r
  end.

Fixpoint ser0 (l : list tok) : string :=
  match l with
  | [] => EmptyString
  | T c :: r => String c (ser0 r)
  | U :: r => String "_" (String "_" (ser0 r))
  | B :: r => String "_" (ser0 r)
  end.

Fixpoint ser1 (l : list tok) : string :=
  match l with
  | [] => EmptyString
  | T c :: r => String c (ser1 r)
  | U :: r => esc_marker ++ ser1 r
  | B :: r => String "_" (ser1 r)
  end.

Fixpoint ser2 (l : list tok) : string :=
  match l with
  | [] => EmptyString
  | T c :: r => String c (ser2 r)
  | U :: r => esc_marker ++ ser2 r
  | B :: r => String "." (ser2 r)
  end.

Fixpoint ser3 (l : list tok) : string :=
  match l with
  | [] => EmptyString
  | T c :: r => String c (ser3 r)
  | U :: r => String "_" (ser3 r)
  | B :: r => String "." (ser3 r)
  end.

(** plain characters only, and a boundary is followed by a plain character *)
Fixpoint tok_ok (l : list tok) : Prop :=
  match l with
  | [] => True
  | T c :: r => plain c = true /\ tok_ok r
  | U :: r => tok_ok r
  | B :: r => (match r with T _ :: _ => True | _ => False end) /\ tok_ok r
  end.

Lemma plain_facts c : plain c = true ->
  c <> "_"%char /\ c <> "."%char /\ c <> "\"%char /\ lower_ascii c = c /\ lower_ascii (upper_ascii c) = c.
Proof.
  destruct c as [[] [] [] [] [] [] [] []]; vm_compute; intro H; try discriminate H;
    repeat split; try discriminate; reflexivity.
Qed.

Lemma ascii_dec_neq {A} (a b : ascii) (x y : A) : a <> b -> (if ascii_dec a b then x else y) = y.
Proof. intro H. destruct (ascii_dec a b); [contradiction | reflexivity]. Qed.

Lemma ascii_dec_refl {A} (a : ascii) (x y : A) : (if ascii_dec a a then x else y) = x.
Proof. destruct (ascii_dec a a); [reflexivity | congruence]. Qed.

(* ------------------------------------------------------------------ the three replacements *)

Lemma prefix_empty x : prefix "" x = true.
Proof. destruct x; reflexivity. Qed.

Lemma prefix_cons_neq a p c x : a <> c -> prefix (String a p) (String c x) = false.
Proof. intro N. simpl. apply ascii_dec_neq. assumption. Qed.

Lemma prefix_cons_eq a p x : prefix (String a p) (String a x) = prefix p x.
Proof. simpl. apply ascii_dec_refl. Qed.

Lemma replace_go_match old new c r :
  prefix old (String c r) = true ->
  replace_go old new 0 (String c r) = new ++ replace_go old new (String.length old - 1) r.
Proof. intro H. cbn [replace_go]. rewrite H. reflexivity. Qed.

Lemma replace_go_nomatch old new c r :
  prefix old (String c r) = false ->
  replace_go old new 0 (String c r) = String c (replace_go old new 0 r).
Proof. intro H. cbn [replace_go]. rewrite H. reflexivity. Qed.

Lemma replace_go_skip old new k c r : replace_go old new (S k) (String c r) = replace_go old new k r.
Proof. reflexivity. Qed.

Lemma stage01 : forall l, tok_ok l -> replace_go "__" esc_marker 0 (ser0 l) = ser1 l.
Proof.
  induction l as [|[c| |] r IH]; intro H; simpl in H.
  - reflexivity.
  - destruct H as [Hc Hr]. destruct (plain_facts c Hc) as (N1 & _).
    change (ser0 (T c :: r)) with (String c (ser0 r)).
    rewrite replace_go_nomatch by (apply prefix_cons_neq; congruence).
    rewrite IH by assumption. reflexivity.
  - change (ser0 (U :: r)) with (String "_" (String "_" (ser0 r))).
    rewrite replace_go_match by (rewrite !prefix_cons_eq; apply prefix_empty).
    change (String.length "__" - 1) with 1. rewrite replace_go_skip. rewrite IH by assumption. reflexivity.
  - destruct H as [Hn Hr]. destruct r as [|[c| |] r']; try contradiction.
    simpl in Hr. destruct Hr as [Hc Hr']. destruct (plain_facts c Hc) as (N1 & _).
    change (ser0 (B :: T c :: r')) with (String "_" (ser0 (T c :: r'))).
    rewrite replace_go_nomatch.
    + rewrite (IH (conj Hc Hr')). reflexivity.
    + change (ser0 (T c :: r')) with (String c (ser0 r')).
      rewrite prefix_cons_eq. apply prefix_cons_neq. congruence.
Qed.

Fixpoint smap (f : ascii -> ascii) (s : string) : string :=
  match s with
  | EmptyString => EmptyString
  | String c r => String (f c) (smap f r)
  end.

Lemma replace_underscore s :
  replace_go "_" "." 0 s = smap (fun c => if Ascii.eqb c "_" then "."%char else c) s.
Proof.
  induction s as [|c r IH]; [reflexivity|].
  destruct (Ascii.eqb c "_") eqn:E.
  - apply Ascii.eqb_eq in E. subst c.
    rewrite replace_go_match by (rewrite prefix_cons_eq; apply prefix_empty).
    change (String.length "_" - 1) with 0. rewrite IH. simpl. reflexivity.
  - assert (N : "_"%char <> c) by (intro; subst; discriminate).
    rewrite replace_go_nomatch by (apply prefix_cons_neq; assumption).
    rewrite IH. simpl. rewrite E. reflexivity.
Qed.

Lemma stage12 : forall l, tok_ok l ->
  smap (fun c => if Ascii.eqb c "_" then "."%char else c) (ser1 l) = ser2 l.
Proof.
  induction l as [|[c| |] r IH]; intro H; simpl in H.
  - reflexivity.
  - destruct H as [Hc Hr]. destruct (plain_facts c Hc) as (N1 & _).
    simpl. rewrite IH by assumption.
    destruct (Ascii.eqb c "_") eqn:E; [apply Ascii.eqb_eq in E; congruence | reflexivity].
  - simpl. rewrite IH by assumption. reflexivity.
  - destruct H as [_ Hr]. simpl. rewrite IH by assumption. reflexivity.
Qed.

Lemma stage23 : forall l, tok_ok l -> replace_go esc_marker "_" 0 (ser2 l) = ser3 l.
Proof.
  induction l as [|[c| |] r IH]; intro H; simpl in H.
  - reflexivity.
  - destruct H as [Hc Hr]. destruct (plain_facts c Hc) as (_ & _ & N3 & _).
    change (ser2 (T c :: r)) with (String c (ser2 r)).
    rewrite replace_go_nomatch by (unfold esc_marker; apply prefix_cons_neq; congruence).
    rewrite IH by assumption. reflexivity.
  - change (ser2 (U :: r)) with (String "\" (String ":" (String "\" (ser2 r)))).
    rewrite replace_go_match by (unfold esc_marker; rewrite !prefix_cons_eq; apply prefix_empty).
    change (String.length esc_marker - 1) with 2. rewrite !replace_go_skip. rewrite IH by assumption. reflexivity.
  - destruct H as [_ Hr].
    change (ser2 (B :: r)) with (String "." (ser2 r)).
    rewrite replace_go_nomatch by (unfold esc_marker; apply prefix_cons_neq; discriminate).
    rewrite IH by assumption. reflexivity.
Qed.

(* ------------------------------------------------------------------ names and tokens *)

Lemma to_lower_app a b : to_lower (a ++ b) = to_lower a ++ to_lower b.
Proof. induction a as [|c r IH]; simpl; [reflexivity | rewrite IH; reflexivity]. Qed.

Lemma ser0_app a b : ser0 (a ++ b) = ser0 a ++ ser0 b.
Proof. induction a as [|[c| |] r IH]; simpl; rewrite ?IH; reflexivity. Qed.

Lemma ser3_app a b : ser3 (a ++ b) = ser3 a ++ ser3 b.
Proof. induction a as [|[c| |] r IH]; simpl; rewrite ?IH; reflexivity. Qed.

Lemma lower_enc_seg s : seg_chars_ok s = true -> to_lower (enc_seg s) = ser0 (toks_seg s).
Proof.
  induction s as [|c r IH]; simpl; intro H; [reflexivity|].
  apply andb_true_iff in H as [Hc Hr]. destruct (Ascii.eqb c "_") eqn:E; simpl.
  - rewrite IH by assumption. reflexivity.
  - rewrite orb_false_r in Hc. destruct (plain_facts c Hc) as (_ & _ & _ & _ & L).
    rewrite L, IH by assumption. reflexivity.
Qed.

Lemma ser3_toks_seg s : seg_chars_ok s = true -> ser3 (toks_seg s) = s.
Proof.
  induction s as [|c r IH]; simpl; intro H; [reflexivity|].
  apply andb_true_iff in H as [Hc Hr]. destruct (Ascii.eqb c "_") eqn:E; simpl; rewrite IH by assumption.
  - apply Ascii.eqb_eq in E. subst. reflexivity.
  - reflexivity.
Qed.

Lemma valid_seg_chars s : valid_seg s = true -> seg_chars_ok s = true.
Proof.
  destruct s as [|c r]; simpl; [discriminate|]. intro H. apply andb_true_iff in H as [A B0].
  rewrite A, B0. reflexivity.
Qed.

Lemma tok_ok_seg s : seg_chars_ok s = true -> forall rest, tok_ok rest -> tok_ok (toks_seg s ++ rest).
Proof.
  induction s as [|c r IH]; simpl; intros H rest Hr; [assumption|].
  apply andb_true_iff in H as [Hc Hs]. destruct (Ascii.eqb c "_") eqn:E; simpl.
  - apply IH; assumption.
  - rewrite orb_false_r in Hc. split; [assumption | apply IH; assumption].
Qed.

Lemma toks_seg_head s : valid_seg s = true -> exists c r, toks_seg s = T c :: r.
Proof.
  destruct s as [|c r]; simpl; [discriminate|]. intro H. apply andb_true_iff in H as [A _].
  destruct (plain_facts c A) as (N & _).
  destruct (Ascii.eqb c "_") eqn:E; [apply Ascii.eqb_eq in E; congruence | eauto].
Qed.

Lemma tok_ok_toks segs : forallb valid_seg segs = true -> tok_ok (toks segs).
Proof.
  induction segs as [|s r IH]; simpl; intro H; [exact I|].
  apply andb_true_iff in H as [Hs Hr]. destruct r as [|s2 r'].
  - rewrite <- (app_nil_r (toks_seg s)). apply tok_ok_seg; [apply valid_seg_chars; assumption | exact I].
  - apply tok_ok_seg; [apply valid_seg_chars; assumption|].
    simpl tok_ok. split; [|apply IH; assumption].
    simpl in Hr. apply andb_true_iff in Hr as [Hs2 _].
    destruct (toks_seg_head s2 Hs2) as (c & t & E).
    destruct r'; simpl; rewrite E; exact I.
Qed.

Lemma join_cons2 sep a b r : join sep (a :: b :: r) = a ++ sep ++ join sep (b :: r).
Proof. reflexivity. Qed.

Lemma toks_cons2 a b r : toks (a :: b :: r) = (toks_seg a ++ B :: toks (b :: r))%list.
Proof. reflexivity. Qed.

Lemma lower_join segs : forallb valid_seg segs = true ->
  to_lower (join "_" (map enc_seg segs)) = ser0 (toks segs).
Proof.
  induction segs as [|s r IH]; intro H; [reflexivity|].
  change (forallb valid_seg (s :: r)) with (valid_seg s && forallb valid_seg r) in H.
  apply andb_true_iff in H as [Hs Hr]. destruct r as [|s2 r'].
  - apply lower_enc_seg. apply valid_seg_chars. assumption.
  - change (map enc_seg (s :: s2 :: r')) with (enc_seg s :: enc_seg s2 :: map enc_seg r').
    rewrite join_cons2, toks_cons2.
    rewrite !to_lower_app, ser0_app. rewrite lower_enc_seg by (apply valid_seg_chars; assumption).
    change (ser0 (B :: toks (s2 :: r'))) with (String "_" (ser0 (toks (s2 :: r')))).
    rewrite <- (IH Hr). reflexivity.
Qed.

Lemma ser3_toks segs : forallb valid_seg segs = true -> ser3 (toks segs) = join "." segs.
Proof.
  induction segs as [|s r IH]; intro H; [reflexivity|].
  change (forallb valid_seg (s :: r)) with (valid_seg s && forallb valid_seg r) in H.
  apply andb_true_iff in H as [Hs Hr]. destruct r as [|s2 r'].
  - apply ser3_toks_seg. apply valid_seg_chars. assumption.
  - rewrite join_cons2, toks_cons2.
    rewrite ser3_app, ser3_toks_seg by (apply valid_seg_chars; assumption).
    change (ser3 (B :: toks (s2 :: r'))) with (String "." (ser3 (toks (s2 :: r')))).
    rewrite (IH Hr). reflexivity.
Qed.

Lemma prefix_app p x : prefix p (p ++ x) = true.
Proof.
  induction p as [|c r IH]; [apply prefix_empty|].
  change (String c r ++ x) with (String c (r ++ x)). rewrite prefix_cons_eq. assumption.
Qed.

Lemma drop_str_app p x : drop_str (String.length p) (p ++ x) = x.
Proof. induction p as [|c r IH]; simpl; [destruct x; reflexivity | assumption]. Qed.

(** the documented naming rule is read back as the path it names *)
Theorem normalise_env_name pfx segs :
  forallb valid_seg segs = true -> normalise_key pfx (env_name pfx segs) = join "." segs.
Proof.
  intro H. unfold normalise_key, env_name, trim_prefix, replace_all.
  rewrite prefix_app, drop_str_app, (lower_join segs H).
  assert (Hok := tok_ok_toks segs H).
  rewrite (stage01 _ Hok), replace_underscore, (stage12 _ Hok), (stage23 _ Hok).
  apply ser3_toks. assumption.
Qed.

(* ------------------------------------------------------------------ and split again *)

Fixpoint no_dot (s : string) : bool :=
  match s with
  | EmptyString => true
  | String c r => negb (Ascii.eqb c ".") && no_dot r
  end.

Lemma seg_chars_no_dot s : seg_chars_ok s = true -> no_dot s = true.
Proof.
  induction s as [|c r IH]; simpl; intro H; [reflexivity|].
  apply andb_true_iff in H as [Hc Hr]. rewrite (IH Hr), andb_true_r.
  apply orb_true_iff in Hc as [Hc|Hc].
  - destruct (plain_facts c Hc) as (_ & N & _).
    destruct (Ascii.eqb c ".") eqn:E; [apply Ascii.eqb_eq in E; congruence | reflexivity].
  - apply Ascii.eqb_eq in Hc. subst. reflexivity.
Qed.

Lemma sapp_nil_r s : s ++ "" = s.
Proof. induction s as [|a t IH]; simpl; [reflexivity | rewrite IH; reflexivity]. Qed.

Lemma sapp_snoc cur c r : (cur ++ String c "") ++ r = cur ++ String c r.
Proof. induction cur as [|a t IH]; simpl; [reflexivity | rewrite IH; reflexivity]. Qed.

Lemma split_dot_aux_seg s : no_dot s = true -> forall cur rest,
  split_dot_aux cur (s ++ rest) = split_dot_aux (cur ++ s) rest.
Proof.
  induction s as [|c r IH]; intros H cur rest.
  - rewrite sapp_nil_r. reflexivity.
  - simpl in H. apply andb_true_iff in H as [Hc Hr]. apply negb_true_iff in Hc.
    change (String c r ++ rest) with (String c (r ++ rest)).
    cbn [split_dot_aux]. rewrite Hc. rewrite (IH Hr). rewrite sapp_snoc. reflexivity.
Qed.

Theorem split_join segs : segs <> [] -> forallb valid_seg segs = true -> split_dot (join "." segs) = segs.
Proof.
  intros N H. unfold split_dot.
  assert (G : forall cur,
              split_dot_aux cur (join "." segs) =
              match segs with [] => [cur] | s :: r => (cur ++ s) :: r end).
  { clear N. induction segs as [|s r IH]; intros cur; [reflexivity|].
    change (forallb valid_seg (s :: r)) with (valid_seg s && forallb valid_seg r) in H.
    apply andb_true_iff in H as [Hs Hr].
    assert (Hd : no_dot s = true) by (apply seg_chars_no_dot, valid_seg_chars; assumption).
    destruct r as [|s2 r'].
    - change (join "." [s]) with s. rewrite <- (sapp_nil_r s) at 1.
      rewrite (split_dot_aux_seg s Hd). reflexivity.
    - rewrite join_cons2. rewrite (split_dot_aux_seg s Hd).
      change ("." ++ join "." (s2 :: r')) with (String "." (join "." (s2 :: r'))).
      cbn [split_dot_aux]. change (Ascii.eqb "." ".") with true. cbv iota.
      rewrite (IH Hr EmptyString). reflexivity. }
  destruct segs as [|s r]; [congruence|]. rewrite (G EmptyString). reflexivity.
Qed.

(** together: the variable written by the naming rule is read as the path of its segments *)
Corollary env_name_path pfx segs :
  segs <> [] -> forallb valid_seg segs = true ->
  parse_path (normalise_key pfx (env_name pfx segs)) = psegs segs.
Proof.
  intros N H. unfold parse_path. rewrite (normalise_env_name pfx segs H), (split_join segs N H). reflexivity.
Qed.

Lemma env_name_read_back pfx segs :
  segs <> [] -> forallb valid_seg segs = true ->
  normalise_key pfx (env_name pfx segs) = join "." segs /\
  parse_path (normalise_key pfx (env_name pfx segs)) = psegs segs.
Proof. intros N H. split; [apply normalise_env_name | apply env_name_path]; assumption. Qed.
