(** C20 — model of heimdall's configuration loader
    (internal/config/parser: env.go, merge.go, configloader.go, with the parts of
    knadh/koanf they rely on: env.Provider.Read, maps.Unflatten, Koanf.Load with
    a merge function).

    Faithful to the code as it is.  Go panics are explicit.

    Go's map iteration order is not defined.  Maps are association lists here
    and every [range] over a Go map goes through [sh site l], an arbitrary
    re-ordering of the list (a Section variable; the theorems assume nothing
    about it but [Permutation (sh site l) l], the evaluator instantiates it
    with identity/reversal per site).  Sites:
      0  maps.Unflatten           for k, v := range m
      1  the merge functions of koanfFromEnv and of Load    for key, val := range src
      2  cleanSuffix              for k, v := range t
      3  mergeMaps                for k, v := range maps.Unflatten(src, ".")

    Two booleans select the candidate repairs fixes/C20-F3.diff ([fix3]:
    cleanSuffix merges entries that receive the same name instead of
    overwriting) and fixes/C20-F4.diff ([fix4]: convert nests a dotted key below a
    list index instead of leaving it flat); [false false] is the tree as it is.

    Map keys are kept structured: a Go key "a.b#<hash>" is ([a;b], Some tag),
    where the tag is the pre-image of the sha256 chain: the normalised variable
    name and the value text.  Segments themselves never contain '.' or '#'
    (input domain, see docs/notes/C20.md). *)
From HV Require Import Base.Prelude.

(* ------------------------------------------------------------------ strings *)

Definition is_upper (c : ascii) : bool :=
  let n := nat_of_ascii c in (65 <=? n) && (n <=? 90).

Definition lower_ascii (c : ascii) : ascii :=
  if is_upper c then ascii_of_nat (nat_of_ascii c + 32) else c.

(** strings.ToLower on ASCII names *)
Fixpoint to_lower (s : string) : string :=
  match s with
  | EmptyString => EmptyString
  | String c r => String (lower_ascii c) (to_lower r)
  end.

Fixpoint drop_str (n : nat) (s : string) : string :=
  match n, s with
  | O, _ => s
  | S k, String _ r => drop_str k r
  | S _, EmptyString => EmptyString
  end.

(** strings.TrimPrefix *)
Definition trim_prefix (p s : string) : string :=
  if prefix p s then drop_str (String.length p) s else s.

(** strings.ReplaceAll old new s for non-empty [old]: non-overlapping matches,
    leftmost first.  [skip] counts the characters of a match still to drop. *)
Fixpoint replace_go (old new : string) (skip : nat) (s : string) : string :=
  match s with
  | EmptyString => EmptyString
  | String c r =>
      match skip with
      | S k => replace_go old new k r
      | O => if prefix old s then new ++ replace_go old new (String.length old - 1) r
             else String c (replace_go old new 0 r)
      end
  end.

Definition replace_all (old new s : string) : string := replace_go old new 0 s.

Definition esc_marker : string := String "\" (String ":" (String "\" EmptyString)).

(** the callback of koanfFromEnv up to [convert] *)
Definition normalise_key (pfx name : string) : string :=
  let tmp := replace_all "__" esc_marker (to_lower (trim_prefix pfx name)) in
  let tmp := replace_all "_" "." tmp in
  replace_all esc_marker "_" tmp.

(** strings.Split s "." (never empty: Split "" = [""]) *)
Fixpoint split_dot_aux (cur : string) (s : string) : list string :=
  match s with
  | EmptyString => [cur]
  | String c r => if Ascii.eqb c "." then cur :: split_dot_aux EmptyString r
                  else split_dot_aux (cur ++ String c EmptyString) r
  end.

Definition split_dot (s : string) : list string := split_dot_aux EmptyString s.

Definition is_digit (c : ascii) : bool :=
  let n := nat_of_ascii c in (48 <=? n) && (n <=? 57).

Fixpoint all_digits (s : string) : bool :=
  match s with
  | EmptyString => true
  | String c r => is_digit c && all_digits r
  end.

(** isNumRegex = ^\d+$ *)
Definition is_num (s : string) : bool :=
  match s with EmptyString => false | _ => all_digits s end.

Fixpoint atoi_aux (acc : N) (s : string) : N :=
  match s with
  | EmptyString => acc
  | String c r => atoi_aux (acc * 10 + (N_of_ascii c - 48))%N r
  end.

Definition atoi (s : string) : N := atoi_aux 0%N s.

(* ------------------------------------------------------------------ trees *)

(** pre-image of messageDigest(val, ... messageDigest(val, normalisedKey)) *)
Definition tag := (string * string)%type.

Definition tag_eqb (a b : tag) : bool :=
  String.eqb (fst a) (fst b) && String.eqb (snd a) (snd b).

(** a map key: its '.'-separated segments and the "#<hash>" suffix *)
Definition key := (list string * option tag)%type.

Definition K (s : string) : key := ([s], None).

Inductive cfg :=
| Nil                                   (* Go nil *)
| Leaf (v : string)                     (* a scalar; the payload is the typed value, rendered *)
| Map (m : list (key * cfg))            (* map[string]any *)
| Lst (l : list cfg).                   (* []any *)

Inductive res (A : Type) := Ok (a : A) | Panic.
Arguments Ok {A} a. Arguments Panic {A}.

Definition segs_eqb (a b : list string) : bool := list_eqb String.eqb a b.

Definition key_eqb (a b : key) : bool :=
  segs_eqb (fst a) (fst b) && option_eqb tag_eqb (snd a) (snd b).

Fixpoint lookup (k : key) (m : list (key * cfg)) : option cfg :=
  match m with
  | [] => None
  | (k', v) :: r => if key_eqb k k' then Some v else lookup k r
  end.

Definition get (k : key) (m : list (key * cfg)) : cfg :=
  match lookup k m with Some v => v | None => Nil end.

Definition mem (k : key) (m : list (key * cfg)) : bool :=
  match lookup k m with Some _ => true | None => false end.

(** m[k] = v : in place when the key exists, appended otherwise *)
Fixpoint set (k : key) (v : cfg) (m : list (key * cfg)) : list (key * cfg) :=
  match m with
  | [] => [(k, v)]
  | (k', v') :: r => if key_eqb k k' then (k, v) :: r else (k', v') :: set k v r
  end.

(** strings.Split(key, "#")[0] *)
Definition strip (k : key) : key := (fst k, None).

(** maps.Unflatten: one key.  Intermediate segments descend into (or create)
    maps; a non-map found on the way leaves the cursor where it is. *)
Fixpoint insert_path (m : list (key * cfg)) (segs : list string) (tg : option tag) (v : cfg)
  {struct segs} : list (key * cfg) :=
  match segs with
  | [] => m
  | [s] => set ([s], tg) v m
  | s :: rest =>
      match lookup (K s) m with
      | None => set (K s) (Map (insert_path [] rest tg v)) m
      | Some (Map sub) => set (K s) (Map (insert_path sub rest tg v)) m
      | Some _ => insert_path m rest tg v
      end
  end.

Definition ins_kv (out : list (key * cfg)) (kv : key * cfg) : list (key * cfg) :=
  insert_path out (fst (fst kv)) (snd (fst kv)) (snd kv).

Section Order.
  (** the iteration order of Go maps, per site *)
  Variable sh : nat -> list (key * cfg) -> list (key * cfg).

  Definition unflatten (m : list (key * cfg)) : list (key * cfg) :=
    fold_left ins_kv (sh 0 m) [].

  Definition set_kv (acc : list (key * cfg)) (kv : key * cfg) : list (key * cfg) :=
    set (fst kv) (snd kv) acc.

  (** cleanSuffix as it is: keys lose their suffix; entries that thereby get the
      same name overwrite each other (the last one iterated wins); slices are
      returned untouched *)
  Fixpoint clean_asis (src : cfg) : cfg :=
    match src with
    | Map m =>
        Map (fold_left set_kv
               (sh 2 ((fix go (m : list (key * cfg)) : list (key * cfg) :=
                         match m with
                         | [] => []
                         | (k, v) :: r => (strip k, clean_asis v) :: go r
                         end) m)) [])
    | _ => src
    end.

  (** the loops of mergeMaps / mergeSlices over an arbitrary [rec] for the
      recursive call of merge on two non-nil values *)
  Section Loops.
    Variable rec : cfg -> cfg -> res cfg.

    Definition merge_entry (old : cfg) (nv : option cfg) : res cfg :=
      match nv with
      | None => Ok old
      | Some v => match old with Nil => Ok v | _ => rec old v end
      end.

    Fixpoint upd_map (usm dm : list (key * cfg)) : res (list (key * cfg)) :=
      match dm with
      | [] => Ok []
      | (k, old) :: r =>
          match merge_entry old (lookup k usm), upd_map usm r with
          | Ok x, Ok r' => Ok ((k, x) :: r')
          | _, _ => Panic
          end
      end.

    Fixpoint zip_lst (dl sl : list cfg) : res (list cfg) :=
      match dl, sl with
      | [], _ => Ok sl
      | _, [] => Ok dl
      | a :: dr, v :: sr =>
          match (match a with
                 | Nil => Ok v
                 | _ => match v with Nil => Ok a | _ => rec a v end
                 end), zip_lst dr sr with
          | Ok x, Ok r => Ok (x :: r)
          | _, _ => Panic
          end
      end.
  End Loops.

  Section Merge.
    (** what [merge] does with [src] when [dest] is nil *)
    Variable cl : cfg -> res cfg.

    (** merge.go: merge / mergeMaps / mergeSlices.  Structurally recursive on
        [dest]: mergeMaps visits every key of Unflatten(src) once, so the loop is
        written per key of [dest] followed by the keys that are new. *)
    Fixpoint merge_with (dest src : cfg) {struct dest} : res cfg :=
      match dest with
      | Nil => cl src
      | Leaf _ => Ok src
      | Map dm =>
          match src with
          | Map sm =>
              let usm := unflatten sm in
              match upd_map (fun o v => merge_with o v) usm dm with
              | Ok dm' => Ok (Map (dm' ++ filter (fun kv => negb (mem (fst kv) dm)) (sh 3 usm)))
              | Panic => Panic
              end
          | _ => Panic          (* "Cannot merge ... Types are different" / reflect on nil *)
          end
      | Lst dl =>
          match src with
          | Lst sl =>
              match zip_lst (fun a v => merge_with a v) dl sl with
              | Ok l => Ok (Lst l)
              | Panic => Panic
              end
          | _ => Panic
          end
      end.
  End Merge.

  Definition merge0 : cfg -> cfg -> res cfg := merge_with (fun s => Ok (clean_asis s)).

  (** cleanSuffix after fixes/C20-F3.diff: result[name] = merge(result[name], cleanSuffix(v)).
      The inner merge only meets already cleaned values, on which the repaired and
      the original cleanSuffix coincide; it is therefore [merge0]. *)
  Fixpoint clean_fixed (src : cfg) : res cfg :=
    match src with
    | Map m =>
        match (fix go (m : list (key * cfg)) : res (list (key * cfg)) :=
                 match m with
                 | [] => Ok []
                 | (k, v) :: r =>
                     match clean_fixed v, go r with
                     | Ok cv, Ok r' => Ok ((strip k, cv) :: r')
                     | _, _ => Panic
                     end
                 end) m with
        | Panic => Panic
        | Ok cm =>
            match fold_left (fun acc kv =>
                               match acc with
                               | Panic => Panic
                               | Ok a => match merge0 (get (fst kv) a) (snd kv) with
                                         | Ok nv => Ok (set (fst kv) nv a)
                                         | Panic => Panic
                                         end
                               end) (sh 2 cm) (Ok []) with
            | Ok a => Ok (Map a)
            | Panic => Panic
            end
        end
    | _ => Ok src
    end.

  Definition merge (fix3 : bool) : cfg -> cfg -> res cfg :=
    merge_with (if fix3 then clean_fixed else fun s => Ok (clean_asis s)).

  (* ---------------------------------------------------------------- environment *)

  Definition key_is_empty (k : list string) : bool :=
    match k with
    | [] => true
    | [s] => String.eqb s EmptyString
    | _ => false
    end.

  Fixpoint nest (k : list string) (v : cfg) : cfg :=
    match k with
    | [] => v
    | [s] => Map [(K s, v)]
    | s :: r => Map [(K s, nest r v)]
    end.

  (** a numeric segment above 2^20 is outside the modelled domain (Go would
      allocate the slice or die); the drivers never generate one *)
  Definition max_index : N := 1048576%N.

  (** env.go convert on the split key: the segments before the first numeric one
      are the key, the rest becomes a sparse slice around the converted remainder *)
  Fixpoint convert (fix4 : bool) (parts : list string) (v : cfg) : res (list string * cfg) :=
    match parts with
    | [] => Ok ([], v)
    | p :: rest =>
        match convert fix4 rest v with
        | Panic => Panic
        | Ok (k', v') =>
            if is_num p then
              if (max_index <? atoi p)%N then Panic else
              let elem := if key_is_empty k' then v'
                          else if fix4 then nest k' v' else Map [((k', None), v')] in
              Ok ([], Lst (repeat Nil (N.to_nat (atoi p)) ++ [elem]))
            else Ok (p :: k', v')
        end
    end.

  Definition unsplit (k : list string) : list string :=
    match k with [] => [EmptyString] | _ => k end.

  Section Env.
    Variable to_real : string -> cfg.      (* toRealType: YAML typing of a scalar text (oracle) *)
    Variables fix3 fix4 : bool.
    Variable pfx : string.

    Definition norm_env (env : list (string * string)) : list (string * string) :=
      map (fun nv => (normalise_key pfx (fst nv), snd nv))
          (filter (fun nv => prefix pfx (fst nv)) env).

    (** env.Provider.Read: the Go map keyed by "<newKey>#<hash>" *)
    Fixpoint env_mp (rest : list (string * string)) (mp : list (key * cfg)) : res (list (key * cfg)) :=
      match rest with
      | [] => Ok mp
      | (nk, val) :: r =>
          match convert fix4 (split_dot nk) (to_real val) with
          | Panic => Panic
          | Ok (k, v) => env_mp r (set (unsplit k, Some (nk, val)) v mp)
          end
      end.

    (** the merge function of koanfFromEnv / of Load: dest[name] = merge(dest[name], val) *)
    Definition merge_top (strip_keys : bool) (dest src : list (key * cfg)) : res (list (key * cfg)) :=
      fold_left (fun acc kv =>
                   match acc with
                   | Panic => Panic
                   | Ok dest =>
                       let k := if strip_keys then strip (fst kv) else fst kv in
                       match merge fix3 (get k dest) (snd kv) with
                       | Ok nv => Ok (set k nv dest)
                       | Panic => Panic
                       end
                   end) (sh 1 src) (Ok dest).

    Definition env_tree (env : list (string * string)) : res (list (key * cfg)) :=
      match env_mp (norm_env env) [] with
      | Panic => Panic
      | Ok mp => merge_top true [] (unflatten mp)
      end.

    (** configloader.go Load up to the final decoding: defaults, then the file (if
        any), then the environment *)
    Definition load (d : list (key * cfg)) (f : option (list (key * cfg))) (env : list (string * string))
      : res (list (key * cfg)) :=
      match (match f with None => Ok d | Some fm => merge_top false d fm end) with
      | Panic => Panic
      | Ok p1 =>
          match env_tree env with
          | Panic => Panic
          | Ok e => merge_top false p1 e
          end
      end.
  End Env.
End Order.

(** the orders the evaluator tries: bit [i] of [bits] reverses site [i] *)
Definition sh_bits (bits : list bool) : nat -> list (key * cfg) -> list (key * cfg) :=
  fun site l => if nth site bits false then rev l else l.
