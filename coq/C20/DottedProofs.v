(** C20 — the property's sentences under the NARROWED guard of C20-F4
    ([guard_F4n]), for the code as it is in /repo ([fix3 = true], [fix4 = false]):
    names of the C20-F4 shape (a list index followed by two or more name
    segments, e.g. MECHANISMS_AUTHENTICATORS_0_CONFIG_USER) are inside the
    theorems whenever the list element is a map in defaults or file and no
    other variable shares the element and the first name segment.  The
    theorems under the syntactic guard ([domain true], C20/Proofs.v) are
    instances ([domain_domainN]). *)
From HV Require Import Base.Prelude C20.Model C20.Spec C20.Facts C20.MergeProofs C20.ConvertProofs
  C20.NodeAlg C20.TrieProofs C20.UnflattenProofs C20.EnvProofs C20.LoadProofs C20.LoadFixedProofs
  C20.Proofs C20.ScopeProofs C20.SplitProofs C20.DottedLoad.
From Coq Require Import Permutation.

(** the property's domain for one load of the current code, outside the narrowed shape of C20-F4 *)
Definition domainN (to_real : string -> cfg) (pfx : string) (d f : list (key * cfg))
           (env : list (string * string)) (tenv : list (path * string)) : Prop :=
  typed_env to_real (norm_env pfx env) = Some tenv /\ in_scope d f tenv /\
  guard_F4n d f (norm_env pfx env) = false.

(** the domain of the theorems of C20/Proofs.v (syntactic guard) is inside this one *)
Lemma domain_domainN to_real pfx d f env tenv :
  domain true to_real pfx d f env tenv -> domainN to_real pfx d f env tenv.
Proof. intros (H1 & H2 & _ & H4). unfold domainN. splits; auto. apply guard_F4n_narrower. assumption. Qed.

Lemma existsb_perm {A} (p : A -> bool) l l' : Permutation l l' -> existsb p l = existsb p l'.
Proof.
  intro P. destruct (existsb p l') eqn:E.
  - apply existsb_exists in E as (x & Hx & Px). apply existsb_exists. exists x. split; [|assumption].
    eapply Permutation_in; [apply Permutation_sym; exact P | exact Hx].
  - destruct (existsb p l) eqn:E'; [|reflexivity].
    apply existsb_exists in E' as (x & Hx & Px).
    assert (X : existsb p l' = true) by (apply existsb_exists; exists x; split; [eapply Permutation_in; eauto | assumption]).
    congruence.
Qed.

Lemma existsb_ext_in {A} (p q : A -> bool) l : (forall x, In x l -> p x = q x) -> existsb p l = existsb q l.
Proof.
  induction l as [|x r IH]; intro H; simpl; [reflexivity|].
  rewrite (H x (or_introl eq_refl)), IH; [reflexivity|]. intros y Hy. apply H. right; assumption.
Qed.

Lemma guard_F4n_perm d f ne ne' : Permutation ne ne' -> guard_F4n d f ne = guard_F4n d f ne'.
Proof.
  intro P. unfold guard_F4n. rewrite (existsb_perm _ ne ne' P).
  apply existsb_ext_in. intros a _. apply existsb_ext_in. intros site _. f_equal. apply existsb_perm. assumption.
Qed.

Lemma domainN_perm to_real pfx d f env env' tenv :
  Permutation env env' -> domainN to_real pfx d f env tenv ->
  exists tenv', Permutation tenv tenv' /\ domainN to_real pfx d f env' tenv'.
Proof.
  intros P (H1 & H2 & H3).
  assert (Pn := norm_env_perm pfx env env' P).
  destruct (typed_env_perm to_real _ _ _ H1 Pn) as (tenv' & Ht & Pt).
  exists tenv'. split; [assumption|]. unfold domainN. splits; auto.
  - eapply in_scope_perm; eassumption.
  - rewrite <- (guard_F4n_perm d f _ _ Pn). assumption.
Qed.

(* ------------------------------------------------------------------ the property's sentences *)

Theorem load_meets_spec_n :
  forall sh to_real pfx d f env tenv,
    perm_fun sh -> domainN to_real pfx d f env tenv ->
    exists t, load sh to_real true false pfx d (Some f) env = Ok t /\ Tidy (Map t) /\
              forall p, view p (Map t) = spec_view d f tenv p.
Proof.
  intros sh to_real pfx d f env tenv Hs (H1 & H2 & H3). apply load_meets_spec_F4n; assumption.
Qed.

Theorem env_order_independent_n :
  forall sh sh' to_real pfx d f env env' tenv,
    perm_fun sh -> perm_fun sh' -> Permutation env env' ->
    domainN to_real pfx d f env tenv ->
    exists t t', load sh to_real true false pfx d (Some f) env = Ok t /\
                 load sh' to_real true false pfx d (Some f) env' = Ok t' /\
                 Tidy (Map t) /\ Tidy (Map t') /\
                 forall p, view p (Map t) = view p (Map t').
Proof.
  intros sh sh' to_real pfx d f env env' tenv Hs Hs' P D.
  destruct (domainN_perm _ _ _ _ _ _ _ P D) as (tenv' & Pt & D').
  destruct (load_meets_spec_n sh to_real pfx d f env tenv Hs D) as (t & Ht & Tt & Vt).
  destruct (load_meets_spec_n sh' to_real pfx d f env' tenv' Hs' D') as (t' & Ht' & Tt' & Vt').
  destruct D as (H1 & H2 & H3).
  exists t, t'. splits; auto.
  intro p. rewrite Vt, Vt'. unfold spec_view. f_equal. eapply env_view_perm; eassumption.
Qed.

Theorem env_wins_per_leaf_n :
  forall sh to_real pfx d f env tenv,
    perm_fun sh -> domainN to_real pfx d f env tenv ->
    exists t, load sh to_real true false pfx d (Some f) env = Ok t /\
              forall e, In e tenv -> view (fst e) (Map t) = NLeaf (snd e).
Proof.
  intros sh to_real pfx d f env tenv Hs D.
  destruct (load_meets_spec_n sh to_real pfx d f env tenv Hs D) as (t & Ht & Tt & Vt).
  destruct D as (H1 & H2 & H3).
  exists t. split; [assumption|]. intros e Hin. rewrite Vt. unfold spec_view.
  rewrite (env_view_leaf d f tenv e H2 Hin).
  destruct (njoin (view (fst e) (Map d)) (view (fst e) (Map f))); reflexivity.
Qed.

Theorem defaults_fill_n :
  forall sh to_real pfx d f env tenv,
    perm_fun sh -> domainN to_real pfx d f env tenv ->
    exists t, load sh to_real true false pfx d (Some f) env = Ok t /\
              forall p, env_view tenv p = NNone ->
                        view p (Map t) = njoin (view p (Map d)) (view p (Map f)) /\
                        (view p (Map f) = NNone -> view p (Map t) = view p (Map d)).
Proof.
  intros sh to_real pfx d f env tenv Hs D.
  destruct (load_meets_spec_n sh to_real pfx d f env tenv Hs D) as (t & Ht & Tt & Vt).
  exists t. split; [assumption|]. intros p He. rewrite Vt. unfold spec_view. rewrite He.
  rewrite njoin_none_r. split; [reflexivity|]. intros ->. apply njoin_none_r.
Qed.

Theorem file_env_equivalent_n :
  forall sh sh' to_real pfx d c f env tenv,
    perm_fun sh -> perm_fun sh' ->
    domainN to_real pfx d f env tenv -> domainN to_real pfx d c [] [] ->
    split_of c f tenv ->
    exists t t', load sh to_real true false pfx d (Some f) env = Ok t /\
                 load sh' to_real true false pfx d (Some c) [] = Ok t' /\
                 Tidy (Map t) /\ Tidy (Map t') /\
                 forall p, view p (Map t) = view p (Map t').
Proof.
  intros sh sh' to_real pfx d c f env tenv Hs Hs' D G S.
  destruct (load_meets_spec_n sh to_real pfx d f env tenv Hs D) as (t & Ht & Tt & Vt).
  destruct (load_meets_spec_n sh' to_real pfx d c [] [] Hs' G) as (t' & Ht' & Tt' & Vt').
  destruct D as (H1 & H2 & H3).
  exists t, t'. splits; auto.
  intro p. rewrite Vt, Vt'. unfold spec_view. simpl env_view. rewrite njoin_none_r.
  rewrite <- (S p).
  assert (N := in_scope_nc d f tenv p H2).
  destruct H2 as (_ & _ & _ & C1 & C2 & _).
  assert (PWn : PW nc (NNone :: map (contrib p) tenv)).
  { constructor; [apply Forall_forall; intros; apply nc_none_l | assumption]. }
  apply njoin_assoc_k; [apply C1 | |]; rewrite env_view_jfold by assumption; apply kcompat_jfold;
    try apply kcompat_none_r; try assumption;
    apply Forall_map; (eapply Forall_impl; [|exact C2]); intros e H; destruct (H p); assumption.
Qed.

(** ... for every split of the leaves of a configuration [c] of the domain: the
    selected leaves as variables (any order), the rest in the file.  The guard
    is evaluated on the file that remains: a list element that a variable enters
    with two or more name segments must still be there as a map *)
Theorem file_env_equivalent_splits_n :
  forall sh sh' to_real pfx d c sel env tenv,
    perm_fun sh -> perm_fun sh' ->
    in_scope d c [] ->
    typed_env to_real (norm_env pfx env) = Some tenv ->
    Permutation tenv (sel_leaves sel (Map c)) ->
    guard_F4n d (keep_map sel c) (norm_env pfx env) = false ->
    exists t t', load sh to_real true false pfx d (Some (keep_map sel c)) env = Ok t /\
                 load sh' to_real true false pfx d (Some c) [] = Ok t' /\
                 Tidy (Map t) /\ Tidy (Map t') /\
                 forall p, view p (Map t) = view p (Map t').
Proof.
  intros sh sh' to_real pfx d c sel env tenv Hs Hs' Sc Ht P G4.
  assert (S0 := in_scope_split d c sel Sc).
  assert (S1 : in_scope d (keep_map sel c) tenv).
  { eapply in_scope_perm; [apply Permutation_sym; exact P | exact S0]. }
  apply (file_env_equivalent_n sh sh' to_real pfx d c (keep_map sel c) env tenv Hs Hs').
  - unfold domainN. splits; assumption.
  - unfold domainN. splits; [reflexivity | assumption | reflexivity].
  - intro p. rewrite (env_view_perm d (keep_map sel c) tenv _ p S1 P).
    apply split_of_keep. destruct Sc as (_ & Tc & _). assumption.
Qed.

(* ------------------------------------------------------------------ the hypotheses are satisfiable by a realistic load *)
Local Open Scope string_scope.

(** a file with one authenticator whose [config] is a map; the environment
    sets a nested option of that authenticator (the C20-F4 name shape), another
    key of the same list element, a key of a new list element and a plain leaf *)
Definition exn_f : list (key * cfg) :=
  [(K "mechanisms",
    Map [(K "authenticators",
          Lst [Map [(K "id", Leaf "a1"); (K "type", Leaf "basic_auth");
                    (K "config", Map [(K "user_id", Leaf "u")])]])]);
   (K "log", Map [(K "level", Leaf "info")])].

Definition exn_env : list (string * string) :=
  [("P_MECHANISMS_AUTHENTICATORS_0_CONFIG_PASSWORD", "secret");
   ("P_MECHANISMS_AUTHENTICATORS_0_ID", "a2");
   ("P_MECHANISMS_AUTHENTICATORS_1_TYPE", "anonymous");
   ("P_LOG_LEVEL", "debug")].

Example domainN_nonvacuous :
  exists tenv, domainN (fun s => Leaf s) "P_" [] exn_f exn_env tenv /\ length tenv = 4 /\
               guard_F4 (norm_env "P_" exn_env) = true /\
               In ([SK "mechanisms"; SK "authenticators"; SI 0; SK "config"; SK "password"], "secret") tenv.
Proof.
  eexists. unfold domainN. splits.
  - vm_compute. reflexivity.
  - apply in_scope_b_sound. vm_compute. reflexivity.
  - vm_compute. reflexivity.
  - reflexivity.
  - vm_compute. reflexivity.
  - left. reflexivity.
Qed.

(** ... and the hypotheses of [file_env_equivalent_splits_n] by a split that
    moves a nested option of a list element (the C20-F4 name shape) and a plain
    leaf to the environment; the element and its [config] map stay in the file *)
Definition exn_c : list (key * cfg) :=
  [(K "mechanisms",
    Map [(K "authenticators",
          Lst [Map [(K "id", Leaf "a1"); (K "type", Leaf "basic_auth");
                    (K "config", Map [(K "user_id", Leaf "u"); (K "password", Leaf "secret")])]])]);
   (K "log", Map [(K "level", Leaf "debug")])].

Definition exn_sel (p : path) : bool :=
  path_eqb p [SK "mechanisms"; SK "authenticators"; SI 0; SK "config"; SK "password"] ||
  path_eqb p [SK "log"; SK "level"].

Definition exn_senv : list (string * string) :=
  [("P_MECHANISMS_AUTHENTICATORS_0_CONFIG_PASSWORD", "secret"); ("P_LOG_LEVEL", "debug")].

Example split_example_n :
  exists tenv,
    in_scope [] exn_c [] /\
    typed_env (fun s => Leaf s) (norm_env "P_" exn_senv) = Some tenv /\
    Permutation tenv (sel_leaves exn_sel (Map exn_c)) /\
    guard_F4n [] (keep_map exn_sel exn_c) (norm_env "P_" exn_senv) = false /\
    guard_F4 (norm_env "P_" exn_senv) = true /\ length tenv = 2.
Proof.
  eexists. splits.
  - apply in_scope_b_sound. vm_compute. reflexivity.
  - vm_compute. reflexivity.
  - vm_compute. apply Permutation_refl.
  - vm_compute. reflexivity.
  - vm_compute. reflexivity.
  - reflexivity.
Qed.
