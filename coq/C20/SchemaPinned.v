(** C20 — the schema/loader tables as harness/tools/schema extracted them from the tree on
    which finding C20-F1 was recorded (2026-10-01).  A snapshot, kept by hand: the witnesses
    of the finding are stated about it, so that a repaired tree does not break the build
    (the statement about the *current* tables is Gen/SchemaTablesOk.v). *)
From HV Require Import Base.Prelude C20.SchemaModel.
Local Open Scope string_scope.

Definition pinned_schema_tbl : table := [
  mk_mech "authenticators" "anonymous" true false [mk_opt "subject" RNo CAny];
  mk_mech "authenticators" "basic_auth" true false [mk_opt "allow_fallback_on_error" RNo CAny; mk_opt "password" RYes CAny; mk_opt "user_id" RYes CAny];
  mk_mech "authenticators" "generic" true false [mk_opt "allow_fallback_on_error" RNo CAny; mk_opt "authentication_data_source" RYes CAny; mk_opt "cache_ttl" RNo CAny; mk_opt "forward_cookies" RNo CAny; mk_opt "forward_headers" RNo CAny; mk_opt "identity_info_endpoint" RYes CAny; mk_opt "payload" RNo CAny; mk_opt "session_lifespan" RNo CAny; mk_opt "subject" RYes CAny];
  mk_mech "authenticators" "jwt" true false [mk_opt "allow_fallback_on_error" RNo CAny; mk_opt "assertions" RNo CAny; mk_opt "cache_ttl" RNo CAny; mk_opt "jwks_endpoint" RCond CAny; mk_opt "jwt_source" RNo CAny; mk_opt "metadata_endpoint" RCond CAny; mk_opt "subject" RNo CAny; mk_opt "trust_store" RNo CAny; mk_opt "validate_jwk" RNo CAny];
  mk_mech "authenticators" "oauth2_introspection" true false [mk_opt "allow_fallback_on_error" RNo CAny; mk_opt "assertions" RNo CAny; mk_opt "cache_ttl" RNo CAny; mk_opt "introspection_endpoint" RCond CAny; mk_opt "metadata_endpoint" RCond CAny; mk_opt "subject" RNo CAny; mk_opt "token_source" RNo CAny];
  mk_mech "authenticators" "unauthorized" false false [];
  mk_mech "authorizers" "allow" false false [];
  mk_mech "authorizers" "cel" true false [mk_opt "expressions" RYes CAny];
  mk_mech "authorizers" "deny" false false [];
  mk_mech "authorizers" "remote" true false [mk_opt "cache_ttl" RNo CAny; mk_opt "endpoint" RYes CAny; mk_opt "expressions" RNo CAny; mk_opt "forward_response_headers_to_upstream" RNo CAny; mk_opt "payload" RNo CAny; mk_opt "values" RNo CAny];
  mk_mech "contextualizers" "generic" true true [mk_opt "cache_ttl" RNo CAny; mk_opt "continue_pipeline_on_error" RNo CAny; mk_opt "endpoint" RYes CAny; mk_opt "forward_cookies" RNo CAny; mk_opt "forward_headers" RNo CAny; mk_opt "payload" RNo CAny; mk_opt "values" RNo CAny];
  mk_mech "error_handlers" "default" false false [];
  mk_mech "error_handlers" "redirect" true true [mk_opt "code" RNo (CEnum ["301"; "302"]); mk_opt "to" RYes CAny];
  mk_mech "error_handlers" "www-authenticate" true true [mk_opt "realm" RNo CAny];
  mk_mech "finalizers" "cookie" true true [mk_opt "cookies" RYes CAny];
  mk_mech "finalizers" "header" true true [mk_opt "headers" RYes CAny];
  mk_mech "finalizers" "jwt" true false [mk_opt "claims" RNo CAny; mk_opt "header" RNo CAny; mk_opt "signer" RYes CAny; mk_opt "ttl" RNo CAny];
  mk_mech "finalizers" "noop" false false [];
  mk_mech "finalizers" "oauth2_client_credentials" true true [mk_opt "auth_method" RNo (CEnum ["basic_auth"; "request_body"]); mk_opt "cache_ttl" RNo CAny; mk_opt "client_id" RYes CAny; mk_opt "client_secret" RYes CAny; mk_opt "header" RNo CAny; mk_opt "scopes" RNo CAny; mk_opt "token_url" RYes CAny]
].

Definition pinned_loader_tbl : table := [
  mk_mech "authenticators" "anonymous" true false [mk_opt "subject" RNo CAny];
  mk_mech "authenticators" "basic_auth" true true [mk_opt "allow_fallback_on_error" RNo CAny; mk_opt "password" RYes CAny; mk_opt "user_id" RYes CAny];
  mk_mech "authenticators" "generic" true true [mk_opt "allow_fallback_on_error" RNo CAny; mk_opt "authentication_data_source" RYes CAny; mk_opt "cache_ttl" RNo CAny; mk_opt "forward_cookies" RNo CAny; mk_opt "forward_headers" RNo CAny; mk_opt "identity_info_endpoint" RYes CAny; mk_opt "payload" RNo CAny; mk_opt "session_lifespan" RNo CAny; mk_opt "subject" RYes CAny];
  mk_mech "authenticators" "jwt" true true [mk_opt "allow_fallback_on_error" RNo CAny; mk_opt "assertions" RCond CAny; mk_opt "cache_ttl" RNo CAny; mk_opt "jwks_endpoint" RCond CAny; mk_opt "jwt_source" RNo CAny; mk_opt "metadata_endpoint" RCond CAny; mk_opt "subject" RNo CAny; mk_opt "trust_store" RNo CAny; mk_opt "validate_jwk" RNo CAny];
  mk_mech "authenticators" "oauth2_introspection" true true [mk_opt "allow_fallback_on_error" RNo CAny; mk_opt "assertions" RCond CAny; mk_opt "cache_ttl" RNo CAny; mk_opt "introspection_endpoint" RCond CAny; mk_opt "metadata_endpoint" RCond CAny; mk_opt "subject" RNo CAny; mk_opt "token_source" RNo CAny];
  mk_mech "authenticators" "unauthorized" false false [];
  mk_mech "authorizers" "allow" false false [];
  mk_mech "authorizers" "cel" true true [mk_opt "expressions" RYes CAny];
  mk_mech "authorizers" "deny" false false [];
  mk_mech "authorizers" "remote" true true [mk_opt "cache_ttl" RNo CAny; mk_opt "endpoint" RYes CAny; mk_opt "expressions" RNo CAny; mk_opt "forward_response_headers_to_upstream" RNo CAny; mk_opt "payload" RCond CAny; mk_opt "values" RNo CAny];
  mk_mech "contextualizers" "generic" true true [mk_opt "cache_ttl" RNo CAny; mk_opt "continue_pipeline_on_error" RNo CAny; mk_opt "endpoint" RYes CAny; mk_opt "forward_cookies" RNo CAny; mk_opt "forward_headers" RNo CAny; mk_opt "payload" RNo CAny; mk_opt "values" RNo CAny];
  mk_mech "error_handlers" "default" false false [];
  mk_mech "error_handlers" "redirect" true true [mk_opt "code" RNo CAny; mk_opt "to" RYes CAny];
  mk_mech "error_handlers" "www_authenticate" true false [mk_opt "realm" RNo CAny];
  mk_mech "finalizers" "cookie" true true [mk_opt "cookies" RYes CAny];
  mk_mech "finalizers" "header" true true [mk_opt "headers" RYes CAny];
  mk_mech "finalizers" "jwt" true true [mk_opt "claims" RNo CAny; mk_opt "header" RNo CAny; mk_opt "signer" RYes CAny; mk_opt "ttl" RNo CAny];
  mk_mech "finalizers" "noop" false false [];
  mk_mech "finalizers" "oauth2_client_credentials" true true [mk_opt "auth_method" RNo (CEnum ["basic_auth"; "request_body"]); mk_opt "cache_ttl" RNo CAny; mk_opt "client_id" RYes CAny; mk_opt "client_secret" RYes CAny; mk_opt "header" RNo CAny; mk_opt "scopes" RNo CAny; mk_opt "token_url" RYes CAny]
].
