(** C20 — the loader (with the repair of C20-F3, as /repo is) on the
    property's domain, for names of the C20-F4 shape too: where the narrowed
    guard [guard_F4n] is silent — every list element that a variable enters
    with two or more name segments is a map in defaults or file, and no other
    variable shares that element and first name segment — the tree that [load]
    hands to the decoder is tidy (no dotted key is left) and shows at every
    path what the specification says, for every iteration order of Go's maps. *)
From HV Require Import Base.Prelude C20.Model C20.Spec C20.Facts C20.MergeProofs C20.ConvertProofs
  C20.NodeAlg C20.TrieProofs C20.UnflattenProofs C20.EnvProofs C20.LoadProofs C20.FixedProofs C20.FixedEnvProofs
  C20.LoadFixedProofs C20.DottedBase C20.DottedMerge C20.DottedTrie C20.DottedFold C20.DottedEnv C20.DottedConvert.
From Coq Require Import Permutation.

Lemma PW_with_In {A} (R : A -> A -> Prop) l : PW R l -> PW (fun a b => R a b /\ In a l /\ In b l) l.
Proof.
  induction 1 as [|x l Hx Hl IH]; constructor.
  - rewrite Forall_forall in *. intros y Hy. splits; [auto | left; reflexivity | right; assumption].
  - eapply PW_impl; [|exact IH]. intros a b (A1 & A2 & A3). splits; auto; right; assumption.
Qed.

Lemma f4_sites_nonnum : forall parts pre site, In site (f4_sites pre parts) -> is_num (snd site) = false.
Proof.
  induction parts as [|p r IH]; intros pre site H; [contradiction|].
  cbn [f4_sites] in H. apply in_app_or in H as [H|H]; [|eapply IH; eassumption].
  destruct (is_num p && (2 <=? length (name_prefix r))) eqn:E; [|contradiction].
  destruct H as [<-|[]]. simpl. apply andb_true_iff in E as [_ E]. apply Nat.leb_le in E.
  destruct r as [|q r']; simpl in *; [lia|]. destruct (is_num q); simpl in *; [lia | reflexivity].
Qed.

(** what [guard_F4n = false] says *)
Lemma guard_F4n_false d f ne :
  guard_F4n d f ne = false ->
  forall a site, In a ne -> In site (f4_sites [] (split_dot (fst a))) ->
    (view (psegs (fst site)) (Map d) = NMap \/ view (psegs (fst site)) (Map f) = NMap) /\
    forall b, In b ne -> b <> a ->
      strip_prefix (psegs (fst site ++ [snd site])) (parse_path (fst b)) = None.
Proof.
  unfold guard_F4n. intros H a site Ha Hs.
  assert (X : existsb (fun site =>
      negb (is_map_node (view (psegs (fst site)) (Map d)) || is_map_node (view (psegs (fst site)) (Map f)))
      || existsb (fun b => negb (String.eqb (fst a) (fst b) && String.eqb (snd a) (snd b)) &&
                           match strip_prefix (psegs (fst site ++ [snd site])) (parse_path (fst b)) with
                           | Some _ => true
                           | None => false
                           end) ne) (f4_sites [] (split_dot (fst a))) = false).
  { destruct (existsb _ (f4_sites [] (split_dot (fst a)))) eqn:E; [|reflexivity].
    assert (Y : existsb (fun a0 => existsb (fun site0 =>
      negb (is_map_node (view (psegs (fst site0)) (Map d)) || is_map_node (view (psegs (fst site0)) (Map f)))
      || existsb (fun b => negb (String.eqb (fst a0) (fst b) && String.eqb (snd a0) (snd b)) &&
                           match strip_prefix (psegs (fst site0 ++ [snd site0])) (parse_path (fst b)) with
                           | Some _ => true
                           | None => false
                           end) ne) (f4_sites [] (split_dot (fst a0)))) ne = true).
    { apply existsb_exists. exists a. split; assumption. }
    rewrite Y in H. discriminate. }
  assert (X1 : (negb (is_map_node (view (psegs (fst site)) (Map d)) || is_map_node (view (psegs (fst site)) (Map f)))
      || existsb (fun b => negb (String.eqb (fst a) (fst b) && String.eqb (snd a) (snd b)) &&
                           match strip_prefix (psegs (fst site ++ [snd site])) (parse_path (fst b)) with
                           | Some _ => true
                           | None => false
                           end) ne) = false).
  { destruct (negb _ || _) eqn:E; [|reflexivity].
    assert (Y : existsb (fun site =>
      negb (is_map_node (view (psegs (fst site)) (Map d)) || is_map_node (view (psegs (fst site)) (Map f)))
      || existsb (fun b => negb (String.eqb (fst a) (fst b) && String.eqb (snd a) (snd b)) &&
                           match strip_prefix (psegs (fst site ++ [snd site])) (parse_path (fst b)) with
                           | Some _ => true
                           | None => false
                           end) ne) (f4_sites [] (split_dot (fst a))) = true).
    { apply existsb_exists. exists site. split; assumption. }
    rewrite Y in X. discriminate. }
  apply orb_false_iff in X1 as [X1 X2]. apply negb_false_iff in X1. split.
  - apply orb_true_iff in X1 as [X1|X1]; [left | right];
      destruct (view (psegs (fst site)) _); simpl in X1; try discriminate; reflexivity.
  - intros b Hb Nb.
    destruct (strip_prefix (psegs (fst site ++ [snd site])) (parse_path (fst b))) eqn:E; [|reflexivity]. exfalso.
    assert (Y : existsb (fun b => negb (String.eqb (fst a) (fst b) && String.eqb (snd a) (snd b)) &&
                           match strip_prefix (psegs (fst site ++ [snd site])) (parse_path (fst b)) with
                           | Some _ => true
                           | None => false
                           end) ne = true).
    { apply existsb_exists. exists b. split; [assumption|]. rewrite E, andb_true_r. apply negb_true_iff.
      destruct (String.eqb (fst a) (fst b) && String.eqb (snd a) (snd b)) eqn:E2; [|reflexivity]. exfalso.
      apply andb_true_iff in E2 as [E3 E4]. apply String.eqb_eq in E3, E4. apply Nb. destruct a, b. simpl in *. congruence. }
    rewrite Y in X2. discriminate.
Qed.

Section WithOrder.
  Variable sh : nat -> list (key * cfg) -> list (key * cfg).
  Hypothesis sh_perm : forall site l, Permutation (sh site l) l.
  Variable to_real : string -> cfg.

  Notation tof := (tof to_real).
  Notation eof := (eof to_real).

  Definition goodD (nv : string * string) : Prop :=
    (exists w, to_real (snd nv) = Leaf w) /\ Forall seg_ok (split_dot (fst nv)) /\
    name_prefix (split_dot (fst nv)) <> [].

  Lemma eof_specD nv : goodD nv ->
    exists w u, to_real (snd nv) = Leaf w /\
      convert false (split_dot (fst nv)) (to_real (snd nv)) = Ok (name_prefix (split_dot (fst nv)), u) /\
      eof nv = ((name_prefix (split_dot (fst nv)), Some nv), u) /\
      EntOkD (eof nv) /\ (forall p, econD p (eof nv) = contrib p (tof nv)) /\
      (forall pi s, DK (ent (eof nv)) pi s ->
         exists site, In site (f4_sites [] (split_dot (fst nv))) /\ pi = psegs (fst site) /\ s = snd site).
  Proof.
    intros ((w & Hw) & Hok & Hn).
    destruct (convert_specD w _ [] Hok) as (u & Hc & Hnn & Ht & Hp & Hv & Hd).
    exists w, u. unfold LoadProofs.eof. rewrite Hw, Hc. splits; auto.
    - unfold EntOkD, ekey, etag. simpl. splits; eauto.
    - intro p. unfold econD, ent, ekey, LoadProofs.tof. simpl. rewrite Hw. unfold parse_path.
      rewrite (psegs_split (split_dot (fst nv))).
      apply dview_nest_contrib. exact Hv.
    - intros pi s H. unfold ent, ekey in H. simpl in H. apply DK_nest_inv in H as (pi' & -> & H).
      destruct (Hd pi' s H) as (site & Hin & E1 & E2). exists site. splits; auto.
  Qed.

  (** env.Provider.Read *)
  Lemma env_mp_specD : forall ne acc,
    NoDup ne -> Forall goodD ne ->
    (forall nv kv, In nv ne -> In kv acc -> snd (fst kv) <> Some nv) ->
    env_mp to_real false ne acc = Ok (acc ++ map eof ne).
  Proof.
    induction ne as [|[nk val] r IH]; intros acc ND HG HF; simpl.
    - rewrite app_nil_r. reflexivity.
    - apply NoDup_cons_iff in ND as [N1 N2]. apply Forall_cons_iff in HG as [G0 GR].
      destruct (eof_specD (nk, val) G0) as (w & u & Hw & Ec & He & _ & _).
      simpl in Ec, He |- *. rewrite Ec.
      destruct G0 as (_ & _ & Hn). simpl in Hn.
      assert (Eu : unsplit (name_prefix (split_dot nk)) = name_prefix (split_dot nk)).
      { destruct (name_prefix (split_dot nk)); [congruence | reflexivity]. }
      rewrite Eu.
      assert (Nin : ~ In (name_prefix (split_dot nk), Some (nk, val)) (map fst acc)).
      { intro H. apply in_map_iff in H as (kv & E & Hin).
        apply (HF (nk, val) kv (or_introl eq_refl) Hin). rewrite E. reflexivity. }
      rewrite set_new by assumption.
      rewrite IH; auto.
      + rewrite <- app_assoc. simpl. rewrite He. reflexivity.
      + intros nv kv Hnv Hkv. apply in_app_or in Hkv as [Hkv | [Hkv|[]]].
        * apply (HF nv kv); [right|]; assumption.
        * subst kv. simpl. intro E. inv E. contradiction.
  Qed.

  Lemma eof_tags_NoDupD ne : NoDup ne -> Forall goodD ne -> NoDup (map etag (map eof ne)).
  Proof.
    intros ND HG.
    assert (E : map etag (map eof ne) = map Some ne).
    { rewrite map_map. apply map_ext_in. intros nv Hin. rewrite Forall_forall in HG.
      destruct (eof_specD nv (HG nv Hin)) as (_ & u & _ & _ & He & _). rewrite He. reflexivity. }
    rewrite E. apply FinFun.Injective_map_NoDup; [|assumption]. intros x y H. congruence.
  Qed.

  Lemma scope_goodD ne tenv d :
    typed_env to_real ne = Some tenv ->
    Forall (fun e => kcompat (view [] (Map d)) (contrib [] e) = true) tenv ->
    Forall goodD ne.
  Proof.
    intros HT HR. destruct (typed_env_map to_real _ _ HT) as [-> HB].
    apply Forall_forall. intros nv Hin.
    rewrite Forall_forall in HB, HR. destruct (HB nv Hin) as [Hw Hok].
    unfold goodD. splits; auto.
    specialize (HR (tof nv) (in_map tof ne nv Hin)). simpl in HR.
    unfold LoadProofs.tof, parse_path in HR. rewrite (psegs_split (split_dot (fst nv))) in HR.
    intro E. rewrite E in HR. simpl in HR.
    destruct (rel_head (split_dot (fst nv))) as [Er | (p & r & Er & Hp)].
    - assert (Es := parts_split (split_dot (fst nv))). rewrite E, Er in Es. simpl in Es.
      exact (split_dot_nonnil _ Es).
    - rewrite Er in HR. simpl in HR. unfold seg_of in HR. rewrite Hp in HR. simpl in HR. discriminate.
  Qed.

  (** the spec-level conditions and the narrowed guard give the coherence of the entries *)
  Lemma entries_coherentD d f ne :
    NoDup (map fst (map tof ne)) -> Forall goodD ne ->
    PW (fun a b => forall p, kcompat (contrib p a) (contrib p b) = true) (map tof ne) ->
    guard_F4n d f ne = false ->
    PW ecohD (map eof ne).
  Proof.
    intros ND HG HK HF4.
    assert (NDne : NoDup ne).
    { rewrite map_map in ND. apply NoDup_map_inv in ND. assumption. }
    apply PW_map. apply PW_map_inv in HK.
    assert (HN : PW (fun a b : string * string => fst (tof a) <> fst (tof b)) ne).
    { apply PW_map_inv with (f := fun nv => fst (tof nv)) (R := fun a b => a <> b).
      rewrite <- map_map. apply PW_NoDup_neq. assumption. }
    assert (HD := PW_NoDup_neq ne NDne).
    assert (All := PW_with_In _ _ (PW_and _ _ _ (PW_and _ _ _ HK HN) HD)).
    eapply PW_impl; [|exact All]. clear All HK HN HD.
    intros a b (((HK & HN) & HD) & Ia & Ib). cbv beta in *.
    rewrite Forall_forall in HG.
    destruct (eof_specD a (HG a Ia)) as (wa & ua & _ & _ & _ & _ & Ea & Da).
    destruct (eof_specD b (HG b Ib)) as (wb & ub & _ & _ & _ & _ & Eb & Db).
    assert (Excl : forall x y, In x ne -> In y ne -> x <> y ->
              (forall pi s, DK (ent (eof x)) pi s ->
                 exists site, In site (f4_sites [] (split_dot (fst x))) /\ pi = psegs (fst site) /\ s = snd site) ->
              (forall p, econD p (eof y) = contrib p (tof y)) ->
              ExclL (ent (eof x)) (ent (eof y))).
    { intros x y Ix Iy Nxy Dx Ey pi s H. destruct (Dx pi s H) as (site & Hs & -> & ->).
      destruct (guard_F4n_false d f ne HF4 x site Ix Hs) as [_ G2].
      specialize (G2 y Iy (fun E => Nxy (eq_sym E))).
      fold (econD (psegs (fst site) ++ [SK (snd site)]) (eof y)). rewrite Ey.
      assert (Ep : psegs (fst site ++ [snd site]) = psegs (fst site) ++ [SK (snd site)]).
      { rewrite psegs_app. simpl. unfold seg_of. rewrite (f4_sites_nonnum _ _ _ Hs). reflexivity. }
      rewrite Ep in G2. unfold contrib, LoadProofs.tof. simpl fst. rewrite G2. reflexivity. }
    unfold ecohD, xc. splits.
    - intro p. fold (econD p (eof a)). fold (econD p (eof b)). rewrite Ea, Eb. split; [apply HK|].
      destruct (contrib p (tof a)) eqn:Ca; simpl; try reflexivity.
      destruct (contrib p (tof b)) eqn:Cb; simpl; try reflexivity.
      apply contrib_leaf_path in Ca. apply contrib_leaf_path in Cb. exfalso. apply HN. congruence.
    - apply (Excl a b Ia Ib HD Da Eb).
    - apply (Excl b a Ib Ia (fun E => HD (eq_sym E)) Db Ea).
  Qed.

  (* ---------------------------------------------------------------- the last merge: the environment's tree into defaults+file *)

  Lemma merge_top_foldD : forall L acc,
    Forall (fun kv => (exists s, fst kv = K s) /\ snd kv <> Nil /\ DT (snd kv)) L ->
    NoDup (map fst L) -> Tidy (Map acc) ->
    (forall k v old, In (k, v) L -> lookup k acc = Some old -> dcompat old v) ->
    (forall k v pi s', In (k, v) L -> DK v pi s' -> view pi (get k acc) = NMap) ->
    exists r, fold_left (top_step sh true false) L (Ok acc) = Ok r /\ Tidy (Map r) /\
              forall s q, view (SK s :: q) (Map r)
                          = njoin (view (SK s :: q) (Map acc)) (dview q (get (K s) L)).
  Proof.
    induction L as [|[k v] L' IH]; intros acc FE ND Ta HC HV.
    - exists acc. simpl. splits; auto. intros s q. change (get (K s) []) with Nil. rewrite dview_Nil, njoin_none_r. reflexivity.
    - apply Forall_cons_iff in FE as [((s0 & Hs0) & Nv & Tv) FE']. simpl in Hs0, Nv, Tv. subst k.
      simpl in ND. apply NoDup_cons_iff in ND as [Nin ND'].
      assert (X : exists nv, merge sh true (get (K s0) acc) v = Ok nv /\ nv <> Nil /\ Tidy nv /\
                             forall q, view q nv = njoin (view q (get (K s0) acc)) (dview q v)).
      { assert (HV0 := HV (K s0) v). unfold get in *. destruct (lookup (K s0) acc) as [old|] eqn:E.
        - destruct (Tidy_lookup _ _ _ Ta E) as [No To].
          destruct (merge_with_dview sh sh_perm (clean_fixed sh) old v No Nv (proj1 (Tidy_DT old To)) Tv)
            as (nv & Hm & Nn & Tn & Hv & Hd).
          { apply (HC (K s0) v old); [left; reflexivity | assumption]. }
          { apply ExclL_tidy. assumption. }
          assert (Tnv : Tidy nv).
          { apply DT_noDK_Tidy; [assumption|]. intros pi s H. destruct (Hd _ _ H) as [H1 | [H1 H2]].
            - eapply Tidy_noDK; eauto.
            - specialize (HV0 pi s (or_introl eq_refl) H1). rewrite (dview_tidy pi old To) in H2. congruence. }
          exists nv. splits; auto. intro q.
          rewrite <- (dview_tidy q nv Tnv), Hv, (dview_tidy q old To). reflexivity.
        - assert (Tv' : Tidy v).
          { apply DT_noDK_Tidy; [assumption|]. intros pi s H.
            specialize (HV0 pi s (or_introl eq_refl) H). rewrite view_Nil in HV0. discriminate. }
          destruct (cl_good_true sh sh_perm v Tv') as (r & Hr & Tr & Nr & Vr). exists r. splits; auto.
          intro q. rewrite Vr, view_Nil, njoin_none_l. symmetry. apply dview_tidy. assumption. }
      destruct X as (nv & Hm & Nn & Tn & Hv).
      assert (Lother : forall k' v', In (k', v') L' -> lookup k' (set (K s0) nv acc) = lookup k' acc).
      { intros k' v' Hin. rewrite lookup_set. destruct (key_eqb k' (K s0)) eqn:E; [|reflexivity].
        apply key_eqb_eq in E; subst k'. exfalso. apply Nin. apply in_map_iff. exists (K s0, v'); auto. }
      destruct (IH (set (K s0) nv acc) FE' ND' (Tidy_set _ _ _ Ta Nn Tn)) as (r & Hr & Tr & Hvr).
      { intros k' v' old Hin Hl. rewrite (Lother k' v' Hin) in Hl. apply (HC k' v' old); [right; assumption | assumption]. }
      { intros k' v' pi s' Hin Hd. unfold get. rewrite (Lother k' v' Hin). apply (HV k' v' pi s'); [right; assumption | assumption]. }
      exists r. splits; auto.
      { simpl. rewrite Hm. exact Hr. }
      intros s q. rewrite Hvr. simpl view. rewrite lookup_set. unfold get. simpl lookup. rewrite !key_eqb_K.
      destruct (String.eqb s s0) eqn:E.
      + apply String.eqb_eq in E; subst s0.
        assert (E' : lookup (K s) L' = None) by (apply lookup_None; assumption).
        rewrite E'. rewrite dview_Nil, njoin_none_r. rewrite Hv. unfold get.
        destruct (lookup (K s) acc); [reflexivity | rewrite view_Nil; reflexivity].
      + reflexivity.
  Qed.

  Section Loader.
    Variable pfx : string.
    Variables (d f : list (key * cfg)) (env : list (string * string)) (tenv : list (path * string)).
    Let ne := norm_env pfx env.
    Hypothesis Htyped : typed_env to_real ne = Some tenv.
    Hypothesis Hscope : in_scope d f tenv.
    Hypothesis HF4n : guard_F4n d f ne = false.

    (** the main theorem under the narrowed guard of C20-F4 *)
    Theorem load_meets_spec_F4n :
      exists t, load sh to_real true false pfx d (Some f) env = Ok t /\ Tidy (Map t) /\
                forall p, view p (Map t) = spec_view d f tenv p.
    Proof.
      destruct Hscope as (Td & Tf & ND & Cdf & Cenv & HP).
      destruct (merge_top_view_gen sh sh_perm true d f Td Tf Cdf) as (p1 & Hp1 & Tp1 & Vp1).
      assert (HG : Forall goodD ne).
      { apply (scope_goodD ne tenv d Htyped).
        eapply Forall_impl; [|exact Cenv]. intros e H. apply (H []). }
      destruct (typed_env_map to_real _ _ Htyped) as [Et _].
      assert (NDne : NoDup ne).
      { rewrite Et, map_map in ND. apply NoDup_map_inv in ND. assumption. }
      assert (Hmp : env_mp to_real false ne [] = Ok (map eof ne)).
      { apply (env_mp_specD ne [] NDne HG). intros nv kv _ []. }
      set (E := map eof ne).
      assert (HE : Forall EntOkD E).
      { unfold E. apply Forall_map. eapply Forall_impl; [|exact HG].
        intros nv G. destruct (eof_specD nv G) as (_ & _ & _ & _ & _ & H & _). exact H. }
      assert (NDE : NoDup (map etag E)) by (apply eof_tags_NoDupD; assumption).
      assert (HC : PW ecohD E).
      { apply (entries_coherentD d f); auto; rewrite <- Et; assumption. }
      destruct (env_tree_entriesD sh sh_perm E HE NDE HC) as (e & He & Te & Ve & De).
      assert (Henv : env_tree sh to_real true false pfx env = Ok e).
      { unfold env_tree. fold ne. rewrite Hmp. exact He. }
      assert (Econ : forall p, map (econD p) E = map (contrib p) tenv).
      { intro p. unfold E. rewrite Et, !map_map. apply map_ext_in. intros nv Hin.
        rewrite Forall_forall in HG. destruct (eof_specD nv (HG nv Hin)) as (_ & _ & _ & _ & _ & _ & H & _). apply H. }
      assert (Snc : forall p, PW nc (map (contrib p) tenv)).
      { intro p. apply (scope_nc d f tenv (conj Td (conj Tf (conj ND (conj Cdf (conj Cenv HP)))))). }
      assert (Vsk : forall s q, dview q (get (K s) e) = env_view tenv (SK s :: q)).
      { intros s q. rewrite Ve, Econ. symmetry. apply env_view_jfold. apply Snc. }
      assert (Vsi : forall i q, env_view tenv (SI i :: q) = NNone).
      { intros i q. rewrite env_view_jfold by apply Snc. apply jfold_none_elems.
        rewrite Et. apply Forall_map. apply Forall_map. eapply Forall_impl; [|exact HG].
        intros nv (_ & _ & Hn). unfold contrib, LoadProofs.tof, parse_path. simpl fst.
        rewrite (psegs_split (split_dot (fst nv))).
        destruct (name_prefix (split_dot (fst nv))) as [|s k]; [congruence|]. reflexivity. }
      assert (Vroot : env_view tenv [] = NNone \/ env_view tenv [] = NMap).
      { rewrite env_view_jfold by apply Snc. apply jfold_kinds; [left; reflexivity|].
        rewrite Et. apply Forall_map. apply Forall_map. eapply Forall_impl; [|exact HG].
        intros nv (_ & _ & Hn). right. unfold contrib, LoadProofs.tof, parse_path. simpl fst.
        rewrite (psegs_split (split_dot (fst nv))).
        destruct (name_prefix (split_dot (fst nv))) as [|s k]; [congruence|]. reflexivity. }
      (* the last merge *)
      rewrite Forall_forall in Cenv.
      set (L := sh 1 e).
      assert (PL : Permutation L e) by apply sh_perm.
      destruct Te as [Te Pe]. destruct (DT_Map_inv _ Te) as [NDe FEe].
      assert (NDk : NoDup (map fst e)) by (apply NoDup_khdf_keys; assumption).
      assert (GL : forall s, get (K s) L = get (K s) e).
      { intro s. unfold get. rewrite (lookup_perm (K s) L e); [reflexivity | | exact PL].
        eapply perm_NoDup_keys; [apply Permutation_sym; exact PL | exact NDk]. }
      destruct (merge_top_foldD L p1) as (t & Ht & Tt & Vt).
      - eapply Permutation_Forall; [apply Permutation_sym; exact PL|].
        unfold plain_keys in Pe. rewrite Forall_forall in *. intros kv Hkv.
        destruct (FEe _ Hkv) as (_ & A & B). splits; auto.
      - eapply perm_NoDup_keys; [apply Permutation_sym; exact PL | exact NDk].
      - exact Tp1.
      - intros k v old Hin Hl q.
        assert (Hin' : In (k, v) e) by (eapply Permutation_in; eauto).
        unfold plain_keys in Pe. rewrite Forall_forall in Pe. destruct (Pe _ Hin') as [s Hs]. simpl in Hs. subst k.
        assert (Ev : v = get (K s) e) by (unfold get; rewrite (NoDup_lookup (K s) v e NDk Hin'); reflexivity).
        destruct (Tidy_lookup _ _ _ Tp1 Hl) as [_ To].
        rewrite (dview_tidy q old To), Ev, Vsk.
        assert (Eo : view q old = view (SK s :: q) (Map p1)) by (simpl; rewrite Hl; reflexivity).
        rewrite Eo, Vp1. rewrite env_view_jfold by apply Snc. apply kcompat_jfold.
        + apply kcompat_none_r.
        + apply Forall_map. apply Forall_forall. intros c Hc.
          destruct (Cenv c Hc (SK s :: q)) as [H1 H2]. apply kcompat_njoin_l; auto.
        + constructor; [apply Forall_forall; intros; apply nc_none_l | apply Snc].
      - intros k v pi s' Hin Hd.
        assert (Hin' : In (k, v) e) by (eapply Permutation_in; eauto).
        unfold plain_keys in Pe. rewrite Forall_forall in Pe. destruct (Pe _ Hin') as [s Hs]. simpl in Hs. subst k.
        assert (Ev : v = get (K s) e) by (unfold get; rewrite (NoDup_lookup (K s) v e NDk Hin'); reflexivity).
        rewrite Ev in Hd. destruct (De s pi s' Hd) as (en & Hen & Den).
        unfold E in Hen. apply in_map_iff in Hen as (a & <- & Ha).
        rewrite Forall_forall in HG.
        destruct (eof_specD a (HG a Ha)) as (_ & _ & _ & _ & _ & _ & _ & Da).
        destruct (Da _ _ Den) as (site & Hs & Es & _).
        destruct (guard_F4n_false d f ne HF4n a site Ha Hs) as [G1 _].
        assert (Eg : view pi (get (K s) p1) = view (SK s :: pi) (Map p1)).
        { simpl. unfold get. destruct (lookup (K s) p1); [reflexivity | apply view_Nil]. }
        rewrite Eg, Es, Vp1.
        specialize (Cdf (psegs (fst site))).
        destruct G1 as [G1|G1]; rewrite G1 in *; destruct (view (psegs (fst site)) _); simpl in *; try discriminate; reflexivity.
      - exists t. splits; auto.
        + unfold load. rewrite Hp1, Henv. rewrite merge_top_unfold. exact Ht.
        + intro p. unfold spec_view. destruct p as [|[s|i] q].
          * simpl. destruct Vroot as [-> | ->]; reflexivity.
          * rewrite Vt, Vp1, GL, Vsk. reflexivity.
          * rewrite Vsi, njoin_none_r. simpl. reflexivity.
    Qed.
  End Loader.
End WithOrder.
