(** C20 — merge.go on trees with dotted keys.

    mergeMaps runs maps.Unflatten on its SOURCE only, so a dotted key is
    resolved when it arrives as source and stays as it is when it is already in
    the destination.  On well-formed trees ([DT]) whose expansions agree on the
    shape, and where the dotted keys of the destination stand alone ([ExclL]),
    the merge does not panic, the result is well formed, shows (through its
    dotted keys) the later source where it has a node and the earlier one
    otherwise, and every dotted key it still holds was a dotted key of the
    destination, or one of the source at a place where the destination holds
    nothing.  All statements for every iteration order [sh] of Go's maps. *)
From HV Require Import Base.Prelude C20.Model C20.Spec C20.Facts C20.MergeProofs C20.ConvertProofs
  C20.NodeAlg C20.TrieProofs C20.UnflattenProofs C20.DottedBase.
From Coq Require Import Permutation.

Definition shallow (m : list (key * cfg)) : list (key * cfg) := map (xent (fun v => v)) m.

Lemma insert_path_nil_nest : forall rest v, rest <> [] -> Map (insert_path [] rest None v) = nest rest v.
Proof.
  induction rest as [|s r IH]; intros v N; [congruence|].
  destruct r as [|s2 r'].
  - reflexivity.
  - rewrite nest_cons by discriminate. rewrite insert_path_cons by discriminate.
    cbn [lookup set]. rewrite IH by discriminate. reflexivity.
Qed.

Lemma fold_ins_DT L : forall acc,
  Forall (fun kv => dkey_ok (fst kv)) L ->
  NoDup (map fst acc ++ map (fun kv => K (khdf kv)) L) ->
  fold_left ins_kv L acc = acc ++ shallow L.
Proof.
  induction L as [|[k v] r IH]; intros acc HK ND; simpl.
  - rewrite app_nil_r. reflexivity.
  - apply Forall_cons_iff in HK as [Hk HK']. simpl in Hk.
    assert (Nin : ~ In (K (khd k)) (map fst acc)).
    { simpl in ND. apply NoDup_remove_2 in ND. intro H. apply ND. apply in_or_app. left. assumption. }
    assert (E : ins_kv acc (k, v) = acc ++ [xent (fun v => v) (k, v)]).
    { unfold ins_kv, xent. cbn [fst snd]. rewrite (dkey_split k Hk). destruct Hk as [_ Hs]. rewrite Hs.
      destruct (ktl k) as [|s2 r'] eqn:Et.
      - cbn [insert_path nest]. apply set_new. assumption.
      - rewrite insert_path_cons by discriminate.
        assert (L0 : lookup (K (khd k)) acc = None) by (apply lookup_None; assumption).
        rewrite L0. rewrite insert_path_nil_nest by discriminate. apply set_new. assumption. }
    rewrite E. rewrite IH; [rewrite <- app_assoc; reflexivity | assumption |].
    rewrite map_app. cbn [map xent fst]. rewrite <- app_assoc. exact ND.
Qed.

Lemma In_shallow e m : In e (shallow m) <-> exists kv, In kv m /\ e = xent (fun v => v) kv.
Proof. unfold shallow. rewrite in_map_iff. split; intros (kv & A & B); exists kv; auto. Qed.

Lemma lookup_shallow_Some k v m :
  lookup k (shallow m) = Some v ->
  exists kv, In kv m /\ k = K (khdf kv) /\ v = nest (ktl (fst kv)) (snd kv).
Proof.
  intro H. apply lookup_In in H. apply In_shallow in H as (kv & Hin & E). exists kv.
  unfold xent in E. inv E. auto.
Qed.

Lemma khdf_shallow m : map khdf (shallow m) = map khdf m.
Proof. unfold shallow. rewrite map_map. reflexivity. Qed.

Lemma perm_DT m m' : Permutation m m' -> DT (Map m) -> DT (Map m').
Proof.
  intros P T. destruct (DT_Map_inv _ T) as [ND FE]. constructor.
  - eapply Permutation_NoDup; [apply Permutation_map; exact P | exact ND].
  - eapply Permutation_Forall; eassumption.
Qed.

Lemma DK_perm m m' pi s : Permutation m m' -> DK (Map m) pi s -> DK (Map m') pi s.
Proof.
  intros P H. apply DK_Map_inv in H as [(-> & k & v & Hin & Hl & ->) | (k & v & pi' & Hin & -> & Hd)].
  - apply (DK_here m' k v); [eapply Permutation_in; eauto | assumption].
  - apply (DK_map m' k v); [eapply Permutation_in; eauto | assumption].
Qed.

Lemma dview_perm m m' p : NoDup (map khdf m) -> Permutation m m' -> dview p (Map m) = dview p (Map m').
Proof.
  intros ND P. destruct p as [|[s|i] q].
  - rewrite !dview_Map_root. reflexivity.
  - assert (ND' : NoDup (map khdf m')) by (eapply Permutation_NoDup; [apply Permutation_map; exact P | exact ND]).
    destruct (dfind s m) as [kv|] eqn:E.
    + destruct (dfind_Some _ _ _ E) as [Hin <-].
      rewrite (dview_Map_in m kv q ND Hin). symmetry. apply dview_Map_in; [assumption | eapply Permutation_in; eauto].
    + apply dfind_None in E. rewrite (dview_Map_notin m s q E). symmetry. apply dview_Map_notin.
      intro H. apply E. eapply Permutation_in; [apply Permutation_map; apply Permutation_sym; exact P | exact H].
  - rewrite !dview_Map_SI. reflexivity.
Qed.

Section WithOrder.
  Variable sh : nat -> list (key * cfg) -> list (key * cfg).
  Hypothesis sh_perm : forall site l, Permutation (sh site l) l.

  (** maps.Unflatten on a well-formed map: every key unfolded, one level *)
  Lemma unflatten_DT sm : DT (Map sm) -> unflatten sh sm = shallow (sh 0 sm).
  Proof.
    intro T. assert (T0 : DT (Map (sh 0 sm))) by (eapply perm_DT; [apply Permutation_sym; apply sh_perm | exact T]).
    destruct (DT_Map_inv _ T0) as [ND FE].
    unfold unflatten. rewrite fold_ins_DT; [reflexivity | |].
    - eapply Forall_impl; [|exact FE]. intros kv H. apply H.
    - simpl.
      assert (E : map (fun kv : key * cfg => K (khdf kv)) (sh 0 sm) = map K (map khdf (sh 0 sm))) by (rewrite map_map; reflexivity).
      rewrite E. apply FinFun.Injective_map_NoDup; [|assumption]. intros a b H. apply K_inj. assumption.
  Qed.

  (** cleanSuffix (as it is) on a well-formed tree: nothing changes but the order of entries *)
  Lemma clean_asis_DT : forall t, DT t ->
    DT (clean_asis sh t) /\ (t <> Nil -> clean_asis sh t <> Nil) /\
    (forall p, dview p (clean_asis sh t) = dview p t) /\
    (forall pi s, DK (clean_asis sh t) pi s -> DK t pi s).
  Proof.
    induction t as [| v | m IH | l IH] using cfg_ind'; intro T; try (simpl; splits; auto; fail).
    rewrite clean_asis_map.
    destruct (DT_Map_inv _ T) as [ND FE].
    assert (SK0 : map (fun kv => (strip (fst kv), clean_asis sh (snd kv))) m
                  = map (fun kv => (fst kv, clean_asis sh (snd kv))) m).
    { apply map_ext_in. intros [k v] Hin. rewrite Forall_forall in FE. destruct (FE _ Hin) as ((_ & Hs) & _).
      cbn [fst snd] in *. unfold strip. destruct k as [a b]. simpl in *. subst b. reflexivity. }
    rewrite SK0.
    set (L := map (fun kv => (fst kv, clean_asis sh (snd kv))) m).
    assert (KL : map fst L = map fst m) by (unfold L; rewrite map_map; reflexivity).
    assert (HL : map khdf L = map khdf m) by (unfold L; rewrite map_map; reflexivity).
    assert (ND2 : NoDup (map fst (sh 2 L))).
    { eapply perm_NoDup_keys; [apply Permutation_sym; apply sh_perm | rewrite KL; apply NoDup_khdf_keys; assumption]. }
    rewrite fold_set_new by (simpl; assumption). simpl app.
    assert (TL : DT (Map L)).
    { constructor; [rewrite HL; assumption|]. unfold L. apply Forall_map.
      rewrite Forall_forall in *. intros kv Hin. destruct (FE _ Hin) as (Hk & Hn & Ht).
      destruct (IH _ Hin Ht) as (I1 & I2 & _). unfold dentry_ok. cbn [fst snd]. auto. }
    assert (VL : forall p, dview p (Map L) = dview p (Map m)).
    { intros [|[s|i] q]; [rewrite !dview_Map_root; reflexivity | | rewrite !dview_Map_SI; reflexivity].
      rewrite !dview_Map_cons. unfold L.
      assert (X : dfind s (map (fun kv => (fst kv, clean_asis sh (snd kv))) m)
                  = option_map (fun kv => (fst kv, clean_asis sh (snd kv))) (dfind s m)).
      { clear. induction m as [|e r IHm]; [reflexivity|]. cbn [map dfind]. unfold khdf at 1. cbn [fst].
        fold (khdf e). destruct (String.eqb (khdf e) s); [reflexivity | exact IHm]. }
      rewrite X. destruct (dfind s m) as [kv|] eqn:E; [|reflexivity]. cbn [option_map fst snd].
      destruct (dfind_Some _ _ _ E) as [Hin _]. rewrite Forall_forall in FE, IH.
      destruct (FE _ Hin) as (_ & _ & Ht). destruct (IH _ Hin Ht) as (_ & _ & I3 & _).
      unfold dview. rewrite !expand_nest.
      destruct (ktl (fst kv)) as [|s2 r].
      - rewrite !nest_nil. apply I3.
      - clear -I3. revert q. generalize (s2 :: r). intro ks. induction ks as [|a ks IHk]; intro q; [apply I3|].
        destruct q as [|[s'|i] q'].
        + rewrite !view_nest_root by discriminate. reflexivity.
        + rewrite !view_nest_cons. destruct (String.eqb s' a); [apply IHk | reflexivity].
        + rewrite !view_nest_SI by discriminate. reflexivity. }
    splits.
    - eapply perm_DT; [apply Permutation_sym; apply sh_perm | exact TL].
    - intros _. discriminate.
    - intro p. rewrite <- VL. apply dview_perm; [|apply sh_perm].
      eapply Permutation_NoDup; [apply Permutation_map; apply Permutation_sym; apply sh_perm | rewrite HL; assumption].
    - intros pi s H. apply (DK_perm _ L) in H; [|apply sh_perm].
      apply DK_Map_inv in H as [(-> & k & v & Hin & Hl & ->) | (k & v & pi' & Hin & -> & Hd)].
      + unfold L in Hin. apply in_map_iff in Hin as (kv0 & E & Hin). inv E.
        apply (DK_here m (fst kv0) (snd kv0)); [rewrite <- surjective_pairing|]; assumption.
      + unfold L in Hin. apply in_map_iff in Hin as (kv0 & E & Hin). inv E.
        apply (DK_map m (fst kv0) (snd kv0)); [rewrite <- surjective_pairing; assumption|]. rewrite Forall_forall in FE, IH.
        destruct (FE _ Hin) as (_ & _ & Ht). destruct (IH _ Hin Ht) as (_ & _ & _ & I4). apply I4. assumption.
  Qed.

  (* ---------------------------------------------------------------- the loops *)

  Definition merge_goalD (cl : cfg -> res cfg) (dest : cfg) : Prop :=
    forall src, dest <> Nil -> src <> Nil -> DT dest -> DT src -> dcompat dest src -> ExclL dest src ->
    exists r, merge_with sh cl dest src = Ok r /\ r <> Nil /\ DT r /\
              (forall p, dview p r = njoin (dview p dest) (dview p src)) /\
              (forall pi s, DK r pi s -> DK dest pi s \/ (DK src pi s /\ dview pi dest = NNone)).

  (** what the loop of mergeMaps makes of one entry of the destination *)
  Definition updrel (usm : list (key * cfg)) (e e' : key * cfg) : Prop :=
    fst e' = fst e /\ snd e' <> Nil /\ DT (snd e') /\
    match lookup (fst e) usm with
    | None => snd e' = snd e
    | Some v => (forall q, dview q (snd e') = njoin (dview q (snd e)) (dview q v)) /\
                (forall pi s, DK (snd e') pi s -> DK (snd e) pi s \/ (DK v pi s /\ dview pi (snd e) = NNone))
    end.

  Lemma upd_map_specD cl usm : forall dm,
    Forall (fun kv => merge_goalD cl (snd kv)) dm ->
    Forall (fun kv => snd kv <> Nil /\ DT (snd kv)) dm ->
    (forall k old v, In (k, old) dm -> lookup k usm = Some v ->
       v <> Nil /\ DT v /\ dcompat old v /\ ExclL old v) ->
    exists dm', upd_map (fun o v => merge_with sh cl o v) usm dm = Ok dm' /\ Forall2 (updrel usm) dm dm'.
  Proof.
    induction dm as [|[k0 old0] r IH]; intros HG HE HC.
    - exists []. split; [reflexivity | constructor].
    - apply Forall_cons_iff in HG as [G0 GR]. apply Forall_cons_iff in HE as [[Hn0 Ht0] ER].
      destruct IH as (r' & Hr & Hrel); auto.
      { intros k old v H1 H2. apply (HC k old v); [right|]; assumption. }
      simpl in G0, Hn0, Ht0.
      assert (X : exists x, merge_entry (fun o v => merge_with sh cl o v) old0 (lookup k0 usm) = Ok x /\
                            updrel usm (k0, old0) (k0, x)).
      { unfold updrel. cbn [fst snd]. destruct (lookup k0 usm) as [v|] eqn:E; simpl.
        - destruct (HC k0 old0 v (or_introl eq_refl) E) as (Nv & Tv & Cv & Xv).
          destruct (G0 v Hn0 Nv Ht0 Tv Cv Xv) as (x & Hx & Hxn & Hxt & Hxv & Hxd).
          exists x. split; [destruct old0; congruence|]. splits; auto.
        - exists old0. splits; auto. }
      destruct X as (x & Hx & Hxr).
      exists ((k0, x) :: r'). simpl. rewrite Hx, Hr. split; [reflexivity|]. constructor; assumption.
  Qed.

  Lemma zip_lst_specD cl : forall dl,
    Forall (merge_goalD cl) dl -> forall sl,
    Forall DT dl -> Forall DT sl ->
    (forall i, dcompat (nth i dl Nil) (nth i sl Nil)) ->
    (forall i, ExclL (nth i dl Nil) (nth i sl Nil)) ->
    exists l, zip_lst (fun a v => merge_with sh cl a v) dl sl = Ok l /\
              length l = Nat.max (length dl) (length sl) /\ Forall DT l /\
              (forall i q, dview q (nth i l Nil) = njoin (dview q (nth i dl Nil)) (dview q (nth i sl Nil))) /\
              (forall i pi s, DK (nth i l Nil) pi s ->
                 DK (nth i dl Nil) pi s \/ (DK (nth i sl Nil) pi s /\ dview pi (nth i dl Nil) = NNone)).
  Proof.
    induction dl as [|a dr IH]; intros HG sl Td Ts HC HX.
    - exists sl. simpl. splits; auto.
      + intros i q. destruct i; simpl; rewrite dview_Nil, njoin_none_l; reflexivity.
      + intros i pi s H. right. split; [assumption|]. destruct i; apply dview_Nil.
    - destruct sl as [|v sr].
      + exists (a :: dr). simpl. splits; auto.
        intros i q. destruct i; simpl; rewrite (dview_Nil q), njoin_none_r; reflexivity.
      + apply Forall_cons_iff in HG as [G0 GR]. apply Forall_cons_iff in Td as [Ta Tdr].
        apply Forall_cons_iff in Ts as [Tv Tsr].
        destruct (IH GR sr Tdr Tsr) as (r & Hr & Hl & Htr & Hvr & Hdr).
        { intro i. apply (HC (S i)). }
        { intro i. apply (HX (S i)). }
        assert (X : exists x, (match a with
                               | Nil => Ok v
                               | _ => match v with Nil => Ok a | _ => merge_with sh cl a v end
                               end) = Ok x /\ DT x /\
                              (forall q, dview q x = njoin (dview q a) (dview q v)) /\
                              (forall pi s, DK x pi s -> DK a pi s \/ (DK v pi s /\ dview pi a = NNone))).
        { destruct (cfg_nil_dec a) as [->|Na].
          - exists v. splits; auto.
            + intro q. rewrite dview_Nil, njoin_none_l. reflexivity.
            + intros pi s H. right. split; [assumption | apply dview_Nil].
          - destruct (cfg_nil_dec v) as [->|Nv].
            + exists a. splits; [destruct a; congruence | assumption | | auto].
              intro q. rewrite dview_Nil, njoin_none_r. reflexivity.
            + destruct (G0 v Na Nv Ta Tv (HC 0) (HX 0)) as (x & Hx & _ & Hxt & Hxv & Hxd).
              exists x. splits; auto. destruct a; try congruence; destruct v; congruence. }
        destruct X as (x & Hx & Hxt & Hxv & Hxd).
        exists (x :: r). simpl. rewrite Hx, Hr. splits; auto.
        * intros [|i] q; simpl; auto.
        * intros [|i] pi s; simpl; auto.
  Qed.

  (** mergeMaps/mergeSlices on well-formed trees with dotted keys *)
  Theorem merge_with_dview cl : forall dest, merge_goalD cl dest.
  Proof.
    induction dest as [| w | dm IH | dl IH] using cfg_ind'; intros src Nd Ns Td Ts C X.
    - congruence.
    - (* a scalar: the source replaces it *)
      assert (Hs : exists w', src = Leaf w').
      { specialize (C []). change (dview [] (Leaf w)) with (NLeaf w) in C.
        destruct src as [|w'|sm|sl]; [congruence | eauto | rewrite dview_Map_root in C; discriminate
                                     | rewrite dview_Lst_root in C; discriminate]. }
      destruct Hs as [w' ->]. exists (Leaf w'). simpl. splits; auto; try discriminate.
      + intros [|a p]; [reflexivity|]. rewrite !dview_Leaf_cons. reflexivity.
      + intros pi s H. exfalso. eapply DK_Leaf; eauto.
    - (* two maps *)
      assert (Hs : exists sm, src = Map sm).
      { specialize (C []). rewrite dview_Map_root in C.
        destruct src as [|w'|sm|sl]; [congruence | change (dview [] (Leaf w')) with (NLeaf w') in C; discriminate | eauto
                                     | rewrite dview_Lst_root in C; discriminate]. }
      destruct Hs as [sm ->]. simpl.
      rewrite (unflatten_DT sm Ts).
      destruct (DT_Map_inv _ Td) as [NDd FEd]. destruct (DT_Map_inv _ Ts) as [NDs FEs].
      set (S0 := sh 0 sm).
      assert (P0 : Permutation S0 sm) by apply sh_perm.
      set (usm := shallow S0).
      (* entries of the unfolded source *)
      assert (Usm : forall k v, lookup k usm = Some v ->
                exists kv, In kv sm /\ k = K (khdf kv) /\ v = nest (ktl (fst kv)) (snd kv)).
      { intros k v H. destruct (lookup_shallow_Some _ _ _ H) as (kv & Hin & A & B).
        exists kv. splits; auto. eapply Permutation_in; eauto. }
      assert (NDu : NoDup (map fst usm)).
      { apply NoDup_khdf_keys. unfold usm. rewrite khdf_shallow.
        eapply Permutation_NoDup; [apply Permutation_map; apply Permutation_sym; exact P0 | exact NDs]. }
      assert (Lsm : forall kv, In kv sm -> lookup (K (khdf kv)) usm = Some (nest (ktl (fst kv)) (snd kv))).
      { intros kv Hin. apply NoDup_lookup; [assumption|]. apply In_shallow. exists kv. split; [|reflexivity].
        eapply Permutation_in; [apply Permutation_sym; exact P0 | exact Hin]. }
      (* what the source shows below one of its entries *)
      assert (Vsm : forall kv q, In kv sm -> dview (SK (khdf kv) :: q) (Map sm) = dview q (nest (ktl (fst kv)) (snd kv))).
      { intros kv q Hin. apply dview_Map_in; assumption. }
      (* a dotted key of the destination has no partner in the source *)
      assert (Xd : forall k old kv, In (k, old) dm -> In kv sm -> khd k = khdf kv -> ktl k = []).
      { intros k old kv Hd Hs Eh. destruct (ktl k) as [|s2 r] eqn:Et; [reflexivity|]. exfalso.
        rewrite Forall_forall in FEd, FEs. destruct (FEd _ Hd) as (Hk & _). destruct (FEs _ Hs) as (_ & Nv & _).
        assert (D : DK (Map dm) [] (khd k)).
        { apply (DK_here dm k old Hd). rewrite (dkey_split k Hk), Et. simpl. lia. }
        specialize (X _ _ D). simpl in X. rewrite Eh, (Vsm kv [] Hs) in X.
        revert X. apply dview_root_nonnil. apply nest_nonnil. assumption. }
      destruct (upd_map_specD cl usm dm IH) as (dm' & Hu & Hrel).
      { eapply Forall_impl; [|exact FEd]. intros kv H. destruct H as (_ & A & B). auto. }
      { intros k old v Hin Hl. destruct (Usm k v Hl) as (kv & Hs & -> & ->).
        rewrite Forall_forall in FEs. destruct (FEs _ Hs) as (Hk & Nv & Tv).
        splits.
        - apply nest_nonnil. assumption.
        - apply DT_nest; assumption.
        - intro q. specialize (C (SK (khdf kv) :: q)).
          rewrite (Vsm kv q Hs) in C.
          assert (E : dview (SK (khdf kv) :: q) (Map dm) = dview q old).
          { apply (dview_Map_key dm (K (khdf kv)) old q Td Hin). }
          rewrite E in C. exact C.
        - intros pi s Hd.
          assert (D : DK (Map dm) (SK (khdf kv) :: pi) s) by (apply (DK_map dm (K (khdf kv)) old pi s Hin Hd)).
          specialize (X _ _ D). simpl in X. rewrite (Vsm kv _ Hs) in X. exact X. }
      rewrite Hu.
      set (news := filter (fun kv => negb (mem (fst kv) dm)) (sh 3 usm)).
      assert (Hk : map fst dm' = map fst dm).
      { clear -Hrel. induction Hrel as [|e e' l l' H _ IHr]; [reflexivity|]. simpl. destruct H as (-> & _). f_equal. assumption. }
      assert (Hh : map khdf dm' = map khdf dm).
      { clear -Hrel. induction Hrel as [|e e' l l' H _ IHr]; [reflexivity|]. simpl. destruct H as (H & _).
        unfold khdf at 1 3. rewrite H. f_equal. assumption. }
      (* the new entries *)
      assert (Nw : forall e, In e news <-> exists kv, In kv sm /\ e = xent (fun v => v) kv /\ ~ In (khdf kv) (map khdf dm)).
      { intro e. unfold news. rewrite filter_In. split.
        - intros [Hin Hm]. apply (Permutation_in _ (sh_perm 3 usm)) in Hin.
          apply In_shallow in Hin as (kv & Hin & ->). apply (Permutation_in _ P0) in Hin.
          exists kv. splits; auto. apply negb_true_iff in Hm. apply mem_false in Hm. cbn [xent fst] in Hm.
          intro H. apply in_map_iff in H as ([k old] & Eh & Hd). unfold khdf in Eh at 1. cbn [fst] in Eh.
          assert (Et := Xd k old kv Hd Hin Eh).
          rewrite Forall_forall in FEd. destruct (FEd _ Hd) as (Hkk & _). cbn [fst] in Hkk.
          apply Hm. apply in_map_iff. exists (k, old). split; [|assumption]. cbn [fst].
          rewrite (dkey_plain k Hkk Et), Eh. reflexivity.
        - intros (kv & Hin & -> & Hn). split.
          + apply (Permutation_in _ (Permutation_sym (sh_perm 3 usm))). apply In_shallow. exists kv. split; [|reflexivity].
            apply (Permutation_in _ (Permutation_sym P0)). assumption.
          + apply negb_true_iff. apply mem_false. cbn [xent fst]. intro H. apply Hn.
            apply in_map_iff in H as ([k old] & Ek & Hd). cbn [fst] in Ek. subst k.
            apply in_map_iff. exists (K (khdf kv), old). auto. }
      assert (NDn : NoDup (map khdf news)).
      { unfold news. apply NoDup_map_filter.
        eapply Permutation_NoDup; [apply Permutation_map; apply Permutation_sym; apply sh_perm|].
        unfold usm. rewrite khdf_shallow.
        eapply Permutation_NoDup; [apply Permutation_map; apply Permutation_sym; exact P0 | exact NDs]. }
      assert (NDr : NoDup (map khdf (dm' ++ news))).
      { rewrite map_app, Hh. apply NoDup_app_intro; auto.
        intros s H1 H2. apply in_map_iff in H2 as (e & <- & He). apply Nw in He as (kv & _ & -> & Hn).
        apply Hn. exact H1. }
      assert (Tr : DT (Map (dm' ++ news))).
      { constructor; [assumption|]. apply Forall_app. split.
        - clear -Hrel FEd. induction Hrel as [|e e' l l' H _ IHr]; [constructor|].
          apply Forall_cons_iff in FEd as [F0 FR]. constructor; [|auto].
          destruct H as (Ef & Nn & Tn & _). destruct F0 as (Kk & _). unfold dentry_ok. rewrite Ef. auto.
        - apply Forall_forall. intros e He. apply Nw in He as (kv & Hin & -> & _).
          rewrite Forall_forall in FEs. destruct (FEs _ Hin) as (Kk & Nv & Tv).
          unfold dentry_ok, xent. cbn [fst snd]. splits; [apply dkey_ok_K | apply nest_nonnil | apply DT_nest]; assumption. }
      exists (Map (dm' ++ news)). splits; auto; try discriminate.
      + (* the view *)
        intros [|[s|i] q]; [rewrite !dview_Map_root; reflexivity | | rewrite !dview_Map_SI; reflexivity].
        destruct (dfind s dm) as [[k old]|] eqn:Ed.
        * destruct (dfind_Some _ _ _ Ed) as [Hd Es]. unfold khdf in Es. cbn [fst] in Es.
          destruct (Forall2_In_l _ _ _ _ Hrel Hd) as ([k' x] & Hd' & Ef & Nx & Tx & Hm). cbn [fst snd] in *. subst k'.
          assert (E1 : dview (SK s :: q) (Map (dm' ++ news)) = dview q (nest (ktl k) x)).
          { rewrite <- Es. change (khd k) with (khdf (k, x)).
            rewrite (dview_Map_in _ (k, x) q NDr); [reflexivity | apply in_or_app; left; assumption]. }
          assert (E2 : dview (SK s :: q) (Map dm) = dview q (nest (ktl k) old)).
          { rewrite <- Es. change (khd k) with (khdf (k, old)). rewrite (dview_Map_in _ (k, old) q NDd Hd). reflexivity. }
          rewrite E1, E2.
          destruct (lookup k usm) as [v|] eqn:El.
          -- destruct (Usm k v El) as (kv & Hs & -> & ->). destruct Hm as [Hv _].
             rewrite ktl_K, !nest_nil. rewrite Hv. f_equal.
             rewrite khd_K in Es. rewrite <- Es. symmetry. apply Vsm. assumption.
          -- subst x. assert (E3 : dview (SK s :: q) (Map sm) = NNone).
             { apply dview_Map_notin. intro H. apply in_map_iff in H as (kv & Eh & Hs).
               assert (Et := Xd k old kv Hd Hs (eq_trans Es (eq_sym Eh))).
               rewrite Forall_forall in FEd. destruct (FEd _ Hd) as (Hkk & _). cbn [fst] in Hkk.
               rewrite (dkey_plain k Hkk Et), Es, <- Eh, (Lsm kv Hs) in El. discriminate. }
             rewrite E3, njoin_none_r. reflexivity.
        * apply dfind_None in Ed. rewrite (dview_Map_notin dm s q Ed), njoin_none_l.
          destruct (dfind s sm) as [kv|] eqn:Es.
          -- destruct (dfind_Some _ _ _ Es) as [Hs Eh]. rewrite <- Eh in *.
             rewrite (Vsm kv q Hs).
             change (khdf kv) with (khdf (xent (fun v => v) kv)).
             rewrite (dview_Map_in _ (xent (fun v => v) kv) q NDr).
             ++ unfold xent. cbn [fst snd]. rewrite ktl_K, nest_nil. reflexivity.
             ++ apply in_or_app. right. apply Nw. exists kv. auto.
          -- apply dfind_None in Es. rewrite (dview_Map_notin sm s q Es). apply dview_Map_notin.
             rewrite map_app, Hh. intro H. apply in_app_or in H as [H|H]; [contradiction|].
             apply in_map_iff in H as (e & Ee & He). apply Nw in He as (kv & Hs & -> & _).
             apply Es. rewrite <- Ee. apply in_map_iff. exists kv. auto.
      + (* the dotted keys that remain *)
        intros pi s H. apply DK_Map_inv in H as [(-> & k & v & Hin & Hl & ->) | (k & v & pi' & Hin & -> & Hdk)].
        * apply in_app_or in Hin as [Hin|Hin].
          -- destruct (Forall2_In_r _ _ _ _ Hrel Hin) as ([k0 old] & Hd & Ef & _). cbn [fst] in Ef. subst k0.
             left. apply (DK_here dm k old); assumption.
          -- apply Nw in Hin as (kv & _ & E & _). inv E. simpl in Hl. lia.
        * apply in_app_or in Hin as [Hin|Hin].
          -- destruct (Forall2_In_r _ _ _ _ Hrel Hin) as ([k0 old] & Hd & Ef & _ & _ & Hm). cbn [fst snd] in *. subst k0.
             destruct (lookup k usm) as [v0|] eqn:El.
             ++ destruct Hm as [_ Hm]. destruct (Hm _ _ Hdk) as [Ho | [Hv Hn]].
                ** left. apply (DK_map dm k old); assumption.
                ** right. destruct (Usm k v0 El) as (kv & Hs & -> & ->).
                   apply DK_nest_inv in Hv as (pi2 & -> & Hv).
                   rewrite Forall_forall in FEs. destruct (FEs _ Hs) as (Kk & _).
                   cbn [K fst map app]. split.
                   --- assert (D := DK_map sm (fst kv) (snd kv) pi2 s). rewrite <- surjective_pairing in D.
                       specialize (D Hs Hv). rewrite (dkey_split _ Kk) in D. cbn [map app] in D. exact D.
                   --- assert (E := dview_Map_key dm (K (khdf kv)) old (map SK (ktl (fst kv)) ++ pi2) Td Hd).
                       cbn [K fst map app] in E. rewrite E. exact Hn.
             ++ subst v. left. apply (DK_map dm k old); assumption.
          -- apply Nw in Hin as (kv & Hs & E & Hn). inv E. right.
             apply DK_nest_inv in Hdk as (pi2 & -> & Hv).
             rewrite Forall_forall in FEs. destruct (FEs _ Hs) as (Kk & _).
             cbn [K fst map app]. split.
             ++ assert (D := DK_map sm (fst kv) (snd kv) pi2 s). rewrite <- surjective_pairing in D.
                specialize (D Hs Hv). rewrite (dkey_split _ Kk) in D. cbn [map app] in D. exact D.
             ++ apply dview_Map_notin. assumption.
    - (* two lists *)
      assert (Hs : exists sl, src = Lst sl).
      { specialize (C []). rewrite dview_Lst_root in C.
        destruct src as [|w'|sm|sl]; [congruence | change (dview [] (Leaf w')) with (NLeaf w') in C; discriminate
                                     | rewrite dview_Map_root in C; discriminate | eauto]. }
      destruct Hs as [sl ->]. simpl.
      destruct (zip_lst_specD cl dl IH sl (DT_Lst_inv _ Td) (DT_Lst_inv _ Ts)) as (l & Hz & Hl & Ht & Hv & Hd).
      { intros i q. specialize (C (SI i :: q)). rewrite !dview_Lst_nth in C. exact C. }
      { intros i pi s H. specialize (X (SI i :: pi) s (DK_Lst_nth _ _ _ _ H)). simpl in X.
        rewrite dview_Lst_nth in X. exact X. }
      rewrite Hz. exists (Lst l). splits; auto; try discriminate.
      + constructor. assumption.
      + intros [|[s|i] q].
        * rewrite !dview_Lst_root, Hl. reflexivity.
        * rewrite !dview_Lst_SK. reflexivity.
        * rewrite !dview_Lst_nth. apply Hv.
      + intros pi s H. apply DK_Lst_inv in H as (i & pi' & -> & H).
        destruct (Hd _ _ _ H) as [H1 | [H1 H2]].
        * left. apply DK_Lst_nth. assumption.
        * right. split; [apply DK_Lst_nth; assumption | rewrite dview_Lst_nth; assumption].
  Qed.
End WithOrder.
