(** C20 — specification vocabulary, written independently of the loader model.

    A configuration tree is observed through [view]: what is found at a path
    (nothing, a scalar, a map, a list of some length).  The specification of a
    load is a formula for that view: the environment's contribution at the path
    if there is one, else the file's, else the default's ([spec_view]); it does
    not mention any order of enumeration. *)
From HV Require Import Base.Prelude C20.Model.

Inductive seg := SK (s : string) | SI (n : nat).
Definition path := list seg.

Definition seg_eqb (a b : seg) : bool :=
  match a, b with
  | SK x, SK y => String.eqb x y
  | SI x, SI y => Nat.eqb x y
  | _, _ => false
  end.

Inductive node := NNone | NLeaf (v : string) | NMap | NLst (n : nat).

Definition node_eqb (a b : node) : bool :=
  match a, b with
  | NNone, NNone | NMap, NMap => true
  | NLeaf x, NLeaf y => String.eqb x y
  | NLst x, NLst y => Nat.eqb x y
  | _, _ => false
  end.

(** what a tree shows at a path; Go nil shows as nothing *)
Fixpoint view (p : path) (t : cfg) : node :=
  match p with
  | [] => match t with
          | Nil => NNone
          | Leaf v => NLeaf v
          | Map _ => NMap
          | Lst l => NLst (length l)
          end
  | SK s :: r => match t with
                 | Map m => match lookup (K s) m with Some c => view r c | None => NNone end
                 | _ => NNone
                 end
  | SI i :: r => match t with
                 | Lst l => match nth_error l i with Some c => view r c | None => NNone end
                 | _ => NNone
                 end
  end.

(** the later source wins; lists grow to the longer one *)
Definition njoin (a b : node) : node :=
  match a, b with
  | x, NNone => x
  | NLst n, NLst m => NLst (Nat.max n m)
  | _, y => y
  end.

(** the documented reading of a normalised variable name: '.'-separated
    segments, all-digit segments are list indices *)
Definition seg_of (s : string) : seg := if is_num s then SI (N.to_nat (atoi s)) else SK s.

Definition psegs (parts : list string) : path := map seg_of parts.

Definition parse_path (nk : string) : path := psegs (split_dot nk).

Fixpoint strip_prefix (p q : path) : option path :=   (* q = p ++ r  =>  Some r *)
  match p, q with
  | [], _ => Some q
  | a :: p', b :: q' => if seg_eqb a b then strip_prefix p' q' else None
  | _ :: _, [] => None
  end.

(** what one variable (its path and typed value) shows at [p] *)
Definition contrib (p : path) (e : path * string) : node :=
  match strip_prefix p (fst e) with
  | Some [] => NLeaf (snd e)
  | Some (SK _ :: _) => NMap
  | Some (SI i :: _) => NLst (S i)
  | None => NNone
  end.

Definition env_view (env : list (path * string)) (p : path) : node :=
  fold_right (fun e acc => njoin acc (contrib p e)) NNone env.

Definition spec_view (d f : list (key * cfg)) (env : list (path * string)) (p : path) : node :=
  njoin (njoin (view p (Map d)) (view p (Map f))) (env_view env p).

(** two sources agree on the shape at a path: one is silent or both show the same kind *)
Definition kcompat (a b : node) : bool :=
  match a, b with
  | NNone, _ | _, NNone => true
  | NLeaf _, NLeaf _ | NMap, NMap | NLst _, NLst _ => true
  | _, _ => false
  end.

(* ------------------------------------------------------------------ executable helpers *)

Definition leaf_payload (c : cfg) : option string :=
  match c with Leaf v => Some v | _ => None end.

(** the name is well formed: no empty segment, list indices within the modelled range *)
Definition parts_ok (parts : list string) : bool :=
  forallb (fun s => negb (String.eqb s EmptyString) &&
                    (negb (is_num s) || (atoi s <=? max_index)%N)) parts.

(** typed environment of the specification: path and scalar payload of every
    variable; None when some value is not read as a scalar (null, flow
    sequence/mapping), a segment is empty or an index is beyond the modelled range *)
Fixpoint typed_env (to_real : string -> cfg) (ne : list (string * string)) : option (list (path * string)) :=
  match ne with
  | [] => Some []
  | (nk, val) :: r =>
      match leaf_payload (to_real val), typed_env to_real r with
      | Some v, Some r' =>
          if parts_ok (split_dot nk) then Some ((parse_path nk, v) :: r') else None
      | _, _ => None
      end
  end.

Fixpoint prefixes {A} (l : list A) : list (list A) :=
  match l with
  | [] => [[]]
  | x :: r => [] :: map (cons x) (prefixes r)
  end.

(** paths of all nodes of a tree *)
Fixpoint all_paths (t : cfg) : list path :=
  [] ::
  match t with
  | Map m =>
      (fix go (m : list (key * cfg)) : list path :=
         match m with
         | [] => []
         | (k, v) :: r =>
             match fst k with
             | [s] => map (cons (SK s)) (all_paths v)
             | _ => []
             end ++ go r
         end) m
  | Lst l =>
      (fix go (i : nat) (l : list cfg) : list path :=
         match l with
         | [] => []
         | v :: r => map (cons (SI i)) (all_paths v) ++ go (S i) r
         end) 0 l
  | _ => []
  end.

Fixpoint pairwise {A} (f : A -> A -> bool) (l : list A) : bool :=
  match l with
  | [] => true
  | x :: r => forallb (f x) r && pairwise f r
  end.

Definition path_eqb (a b : path) : bool := list_eqb seg_eqb a b.

(** clean keys: one segment, no suffix, unique within a map; no nil map values *)
Fixpoint tidy (t : cfg) : bool :=
  match t with
  | Map m =>
      pairwise (fun a b => negb (key_eqb (fst a) (fst b))) m &&
      (fix go (m : list (key * cfg)) : bool :=
         match m with
         | [] => true
         | (k, v) :: r =>
             match k, v with
             | ([s], None), Nil => false
             | ([s], None), _ => tidy v && go r
             | _, _ => false
             end
         end) m
  | Lst l => forallb tidy l
  | _ => true
  end.

(** the property's domain, decidable on a concrete load: well-formed trees,
    scalar values, no two variables for one leaf, and at every path the three
    sources (and any two variables) agree on the shape *)
Definition in_scope_b (d f : list (key * cfg)) (env : option (list (path * string))) : bool :=
  match env with
  | None => false
  | Some env =>
      tidy (Map d) && tidy (Map f) &&
      pairwise (fun a b => negb (path_eqb (fst a) (fst b))) env &&
      let cand := all_paths (Map d) ++ all_paths (Map f) ++ flat_map (fun e => prefixes (fst e)) env in
      forallb (fun p =>
                 kcompat (view p (Map d)) (view p (Map f)) &&
                 forallb (fun e => kcompat (view p (Map d)) (contrib p e) &&
                                   kcompat (view p (Map f)) (contrib p e)) env &&
                 pairwise (fun a b => kcompat (contrib p a) (contrib p b)) env) cand
  end.

(** the tree [t] shows the specified view at every path that can matter *)
Definition meets_spec (d f : list (key * cfg)) (env : list (path * string)) (t : list (key * cfg)) : bool :=
  let cand := all_paths (Map t) ++ all_paths (Map d) ++ all_paths (Map f) ++
              flat_map (fun e => prefixes (fst e)) env in
  tidy (Map t) && forallb (fun p => node_eqb (view p (Map t)) (spec_view d f env p)) cand.

(* ------------------------------------------------------------------ finding guards *)

Fixpoint name_prefix (parts : list string) : list string :=
  match parts with
  | [] => []
  | p :: r => if is_num p then [] else p :: name_prefix r
  end.

Definition has_index (parts : list string) : bool := existsb is_num parts.

Fixpoint is_prefix (a b : list string) : bool :=
  match a, b with
  | [], _ => true
  | x :: a', y :: b' => String.eqb x y && is_prefix a' b'
  | _ :: _, [] => false
  end.

(** one pair of variables is free of the C20-F3 shape *)
Definition f3_pair (a b : string * string) : bool :=
  let ka := name_prefix (split_dot (fst a)) in
  let kb := name_prefix (split_dot (fst b)) in
  negb (((is_prefix ka kb && (2 <=? length ka)) || (is_prefix kb ka && (2 <=? length kb))) &&
        negb (String.eqb (fst a) (fst b) && String.eqb (snd a) (snd b))).

(** C20-F3: the key prefix (the name segments before the first index) of one
    variable, two or more segments long, is the key prefix of another variable
    or an initial part of it — the place where cleanSuffix meets two keys of the
    same name.  Within the property's domain this is: two different variables
    address the same list, and that list lies below at least one map key. *)
Definition guard_F3 (ne : list (string * string)) : bool := negb (pairwise f3_pair ne).

(** C20-F4: below a list index a variable continues with two or more name
    segments (a nested structure inside a list element) *)
Fixpoint flat_after_index (parts : list string) : bool :=
  match parts with
  | [] => false
  | p :: r => (is_num p && (2 <=? length (name_prefix r))) || flat_after_index r
  end.

Definition guard_F4 (ne : list (string * string)) : bool :=
  existsb (fun a => flat_after_index (split_dot (fst a))) ne.


(** C20-F4 narrowed to where the defect shows (used by the evaluator and by the
    `_F4n` theorems, C20/DottedProofs.v; the first block of theorems keeps the
    syntactic [guard_F4]): a variable continues with two or more
    name segments below a list index AND (neither defaults nor file hold a map at
    that list element, so the dotted key is never resolved — or another variable
    addresses the same element with the same first name segment, so a dotted key
    and its expansion meet in one map and Unflatten's iteration order decides). *)
Definition is_map_node (n : node) : bool := match n with NMap => true | _ => false end.

Fixpoint f4_sites (pre parts : list string) : list (list string * string) :=
  match parts with
  | [] => []
  | p :: r =>
      (if is_num p && (2 <=? length (name_prefix r)) then [(pre ++ [p], hd EmptyString r)] else [])
      ++ f4_sites (pre ++ [p]) r
  end.

Definition guard_F4n (d f : list (key * cfg)) (ne : list (string * string)) : bool :=
  existsb (fun a =>
    existsb (fun site =>
      negb (is_map_node (view (psegs (fst site)) (Map d)) || is_map_node (view (psegs (fst site)) (Map f)))
      || existsb (fun b => negb (String.eqb (fst a) (fst b) && String.eqb (snd a) (snd b)) &&
                           match strip_prefix (psegs (fst site ++ [snd site])) (parse_path (fst b)) with
                           | Some _ => true
                           | None => false
                           end) ne)
    (f4_sites [] (split_dot (fst a)))) ne.
