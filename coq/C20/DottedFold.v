(** C20 — folding values that may hold dotted keys into a map of names: the
    loop shared by the repaired cleanSuffix and by the merge functions of
    koanfFromEnv and Load ([top_step]).  Values of the same name are merged in
    whatever order the Go map hands them out; when they are pairwise coherent
    ([xc]: same shape, at most one scalar, the dotted keys of each stand alone)
    the result shows per name the join of what they show, and still holds only
    dotted keys that one of them held. *)
From HV Require Import Base.Prelude C20.Model C20.Spec C20.Facts C20.MergeProofs C20.ConvertProofs
  C20.NodeAlg C20.TrieProofs C20.UnflattenProofs C20.EnvProofs C20.FixedProofs C20.FixedEnvProofs
  C20.DottedBase C20.DottedMerge.
From Coq Require Import Permutation.

(** two values cohere *)
Definition xc (a b : cfg) : Prop :=
  (forall p, nc (dview p a) (dview p b)) /\ ExclL a b /\ ExclL b a.

Lemma xc_sym a b : xc a b -> xc b a.
Proof. intros (A & B & C). unfold xc. splits; auto. intro p. apply nc_sym. apply A. Qed.

Lemma xc_Nil_l b : xc Nil b.
Proof.
  unfold xc. splits.
  - intro p. rewrite dview_Nil. apply nc_none_l.
  - apply ExclL_Nil_l.
  - apply ExclL_Nil_r.
Qed.

(** coherence survives a merge *)
Lemma xc_merge a b r c :
  (forall p, nc (dview p a) (dview p b)) ->
  (forall p, dview p r = njoin (dview p a) (dview p b)) ->
  (forall pi s, DK r pi s -> DK a pi s \/ DK b pi s) ->
  xc a c -> xc b c -> xc r c.
Proof.
  intros Nab Vr Dr (A1 & A2 & A3) (B1 & B2 & B3). unfold xc. splits.
  - intro p. rewrite Vr. apply nc_sym. apply nc_njoin; auto using nc_sym.
  - intros pi s H. destruct (Dr _ _ H) as [H1|H1]; auto.
  - intros pi s H. rewrite Vr, (A3 _ _ H), (B3 _ _ H). reflexivity.
Qed.

Lemma PW_xc_nc q (l : list cfg) : PW xc l -> PW nc (map (dview q) l).
Proof. intro H. apply PW_map. eapply PW_impl; [|exact H]. intros x y (A & _). apply A. Qed.

(* ------------------------------------------------------------------ maps of names *)

(** a map from plain names to well-formed values *)
Definition PT (acc : list (key * cfg)) : Prop := DT (Map acc) /\ plain_keys acc.

Lemma PT_nil : PT [].
Proof. split; [constructor; constructor | constructor]. Qed.

Lemma plain_NoDup_khdf m : plain_keys m -> NoDup (map fst m) -> NoDup (map khdf m).
Proof.
  intros PK ND. induction m as [|[k v] r IH]; simpl; [constructor|].
  apply Forall_cons_iff in PK as [[s Hs] PK]. simpl in Hs. subst k.
  simpl in ND. apply NoDup_cons_iff in ND as [N1 N2]. constructor; [|auto].
  intro H. apply N1. apply in_map_iff in H as ([k' v'] & E & Hin).
  rewrite Forall_forall in PK. destruct (PK _ Hin) as [s' Hs']. simpl in Hs'. subst k'.
  unfold khdf in E. simpl in E. rewrite khd_K in E. subst s'.
  apply in_map_iff. exists (K s, v'). auto.
Qed.

Lemma PT_get acc s : PT acc -> DT (get (K s) acc) /\ (lookup (K s) acc <> None -> get (K s) acc <> Nil).
Proof.
  intros [T _]. unfold get. destruct (lookup (K s) acc) as [v|] eqn:E.
  - apply lookup_In in E. destruct (DT_lookup _ _ _ T E) as (_ & A & B). auto.
  - split; [constructor | congruence].
Qed.

Lemma PT_set s nv acc : PT acc -> nv <> Nil -> DT nv -> PT (set (K s) nv acc).
Proof.
  intros [T PK] N Tn. destruct (DT_Map_inv _ T) as [ND FE].
  assert (PK' : plain_keys (set (K s) nv acc)).
  { unfold plain_keys in *. rewrite Forall_forall in *. intros e H. apply In_set in H as [->|H]; [simpl; eauto | auto]. }
  split; [|assumption]. constructor.
  - apply plain_NoDup_khdf; [assumption|]. apply set_NoDup. apply NoDup_khdf_keys. assumption.
  - rewrite Forall_forall in *. intros e H. apply In_set in H as [->|H]; [|auto].
    unfold dentry_ok. simpl. auto using dkey_ok_K.
Qed.

Lemma get_set s s0 nv acc :
  get (K s) (set (K s0) nv acc) = if String.eqb s s0 then nv else get (K s) acc.
Proof. unfold get. rewrite lookup_set, key_eqb_K. destruct (String.eqb s s0); reflexivity. Qed.

Lemma plain_khdf_notin acc s : plain_keys acc -> lookup (K s) acc = None -> ~ In s (map khdf acc).
Proof.
  intros PK L H. apply lookup_None in L. apply L. apply in_map_iff in H as ([k v] & E & Hin).
  unfold plain_keys in PK. rewrite Forall_forall in PK. destruct (PK _ Hin) as [s' Hs']. simpl in Hs'. subst k.
  unfold khdf in E. simpl in E. rewrite khd_K in E. subst s'. apply in_map_iff. exists (K s, v). auto.
Qed.

Lemma PT_dview acc s q : PT acc -> dview (SK s :: q) (Map acc) = dview q (get (K s) acc).
Proof.
  intros [T PK]. unfold get. destruct (lookup (K s) acc) as [v|] eqn:E.
  - apply lookup_In in E. apply (dview_Map_key acc (K s) v q T E).
  - rewrite dview_Nil. apply dview_Map_notin. apply plain_khdf_notin; assumption.
Qed.

Lemma PT_DK acc pi s' : PT acc -> DK (Map acc) pi s' -> exists s pi', pi = SK s :: pi' /\ DK (get (K s) acc) pi' s'.
Proof.
  intros [T PK] H. destruct (DT_Map_inv _ T) as [ND _].
  unfold plain_keys in PK. rewrite Forall_forall in PK.
  apply DK_Map_inv in H as [(_ & k & v & Hin & Hl & _) | (k & v & pi' & Hin & -> & Hd)].
  - destruct (PK _ Hin) as [s Hs]. simpl in Hs. subst k. simpl in Hl. lia.
  - destruct (PK _ Hin) as [s Hs]. simpl in Hs. subst k. exists s, pi'. split; [reflexivity|].
    unfold get. rewrite (NoDup_lookup (K s) v acc (NoDup_khdf_keys _ ND) Hin). assumption.
Qed.

Lemma PT_DK_intro acc s pi s' : DK (get (K s) acc) pi s' -> DK (Map acc) (SK s :: pi) s'.
Proof.
  unfold get. destruct (lookup (K s) acc) as [v|] eqn:E; intro H.
  - apply lookup_In in E. apply (DK_map acc (K s) v pi s' E H).
  - exfalso. eapply DK_Nil; eauto.
Qed.

Section WithOrder.
  Variable sh : nat -> list (key * cfg) -> list (key * cfg).
  Hypothesis sh_perm : forall site l, Permutation (sh site l) l.

  (** one step of the loop on a value [v] that counts as [cv]: whatever is
      already there under the name ([o], coherent with [cv]), the merge succeeds
      and shows the join.  [any = false]: only known when nothing is there yet. *)
  Definition stepOK (fix3 any : bool) (v cv : cfg) : Prop :=
    forall o, (any = true \/ o = Nil) -> DT o -> xc o cv ->
    exists nv, merge sh fix3 o v = Ok nv /\ nv <> Nil /\ DT nv /\
               (forall q, dview q nv = njoin (dview q o) (dview q cv)) /\
               (forall pi s, DK nv pi s -> DK o pi s \/ DK cv pi s).

  Lemma stepOK_merge fix3 v :
    v <> Nil -> DT v ->
    (exists r, merge sh fix3 Nil v = Ok r /\ r <> Nil /\ DT r /\
               (forall q, dview q r = dview q v) /\ (forall pi s, DK r pi s -> DK v pi s)) ->
    stepOK fix3 true v v.
  Proof.
    intros Nv Tv (r0 & Hr0 & Nr0 & Tr0 & Vr0 & Dr0) o _ To (C1 & C2 & C3).
    destruct (cfg_nil_dec o) as [->|No].
    - exists r0. splits; auto. intro q. rewrite Vr0, dview_Nil, njoin_none_l. reflexivity.
    - destruct (merge_with_dview sh sh_perm (if fix3 then clean_fixed sh else fun s => Ok (clean_asis sh s))
                  o v No Nv To Tv) as (nv & Hm & Nn & Tn & Vn & Dn).
      { intro p. apply C1. }
      { exact C2. }
      exists nv. splits; auto.
      intros pi s H. destruct (Dn _ _ H) as [H1 | [H1 _]]; auto.
  Qed.

  Lemma stepOK_false v : v <> Nil -> DT v -> stepOK false true v v.
  Proof.
    intros Nv Tv. apply stepOK_merge; auto.
    destruct (clean_asis_DT sh sh_perm v Tv) as (A & B & C & D).
    exists (clean_asis sh v). unfold merge. simpl. splits; auto.
  Qed.

  Lemma stepOK_true_plain v : Plain v -> DT v -> stepOK true true v v.
  Proof.
    intros Pv Tv. apply stepOK_merge; auto using Plain_not_nil.
    exists v. unfold merge. simpl merge_with. rewrite clean_fixed_plain by assumption.
    splits; auto using Plain_not_nil.
  Qed.

  (** the loop *)
  Lemma foldD fix3 st (cvf : key * cfg -> cfg) : forall L acc,
    Forall (fun kv => exists s, segk kv = [s] /\ (st = false -> snd (fst kv) = None)) L ->
    (forall kv, In kv L -> exists any, stepOK fix3 any (snd kv) (cvf kv) /\
         (any = false -> exists s, segk kv = [s] /\ grp s L = [kv] /\ lookup (K s) acc = None)) ->
    PT acc ->
    (forall s, PW xc (get (K s) acc :: map cvf (grp s L))) ->
    exists r, fold_left (top_step sh fix3 st) L (Ok acc) = Ok r /\ PT r /\
      (forall s q, dview q (get (K s) r)
                   = jfold (dview q (get (K s) acc)) (map (fun kv => dview q (cvf kv)) (grp s L))) /\
      (forall s pi s', DK (get (K s) r) pi s' ->
                       DK (get (K s) acc) pi s' \/ exists kv, In kv (grp s L) /\ DK (cvf kv) pi s').
  Proof.
    induction L as [|[k v] L' IH]; intros acc FS HK Ta HP.
    - exists acc. simpl. splits; auto.
    - apply Forall_cons_iff in FS as [(s0 & Hs0 & Hst) FS']. unfold segk in Hs0. simpl in Hs0, Hst.
      assert (Sk : (if st then strip k else k) = K s0).
      { destruct st; [unfold strip, K; rewrite Hs0; reflexivity|].
        destruct k as [a b]. simpl in *. rewrite Hs0, (Hst eq_refl). reflexivity. }
      assert (G0 : grp s0 ((k, v) :: L') = (k, v) :: grp s0 L').
      { rewrite grp_cons, Hs0. rewrite (proj2 (segs_eqb_eq _ _) eq_refl). reflexivity. }
      assert (Gs : forall s, s <> s0 -> grp s ((k, v) :: L') = grp s L').
      { intros s N. rewrite grp_cons, Hs0, segs_eqb_single.
        destruct (String.eqb s0 s) eqn:E; [apply String.eqb_eq in E; congruence | reflexivity]. }
      destruct (HK (k, v) (or_introl eq_refl)) as (any & Hstep & Hany). simpl snd in Hstep.
      set (o := get (K s0) acc).
      assert (Po := HP s0). rewrite G0 in Po. cbn [map] in Po.
      assert (Xo : xc o (cvf (k, v))).
      { apply PW_cons_iff in Po as [Po _]. apply Forall_cons_iff in Po as [Po _]. exact Po. }
      destruct (Hstep o) as (nv & Hm & Nn & Tn & Hv & Hd).
      { destruct any; [left; reflexivity | right].
        destruct (Hany eq_refl) as (s & Hs & _ & Hl). unfold segk in Hs. simpl in Hs. rewrite Hs0 in Hs. inv Hs.
        unfold o, get. rewrite Hl. reflexivity. }
      { apply PT_get. assumption. }
      { exact Xo. }
      destruct (IH (set (K s0) nv acc) FS') as (r & Hr & Tr & Hvr & Hdr).
      + intros kv Hkv. destruct (HK kv (or_intror Hkv)) as (any' & Hstep' & Hany').
        exists any'. split; [assumption|]. intro Ea. destruct (Hany' Ea) as (s & Hs & Hg & Hl).
        exists s. assert (Ns : s <> s0).
        { intro; subst s. rewrite G0 in Hg.
          assert (Hnil : grp s0 L' = []) by congruence.
          assert (H : In kv (grp s0 L')) by (apply grp_In; split; assumption).
          rewrite Hnil in H. contradiction. }
        rewrite <- (Gs s Ns). splits; auto.
        rewrite lookup_set, key_eqb_K.
        destruct (String.eqb s s0) eqn:E; [apply String.eqb_eq in E; congruence | assumption].
      + apply PT_set; assumption.
      + intro s. rewrite get_set. destruct (String.eqb s s0) eqn:E.
        * apply String.eqb_eq in E; subst s.
          apply PW_cons_iff in Po as [Po1 Po2]. apply Forall_cons_iff in Po1 as [_ Po1].
          apply PW_cons_iff in Po2 as [Po2 Po3].
          constructor; [|assumption].
          rewrite Forall_forall in *. intros c Hc.
          apply (xc_merge o (cvf (k, v)) nv c); auto. apply Xo.
        * assert (Ns : s <> s0) by (intro; subst; rewrite String.eqb_refl in E; discriminate).
          specialize (HP s). rewrite (Gs s Ns) in HP. exact HP.
      + exists r. splits; auto.
        * simpl. rewrite Sk. fold o. rewrite Hm. exact Hr.
        * intros s q. rewrite Hvr, get_set. destruct (String.eqb s s0) eqn:E.
          -- apply String.eqb_eq in E; subst s. rewrite G0. simpl. rewrite Hv. reflexivity.
          -- assert (Ns : s <> s0) by (intro; subst; rewrite String.eqb_refl in E; discriminate).
             rewrite (Gs s Ns). reflexivity.
        * intros s pi s' H. destruct (Hdr _ _ _ H) as [H1 | (kv & Hin & Hk)].
          -- rewrite get_set in H1. destruct (String.eqb s s0) eqn:E.
             ++ apply String.eqb_eq in E; subst s. destruct (Hd _ _ H1) as [H2|H2]; [left; exact H2 | right].
                exists (k, v). split; [rewrite G0; left; reflexivity | assumption].
             ++ left. assumption.
          -- right. exists kv. split; [|assumption]. destruct (String.eqb s s0) eqn:E.
             ++ apply String.eqb_eq in E; subst s. rewrite G0. right. assumption.
             ++ assert (Ns : s <> s0) by (intro; subst; rewrite String.eqb_refl in E; discriminate).
                rewrite (Gs s Ns). assumption.
  Qed.
End WithOrder.
