(** C20 — every split of the leaves of a configuration between file and
    environment: [keep sel c] is the file that holds the leaves not selected
    (holes in lists, dropped keys in maps), [sel_leaves sel c] the selected
    ones as variables.  Together they show [c] at every path ([split_of]), and
    they stay inside the property's domain when [c] is. *)
From HV Require Import Base.Prelude C20.Model C20.Spec C20.Facts C20.MergeProofs C20.ConvertProofs
  C20.NodeAlg C20.LoadProofs C20.Proofs C20.ScopeProofs.
From Coq Require Import Permutation.

Definition shift (a : seg) (e : path * string) : path * string := (a :: fst e, snd e).

(** the scalar leaves of a tree with their paths *)
Fixpoint leaves (t : cfg) : list (path * string) :=
  match t with
  | Leaf v => [([], v)]
  | Map m =>
      (fix go (m : list (key * cfg)) : list (path * string) :=
         match m with
         | [] => []
         | (k, v) :: r =>
             match fst k with
             | [s] => map (shift (SK s)) (leaves v)
             | _ => []
             end ++ go r
         end) m
  | Lst l =>
      (fix go (i : nat) (l : list cfg) : list (path * string) :=
         match l with
         | [] => []
         | v :: r => map (shift (SI i)) (leaves v) ++ go (S i) r
         end) 0 l
  | Nil => []
  end.

(** the tree without the leaves selected by [sel]: a hole in a list, no entry in a map *)
Fixpoint keep (sel : path -> bool) (t : cfg) : cfg :=
  match t with
  | Leaf v => if sel [] then Nil else Leaf v
  | Map m =>
      Map ((fix go (m : list (key * cfg)) : list (key * cfg) :=
              match m with
              | [] => []
              | (k, v) :: r =>
                  match fst k with
                  | [s] => match keep (fun p => sel (SK s :: p)) v with
                           | Nil => go r
                           | v' => (k, v') :: go r
                           end
                  | _ => go r
                  end
              end) m)
  | Lst l =>
      Lst ((fix go (i : nat) (l : list cfg) : list cfg :=
              match l with
              | [] => []
              | v :: r => keep (fun p => sel (SI i :: p)) v :: go (S i) r
              end) 0 l)
  | Nil => Nil
  end.

Definition sel_leaves (sel : path -> bool) (t : cfg) : list (path * string) :=
  filter (fun e => sel (fst e)) (leaves t).

(* ------------------------------------------------------------------ unfolding *)

Definition leaves_map : list (key * cfg) -> list (path * string) :=
  fix go (m : list (key * cfg)) : list (path * string) :=
    match m with
    | [] => []
    | (k, v) :: r => match fst k with [s] => map (shift (SK s)) (leaves v) | _ => [] end ++ go r
    end.

Definition leaves_lst : nat -> list cfg -> list (path * string) :=
  fix go (i : nat) (l : list cfg) : list (path * string) :=
    match l with
    | [] => []
    | v :: r => map (shift (SI i)) (leaves v) ++ go (S i) r
    end.

Definition keep_map (sel : path -> bool) : list (key * cfg) -> list (key * cfg) :=
  fix go (m : list (key * cfg)) : list (key * cfg) :=
    match m with
    | [] => []
    | (k, v) :: r =>
        match fst k with
        | [s] => match keep (fun p => sel (SK s :: p)) v with
                 | Nil => go r
                 | v' => (k, v') :: go r
                 end
        | _ => go r
        end
    end.

Definition keep_lst (sel : path -> bool) : nat -> list cfg -> list cfg :=
  fix go (i : nat) (l : list cfg) : list cfg :=
    match l with
    | [] => []
    | v :: r => keep (fun p => sel (SI i :: p)) v :: go (S i) r
    end.

Lemma leaves_Map m : leaves (Map m) = leaves_map m. Proof. reflexivity. Qed.
Lemma leaves_Lst l : leaves (Lst l) = leaves_lst 0 l. Proof. reflexivity. Qed.
Lemma keep_Map sel m : keep sel (Map m) = Map (keep_map sel m). Proof. reflexivity. Qed.
Lemma keep_Lst sel l : keep sel (Lst l) = Lst (keep_lst sel 0 l). Proof. reflexivity. Qed.

Lemma leaves_map_cons s v r : leaves_map ((K s, v) :: r) = map (shift (SK s)) (leaves v) ++ leaves_map r.
Proof. reflexivity. Qed.

Lemma leaves_lst_cons i v r : leaves_lst i (v :: r) = map (shift (SI i)) (leaves v) ++ leaves_lst (S i) r.
Proof. reflexivity. Qed.

Lemma keep_map_cons sel s v r :
  keep_map sel ((K s, v) :: r) =
  match keep (fun p => sel (SK s :: p)) v with
  | Nil => keep_map sel r
  | v' => (K s, v') :: keep_map sel r
  end.
Proof. reflexivity. Qed.

Lemma keep_lst_cons sel i v r :
  keep_lst sel i (v :: r) = keep (fun p => sel (SI i :: p)) v :: keep_lst sel (S i) r.
Proof. reflexivity. Qed.

Lemma filter_shift (sel : path -> bool) (a : seg) (L : list (path * string)) :
  filter (fun e : path * string => sel (fst e)) (map (shift a) L)
  = map (shift a) (filter (fun e : path * string => sel (@cons seg a (@fst path string e))) L).
Proof.
  induction L as [|e r IH]; [reflexivity|].
  cbn [map filter]. unfold shift at 1. cbn [fst].
  destruct (sel (a :: fst e)); cbn [map]; rewrite IH; reflexivity.
Qed.

(* ------------------------------------------------------------------ env_view of pieces *)

Lemma env_view_cons e r p : env_view (e :: r) p = njoin (env_view r p) (contrib p e).
Proof. reflexivity. Qed.

Lemma env_view_app_none_l L1 L2 p :
  (forall e, In e L1 -> contrib p e = NNone) -> env_view (L1 ++ L2) p = env_view L2 p.
Proof.
  induction L1 as [|e r IH]; intro H; simpl app; [reflexivity|].
  rewrite env_view_cons, (H e (or_introl eq_refl)), njoin_none_r. apply IH.
  intros e' He'. apply H. right; assumption.
Qed.

Lemma env_view_app_none_r L1 L2 p :
  (forall e, In e L2 -> contrib p e = NNone) -> env_view (L1 ++ L2) p = env_view L1 p.
Proof.
  intro H. induction L1 as [|e r IH]; simpl app.
  - apply env_view_all_none. assumption.
  - rewrite !env_view_cons, IH. reflexivity.
Qed.

Lemma contrib_shift_same a q e : contrib (a :: q) (shift a e) = contrib q e.
Proof.
  unfold contrib, shift. simpl.
  assert (E : seg_eqb a a = true) by (apply seg_eqb_eq; reflexivity). rewrite E. reflexivity.
Qed.

Lemma contrib_shift_other a b q e : a <> b -> contrib (a :: q) (shift b e) = NNone.
Proof.
  intro N. unfold contrib, shift. simpl.
  destruct (seg_eqb a b) eqn:E; [apply seg_eqb_eq in E; contradiction | reflexivity].
Qed.

Lemma env_view_shift_same a q L : env_view (map (shift a) L) (a :: q) = env_view L q.
Proof.
  induction L as [|e r IH]; [reflexivity|].
  simpl map. rewrite !env_view_cons, IH, contrib_shift_same. reflexivity.
Qed.

Lemma env_view_shift_other a b q L : a <> b -> env_view (map (shift b) L) (a :: q) = NNone.
Proof.
  intro N. apply env_view_all_none. intros e He. apply in_map_iff in He as (e' & <- & _).
  apply contrib_shift_other. assumption.
Qed.

Lemma contrib_root_shift a e : contrib [] (shift a e) = match a with SK _ => NMap | SI i => NLst (S i) end.
Proof. reflexivity. Qed.

(* ------------------------------------------------------------------ the split shows the tree *)

Definition split_goal (t : cfg) : Prop :=
  forall sel p, Tidy t -> njoin (view p (keep sel t)) (env_view (sel_leaves sel t) p) = view p t.

Lemma sel_leaves_map_cons sel s v r :
  filter (fun e => sel (fst e)) (leaves_map ((K s, v) :: r)) =
  map (shift (SK s)) (sel_leaves (fun p => sel (SK s :: p)) v) ++ filter (fun e => sel (fst e)) (leaves_map r).
Proof. rewrite leaves_map_cons, filter_app, filter_shift. reflexivity. Qed.

Lemma sel_leaves_lst_cons sel i v r :
  filter (fun e => sel (fst e)) (leaves_lst i (v :: r)) =
  map (shift (SI i)) (sel_leaves (fun p => sel (SI i :: p)) v) ++ filter (fun e => sel (fst e)) (leaves_lst (S i) r).
Proof. rewrite leaves_lst_cons, filter_app, filter_shift. reflexivity. Qed.

Lemma keep_map_keys sel : forall m k, In k (map fst (keep_map sel m)) -> In k (map fst m).
Proof.
  induction m as [|[[segs tg] v] r IH]; intros k H; [contradiction|].
  simpl map. destruct segs as [|a [|b c]].
  - right. apply IH. exact H.
  - change (keep_map sel ((([a], tg), v) :: r))
      with (match keep (fun p => sel (SK a :: p)) v with
            | Nil => keep_map sel r
            | v' => (([a], tg), v') :: keep_map sel r
            end) in H.
    destruct (keep (fun p => sel (SK a :: p)) v); simpl in H;
      try (destruct H as [H|H]; [left; assumption | right; apply IH; assumption]).
    right. apply IH. assumption.
  - right. apply IH. exact H.
Qed.

Lemma keep_map_lookup sel : forall m s,
  NoDup (map fst m) -> Forall entry_ok m ->
  view [] (Map m) = NMap ->
  forall q, view (SK s :: q) (Map (keep_map sel m)) =
            match lookup (K s) m with
            | Some v => view q (keep (fun p => sel (SK s :: p)) v)
            | None => NNone
            end.
Proof.
  induction m as [|[k v] r IH]; intros s ND FE _ q; [reflexivity|].
  apply Forall_cons_iff in FE as [((s0 & Hs0) & _) FE']. simpl in Hs0. subst k.
  simpl in ND. apply NoDup_cons_iff in ND as [Nin ND'].
  rewrite keep_map_cons. simpl lookup. rewrite key_eqb_K.
  destruct (String.eqb s s0) eqn:E.
  - apply String.eqb_eq in E. subst s0.
    assert (Hr : lookup (K s) (keep_map sel r) = None).
    { apply lookup_None. intro H. apply Nin. apply (keep_map_keys sel r). assumption. }
    destruct (keep (fun p => sel (SK s :: p)) v) eqn:Ek; simpl; rewrite ?key_eqb_refl; try reflexivity.
    rewrite Hr. symmetry. apply view_Nil.
  - assert (X : view (SK s :: q) (Map (keep_map sel r)) =
                match lookup (K s) r with
                | Some v0 => view q (keep (fun p => sel (SK s :: p)) v0)
                | None => NNone
                end) by (apply IH; auto).
    destruct (keep (fun p => sel (SK s0 :: p)) v); simpl; rewrite ?key_eqb_K, ?E; exact X.
Qed.

Lemma env_view_app_r0 L1 L2 p : env_view L2 p = NNone -> env_view (L1 ++ L2) p = env_view L1 p.
Proof.
  intro H. induction L1 as [|e r IH]; simpl app; [assumption|].
  rewrite !env_view_cons, IH. reflexivity.
Qed.

Lemma seg_SK_neq s s0 : String.eqb s s0 = false -> SK s <> SK s0.
Proof. intros E H. inv H. rewrite String.eqb_refl in E. discriminate. Qed.

Lemma env_view_leaves_map sel : forall m s q,
  NoDup (map fst m) -> Forall entry_ok m ->
  env_view (filter (fun e => sel (fst e)) (leaves_map m)) (SK s :: q) =
  match lookup (K s) m with
  | Some v => env_view (sel_leaves (fun p => sel (SK s :: p)) v) q
  | None => NNone
  end.
Proof.
  induction m as [|[k v] r IH]; intros s q ND FE; [reflexivity|].
  apply Forall_cons_iff in FE as [((s0 & Hs0) & _) FE']. simpl in Hs0. subst k.
  simpl in ND. apply NoDup_cons_iff in ND as [Nin ND'].
  rewrite sel_leaves_map_cons. simpl lookup. rewrite key_eqb_K.
  destruct (String.eqb s s0) eqn:E.
  - apply String.eqb_eq in E. subst s0.
    rewrite env_view_app_r0.
    + apply env_view_shift_same.
    + rewrite (IH s q ND' FE').
      assert (L : lookup (K s) r = None) by (apply lookup_None; assumption). rewrite L. reflexivity.
  - rewrite env_view_app_none_l; [apply IH; assumption|].
    intros e He. apply in_map_iff in He as (e' & <- & _). apply contrib_shift_other. apply seg_SK_neq. assumption.
Qed.

Lemma split_map sel m :
  NoDup (map fst m) -> Forall entry_ok m -> Forall (fun kv => split_goal (snd kv)) m ->
  forall s q,
    njoin (view (SK s :: q) (Map (keep_map sel m)))
          (env_view (filter (fun e => sel (fst e)) (leaves_map m)) (SK s :: q))
    = view (SK s :: q) (Map m).
Proof.
  intros ND FE HG s q.
  rewrite (keep_map_lookup sel m s ND FE eq_refl q), (env_view_leaves_map sel m s q ND FE).
  simpl view. destruct (lookup (K s) m) as [v|] eqn:E; [|reflexivity].
  apply lookup_In in E. rewrite Forall_forall in HG, FE.
  destruct (FE _ E) as (_ & _ & Tv). apply (HG _ E). assumption.
Qed.

Lemma keep_lst_length sel : forall l j, length (keep_lst sel j l) = length l.
Proof. induction l as [|v r IH]; intro j; [reflexivity|]. rewrite keep_lst_cons. simpl. rewrite IH. reflexivity. Qed.

Lemma keep_lst_nth sel : forall l j i q,
  view (SI i :: q) (Lst (keep_lst sel j l)) =
  match nth_error l i with
  | Some v => view q (keep (fun p => sel (SI (j + i) :: p)) v)
  | None => NNone
  end.
Proof.
  induction l as [|v r IH]; intros j i q.
  - destruct i; reflexivity.
  - rewrite keep_lst_cons. destruct i as [|i].
    + rewrite Nat.add_0_r. reflexivity.
    + change (view (SI (S i) :: q) (Lst (keep (fun p => sel (SI j :: p)) v :: keep_lst sel (S j) r)))
        with (view (SI i :: q) (Lst (keep_lst sel (S j) r))).
      rewrite IH. simpl nth_error. replace (S j + i) with (j + S i) by lia. reflexivity.
Qed.

Lemma seg_SI_neq i j : i <> j -> SI i <> SI j.
Proof. intros N H. inv H. contradiction. Qed.

Lemma env_view_leaves_lst_below sel : forall l j k q, k < j ->
  env_view (filter (fun e => sel (fst e)) (leaves_lst j l)) (SI k :: q) = NNone.
Proof.
  induction l as [|v r IH]; intros j k q H; [reflexivity|].
  rewrite sel_leaves_lst_cons. rewrite env_view_app_none_l.
  - apply IH. lia.
  - intros e He. apply in_map_iff in He as (e' & <- & _). apply contrib_shift_other. apply seg_SI_neq. lia.
Qed.

Lemma env_view_leaves_lst sel : forall l j i q,
  env_view (filter (fun e => sel (fst e)) (leaves_lst j l)) (SI (j + i) :: q) =
  match nth_error l i with
  | Some v => env_view (sel_leaves (fun p => sel (SI (j + i) :: p)) v) q
  | None => NNone
  end.
Proof.
  induction l as [|v r IH]; intros j i q.
  - destruct i; reflexivity.
  - rewrite sel_leaves_lst_cons. destruct i as [|i].
    + rewrite Nat.add_0_r. rewrite env_view_app_r0; [apply env_view_shift_same|].
      apply env_view_leaves_lst_below. lia.
    + rewrite env_view_app_none_l.
      * replace (j + S i) with (S j + i) by lia. apply IH.
      * intros e He. apply in_map_iff in He as (e' & <- & _). apply contrib_shift_other. apply seg_SI_neq. lia.
Qed.

Lemma split_lst sel l :
  Forall Tidy l -> Forall split_goal l ->
  forall i q,
    njoin (view (SI i :: q) (Lst (keep_lst sel 0 l)))
          (env_view (filter (fun e => sel (fst e)) (leaves_lst 0 l)) (SI i :: q))
    = view (SI i :: q) (Lst l).
Proof.
  intros FT HG i q.
  rewrite keep_lst_nth. assert (E0 := env_view_leaves_lst sel l 0 i q). simpl in E0. rewrite E0. simpl.
  destruct (nth_error l i) as [v|] eqn:E; [|reflexivity].
  apply nth_error_In in E. rewrite Forall_forall in HG, FT. apply (HG _ E). apply FT. assumption.
Qed.

Lemma env_view_root_map L :
  (forall e, In e L -> exists s r, fst e = SK s :: r) -> env_view L [] = NNone \/ env_view L [] = NMap.
Proof.
  induction L as [|e r IH]; intro H; [left; reflexivity|].
  right. rewrite env_view_cons. destruct (H e (or_introl eq_refl)) as (s & t & E).
  unfold contrib. rewrite E. simpl. destruct (env_view r []); reflexivity.
Qed.

Lemma env_view_root_lst n L :
  (forall e, In e L -> exists i r, fst e = SI i :: r /\ i < n) ->
  env_view L [] = NNone \/ exists k, k <= n /\ env_view L [] = NLst k.
Proof.
  induction L as [|e r IH]; intro H; [left; reflexivity|].
  right. rewrite env_view_cons. destruct (H e (or_introl eq_refl)) as (i & t & E & Hi).
  unfold contrib. rewrite E. simpl.
  destruct IH as [-> | (k & Hk & ->)]; [intros e' He'; apply H; right; assumption | |].
  - exists (S i). split; [lia | reflexivity].
  - exists (Nat.max k (S i)). split; [lia | reflexivity].
Qed.

Lemma leaves_map_heads m e : In e (leaves_map m) -> exists s r, fst e = SK s :: r.
Proof.
  induction m as [|[k v] m' IH]; simpl; [tauto|]. intro H. apply in_app_or in H as [H|H]; [|auto].
  destruct (fst k) as [|s [|s2 ss]]; simpl in H; try tauto.
  apply in_map_iff in H as (e' & <- & _). simpl. eauto.
Qed.

Lemma leaves_lst_heads : forall l j e, In e (leaves_lst j l) -> exists i r, fst e = SI i :: r /\ i < j + length l.
Proof.
  induction l as [|v r IH]; intros j e H; [contradiction|].
  rewrite leaves_lst_cons in H. apply in_app_or in H as [H|H].
  - apply in_map_iff in H as (e' & <- & _). exists j, (fst e'). simpl. split; [reflexivity | lia].
  - destruct (IH (S j) e H) as (i & t & E & Hi). exists i, t. simpl. split; [assumption | lia].
Qed.

(** file and selected variables together show the tree, at every path *)
Theorem split_shows : forall t, split_goal t.
Proof.
  induction t as [| v | m IH | l IH] using cfg_ind'; intros sel p T.
  - simpl. rewrite view_Nil. reflexivity.
  - unfold sel_leaves. simpl. destruct (sel []); simpl.
    + rewrite view_Nil, njoin_none_l. unfold env_view. simpl. rewrite njoin_none_l. apply contrib_nil_path.
    + apply njoin_none_r.
  - destruct (Tidy_Map_inv _ T) as [ND FE].
    unfold sel_leaves. rewrite keep_Map, leaves_Map. destruct p as [|[s|i] q].
    + destruct (env_view_root_map (filter (fun e => sel (fst e)) (leaves_map m))) as [-> | ->]; [|reflexivity..].
      intros e He. apply filter_In in He as [He _]. apply leaves_map_heads in He. assumption.
    + apply split_map; assumption.
    + rewrite env_view_all_none; [reflexivity|].
      intros e He. apply filter_In in He as [He _]. apply leaves_map_heads in He as (s & r & E).
      unfold contrib. rewrite E. reflexivity.
  - assert (FT := Tidy_Lst_inv _ T).
    unfold sel_leaves. rewrite keep_Lst, leaves_Lst. destruct p as [|[s|i] q].
    + simpl view. rewrite keep_lst_length.
      destruct (env_view_root_lst (length l) (filter (fun e => sel (fst e)) (leaves_lst 0 l))) as [-> | (k & Hk & ->)].
      * intros e He. apply filter_In in He as [He _]. apply leaves_lst_heads in He. assumption.
      * reflexivity.
      * simpl. f_equal. lia.
    + rewrite env_view_all_none; [reflexivity|].
      intros e He. apply filter_In in He as [He _]. apply leaves_lst_heads in He as (i & r & E & _).
      unfold contrib. rewrite E. reflexivity.
    + apply split_lst; assumption.
Qed.

Corollary split_of_keep c sel :
  Tidy (Map c) -> split_of c (keep_map sel c) (sel_leaves sel (Map c)).
Proof. intros T p. rewrite <- keep_Map. apply split_shows. assumption. Qed.
