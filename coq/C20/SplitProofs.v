(** C20 — every split of the leaves of a configuration between file and
    environment: [keep sel c] is the file that holds the leaves not selected
    (holes in lists, dropped keys in maps), [sel_leaves sel c] the selected
    ones as variables.  Together they show [c] at every path ([split_of]), and
    they stay inside the property's domain when [c] is. *)
From HV Require Import Base.Prelude C20.Model C20.Spec C20.Facts C20.MergeProofs C20.ConvertProofs
  C20.NodeAlg C20.LoadProofs C20.Proofs C20.ScopeProofs.
From Coq Require Import Permutation.

Definition shift (a : seg) (e : path * string) : path * string := (a :: fst e, snd e).

(** the scalar leaves of a tree with their paths *)
Fixpoint leaves (t : cfg) : list (path * string) :=
  match t with
  | Leaf v => [([], v)]
  | Map m =>
      (fix go (m : list (key * cfg)) : list (path * string) :=
         match m with
         | [] => []
         | (k, v) :: r =>
             match fst k with
             | [s] => map (shift (SK s)) (leaves v)
             | _ => []
             end ++ go r
         end) m
  | Lst l =>
      (fix go (i : nat) (l : list cfg) : list (path * string) :=
         match l with
         | [] => []
         | v :: r => map (shift (SI i)) (leaves v) ++ go (S i) r
         end) 0 l
  | Nil => []
  end.

(** the tree without the leaves selected by [sel]: a hole in a list, no entry in a map *)
Fixpoint keep (sel : path -> bool) (t : cfg) : cfg :=
  match t with
  | Leaf v => if sel [] then Nil else Leaf v
  | Map m =>
      Map ((fix go (m : list (key * cfg)) : list (key * cfg) :=
              match m with
              | [] => []
              | (k, v) :: r =>
                  match fst k with
                  | [s] => match keep (fun p => sel (SK s :: p)) v with
                           | Nil => go r
                           | v' => (k, v') :: go r
                           end
                  | _ => go r
                  end
              end) m)
  | Lst l =>
      Lst ((fix go (i : nat) (l : list cfg) : list cfg :=
              match l with
              | [] => []
              | v :: r => keep (fun p => sel (SI i :: p)) v :: go (S i) r
              end) 0 l)
  | Nil => Nil
  end.

Definition sel_leaves (sel : path -> bool) (t : cfg) : list (path * string) :=
  filter (fun e => sel (fst e)) (leaves t).

(* ------------------------------------------------------------------ unfolding *)

Definition leaves_map : list (key * cfg) -> list (path * string) :=
  fix go (m : list (key * cfg)) : list (path * string) :=
    match m with
    | [] => []
    | (k, v) :: r => match fst k with [s] => map (shift (SK s)) (leaves v) | _ => [] end ++ go r
    end.

Definition leaves_lst : nat -> list cfg -> list (path * string) :=
  fix go (i : nat) (l : list cfg) : list (path * string) :=
    match l with
    | [] => []
    | v :: r => map (shift (SI i)) (leaves v) ++ go (S i) r
    end.

Definition keep_map (sel : path -> bool) : list (key * cfg) -> list (key * cfg) :=
  fix go (m : list (key * cfg)) : list (key * cfg) :=
    match m with
    | [] => []
    | (k, v) :: r =>
        match fst k with
        | [s] => match keep (fun p => sel (SK s :: p)) v with
                 | Nil => go r
                 | v' => (k, v') :: go r
                 end
        | _ => go r
        end
    end.

Definition keep_lst (sel : path -> bool) : nat -> list cfg -> list cfg :=
  fix go (i : nat) (l : list cfg) : list cfg :=
    match l with
    | [] => []
    | v :: r => keep (fun p => sel (SI i :: p)) v :: go (S i) r
    end.

Lemma leaves_Map m : leaves (Map m) = leaves_map m. Proof. reflexivity. Qed.
Lemma leaves_Lst l : leaves (Lst l) = leaves_lst 0 l. Proof. reflexivity. Qed.
Lemma keep_Map sel m : keep sel (Map m) = Map (keep_map sel m). Proof. reflexivity. Qed.
Lemma keep_Lst sel l : keep sel (Lst l) = Lst (keep_lst sel 0 l). Proof. reflexivity. Qed.

Lemma leaves_map_cons s v r : leaves_map ((K s, v) :: r) = map (shift (SK s)) (leaves v) ++ leaves_map r.
Proof. reflexivity. Qed.

Lemma leaves_lst_cons i v r : leaves_lst i (v :: r) = map (shift (SI i)) (leaves v) ++ leaves_lst (S i) r.
Proof. reflexivity. Qed.

Lemma keep_map_cons sel s v r :
  keep_map sel ((K s, v) :: r) =
  match keep (fun p => sel (SK s :: p)) v with
  | Nil => keep_map sel r
  | v' => (K s, v') :: keep_map sel r
  end.
Proof. reflexivity. Qed.

Lemma keep_lst_cons sel i v r :
  keep_lst sel i (v :: r) = keep (fun p => sel (SI i :: p)) v :: keep_lst sel (S i) r.
Proof. reflexivity. Qed.

Lemma filter_shift (sel : path -> bool) (a : seg) (L : list (path * string)) :
  filter (fun e : path * string => sel (fst e)) (map (shift a) L)
  = map (shift a) (filter (fun e : path * string => sel (@cons seg a (@fst path string e))) L).
Proof.
  induction L as [|e r IH]; [reflexivity|].
  cbn [map filter]. unfold shift at 1. cbn [fst].
  destruct (sel (a :: fst e)); cbn [map]; rewrite IH; reflexivity.
Qed.

(* ------------------------------------------------------------------ env_view of pieces *)

Lemma env_view_cons e r p : env_view (e :: r) p = njoin (env_view r p) (contrib p e).
Proof. reflexivity. Qed.

Lemma env_view_app_none_l L1 L2 p :
  (forall e, In e L1 -> contrib p e = NNone) -> env_view (L1 ++ L2) p = env_view L2 p.
Proof.
  induction L1 as [|e r IH]; intro H; simpl app; [reflexivity|].
  rewrite env_view_cons, (H e (or_introl eq_refl)), njoin_none_r. apply IH.
  intros e' He'. apply H. right; assumption.
Qed.

Lemma env_view_app_none_r L1 L2 p :
  (forall e, In e L2 -> contrib p e = NNone) -> env_view (L1 ++ L2) p = env_view L1 p.
Proof.
  intro H. induction L1 as [|e r IH]; simpl app.
  - apply env_view_all_none. assumption.
  - rewrite !env_view_cons, IH. reflexivity.
Qed.

Lemma contrib_shift_same a q e : contrib (a :: q) (shift a e) = contrib q e.
Proof.
  unfold contrib, shift. simpl.
  assert (E : seg_eqb a a = true) by (apply seg_eqb_eq; reflexivity). rewrite E. reflexivity.
Qed.

Lemma contrib_shift_other a b q e : a <> b -> contrib (a :: q) (shift b e) = NNone.
Proof.
  intro N. unfold contrib, shift. simpl.
  destruct (seg_eqb a b) eqn:E; [apply seg_eqb_eq in E; contradiction | reflexivity].
Qed.

Lemma env_view_shift_same a q L : env_view (map (shift a) L) (a :: q) = env_view L q.
Proof.
  induction L as [|e r IH]; [reflexivity|].
  simpl map. rewrite !env_view_cons, IH, contrib_shift_same. reflexivity.
Qed.

Lemma env_view_shift_other a b q L : a <> b -> env_view (map (shift b) L) (a :: q) = NNone.
Proof.
  intro N. apply env_view_all_none. intros e He. apply in_map_iff in He as (e' & <- & _).
  apply contrib_shift_other. assumption.
Qed.

Lemma contrib_root_shift a e : contrib [] (shift a e) = match a with SK _ => NMap | SI i => NLst (S i) end.
Proof. reflexivity. Qed.

(* ------------------------------------------------------------------ the split shows the tree *)

Definition split_goal (t : cfg) : Prop :=
  forall sel p, Tidy t -> njoin (view p (keep sel t)) (env_view (sel_leaves sel t) p) = view p t.

Lemma sel_leaves_map_cons sel s v r :
  filter (fun e => sel (fst e)) (leaves_map ((K s, v) :: r)) =
  map (shift (SK s)) (sel_leaves (fun p => sel (SK s :: p)) v) ++ filter (fun e => sel (fst e)) (leaves_map r).
Proof. rewrite leaves_map_cons, filter_app, filter_shift. reflexivity. Qed.

Lemma sel_leaves_lst_cons sel i v r :
  filter (fun e => sel (fst e)) (leaves_lst i (v :: r)) =
  map (shift (SI i)) (sel_leaves (fun p => sel (SI i :: p)) v) ++ filter (fun e => sel (fst e)) (leaves_lst (S i) r).
Proof. rewrite leaves_lst_cons, filter_app, filter_shift. reflexivity. Qed.

Lemma keep_map_keys sel : forall m k, In k (map fst (keep_map sel m)) -> In k (map fst m).
Proof.
  induction m as [|[[segs tg] v] r IH]; intros k H; [contradiction|].
  simpl map. destruct segs as [|a [|b c]].
  - right. apply IH. exact H.
  - change (keep_map sel ((([a], tg), v) :: r))
      with (match keep (fun p => sel (SK a :: p)) v with
            | Nil => keep_map sel r
            | v' => (([a], tg), v') :: keep_map sel r
            end) in H.
    destruct (keep (fun p => sel (SK a :: p)) v); simpl in H;
      try (destruct H as [H|H]; [left; assumption | right; apply IH; assumption]).
    right. apply IH. assumption.
  - right. apply IH. exact H.
Qed.

Lemma keep_map_lookup sel : forall m s,
  NoDup (map fst m) -> Forall entry_ok m ->
  view [] (Map m) = NMap ->
  forall q, view (SK s :: q) (Map (keep_map sel m)) =
            match lookup (K s) m with
            | Some v => view q (keep (fun p => sel (SK s :: p)) v)
            | None => NNone
            end.
Proof.
  induction m as [|[k v] r IH]; intros s ND FE _ q; [reflexivity|].
  apply Forall_cons_iff in FE as [((s0 & Hs0) & _) FE']. simpl in Hs0. subst k.
  simpl in ND. apply NoDup_cons_iff in ND as [Nin ND'].
  rewrite keep_map_cons. simpl lookup. rewrite key_eqb_K.
  destruct (String.eqb s s0) eqn:E.
  - apply String.eqb_eq in E. subst s0.
    assert (Hr : lookup (K s) (keep_map sel r) = None).
    { apply lookup_None. intro H. apply Nin. apply (keep_map_keys sel r). assumption. }
    destruct (keep (fun p => sel (SK s :: p)) v) eqn:Ek; simpl; rewrite ?key_eqb_refl; try reflexivity.
    rewrite Hr. symmetry. apply view_Nil.
  - assert (X : view (SK s :: q) (Map (keep_map sel r)) =
                match lookup (K s) r with
                | Some v0 => view q (keep (fun p => sel (SK s :: p)) v0)
                | None => NNone
                end) by (apply IH; auto).
    destruct (keep (fun p => sel (SK s0 :: p)) v); simpl; rewrite ?key_eqb_K, ?E; exact X.
Qed.

Lemma env_view_app_r0 L1 L2 p : env_view L2 p = NNone -> env_view (L1 ++ L2) p = env_view L1 p.
Proof.
  intro H. induction L1 as [|e r IH]; simpl app; [assumption|].
  rewrite !env_view_cons, IH. reflexivity.
Qed.

Lemma seg_SK_neq s s0 : String.eqb s s0 = false -> SK s <> SK s0.
Proof. intros E H. inv H. rewrite String.eqb_refl in E. discriminate. Qed.

Lemma env_view_leaves_map sel : forall m s q,
  NoDup (map fst m) -> Forall entry_ok m ->
  env_view (filter (fun e => sel (fst e)) (leaves_map m)) (SK s :: q) =
  match lookup (K s) m with
  | Some v => env_view (sel_leaves (fun p => sel (SK s :: p)) v) q
  | None => NNone
  end.
Proof.
  induction m as [|[k v] r IH]; intros s q ND FE; [reflexivity|].
  apply Forall_cons_iff in FE as [((s0 & Hs0) & _) FE']. simpl in Hs0. subst k.
  simpl in ND. apply NoDup_cons_iff in ND as [Nin ND'].
  rewrite sel_leaves_map_cons. simpl lookup. rewrite key_eqb_K.
  destruct (String.eqb s s0) eqn:E.
  - apply String.eqb_eq in E. subst s0.
    rewrite env_view_app_r0.
    + apply env_view_shift_same.
    + rewrite (IH s q ND' FE').
      assert (L : lookup (K s) r = None) by (apply lookup_None; assumption). rewrite L. reflexivity.
  - rewrite env_view_app_none_l; [apply IH; assumption|].
    intros e He. apply in_map_iff in He as (e' & <- & _). apply contrib_shift_other. apply seg_SK_neq. assumption.
Qed.

Lemma split_map sel m :
  NoDup (map fst m) -> Forall entry_ok m -> Forall (fun kv => split_goal (snd kv)) m ->
  forall s q,
    njoin (view (SK s :: q) (Map (keep_map sel m)))
          (env_view (filter (fun e => sel (fst e)) (leaves_map m)) (SK s :: q))
    = view (SK s :: q) (Map m).
Proof.
  intros ND FE HG s q.
  rewrite (keep_map_lookup sel m s ND FE eq_refl q), (env_view_leaves_map sel m s q ND FE).
  simpl view. destruct (lookup (K s) m) as [v|] eqn:E; [|reflexivity].
  apply lookup_In in E. rewrite Forall_forall in HG, FE.
  destruct (FE _ E) as (_ & _ & Tv). apply (HG _ E). assumption.
Qed.

Lemma keep_lst_length sel : forall l j, length (keep_lst sel j l) = length l.
Proof. induction l as [|v r IH]; intro j; [reflexivity|]. rewrite keep_lst_cons. simpl. rewrite IH. reflexivity. Qed.

Lemma keep_lst_nth sel : forall l j i q,
  view (SI i :: q) (Lst (keep_lst sel j l)) =
  match nth_error l i with
  | Some v => view q (keep (fun p => sel (SI (j + i) :: p)) v)
  | None => NNone
  end.
Proof.
  induction l as [|v r IH]; intros j i q.
  - destruct i; reflexivity.
  - rewrite keep_lst_cons. destruct i as [|i].
    + rewrite Nat.add_0_r. reflexivity.
    + change (view (SI (S i) :: q) (Lst (keep (fun p => sel (SI j :: p)) v :: keep_lst sel (S j) r)))
        with (view (SI i :: q) (Lst (keep_lst sel (S j) r))).
      rewrite IH. simpl nth_error. replace (S j + i) with (j + S i) by lia. reflexivity.
Qed.

Lemma seg_SI_neq i j : i <> j -> SI i <> SI j.
Proof. intros N H. inv H. contradiction. Qed.

Lemma env_view_leaves_lst_below sel : forall l j k q, k < j ->
  env_view (filter (fun e => sel (fst e)) (leaves_lst j l)) (SI k :: q) = NNone.
Proof.
  induction l as [|v r IH]; intros j k q H; [reflexivity|].
  rewrite sel_leaves_lst_cons. rewrite env_view_app_none_l.
  - apply IH. lia.
  - intros e He. apply in_map_iff in He as (e' & <- & _). apply contrib_shift_other. apply seg_SI_neq. lia.
Qed.

Lemma env_view_leaves_lst sel : forall l j i q,
  env_view (filter (fun e => sel (fst e)) (leaves_lst j l)) (SI (j + i) :: q) =
  match nth_error l i with
  | Some v => env_view (sel_leaves (fun p => sel (SI (j + i) :: p)) v) q
  | None => NNone
  end.
Proof.
  induction l as [|v r IH]; intros j i q.
  - destruct i; reflexivity.
  - rewrite sel_leaves_lst_cons. destruct i as [|i].
    + rewrite Nat.add_0_r. rewrite env_view_app_r0; [apply env_view_shift_same|].
      apply env_view_leaves_lst_below. lia.
    + rewrite env_view_app_none_l.
      * replace (j + S i) with (S j + i) by lia. apply IH.
      * intros e He. apply in_map_iff in He as (e' & <- & _). apply contrib_shift_other. apply seg_SI_neq. lia.
Qed.

Lemma split_lst sel l :
  Forall Tidy l -> Forall split_goal l ->
  forall i q,
    njoin (view (SI i :: q) (Lst (keep_lst sel 0 l)))
          (env_view (filter (fun e => sel (fst e)) (leaves_lst 0 l)) (SI i :: q))
    = view (SI i :: q) (Lst l).
Proof.
  intros FT HG i q.
  rewrite keep_lst_nth. assert (E0 := env_view_leaves_lst sel l 0 i q). simpl in E0. rewrite E0. simpl.
  destruct (nth_error l i) as [v|] eqn:E; [|reflexivity].
  apply nth_error_In in E. rewrite Forall_forall in HG, FT. apply (HG _ E). apply FT. assumption.
Qed.

Lemma env_view_root_map L :
  (forall e, In e L -> exists s r, fst e = SK s :: r) -> env_view L [] = NNone \/ env_view L [] = NMap.
Proof.
  induction L as [|e r IH]; intro H; [left; reflexivity|].
  right. rewrite env_view_cons. destruct (H e (or_introl eq_refl)) as (s & t & E).
  destruct e as [pe ve]. simpl in E. subst pe. unfold contrib. simpl. destruct (env_view r []); reflexivity.
Qed.

Lemma env_view_root_lst n L :
  (forall e, In e L -> exists i r, fst e = SI i :: r /\ i < n) ->
  env_view L [] = NNone \/ exists k, k <= n /\ env_view L [] = NLst k.
Proof.
  induction L as [|e r IH]; intro H; [left; reflexivity|].
  right. rewrite env_view_cons. destruct (H e (or_introl eq_refl)) as (i & t & E & Hi).
  destruct e as [pe ve]. simpl in E. subst pe. unfold contrib. simpl.
  destruct IH as [-> | (k & Hk & ->)]; [intros e' He'; apply H; right; assumption | |].
  - exists (S i). split; [lia | reflexivity].
  - exists (Nat.max k (S i)). split; [lia | reflexivity].
Qed.

Lemma leaves_map_heads m e : In e (leaves_map m) -> exists s r, fst e = SK s :: r.
Proof.
  induction m as [|[k v] m' IH]; simpl; [tauto|]. intro H. apply in_app_or in H as [H|H]; [|auto].
  destruct (fst k) as [|s [|s2 ss]]; simpl in H; try tauto.
  apply in_map_iff in H as (e' & <- & _). simpl. eauto.
Qed.

Lemma leaves_lst_heads : forall l j e, In e (leaves_lst j l) -> exists i r, fst e = SI i :: r /\ i < j + length l.
Proof.
  induction l as [|v r IH]; intros j e H; [contradiction|].
  rewrite leaves_lst_cons in H. apply in_app_or in H as [H|H].
  - apply in_map_iff in H as (e' & <- & _). exists j, (fst e'). simpl. split; [reflexivity | lia].
  - destruct (IH (S j) e H) as (i & t & E & Hi). exists i, t. simpl. split; [assumption | lia].
Qed.

(** file and selected variables together show the tree, at every path *)
Theorem split_shows : forall t, split_goal t.
Proof.
  induction t as [| v | m IH | l IH] using cfg_ind'; intros sel p T.
  - simpl. rewrite view_Nil. reflexivity.
  - unfold sel_leaves. cbn [leaves filter fst keep]. destruct (sel []).
    + rewrite view_Nil, njoin_none_l. rewrite env_view_cons. change (env_view [] p) with NNone.
      rewrite njoin_none_l. apply contrib_nil_path.
    + change (env_view [] p) with NNone. apply njoin_none_r.
  - destruct (Tidy_Map_inv _ T) as [ND FE].
    unfold sel_leaves. rewrite keep_Map, leaves_Map. destruct p as [|[s|i] q].
    + destruct (env_view_root_map (filter (fun e => sel (fst e)) (leaves_map m))) as [-> | ->]; [|reflexivity..].
      intros e He. apply filter_In in He as [He _]. apply leaves_map_heads in He. assumption.
    + apply split_map; assumption.
    + rewrite env_view_all_none; [reflexivity|].
      intros e He. apply filter_In in He as [He _]. apply leaves_map_heads in He as (s & r & E).
      destruct e as [pe ve]. simpl in E. subst pe. reflexivity.
  - assert (FT := Tidy_Lst_inv _ T).
    unfold sel_leaves. rewrite keep_Lst, leaves_Lst. destruct p as [|[s|i] q].
    + simpl view. rewrite keep_lst_length.
      destruct (env_view_root_lst (length l) (filter (fun e => sel (fst e)) (leaves_lst 0 l))) as [-> | (k & Hk & ->)].
      * intros e He. apply filter_In in He as [He _]. apply leaves_lst_heads in He. assumption.
      * reflexivity.
      * simpl. f_equal. lia.
    + rewrite env_view_all_none; [reflexivity|].
      intros e He. apply filter_In in He as [He _]. apply leaves_lst_heads in He as (i & r & E & _).
      destruct e as [pe ve]. simpl in E. subst pe. reflexivity.
    + apply split_lst; assumption.
Qed.

Corollary split_of_keep c sel :
  Tidy (Map c) -> split_of c (keep_map sel c) (sel_leaves sel (Map c)).
Proof. intros T p. rewrite <- keep_Map. apply split_shows. assumption. Qed.

(* ------------------------------------------------------------------ the pieces stay inside the domain *)

Definition keq (a b : node) : bool :=
  match a, b with
  | NNone, NNone | NMap, NMap | NLeaf _, NLeaf _ | NLst _, NLst _ => true
  | _, _ => false
  end.

(** [x] is silent or of the kind of [y] *)
Definition sub (x y : node) : Prop := x = NNone \/ keq x y = true.

Lemma sub_refl x : sub x x.
Proof. destruct x; [left; reflexivity | right; reflexivity ..]. Qed.

Lemma sub_none y : sub NNone y.
Proof. left; reflexivity. Qed.

Lemma sub_kcompat x y z : sub x y -> kcompat z y = true -> kcompat z x = true.
Proof. intros [-> | H] K; [apply kcompat_none_r|]. destruct x, y, z; simpl in *; try discriminate; reflexivity. Qed.

Lemma sub_sub_kcompat x z y : sub x y -> sub z y -> kcompat x z = true.
Proof.
  intros [-> | H] [-> | H']; try reflexivity; try apply kcompat_none_r.
  destruct x, y, z; simpl in *; try discriminate; reflexivity.
Qed.

Lemma view_keep_sub : forall t sel p, Tidy t -> sub (view p (keep sel t)) (view p t).
Proof.
  induction t as [| v | m IH | l IH] using cfg_ind'; intros sel p T.
  - apply sub_refl.
  - simpl. destruct (sel []); [rewrite view_Nil; apply sub_none | apply sub_refl].
  - destruct (Tidy_Map_inv _ T) as [ND FE]. rewrite keep_Map. destruct p as [|[s|i] q].
    + right. reflexivity.
    + rewrite (keep_map_lookup sel m s ND FE eq_refl q). simpl view.
      destruct (lookup (K s) m) as [v|] eqn:E; [|apply sub_none].
      apply lookup_In in E. rewrite Forall_forall in IH, FE. destruct (FE _ E) as (_ & _ & Tv).
      apply (IH _ E). assumption.
    + apply sub_refl.
  - assert (FT := Tidy_Lst_inv _ T). rewrite keep_Lst. destruct p as [|[s|i] q].
    + right. simpl. reflexivity.
    + apply sub_refl.
    + rewrite keep_lst_nth. simpl view.
      destruct (nth_error l i) as [v|] eqn:E; [|apply sub_none].
      apply nth_error_In in E. rewrite Forall_forall in IH, FT. apply (IH _ E). apply FT. assumption.
Qed.

Lemma leaves_map_in m e :
  In e (leaves_map m) -> exists k v e', In (k, v) m /\ (exists s, fst k = [s] /\ e = shift (SK s) e') /\ In e' (leaves v).
Proof.
  induction m as [|[k v] m' IH]; simpl; [tauto|]. intro H. apply in_app_or in H as [H|H].
  - destruct (fst k) as [|s [|s2 ss]] eqn:Ek; simpl in H; try tauto.
    apply in_map_iff in H as (e' & <- & He'). exists k, v, e'. splits; eauto.
  - destruct (IH H) as (k' & v' & e' & A & B0 & C). exists k', v', e'. splits; auto.
Qed.

Lemma leaves_lst_in : forall l j e,
  In e (leaves_lst j l) -> exists i v e', nth_error l i = Some v /\ e = shift (SI (j + i)) e' /\ In e' (leaves v).
Proof.
  induction l as [|v r IH]; intros j e H; [contradiction|].
  rewrite leaves_lst_cons in H. apply in_app_or in H as [H|H].
  - apply in_map_iff in H as (e' & <- & He'). exists 0, v, e'. rewrite Nat.add_0_r. splits; auto.
  - destruct (IH (S j) e H) as (i & v' & e' & A & B0 & C). exists (S i), v', e'.
    replace (j + S i) with (S j + i) by lia. splits; auto.
Qed.

Lemma contrib_leaf_sub : forall t e p, Tidy t -> In e (leaves t) -> sub (contrib p e) (view p t).
Proof.
  induction t as [| v | m IH | l IH] using cfg_ind'; intros e p T Hin.
  - contradiction.
  - simpl in Hin. destruct Hin as [<-|[]]. rewrite contrib_nil_path. apply sub_refl.
  - destruct (Tidy_Map_inv _ T) as [ND FE]. rewrite leaves_Map in Hin.
    apply leaves_map_in in Hin as (k & v & e' & Hkv & (s & Hs & ->) & He').
    rewrite Forall_forall in IH, FE. destruct (FE _ Hkv) as ((s' & Hk) & _ & Tv). simpl in Hk.
    subst k. simpl in Hs. inv Hs. simpl in Tv.
    destruct p as [|[s1|i] q].
    + right. reflexivity.
    + destruct (String.eqb s1 s) eqn:E.
      * apply String.eqb_eq in E. subst s1. rewrite contrib_shift_same. simpl view.
        rewrite (NoDup_lookup (K s) v m ND Hkv). apply (IH _ Hkv). assumption. assumption.
      * rewrite contrib_shift_other by (apply seg_SK_neq; assumption). apply sub_none.
    + rewrite contrib_shift_other by discriminate. apply sub_none.
  - assert (FT := Tidy_Lst_inv _ T). rewrite leaves_Lst in Hin.
    apply leaves_lst_in in Hin as (i & v & e' & Hn & -> & He'). simpl.
    destruct p as [|[s1|i1] q].
    + right. reflexivity.
    + rewrite contrib_shift_other by discriminate. apply sub_none.
    + destruct (Nat.eqb i1 i) eqn:E.
      * apply Nat.eqb_eq in E. subst i1. rewrite contrib_shift_same. simpl view. rewrite Hn.
        assert (Hv : In v l) by (eapply nth_error_In; eauto).
        rewrite Forall_forall in IH, FT. apply (IH _ Hv); auto.
      * rewrite contrib_shift_other; [apply sub_none|]. apply seg_SI_neq. intro; subst. rewrite Nat.eqb_refl in E. discriminate.
Qed.

Lemma keep_tidy : forall t sel, Tidy t -> Tidy (keep sel t).
Proof.
  induction t as [| v | m IH | l IH] using cfg_ind'; intros sel T.
  - constructor.
  - simpl. destruct (sel []); constructor.
  - destruct (Tidy_Map_inv _ T) as [ND FE]. rewrite keep_Map. apply Tidy_Map_intro.
    + clear IH T. induction m as [|[k v] r IHr]; [constructor|].
      apply Forall_cons_iff in FE as [((s0 & Hs0) & _) FE']. simpl in Hs0. subst k.
      simpl in ND. apply NoDup_cons_iff in ND as [Nin ND'].
      rewrite keep_map_cons.
      assert (X : NoDup (map fst (keep_map sel r))) by (apply IHr; assumption).
      assert (Y : ~ In (K s0) (map fst (keep_map sel r))) by (intro H; apply Nin; apply (keep_map_keys sel r); assumption).
      destruct (keep (fun p => sel (SK s0 :: p)) v); simpl; try assumption; constructor; assumption.
    + clear T. induction m as [|[k v] r IHr]; [constructor|].
      apply Forall_cons_iff in FE as [((s0 & Hs0) & Nv & Tv) FE']. simpl in Hs0, Nv, Tv. subst k.
      apply Forall_cons_iff in IH as [IH0 IHR]. simpl in IH0.
      simpl in ND. apply NoDup_cons_iff in ND as [Nin ND'].
      rewrite keep_map_cons.
      assert (X : Forall entry_ok (keep_map sel r)) by (apply IHr; assumption).
      assert (Tk := IH0 (fun p => sel (SK s0 :: p)) Tv).
      destruct (keep (fun p => sel (SK s0 :: p)) v) eqn:Ek; try assumption;
        (constructor; [unfold entry_ok; simpl; splits; [exists s0; reflexivity | discriminate | assumption] | assumption]).
  - assert (FT := Tidy_Lst_inv _ T). rewrite keep_Lst. constructor. clear T.
    generalize 0. induction l as [|v r IHr]; intro j; [constructor|].
    apply Forall_cons_iff in IH as [IH0 IHR]. apply Forall_cons_iff in FT as [Tv FT'].
    rewrite keep_lst_cons. constructor; [apply IH0; assumption | apply IHr; assumption].
Qed.

Lemma NoDup_map_shift a (L : list (path * string)) :
  NoDup (map fst L) -> NoDup (map fst (map (shift a) L)).
Proof.
  rewrite map_map. simpl. intro H. induction L as [|e r IH]; simpl in *; [constructor|].
  apply NoDup_cons_iff in H as [H1 H2]. constructor; [|auto].
  intro Hin. apply H1. apply in_map_iff in Hin as (e' & E & He'). inv E. apply in_map. assumption.
Qed.

Lemma leaves_nodup : forall t, Tidy t -> NoDup (map fst (leaves t)).
Proof.
  induction t as [| v | m IH | l IH] using cfg_ind'; intro T.
  - constructor.
  - simpl. constructor; [simpl; tauto | constructor].
  - destruct (Tidy_Map_inv _ T) as [ND FE]. rewrite leaves_Map. clear T.
    induction m as [|[k v] r IHr]; [constructor|].
    apply Forall_cons_iff in FE as [((s0 & Hs0) & _ & Tv) FE']. simpl in Hs0, Tv. subst k.
    apply Forall_cons_iff in IH as [IH0 IHR]. simpl in IH0.
    simpl in ND. apply NoDup_cons_iff in ND as [Nin ND'].
    rewrite leaves_map_cons, map_app. apply NoDup_app_intro.
    + apply NoDup_map_shift. apply IH0. assumption.
    + apply IHr; assumption.
    + intros p H1 H2. apply in_map_iff in H1 as (e1 & <- & H1). apply in_map_iff in H1 as (e1' & <- & _).
      apply in_map_iff in H2 as (e2 & E2 & H2). apply leaves_map_in in H2 as (k & v' & e' & Hkv & (s & Hs & ->) & _).
      simpl in E2. inv E2. apply Nin. apply in_map_iff. exists (k, v'). split; [|assumption].
      rewrite Forall_forall in FE'. destruct (FE' _ Hkv) as ((s' & Hk) & _). simpl in Hk. subst k. simpl in Hs. inv Hs. reflexivity.
  - assert (FT := Tidy_Lst_inv _ T). rewrite leaves_Lst. clear T.
    generalize 0. induction l as [|v r IHr]; intro j; [constructor|].
    apply Forall_cons_iff in IH as [IH0 IHR]. apply Forall_cons_iff in FT as [Tv FT'].
    rewrite leaves_lst_cons, map_app. apply NoDup_app_intro.
    + apply NoDup_map_shift. apply IH0. assumption.
    + apply IHr; assumption.
    + intros p H1 H2. apply in_map_iff in H1 as (e1 & <- & H1). apply in_map_iff in H1 as (e1' & <- & _).
      apply in_map_iff in H2 as (e2 & E2 & H2). apply leaves_lst_in in H2 as (i & v' & e' & _ & -> & _).
      simpl in E2. inv E2. lia.
Qed.

Lemma NoDup_map_filter' {A B} (f : A -> B) (p : A -> bool) l : NoDup (map f l) -> NoDup (map f (filter p l)).
Proof. apply NoDup_map_filter. Qed.

Lemma PW_of_all {A} (R : A -> A -> Prop) l : (forall a b, In a l -> In b l -> R a b) -> PW R l.
Proof.
  induction l as [|x r IH]; intro H; constructor.
  - apply Forall_forall. intros y Hy. apply H; [left; reflexivity | right; assumption].
  - apply IH. intros a b Ha Hb. apply H; right; assumption.
Qed.

(** a split of a configuration of the domain is in the domain *)
Theorem in_scope_split d c sel :
  in_scope d c [] -> in_scope d (keep_map sel c) (sel_leaves sel (Map c)).
Proof.
  intros (Td & Tc & _ & Cdc & _ & _). unfold in_scope.
  assert (Sk : forall p, sub (view p (Map (keep_map sel c))) (view p (Map c))).
  { intro p. rewrite <- keep_Map. apply view_keep_sub. assumption. }
  assert (Sl : forall e, In e (sel_leaves sel (Map c)) -> forall p, sub (contrib p e) (view p (Map c))).
  { intros e He p. apply filter_In in He as [He _]. apply contrib_leaf_sub; assumption. }
  splits.
  - assumption.
  - rewrite <- keep_Map. apply keep_tidy. assumption.
  - unfold sel_leaves. apply NoDup_map_filter. apply leaves_nodup. assumption.
  - intro p. eapply sub_kcompat; [apply Sk | apply Cdc].
  - apply Forall_forall. intros e He p. split.
    + eapply sub_kcompat; [apply (Sl e He) | apply Cdc].
    + eapply sub_sub_kcompat; [apply Sk | apply (Sl e He)].
  - apply PW_of_all. intros a b Ha Hb p. eapply sub_sub_kcompat; [apply (Sl a Ha) | apply (Sl b Hb)].
Qed.

(** file/environment equivalence for every split of the leaves: whatever subset
    [sel] of the leaves of a configuration [c] of the domain is given by
    environment variables (in any order) instead of the file, the result is the
    one of the file holding all of [c] *)
Theorem file_env_equivalent_splits :
  forall sh sh' fix3 to_real pfx d c sel env tenv,
    perm_fun sh -> perm_fun sh' ->
    domain fix3 to_real pfx d c [] [] ->
    typed_env to_real (norm_env pfx env) = Some tenv ->
    Permutation tenv (sel_leaves sel (Map c)) ->
    (fix3 = true \/ guard_F3 (norm_env pfx env) = false) -> guard_F4 (norm_env pfx env) = false ->
    exists t t', load sh to_real fix3 false pfx d (Some (keep_map sel c)) env = Ok t /\
                 load sh' to_real fix3 false pfx d (Some c) [] = Ok t' /\
                 Tidy (Map t) /\ Tidy (Map t') /\
                 forall p, view p (Map t) = view p (Map t').
Proof.
  intros sh sh' fix3 to_real pfx d c sel env tenv Hs Hs' D Ht P G3 G4.
  assert (Sc : in_scope d c []) by (destruct D as (_ & S & _); assumption).
  assert (S0 := in_scope_split d c sel Sc).
  assert (S1 : in_scope d (keep_map sel c) tenv).
  { eapply in_scope_perm; [apply Permutation_sym; exact P | exact S0]. }
  apply (file_env_equivalent sh sh' fix3 to_real pfx d c (keep_map sel c) env tenv Hs Hs'); auto.
  - unfold domain. splits; assumption.
  - intro p. rewrite (env_view_perm d (keep_map sel c) tenv _ p S1 P).
    apply split_of_keep. destruct Sc as (_ & Tc & _). assumption.
Qed.
