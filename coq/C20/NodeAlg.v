(** C20 — algebra of [njoin] on nodes that agree on the shape, and folds of it
    over lists: on pairwise coherent contributions the join is associative and
    commutative, so a fold does not depend on the order. *)
From HV Require Import Base.Prelude C20.Model C20.Spec C20.Facts.
From Coq Require Import Permutation.

Definition is_leaf (n : node) : bool := match n with NLeaf _ => true | _ => false end.

(** two contributions cohere: same kind (or one silent) and not two scalars *)
Definition nc (a b : node) : Prop := kcompat a b = true /\ is_leaf a && is_leaf b = false.

Lemma nc_sym a b : nc a b -> nc b a.
Proof. unfold nc. rewrite kcompat_sym, andb_comm. tauto. Qed.

Lemma nc_none_l a : nc NNone a.
Proof. split; reflexivity. Qed.

Lemma nc_none_r a : nc a NNone.
Proof. apply nc_sym, nc_none_l. Qed.

Lemma njoin_comm a b : nc a b -> njoin a b = njoin b a.
Proof.
  intros [H1 H2]. destruct a, b; simpl in *; try reflexivity; try discriminate.
  rewrite Nat.max_comm. reflexivity.
Qed.

Lemma njoin_assoc a b c : nc a b -> nc a c -> nc b c -> njoin (njoin a b) c = njoin a (njoin b c).
Proof.
  intros [H1 H2] [H3 H4] [H5 H6]. destruct a, b, c; simpl in *; try reflexivity; try discriminate.
  rewrite Nat.max_assoc. reflexivity.
Qed.

Lemma nc_njoin x a b : nc x a -> nc x b -> nc a b -> nc x (njoin a b).
Proof.
  intros [H1 H2] [H3 H4] [H5 H6]. unfold nc.
  destruct x, a, b; simpl in *; try discriminate; auto.
Qed.

Lemma njoin_swap y a b : nc a b -> njoin (njoin y a) b = njoin (njoin y b) a.
Proof.
  intros [H1 H2]. destruct y, a, b; simpl in *; try reflexivity; try discriminate;
    f_equal; lia.
Qed.

(* ------------------------------------------------------------------ pairwise *)

Inductive PW {A} (R : A -> A -> Prop) : list A -> Prop :=
| PW_nil : PW R []
| PW_cons x l : Forall (R x) l -> PW R l -> PW R (x :: l).

Lemma PW_cons_iff {A} (R : A -> A -> Prop) x l : PW R (x :: l) <-> Forall (R x) l /\ PW R l.
Proof. split; [intro H; inversion H; subst; auto | intros [H1 H2]; constructor; assumption]. Qed.

Lemma PW_perm {A} (R : A -> A -> Prop) :
  (forall x y, R x y -> R y x) -> forall l l', Permutation l l' -> PW R l -> PW R l'.
Proof.
  intros Sym l l' P. induction P; intro H.
  - constructor.
  - apply PW_cons_iff in H as [H1 H2]. constructor; [eapply Permutation_Forall; eauto | auto].
  - apply PW_cons_iff in H as [H1 H2]. apply PW_cons_iff in H2 as [H3 H4].
    apply Forall_cons_iff in H1 as [H5 H6].
    constructor; [constructor; [apply Sym; assumption | assumption] | constructor; assumption].
  - auto.
Qed.

Lemma PW_app_l {A} (R : A -> A -> Prop) l1 l2 : PW R (l1 ++ l2) -> PW R l1.
Proof.
  induction l1 as [|x r IH]; simpl; intro H; [constructor|].
  apply PW_cons_iff in H as [H1 H2]. apply Forall_app in H1 as [H1 _]. constructor; auto.
Qed.

Lemma PW_map {A B} (R : B -> B -> Prop) (f : A -> B) l :
  PW (fun x y => R (f x) (f y)) l -> PW R (map f l).
Proof.
  induction l as [|x r IH]; simpl; intro H; [constructor|].
  apply PW_cons_iff in H as [H1 H2]. constructor; [apply Forall_map; assumption | auto].
Qed.

Lemma PW_filter {A} (R : A -> A -> Prop) (p : A -> bool) l : PW R l -> PW R (filter p l).
Proof.
  induction l as [|x r IH]; simpl; intro H; [constructor|].
  apply PW_cons_iff in H as [H1 H2]. destruct (p x); auto.
  constructor; auto. rewrite Forall_forall in *. intros y Hy. apply filter_In in Hy as [Hy _]. auto.
Qed.

Lemma PW_In {A} (R : A -> A -> Prop) :
  (forall x y, R x y -> R y x) -> forall l x y l1 l2 l3,
  l = l1 ++ x :: l2 ++ y :: l3 -> PW R l -> R x y.
Proof.
  intros Sym l x y l1 l2 l3 -> H. induction l1 as [|z r IH]; simpl in H.
  - apply PW_cons_iff in H as [H1 _]. rewrite Forall_forall in H1. apply H1.
    apply in_or_app. right. left. reflexivity.
  - apply PW_cons_iff in H as [_ H2]. auto.
Qed.

(* ------------------------------------------------------------------ folds *)

Definition jfold (y : node) (L : list node) : node := fold_left njoin L y.

Lemma jfold_app y L1 L2 : jfold y (L1 ++ L2) = jfold (jfold y L1) L2.
Proof. unfold jfold. apply fold_left_app. Qed.

Lemma jfold_nc x : forall L y, nc x y -> Forall (nc x) L -> PW nc (y :: L) -> nc x (jfold y L).
Proof.
  induction L as [|a r IH]; intros y Hy HL HP; simpl; [assumption|].
  apply Forall_cons_iff in HL as [Ha Hr]. apply PW_cons_iff in HP as [H1 H2].
  apply Forall_cons_iff in H1 as [Hya Hyr]. apply PW_cons_iff in H2 as [Har Hrr].
  apply IH; auto.
  - apply nc_njoin; assumption.
  - constructor; [|assumption].
    rewrite Forall_forall in *. intros z Hz. apply nc_sym. apply nc_njoin; auto using nc_sym.
Qed.

Lemma PW_njoin_head y a r : PW nc (y :: a :: r) -> PW nc (njoin y a :: r).
Proof.
  intro HP. apply PW_cons_iff in HP as [H1 H2].
  apply Forall_cons_iff in H1 as [Hya Hyr]. apply PW_cons_iff in H2 as [Har Hrr].
  constructor; [|assumption].
  rewrite Forall_forall in *. intros z Hz. apply nc_sym. apply nc_njoin; auto using nc_sym.
Qed.

(** the fold of pairwise coherent contributions does not depend on their order *)
Lemma jfold_perm L L' : Permutation L L' -> forall y, PW nc (y :: L) -> jfold y L = jfold y L'.
Proof.
  intro P. induction P; intros acc HP.
  - reflexivity.
  - simpl. apply IHP. apply PW_njoin_head. assumption.
  - simpl. f_equal. apply njoin_swap.
    apply PW_cons_iff in HP as [_ H2]. apply PW_cons_iff in H2 as [H3 _].
    apply Forall_cons_iff in H3 as [H3 _]. assumption.
  - rewrite IHP1 by assumption. apply IHP2.
    apply PW_cons_iff in HP as [H1 H2]. constructor.
    + eapply Permutation_Forall; eauto.
    + eapply PW_perm; eauto using nc_sym.
Qed.

Lemma jfold_none_elems y L : Forall (fun a => a = NNone) L -> jfold y L = y.
Proof.
  revert y. induction L as [|a r IH]; intros y H; simpl; [reflexivity|].
  apply Forall_cons_iff in H as [-> H]. rewrite njoin_none_r. auto.
Qed.

(** silent contributions can be dropped *)
Lemma jfold_filter {A} (f : A -> node) (p : A -> bool) l :
  (forall x, In x l -> p x = false -> f x = NNone) ->
  forall y, jfold y (map f l) = jfold y (map f (filter p l)).
Proof.
  induction l as [|x r IH]; intros H y; simpl; [reflexivity|].
  destruct (p x) eqn:E; simpl.
  - apply IH. intros z Hz. apply H. right; assumption.
  - rewrite (H x (or_introl eq_refl) E), njoin_none_r. apply IH. intros z Hz. apply H. right; assumption.
Qed.

Lemma jfold_kinds y L :
  (y = NNone \/ y = NMap) -> Forall (fun a => a = NNone \/ a = NMap) L ->
  jfold y L = NNone \/ jfold y L = NMap.
Proof.
  revert y. induction L as [|a r IH]; intros y Hy H; simpl; [assumption|].
  apply Forall_cons_iff in H as [Ha Hr]. apply IH; [|assumption].
  destruct Hy as [-> | ->], Ha as [-> | ->]; simpl; auto.
Qed.
