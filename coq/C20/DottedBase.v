(** C20 — trees with dotted (flat) keys.

    [convert] (env.go) leaves a nested structure below a list index as ONE map
    entry whose key keeps its dots ("config.user"); in the model such a key is
    [(["config"; "user"], None)].  koanf resolves it only when the map that
    holds it is the *source* of a mergeMaps (maps.Unflatten on the source).

    This file: the reading [expand] of such trees (every dotted key unfolded
    into nested maps), the well-formedness [DT] (weaker than [Tidy]: keys may
    be dotted, the FIRST segments are unique within a map), the view through
    dotted keys [dview], and the positions [DK] at which a tree still holds a
    dotted key. *)
From HV Require Import Base.Prelude C20.Model C20.Spec C20.Facts C20.MergeProofs C20.ConvertProofs
  C20.NodeAlg C20.TrieProofs.
From Coq Require Import Permutation.

Definition khd (k : key) : string := match fst k with s :: _ => s | [] => EmptyString end.
Definition ktl (k : key) : list string := tl (fst k).
Definition khdf (kv : key * cfg) : string := khd (fst kv).

(** one entry, its key unfolded *)
Definition xent (x : cfg -> cfg) (kv : key * cfg) : key * cfg :=
  (K (khd (fst kv)), nest (ktl (fst kv)) (x (snd kv))).

Fixpoint expand (t : cfg) : cfg :=
  match t with
  | Map m => Map ((fix go (m : list (key * cfg)) : list (key * cfg) :=
                     match m with
                     | [] => []
                     | (k, v) :: r => (K (khd k), nest (ktl k) (expand v)) :: go r
                     end) m)
  | Lst l => Lst ((fix go (l : list cfg) : list cfg :=
                     match l with [] => [] | v :: r => expand v :: go r end) l)
  | _ => t
  end.

Lemma expand_Map m : expand (Map m) = Map (map (xent expand) m).
Proof.
  cbn [expand]. f_equal. induction m as [|[k v] r IH]; [reflexivity|].
  cbn [map]. rewrite <- IH. reflexivity.
Qed.

Lemma expand_Lst l : expand (Lst l) = Lst (map expand l).
Proof.
  reflexivity.
Qed.

Definition dview (p : path) (t : cfg) : node := view p (expand t).

Definition dcompat (a b : cfg) : Prop := forall p, kcompat (dview p a) (dview p b) = true.

(* ------------------------------------------------------------------ nest *)

Lemma khd_K s : khd (K s) = s. Proof. reflexivity. Qed.
Lemma ktl_K s : ktl (K s) = []. Proof. reflexivity. Qed.

Lemma nest_nil u : nest [] u = u. Proof. reflexivity. Qed.

Lemma nest_nonnil ks u : u <> Nil -> nest ks u <> Nil.
Proof. destruct ks as [|s [|s2 r]]; simpl; auto; discriminate. Qed.

Lemma view_nest_cons s' s r u q :
  view (SK s' :: q) (nest (s :: r) u) = if String.eqb s' s then view q (nest r u) else NNone.
Proof.
  destruct r as [|s2 r'].
  - simpl. rewrite key_eqb_K. destruct (String.eqb s' s); reflexivity.
  - rewrite nest_cons by discriminate. simpl view at 1. rewrite key_eqb_K.
    destruct (String.eqb s' s); reflexivity.
Qed.

Lemma view_nest_app ks u q : view (map SK ks ++ q) (nest ks u) = view q u.
Proof.
  induction ks as [|s r IH]; [reflexivity|].
  simpl map. simpl app. rewrite view_nest_cons, String.eqb_refl. exact IH.
Qed.

Lemma view_nest_root ks u : ks <> [] -> view [] (nest ks u) = NMap.
Proof. intro N. destruct (nest_is_map ks u N) as [m ->]. reflexivity. Qed.

Lemma view_nest_SI ks u i q : ks <> [] -> view (SI i :: q) (nest ks u) = NNone.
Proof. intro N. destruct (nest_is_map ks u N) as [m ->]. reflexivity. Qed.

Lemma view_root_nonnil u : u <> Nil -> view [] u <> NNone.
Proof. destruct u; simpl; congruence. Qed.

Lemma expand_nonnil u : u <> Nil -> expand u <> Nil.
Proof.
  destruct u; intro H; [congruence | simpl; discriminate | rewrite expand_Map; discriminate | rewrite expand_Lst; discriminate].
Qed.

Lemma expand_nest ks u : expand (nest ks u) = nest ks (expand u).
Proof.
  induction ks as [|s r IH]; [reflexivity|].
  destruct r as [|s2 r'].
  - rewrite !nest_single, expand_Map. reflexivity.
  - rewrite (nest_cons s (s2 :: r') u), (nest_cons s (s2 :: r') (expand u)) by discriminate.
    rewrite expand_Map. cbn [map]. unfold xent. cbn [fst snd].
    rewrite khd_K, ktl_K, nest_nil, IH. reflexivity.
Qed.

Lemma dview_nest_app ks u q : dview (map SK ks ++ q) (nest ks u) = dview q u.
Proof. unfold dview. rewrite expand_nest. apply view_nest_app. Qed.

Lemma dview_nest_cons s' s r u q :
  dview (SK s' :: q) (nest (s :: r) u) = if String.eqb s' s then dview q (nest r u) else NNone.
Proof. unfold dview. rewrite !expand_nest. apply view_nest_cons. Qed.

Lemma dview_root_nonnil u : u <> Nil -> dview [] u <> NNone.
Proof. intro N. unfold dview. apply view_root_nonnil. apply expand_nonnil. assumption. Qed.

Lemma dview_Nil p : dview p Nil = NNone.
Proof. unfold dview. apply view_Nil. Qed.

Lemma Tidy_nest ks u : u <> Nil -> Tidy u -> Tidy (nest ks u).
Proof.
  intros N T. induction ks as [|s r IH]; [assumption|].
  destruct r as [|s2 r'].
  - rewrite nest_single. apply Tidy_single; assumption.
  - rewrite nest_cons by discriminate. apply Tidy_single; [|assumption].
    apply nest_nonnil. assumption.
Qed.

(* ------------------------------------------------------------------ maps seen through the first key segment *)

Fixpoint dfind (s : string) (m : list (key * cfg)) : option (key * cfg) :=
  match m with
  | [] => None
  | kv :: r => if String.eqb (khdf kv) s then Some kv else dfind s r
  end.

Lemma dfind_Some s m kv : dfind s m = Some kv -> In kv m /\ khdf kv = s.
Proof.
  induction m as [|e r IH]; simpl; [discriminate|].
  destruct (String.eqb (khdf e) s) eqn:E.
  - intro H; inv H. apply String.eqb_eq in E. auto.
  - intro H. destruct (IH H). auto.
Qed.

Lemma dfind_None s m : dfind s m = None <-> ~ In s (map khdf m).
Proof.
  induction m as [|e r IH]; simpl; [tauto|].
  destruct (String.eqb (khdf e) s) eqn:E.
  - apply String.eqb_eq in E. split; [discriminate | intro H; exfalso; apply H; auto].
  - rewrite IH. split.
    + intros H [H1|H1]; [rewrite H1, String.eqb_refl in E; discriminate | contradiction].
    + intros H H1. apply H. auto.
Qed.

Lemma dfind_In m kv : NoDup (map khdf m) -> In kv m -> dfind (khdf kv) m = Some kv.
Proof.
  induction m as [|e r IH]; simpl; [tauto|].
  intros ND [H|H].
  - subst e. rewrite String.eqb_refl. reflexivity.
  - apply NoDup_cons_iff in ND as [N1 N2]. destruct (String.eqb (khdf e) (khdf kv)) eqn:E.
    + apply String.eqb_eq in E. exfalso. apply N1. rewrite E. apply in_map. assumption.
    + auto.
Qed.

Lemma lookup_xent x s m :
  lookup (K s) (map (xent x) m) = option_map (fun kv => nest (ktl (fst kv)) (x (snd kv))) (dfind s m).
Proof.
  induction m as [|e r IH]; [reflexivity|].
  cbn [map lookup dfind]. unfold xent at 1. rewrite key_eqb_K. unfold khdf.
  rewrite (String.eqb_sym s). destruct (String.eqb (khd (fst e)) s); [reflexivity | exact IH].
Qed.

Lemma dview_Map_cons s q m :
  dview (SK s :: q) (Map m) =
  match dfind s m with Some kv => dview q (nest (ktl (fst kv)) (snd kv)) | None => NNone end.
Proof.
  unfold dview. rewrite expand_Map. cbn [view]. rewrite lookup_xent.
  destruct (dfind s m) as [kv|]; [|reflexivity]. cbn [option_map]. rewrite expand_nest. reflexivity.
Qed.

Lemma dview_Map_root m : dview [] (Map m) = NMap.
Proof. unfold dview. rewrite expand_Map. reflexivity. Qed.

Lemma dview_Map_SI i q m : dview (SI i :: q) (Map m) = NNone.
Proof. unfold dview. rewrite expand_Map. reflexivity. Qed.

Lemma dview_Map_in m kv q :
  NoDup (map khdf m) -> In kv m -> dview (SK (khdf kv) :: q) (Map m) = dview q (nest (ktl (fst kv)) (snd kv)).
Proof. intros ND H. rewrite dview_Map_cons, (dfind_In m kv ND H). reflexivity. Qed.

Lemma dview_Map_notin m s q : ~ In s (map khdf m) -> dview (SK s :: q) (Map m) = NNone.
Proof. intro H. rewrite dview_Map_cons. apply dfind_None in H. rewrite H. reflexivity. Qed.

Lemma dview_Lst_root l : dview [] (Lst l) = NLst (length l).
Proof. unfold dview. rewrite expand_Lst. simpl. rewrite map_length. reflexivity. Qed.

Lemma dview_Lst_SK s q l : dview (SK s :: q) (Lst l) = NNone.
Proof. unfold dview. rewrite expand_Lst. reflexivity. Qed.

Lemma dview_Lst_nth i q l : dview (SI i :: q) (Lst l) = dview q (nth i l Nil).
Proof.
  unfold dview. rewrite expand_Lst, view_nth.
  change Nil with (expand Nil) at 1. rewrite map_nth. reflexivity.
Qed.

Lemma dview_Leaf_cons v a p : dview (a :: p) (Leaf v) = NNone.
Proof. unfold dview. apply view_Leaf_cons. Qed.

(* ------------------------------------------------------------------ well-formed trees with dotted keys *)

Definition dkey_ok (k : key) : Prop := fst k <> [] /\ snd k = None.

Definition dentry_ok (W : cfg -> Prop) (kv : key * cfg) : Prop :=
  dkey_ok (fst kv) /\ snd kv <> Nil /\ W (snd kv).

Inductive DT : cfg -> Prop :=
| DT_Nil : DT Nil
| DT_Leaf v : DT (Leaf v)
| DT_Map m : NoDup (map khdf m) -> Forall (dentry_ok DT) m -> DT (Map m)
| DT_Lst l : Forall DT l -> DT (Lst l).

Lemma DT_Map_inv m : DT (Map m) -> NoDup (map khdf m) /\ Forall (dentry_ok DT) m.
Proof. intro T. inversion T; subst. auto. Qed.

Lemma DT_Lst_inv l : DT (Lst l) -> Forall DT l.
Proof. intro T. inversion T; subst. auto. Qed.

Lemma dkey_split k : dkey_ok k -> fst k = khd k :: ktl k.
Proof. intros [N _]. unfold khd, ktl. destruct (fst k); [congruence | reflexivity]. Qed.

Lemma dkey_ok_K s : dkey_ok (K s).
Proof. split; [discriminate | reflexivity]. Qed.

Lemma dkey_plain k : dkey_ok k -> ktl k = [] -> k = K (khd k).
Proof.
  intros Hk Ht. assert (E := dkey_split k Hk). rewrite Ht in E. destruct Hk as [_ Hs].
  destruct k as [a b]. simpl in *. subst b. unfold K. rewrite <- E. reflexivity.
Qed.

Lemma DT_nest ks u : u <> Nil -> DT u -> DT (nest ks u).
Proof.
  intros N T. induction ks as [|s r IH]; [assumption|].
  assert (X : forall w, w <> Nil -> DT w -> DT (Map [(K s, w)])).
  { intros w Nw Tw. constructor.
    - simpl. constructor; [simpl; tauto | constructor].
    - constructor; [|constructor]. unfold dentry_ok. simpl. auto using dkey_ok_K. }
  destruct r as [|s2 r'].
  - rewrite nest_single. apply X; assumption.
  - rewrite nest_cons by discriminate. apply X; [apply nest_nonnil|]; assumption.
Qed.

Lemma NoDup_khdf_keys m : NoDup (map khdf m) -> NoDup (map fst m).
Proof.
  induction m as [|e r IH]; simpl; intro H; [constructor|].
  apply NoDup_cons_iff in H as [H1 H2]. constructor; [|auto].
  intro Hin. apply H1. apply in_map_iff in Hin as (e' & E & He'). apply in_map_iff. exists e'.
  unfold khdf. rewrite E. auto.
Qed.

(** the expansion of a well-formed tree is tidy *)
Lemma DT_expand_Tidy : forall t, DT t -> Tidy (expand t).
Proof.
  induction t as [| v | m IH | l IH] using cfg_ind'; intro T.
  - constructor.
  - constructor.
  - destruct (DT_Map_inv _ T) as [ND FE]. rewrite expand_Map. apply Tidy_Map_intro.
    + rewrite map_map. cbn [xent fst].
      assert (E : map (fun x : key * cfg => K (khd (fst x))) m = map K (map khdf m)) by (rewrite map_map; reflexivity).
      rewrite E. apply FinFun.Injective_map_NoDup; [|assumption]. intros a b H. apply K_inj. assumption.
    + apply Forall_map. rewrite Forall_forall in *. intros kv Hin.
      destruct (FE _ Hin) as (Hk & Hn & Ht). unfold entry_ok, xent. cbn [fst snd]. splits.
      * eexists. reflexivity.
      * apply nest_nonnil. apply expand_nonnil. assumption.
      * apply Tidy_nest; [apply expand_nonnil; assumption | apply (IH _ Hin); assumption].
  - rewrite expand_Lst. constructor. apply Forall_map. apply DT_Lst_inv in T.
    rewrite Forall_forall in *. intros x Hx. apply IH; auto.
Qed.

(** a tidy tree is well formed in the wider sense and is its own expansion *)
Lemma Tidy_DT : forall t, Tidy t -> DT t /\ expand t = t.
Proof.
  induction t as [| v | m IH | l IH] using cfg_ind'; intro T.
  - split; [constructor | reflexivity].
  - split; [constructor | reflexivity].
  - destruct (Tidy_Map_inv _ T) as [ND FE].
    assert (X : Forall (dentry_ok DT) m /\ map (xent expand) m = m /\ map khdf m = map khdf m).
    { clear ND T. induction m as [|[k v] r IHr]; [splits; auto|].
      apply Forall_cons_iff in IH as [IH0 IHR]. apply Forall_cons_iff in FE as [((s & Hs) & Nv & Tv) FE'].
      simpl in Hs, Nv, Tv, IH0. subst k. destruct (IH0 Tv) as [D0 E0]. destruct (IHr IHR FE') as (A & B & _).
      splits; auto.
      - constructor; [|assumption]. unfold dentry_ok. simpl. auto using dkey_ok_K.
      - cbn [map]. rewrite B. unfold xent. cbn [fst snd]. rewrite khd_K, ktl_K, nest_nil, E0. reflexivity. }
    destruct X as (A & B & _). split.
    + constructor; [|assumption].
      assert (PK : plain_keys m) by (apply Tidy_plain; assumption).
      clear -ND PK. induction m as [|[k v] r IH]; simpl; [constructor|].
      apply Forall_cons_iff in PK as [[s Hs] PK]. simpl in Hs. subst k.
      simpl in ND. apply NoDup_cons_iff in ND as [N1 N2]. constructor; [|auto].
      intro H. apply N1. apply in_map_iff in H as ([k' v'] & E & Hin).
      rewrite Forall_forall in PK. destruct (PK _ Hin) as [s' Hs']. simpl in Hs'. subst k'.
      unfold khdf in E. simpl in E. rewrite khd_K in E. subst s'.
      apply in_map_iff. exists (K s, v'). auto.
    + rewrite expand_Map, B. reflexivity.
  - apply Tidy_Lst_inv in T. assert (X : Forall DT l /\ map expand l = l).
    { induction l as [|x r IHr]; [split; [constructor | reflexivity]|].
      apply Forall_cons_iff in IH as [IH0 IHR]. apply Forall_cons_iff in T as [T0 TR].
      destruct (IH0 T0) as [A B]. destruct (IHr IHR TR) as [C D]. split; [constructor; assumption|].
      simpl. rewrite B, D. reflexivity. }
    destruct X as [A B]. split; [constructor; assumption | rewrite expand_Lst, B; reflexivity].
Qed.

Lemma dview_tidy p t : Tidy t -> dview p t = view p t.
Proof. intro T. unfold dview. destruct (Tidy_DT t T) as [_ ->]. reflexivity. Qed.

Lemma DT_lookup m k v : DT (Map m) -> In (k, v) m -> dkey_ok k /\ v <> Nil /\ DT v.
Proof. intros T H. apply DT_Map_inv in T as [_ FE]. rewrite Forall_forall in FE. apply (FE _ H). Qed.

Lemma DT_nth l i : DT (Lst l) -> DT (nth i l Nil).
Proof.
  intro T. apply DT_Lst_inv in T. destruct (nth_in_or_default i l Nil) as [H|H]; [|rewrite H; constructor].
  rewrite Forall_forall in T. auto.
Qed.

(** the view below a key of a well-formed map *)
Lemma dview_Map_key m k v q :
  DT (Map m) -> In (k, v) m -> dview (map SK (fst k) ++ q) (Map m) = dview q v.
Proof.
  intros T H. destruct (DT_Map_inv _ T) as [ND _]. destruct (DT_lookup _ _ _ T H) as (Hk & _ & _).
  rewrite (dkey_split k Hk). cbn [map app].
  change (khd k) with (khdf (k, v)). rewrite (dview_Map_in m (k, v) _ ND H). cbn [fst snd].
  apply dview_nest_app.
Qed.

(* ------------------------------------------------------------------ where dotted keys remain *)

(** [DK t pi s]: at the (expanded) path [pi] the tree [t] holds a map with a
    dotted key whose first segment is [s] *)
Inductive DK : cfg -> path -> string -> Prop :=
| DK_here m k v : In (k, v) m -> 2 <= length (fst k) -> DK (Map m) [] (khd k)
| DK_map m k v pi s : In (k, v) m -> DK v pi s -> DK (Map m) (map SK (fst k) ++ pi) s
| DK_lst l i v pi s : nth_error l i = Some v -> DK v pi s -> DK (Lst l) (SI i :: pi) s.

Lemma DK_Nil pi s : ~ DK Nil pi s.
Proof. intro H. inversion H. Qed.

Lemma DK_Leaf w pi s : ~ DK (Leaf w) pi s.
Proof. intro H. inversion H. Qed.

Lemma DK_Map_inv m pi s :
  DK (Map m) pi s ->
  (pi = [] /\ exists k v, In (k, v) m /\ 2 <= length (fst k) /\ s = khd k) \/
  (exists k v pi', In (k, v) m /\ pi = map SK (fst k) ++ pi' /\ DK v pi' s).
Proof. intro H. inversion H; subst; [left | right]; eauto 8. Qed.

Lemma DK_Lst_inv l pi s :
  DK (Lst l) pi s -> exists i pi', pi = SI i :: pi' /\ DK (nth i l Nil) pi' s.
Proof.
  intro H. inversion H as [| |l' i v pi' s' Hn Hd]; subst. exists i, pi'. split; [reflexivity|].
  rewrite (nth_error_nth l i Nil Hn). assumption.
Qed.

Lemma DK_Lst_nth l i pi s : DK (nth i l Nil) pi s -> DK (Lst l) (SI i :: pi) s.
Proof.
  intro H. destruct (nth_error l i) as [v|] eqn:E.
  - apply (DK_lst l i v); [assumption|]. rewrite (nth_error_nth l i Nil E) in H. assumption.
  - apply nth_error_None in E. rewrite nth_overflow in H by assumption. exfalso. eapply DK_Nil; eauto.
Qed.

Lemma DK_nest_intro ks v pi s : DK v pi s -> DK (nest ks v) (map SK ks ++ pi) s.
Proof.
  intro H. induction ks as [|s0 r IH]; [assumption|].
  destruct r as [|s2 r'].
  - rewrite nest_single. apply (DK_map [(K s0, v)] (K s0) v pi s); [left; reflexivity | assumption].
  - rewrite nest_cons by discriminate.
    apply (DK_map [(K s0, nest (s2 :: r') v)] (K s0) (nest (s2 :: r') v) (map SK (s2 :: r') ++ pi) s); [left; reflexivity | assumption].
Qed.

Lemma DK_nest_inv ks v pi s : DK (nest ks v) pi s -> exists pi', pi = map SK ks ++ pi' /\ DK v pi' s.
Proof.
  revert pi. induction ks as [|s0 r IH]; intros pi H; [exists pi; auto|].
  assert (X : forall w, DK (Map [(K s0, w)]) pi s -> exists pi0, pi = SK s0 :: pi0 /\ DK w pi0 s).
  { intros w Hw. apply DK_Map_inv in Hw as [(_ & k & v' & Hin & Hl & _) | (k & v' & pi' & Hin & E & Hd)].
    - destruct Hin as [Hin|[]]. inv Hin. simpl in Hl. lia.
    - destruct Hin as [Hin|[]]. inv Hin. exists pi'. split; [reflexivity | assumption]. }
  destruct r as [|s2 r'].
  - rewrite nest_single in H. destruct (X _ H) as (pi0 & -> & Hd). exists pi0. auto.
  - rewrite nest_cons in H by discriminate. destruct (X _ H) as (pi0 & -> & Hd).
    destruct (IH _ Hd) as (pi' & -> & Hd'). exists pi'. auto.
Qed.

(** a well-formed tree without dotted keys is tidy *)
Lemma DT_noDK_Tidy : forall t, DT t -> (forall pi s, ~ DK t pi s) -> Tidy t.
Proof.
  induction t as [| v | m IH | l IH] using cfg_ind'; intros T H; try constructor.
  - apply NoDup_khdf_keys. apply DT_Map_inv in T. tauto.
  - destruct (DT_Map_inv _ T) as [_ FE]. rewrite Forall_forall in *. intros [k v] Hin.
    destruct (FE _ Hin) as (Hk & Hn & Ht). cbn [fst snd] in *. splits; auto.
    + exists (khd k). apply dkey_plain; [assumption|].
      destruct (ktl k) as [|s2 r] eqn:E; [reflexivity|]. exfalso.
      apply (H [] (khd k)). apply (DK_here m k v Hin). rewrite (dkey_split k Hk), E. simpl. lia.
    + apply (IH _ Hin Ht). intros pi s Hd. apply (H (map SK (fst k) ++ pi) s). apply (DK_map m k v); assumption.
  - apply DT_Lst_inv in T. rewrite Forall_forall in *. intros x Hx. apply (IH _ Hx (T _ Hx)).
    intros pi s Hd. apply In_nth_error in Hx as [i Hi]. apply (H (SI i :: pi) s). apply (DK_lst l i x); assumption.
Qed.

Lemma Tidy_noDK : forall t, Tidy t -> forall pi s, ~ DK t pi s.
Proof.
  induction t as [| v | m IH | l IH] using cfg_ind'; intros T pi s H; try (inversion H; fail).
  - destruct (Tidy_Map_inv _ T) as [_ FE]. rewrite Forall_forall in *.
    apply DK_Map_inv in H as [(_ & k & v & Hin & Hl & _) | (k & v & pi' & Hin & _ & Hd)].
    + destruct (FE _ Hin) as ((s0 & Hs) & _). simpl in Hs. subst k. simpl in Hl. lia.
    + destruct (FE _ Hin) as (_ & _ & Tv). apply (IH _ Hin Tv pi' s Hd).
  - apply DK_Lst_inv in H as (i & pi' & _ & Hd). apply Tidy_Lst_inv in T.
    destruct (nth_in_or_default i l Nil) as [Hin|E].
    + rewrite Forall_forall in *. apply (IH _ Hin (T _ Hin) pi' s Hd).
    + rewrite E in Hd. eapply DK_Nil; eauto.
Qed.

(** the dotted keys of [a] stand alone: [b] shows nothing at their first segment *)
Definition ExclL (a b : cfg) : Prop := forall pi s, DK a pi s -> dview (pi ++ [SK s]) b = NNone.

Lemma ExclL_Nil_l b : ExclL Nil b.
Proof. intros pi s H. exfalso. eapply DK_Nil; eauto. Qed.

Lemma ExclL_Nil_r a : ExclL a Nil.
Proof. intros pi s _. apply dview_Nil. Qed.

Lemma ExclL_tidy a b : Tidy a -> ExclL a b.
Proof. intros T pi s H. exfalso. eapply Tidy_noDK; eauto. Qed.

(* ------------------------------------------------------------------ misc *)

Lemma Forall2_In_l {A B} (R : A -> B -> Prop) l l' x :
  Forall2 R l l' -> In x l -> exists y, In y l' /\ R x y.
Proof.
  induction 1; simpl; [tauto|]. intros [->|H1]; [eauto|].
  destruct (IHForall2 H1) as (y0 & A0 & B0). eauto.
Qed.

Lemma Forall2_In_r {A B} (R : A -> B -> Prop) l l' y :
  Forall2 R l l' -> In y l' -> exists x, In x l /\ R x y.
Proof.
  induction 1; simpl; [tauto|]. intros [->|H1]; [eauto|].
  destruct (IHForall2 H1) as (x0 & A0 & B0). eauto.
Qed.

Lemma khdf_xent x kv : khdf (xent x kv) = khdf kv.
Proof. reflexivity. Qed.
