(** C20 — loading is a function of (defaults, file, environment): history
    independence over SEQUENCES of loads in one process.

    The property compares the configurations that result from different
    placements of the same leaves.  That presupposes that "the configuration
    that results from (defaults, file, environment)" exists: a process that
    loads several times (tests, `heimdall validate`, any embedding) must get,
    for the n-th load, what the same three inputs give alone, and a
    configuration handed out earlier must not change when a later one is loaded.
    The tree-level model [load] is a Gallina function, so for it the sentence is
    empty; it stops being empty for what config.NewConfiguration does around it:

      result := defaultConfig()            (* a Configuration VALUE *)
      parser.Load(&result)                 (* reads the defaults out of result, merges, decodes INTO result *)
      return &result

    A Configuration value holds reference-typed settings (map[string]any for
    cache.config and the provider settings, slices, pointers).  Copying the value
    copies the references.  This file models exactly that: a heap of cells, a
    configuration value = the directly held tree plus (path, cell) pairs for its
    reference-typed settings, decoding writes the loaded subtree into the cell
    that the value refers to (mapstructure decodes into an existing non-nil
    map), and the deep observation of a value dereferences the cells AT THE TIME
    OF LOOKING.  [default_config share] is defaultConfig(): [share = false] makes
    new instances of the reference-typed defaults on every call (the code as it
    is: a composite literal evaluated per call); [share = true] hands out the
    instances made once at process start (a package-level defaults value copied
    shallowly).

    [history_independent]: with [share = false], for every sequence of loads and
    every k, the k-th result, looked at after ALL loads of the sequence, is the
    result of loading the k-th input alone on the built-in defaults.  (Taking
    sequences of every length, this is both "the n-th result is what its inputs
    give alone" and "earlier results never change".)  [shared_refuted] (in
    Properties/C20.v, by computation) shows that the sentence fails for
    [share = true].

    The section is generic in the loader ([ld k d input]: the k-th load of the
    process, so that every load may see its own Go map orders), in the tree
    type and in how a reference-typed setting is read out of / put into a tree
    ([sub]/[put] with the one law [put p (sub p t) t = t]). *)
From HV Require Import Base.Prelude C20.Model C20.Facts.

Section History.
  Variables T V I P : Type.
  Variable ld : nat -> T -> I -> res T.
  Variable sub : P -> T -> V.
  Variable put : P -> V -> T -> T.
  Hypothesis put_sub : forall p t, put p (sub p t) t = t.
  Variable d0 : T.               (* the built-in defaults, deeply *)
  Variable rps : list P.         (* their reference-typed settings *)

  Definition heap := nat -> V.

  Definition upd (l : nat) (v : V) (h : heap) : heap :=
    fun l' => if Nat.eqb l' l then v else h l'.

  (** a Configuration value *)
  Record cval := { direct : T; refs : list (P * nat) }.

  (** what a deep look at the value shows, in heap [h] *)
  Definition deref (h : heap) (c : cval) : T :=
    fold_left (fun t pl => put (fst pl) (h (snd pl)) t) (refs c) (direct c).

  Record proc := { hp : heap; next : nat; count : nat; shared : list (P * nat) }.

  (** new instances of the reference-typed settings of [src] *)
  Fixpoint alloc (ps : list P) (src : T) (h : heap) (nx : nat) : heap * nat * list (P * nat) :=
    match ps with
    | [] => (h, nx, [])
    | p :: r => let '(h', nx', rf) := alloc r src (upd nx (sub p src) h) (S nx) in
                (h', nx', (p, nx) :: rf)
    end.

  (** process start (package initialisation): the instances a shared defaults value would hold *)
  Definition start (h0 : heap) : proc :=
    let '(h, nx, rf) := alloc rps d0 h0 0 in
    {| hp := h; next := nx; count := 0; shared := rf |}.

  Definition default_config (share : bool) (s : proc) : proc * cval :=
    if share then (s, {| direct := d0; refs := shared s |})
    else let '(h, nx, rf) := alloc rps d0 (hp s) (next s) in
         ({| hp := h; next := nx; count := count s; shared := shared s |}, {| direct := d0; refs := rf |}).

  (** decoding the loaded tree into the value: every reference-typed setting is written into the cell the value refers to *)
  Definition write_all (rf : list (P * nat)) (t : T) (h : heap) : heap :=
    fold_left (fun h pl => upd (snd pl) (sub (fst pl) t) h) rf h.

  Definition with_heap (s : proc) (h : heap) : proc :=
    {| hp := h; next := next s; count := S (count s); shared := shared s |}.

  (** config.NewConfiguration; [None] = the load panicked (nothing was decoded) *)
  Definition new_configuration (share : bool) (s : proc) (inp : I) : proc * option cval :=
    let '(s1, c) := default_config share s in
    match ld (count s1) (deref (hp s1) c) inp with
    | Panic => (with_heap s1 (hp s1), None)
    | Ok t => (with_heap s1 (write_all (refs c) t (hp s1)), Some {| direct := t; refs := refs c |})
    end.

  Fixpoint run (share : bool) (s : proc) (ins : list I) : proc * list (option cval) :=
    match ins with
    | [] => (s, [])
    | i :: r => let '(s1, c) := new_configuration share s i in
                let '(s2, cs) := run share s1 r in (s2, c :: cs)
    end.

  Definition observe (h : heap) (c : option cval) : res T :=
    match c with Some c => Ok (deref h c) | None => Panic end.

  (* ---------------------------------------------------------------- proofs *)

  Lemma alloc_spec ps src : forall h nx h' nx' rf,
    alloc ps src h nx = (h', nx', rf) ->
    nx' = nx + length ps /\
    (forall l, l < nx -> h' l = h l) /\
    (forall p l, In (p, l) rf -> nx <= l < nx' /\ h' l = sub p src) /\
    NoDup (map snd rf).
  Proof.
    induction ps as [|p r IH]; intros h nx h' nx' rf E; simpl in E.
    - inv E. splits; [simpl; lia | auto | intros ? ? [] | constructor].
    - destruct (alloc r src (upd nx (sub p src) h) (S nx)) as [[h1 nx1] rf1] eqn:E1. inv E.
      destruct (IH _ _ _ _ _ E1) as (A & B & C & D). splits.
      + simpl. lia.
      + intros l Hl. rewrite B by lia. unfold upd.
        destruct (Nat.eqb l nx) eqn:En; [apply Nat.eqb_eq in En; lia | reflexivity].
      + intros q l [Hq|Hq].
        * inv Hq. split; [simpl; lia|]. rewrite B by lia. unfold upd. rewrite Nat.eqb_refl. reflexivity.
        * destruct (C _ _ Hq) as [C1 C2]. split; [lia | assumption].
      + simpl. constructor; [|assumption]. intro Hin. apply in_map_iff in Hin.
        destruct Hin as ([q l] & Hl & Hq). simpl in Hl; subst. destruct (C _ _ Hq). lia.
  Qed.

  Lemma deref_eq (h : heap) rf t :
    (forall p l, In (p, l) rf -> h l = sub p t) ->
    fold_left (fun t pl => put (fst pl) (h (snd pl)) t) rf t = t.
  Proof.
    induction rf as [|[p l] r IH]; intro H; simpl; [reflexivity|].
    rewrite (H p l) by (left; reflexivity). rewrite put_sub. apply IH.
    intros q l' Hq. apply H. right; assumption.
  Qed.

  Lemma write_all_cons p l r t h : write_all ((p, l) :: r) t h = write_all r t (upd l (sub p t) h).
  Proof. reflexivity. Qed.

  Lemma write_all_spec rf t : forall h,
    NoDup (map snd rf) ->
    (forall p l, In (p, l) rf -> write_all rf t h l = sub p t) /\
    (forall l, ~ In l (map snd rf) -> write_all rf t h l = h l).
  Proof.
    induction rf as [|[p l] r IH]; intros h ND.
    - split; [intros ? ? [] | reflexivity].
    - simpl in ND. inv ND. destruct (IH (upd l (sub p t) h) H2) as [A B]. split.
      + intros q l' [Hq|Hq]; rewrite write_all_cons.
        * inv Hq. rewrite B by assumption. unfold upd. rewrite Nat.eqb_refl. reflexivity.
        * apply A. assumption.
      + intros l' Hl'. rewrite write_all_cons. rewrite B by (intro; apply Hl'; right; assumption).
        unfold upd. destruct (Nat.eqb l' l) eqn:E; [|reflexivity].
        apply Nat.eqb_eq in E. subst. exfalso. apply Hl'. left; reflexivity.
  Qed.

  (** value [c] holds tree [t], in cells below [nx] *)
  Definition Good (c : cval) (t : T) (h : heap) (nx : nat) : Prop :=
    direct c = t /\ forall p l, In (p, l) (refs c) -> l < nx /\ h l = sub p t.

  Definition GoodO (oc : option cval) (r : res T) (h : heap) (nx : nat) : Prop :=
    match oc, r with
    | Some c, Ok t => Good c t h nx
    | None, Panic => True
    | _, _ => False
    end.

  Lemma Good_deref c t h nx : Good c t h nx -> deref h c = t.
  Proof.
    intros [A B]. unfold deref. rewrite A. apply deref_eq. intros p l H. apply B. assumption.
  Qed.

  Lemma GoodO_observe oc r h nx : GoodO oc r h nx -> observe h oc = r.
  Proof.
    destruct oc as [c|], r as [t|]; simpl; try contradiction; auto.
    intro G. f_equal. eapply Good_deref; eassumption.
  Qed.

  Lemma GoodO_mono oc r h nx h' nx' :
    GoodO oc r h nx -> nx <= nx' -> (forall l, l < nx -> h' l = h l) -> GoodO oc r h' nx'.
  Proof.
    destruct oc as [c|], r as [t|]; simpl; auto.
    intros [A B] Hle Hh. split; [assumption|]. intros p l H. destruct (B _ _ H) as [B1 B2].
    split; [lia|]. rewrite Hh by assumption. assumption.
  Qed.

  Lemma step_fresh s inp s1 oc :
    new_configuration false s inp = (s1, oc) ->
    next s <= next s1 /\ count s1 = S (count s) /\
    (forall l, l < next s -> hp s1 l = hp s l) /\
    GoodO oc (ld (count s) d0 inp) (hp s1) (next s1).
  Proof.
    unfold new_configuration, default_config.
    destruct (alloc rps d0 (hp s) (next s)) as [[h nx] rf] eqn:E. cbn [hp count refs next shared].
    destruct (alloc_spec _ _ _ _ _ _ _ E) as (A & B & C & D).
    assert (Hd : deref h {| direct := d0; refs := rf |} = d0).
    { unfold deref; cbn [direct refs]. apply deref_eq. intros p l H. apply C. assumption. }
    rewrite Hd. destruct (ld (count s) d0 inp) as [t|] eqn:El; intro H; inv H; unfold with_heap; cbn [hp next count].
    - destruct (write_all_spec rf t h D) as [W1 W2]. splits; [lia | reflexivity | | ].
      + intros l Hl. rewrite W2; [apply B; assumption|]. intro Hin. apply in_map_iff in Hin.
        destruct Hin as ([q l'] & Hq & Hin). simpl in Hq; subst. destruct (C _ _ Hin). lia.
      + split; [reflexivity|]. cbn [refs]. intros p l Hin. destruct (C _ _ Hin) as [[_ C1] _].
        split; [assumption | apply W1; assumption].
    - splits; [lia | reflexivity | assumption | simpl; trivial].
  Qed.

  Lemma run_fresh ins : forall s s' cs,
    run false s ins = (s', cs) ->
    next s <= next s' /\ (forall l, l < next s -> hp s' l = hp s l) /\
    forall k inp, nth_error ins k = Some inp ->
      exists oc, nth_error cs k = Some oc /\ GoodO oc (ld (count s + k) d0 inp) (hp s') (next s').
  Proof.
    induction ins as [|i r IH]; intros s s' cs E; simpl in E.
    - inv E. splits; [lia | auto |]. intros [|k] inp H; discriminate.
    - destruct (new_configuration false s i) as [s1 oc] eqn:E1.
      destruct (run false s1 r) as [s2 cs2] eqn:E2. inv E.
      destruct (step_fresh _ _ _ _ E1) as (A & B & C & D).
      destruct (IH _ _ _ E2) as (A2 & C2 & K2). splits.
      + lia.
      + intros l Hl. rewrite C2 by lia. apply C. assumption.
      + intros [|k] inp H; simpl in H.
        * inv H. exists oc. split; [reflexivity|]. rewrite Nat.add_0_r.
          eapply GoodO_mono; eassumption.
        * destruct (K2 _ _ H) as (oc' & H1 & H2). exists oc'. split; [assumption|].
          rewrite B in H2. replace (count s + S k) with (S (count s) + k) by lia. assumption.
  Qed.

  (** with new instances per load, every result — looked at after all loads of
      any sequence — is what its own input gives on the built-in defaults *)
  Theorem history_independent : forall h0 ins s' cs,
    run false (start h0) ins = (s', cs) ->
    forall k inp, nth_error ins k = Some inp ->
      exists oc, nth_error cs k = Some oc /\ observe (hp s') oc = ld k d0 inp.
  Proof.
    intros h0 ins s' cs E k inp H.
    destruct (run_fresh _ _ _ _ E) as (_ & _ & K).
    destruct (K _ _ H) as (oc & H1 & H2). exists oc. split; [assumption|].
    assert (Hc : count (start h0) = 0).
    { unfold start. destruct (alloc rps d0 h0 0) as [[? ?] ?]. reflexivity. }
    rewrite Hc in H2. simpl in H2. eapply GoodO_observe; eassumption.
  Qed.
End History.

(* ---------------------------------------------------------------- the instance for the tree model *)

(** a reference-typed setting is named by the keys that lead to it; [None] = the tree does not hold it *)
Fixpoint subp (p : list key) (m : list (key * cfg)) : option cfg :=
  match p with
  | [] => None
  | k :: r => match r with
              | [] => lookup k m
              | _ => match lookup k m with Some (Map m') => subp r m' | _ => None end
              end
  end.

Fixpoint putp (p : list key) (v : option cfg) (m : list (key * cfg)) : list (key * cfg) :=
  match v with
  | None => m
  | Some x =>
      match p with
      | [] => m
      | k :: r => match r with
                  | [] => set k x m
                  | _ => match lookup k m with
                         | Some (Map m') => set k (Map (putp r v m')) m
                         | _ => m
                         end
                  end
      end
  end.

Lemma set_same k x m : lookup k m = Some x -> set k x m = m.
Proof.
  induction m as [|[k' v'] r IH]; simpl; [discriminate|].
  destruct (key_eqb k k') eqn:E.
  - intro H; inv H. apply key_eqb_eq in E. subst. reflexivity.
  - intro H. rewrite IH by assumption. reflexivity.
Qed.

Lemma putp_subp p : forall m, putp p (subp p m) m = m.
Proof.
  induction p as [|k r IH]; intro m.
  - reflexivity.
  - destruct r as [|k2 r2].
    + simpl. destruct (lookup k m) as [x|] eqn:E; [apply set_same; assumption | reflexivity].
    + change (subp (k :: k2 :: r2) m) with (match lookup k m with Some (Map m') => subp (k2 :: r2) m' | _ => None end).
      destruct (lookup k m) as [[| |m'|]|] eqn:E; try reflexivity.
      destruct (subp (k2 :: r2) m') as [x|] eqn:Es; [|reflexivity].
      change (putp (k :: k2 :: r2) (Some x) m) with
        (match lookup k m with Some (Map m'') => set k (Map (putp (k2 :: r2) (Some x) m'')) m | _ => m end).
      rewrite E. rewrite <- Es, IH. apply set_same. assumption.
Qed.

Arguments run {T V I P}. Arguments start {T V P}. Arguments observe {T V P}. Arguments deref {T V P}.
Arguments new_configuration {T V I P}. Arguments default_config {T V P}.
Arguments hp {V P}. Arguments next {V P}. Arguments count {V P}. Arguments shared {V P}.
Arguments direct {T P}. Arguments refs {T P}.

(** the process model over the tree-level loader of the code as it is ([fix3 = true], [fix4 = false]);
    [shs k] = the iteration orders of the Go maps during the k-th load *)
Definition tree := list (key * cfg).
Definition input := (option tree * list (string * string))%type.

Definition proc_load (shs : nat -> nat -> tree -> tree) (to_real : string -> cfg) (pfx : string)
  : nat -> tree -> input -> res tree :=
  fun k d i => load (shs k) to_real true false pfx d (fst i) (snd i).

Definition run_loads shs to_real pfx (d0 : tree) (rps : list (list key)) (share : bool)
           (h0 : heap (option cfg)) (ins : list input) :=
  run (proc_load shs to_real pfx) subp putp d0 rps share (start subp d0 rps h0) ins.

(** a deep look at a result in the state of the process *)
Definition look (s : proc (option cfg) (list key)) (c : option (cval tree (list key))) : res tree :=
  observe putp (hp s) c.

(* ---------------------------------------------------------------- witness: a shared defaults value (the sentence fails) *)

Local Open Scope string_scope.

(** built-in defaults with one reference-typed setting (cache.config, an empty map); three loads: the first
    sets cache.config.address/db in its file, the second names only log.level (environment), the third sets
    cache.config.db = 2.  [hw_look share n k] = result k looked at after the first n loads. *)
Definition hw_d0 : tree :=
  [(K "cache", Map [(K "type", Leaf "in-memory"); (K "config", Map [])]); (K "log", Map [(K "level", Leaf "error")])].
Definition hw_rps : list (list key) := [[K "cache"; K "config"]].
Definition hw_ins : list input :=
  [ (Some [(K "cache", Map [(K "type", Leaf "redis"); (K "config", Map [(K "address", Leaf "a:1"); (K "db", Leaf "1")])])], []);
    (None, [("P_LOG_LEVEL", "debug")]);
    (Some [(K "cache", Map [(K "config", Map [(K "db", Leaf "2")])])], []) ].
Definition hw_run (share : bool) (n : nat) :=
  run_loads (fun _ => sh_bits []) Leaf "P_" hw_d0 hw_rps share (fun _ => None) (firstn n hw_ins).
Definition hw_look (share : bool) (n k : nat) : res tree :=
  let '(s, cs) := hw_run share n in look s (nth k cs None).
Definition hw_alone (k : nat) : res tree :=
  proc_load (fun _ => sh_bits []) Leaf "P_" k hw_d0 (nth k hw_ins (None, [])).

