(** C20 — merge.go's panic, characterised: on well-formed trees [merge] panics
    exactly when there is a path, reached through nodes of equal kind, at which
    the destination holds a map or a list and the source holds something of
    another kind ("Cannot merge ... Types are different").  Where the
    destination holds a scalar the source simply replaces it. *)
From HV Require Import Base.Prelude C20.Model C20.Spec C20.Facts C20.MergeProofs.
From Coq Require Import Permutation.

Definition is_container (n : node) : bool := match n with NMap | NLst _ => true | _ => false end.

Definition clash_at (dest src : cfg) (p : path) : Prop :=
  is_container (view p dest) = true /\ view p src <> NNone /\
  kcompat (view p dest) (view p src) = false /\
  forall q r, p = q ++ r -> r <> [] -> kcompat (view q dest) (view q src) = true.

Section Loops.
  Variable rec : cfg -> cfg -> res cfg.

  Lemma upd_map_panic_inv usm : forall dm,
    upd_map rec usm dm = Panic ->
    exists k old v, In (k, old) dm /\ lookup k usm = Some v /\ old <> Nil /\ rec old v = Panic.
  Proof.
    induction dm as [|[k old] r IH]; simpl; [discriminate|].
    destruct (merge_entry rec old (lookup k usm)) as [x|] eqn:E.
    - destruct (upd_map rec usm r) as [r'|] eqn:Er; [discriminate|]. intros _.
      destruct (IH eq_refl) as (k' & old' & v' & A & B & C & D). exists k', old', v'. splits; auto.
    - intros _. unfold merge_entry in E. destruct (lookup k usm) as [v|] eqn:El; [|discriminate].
      exists k, old, v. destruct old; try discriminate; splits; auto; discriminate.
  Qed.

  Lemma upd_map_panic usm : forall dm k old v,
    In (k, old) dm -> lookup k usm = Some v -> old <> Nil -> rec old v = Panic ->
    upd_map rec usm dm = Panic.
  Proof.
    induction dm as [|[k0 old0] r IH]; simpl; [tauto|].
    intros k old v [H|H] Hl Hn Hp.
    - inv H. unfold merge_entry. rewrite Hl. destruct old; try congruence; rewrite Hp; reflexivity.
    - rewrite (IH k old v H Hl Hn Hp). destruct (merge_entry rec old0 (lookup k0 usm)); reflexivity.
  Qed.

  Lemma zip_lst_panic_inv : forall dl sl,
    zip_lst rec dl sl = Panic ->
    exists i a v, nth_error dl i = Some a /\ nth_error sl i = Some v /\ a <> Nil /\ v <> Nil /\ rec a v = Panic.
  Proof.
    induction dl as [|a dr IH]; intros [|v sr]; simpl; try discriminate.
    destruct (match a with Nil => Ok v | _ => match v with Nil => Ok a | _ => rec a v end end) as [x|] eqn:E.
    - destruct (zip_lst rec dr sr) as [r|] eqn:Er; [discriminate|]. intros _.
      destruct (IH sr Er) as (i & a' & v' & A & B & C & D & F). exists (S i), a', v'. splits; auto.
    - intros _. exists 0, a, v. destruct a; try discriminate; destruct v; try discriminate; splits; auto; discriminate.
  Qed.

  Lemma zip_lst_panic : forall dl sl i a v,
    nth_error dl i = Some a -> nth_error sl i = Some v -> a <> Nil -> v <> Nil -> rec a v = Panic ->
    zip_lst rec dl sl = Panic.
  Proof.
    induction dl as [|a0 dr IH]; intros [|v0 sr] [|i] a v Ha Hv Na Nv Hp; simpl in *; try discriminate.
    - inv Ha. inv Hv. destruct a; try congruence; destruct v; try congruence; rewrite Hp; reflexivity.
    - rewrite (IH sr i a v Ha Hv Na Nv Hp).
      destruct (match a0 with Nil => Ok v0 | _ => match v0 with Nil => Ok a0 | _ => rec a0 v0 end end); reflexivity.
  Qed.
End Loops.

Lemma view_nth_error q l i :
  view (SI i :: q) (Lst l) = match nth_error l i with Some c => view q c | None => NNone end.
Proof. reflexivity. Qed.

Lemma clash_shift_map dm sm s old v p :
  lookup (K s) dm = Some old -> lookup (K s) sm = Some v ->
  (clash_at (Map dm) (Map sm) (SK s :: p) <-> clash_at old v p).
Proof.
  intros Hd Hs. unfold clash_at. simpl view. rewrite Hd, Hs. split.
  - intros (A & B & C & D). splits; auto. intros q r E Nr.
    specialize (D (SK s :: q) r). simpl in D. rewrite Hd, Hs in D. apply D; [rewrite E; reflexivity | assumption].
  - intros (A & B & C & D). splits; auto. intros [|a q] r E Nr; [reflexivity|].
    simpl in E. inv E. simpl. rewrite Hd, Hs. apply (D q r); auto.
Qed.

Lemma clash_shift_lst dl sl i a v p :
  nth_error dl i = Some a -> nth_error sl i = Some v ->
  (clash_at (Lst dl) (Lst sl) (SI i :: p) <-> clash_at a v p).
Proof.
  intros Hd Hs. unfold clash_at. rewrite !view_nth_error, Hd, Hs. split.
  - intros (A & B & C & D). splits; auto. intros q r E Nr.
    specialize (D (SI i :: q) r). rewrite !view_nth_error, Hd, Hs in D. apply D; [rewrite E; reflexivity | assumption].
  - intros (A & B & C & D). splits; auto. intros [|b q] r E Nr; [reflexivity|].
    simpl in E. inv E. rewrite !view_nth_error, Hd, Hs. apply (D q r); auto.
Qed.

Lemma view_nonnone_nonnil p t : view p t <> NNone -> t <> Nil.
Proof. intros H E. subst. rewrite view_Nil in H. congruence. Qed.

Section WithOrder.
  Variable sh : nat -> list (key * cfg) -> list (key * cfg).
  Hypothesis sh_perm : forall site l, Permutation (sh site l) l.
  Variable cl : cfg -> res cfg.

  Lemma lookup_unflatten sm k : Tidy (Map sm) -> lookup k (unflatten sh sm) = lookup k sm.
  Proof.
    intro T. rewrite (unflatten_tidy sh sh_perm sm T).
    destruct (Tidy_Map_inv _ T) as [ND _].
    apply lookup_perm; [|apply sh_perm].
    eapply perm_NoDup_keys; [apply Permutation_sym; apply sh_perm | assumption].
  Qed.

  Lemma panic_gives_clash : forall dest src,
    dest <> Nil -> src <> Nil -> Tidy dest -> Tidy src ->
    merge_with sh cl dest src = Panic -> exists p, clash_at dest src p.
  Proof.
    induction dest as [| w | dm IH | dl IH] using cfg_ind'; intros src Nd Ns Td Ts H.
    - congruence.
    - simpl in H. discriminate.
    - destruct src as [| w | sm | sl]; try congruence.
      + exists []. unfold clash_at. simpl. splits; auto; try discriminate.
        intros q r E Nr. destruct q; destruct r; simpl in E; congruence.
      + simpl in H.
        destruct (upd_map (fun o v => merge_with sh cl o v) (unflatten sh sm) dm) as [dm'|] eqn:E; [discriminate|].
        apply upd_map_panic_inv in E as (k & old & v & Hin & Hl & No & Hp).
        rewrite (lookup_unflatten sm k Ts) in Hl.
        destruct (Tidy_Map_inv _ Td) as [NDd FEd].
        assert (Hk : exists s, k = K s).
        { rewrite Forall_forall in FEd. destruct (FEd _ Hin) as ((s & Hs) & _). simpl in Hs. eauto. }
        destruct Hk as [s ->].
        assert (Ld : lookup (K s) dm = Some old) by (apply NoDup_lookup; assumption).
        destruct (Tidy_lookup _ _ _ Td Ld) as [_ To]. destruct (Tidy_lookup _ _ _ Ts Hl) as [Nv Tv].
        rewrite Forall_forall in IH. destruct (IH _ Hin v No Nv To Tv Hp) as [p Hc].
        exists (SK s :: p). apply (clash_shift_map dm sm s old v p Ld Hl). assumption.
      + exists []. unfold clash_at. simpl. splits; auto; try discriminate.
        intros q r E Nr. destruct q; destruct r; simpl in E; congruence.
    - destruct src as [| w | sm | sl]; try congruence.
      + exists []. unfold clash_at. simpl. splits; auto; try discriminate.
        intros q r E Nr. destruct q; destruct r; simpl in E; congruence.
      + exists []. unfold clash_at. simpl. splits; auto; try discriminate.
        intros q r E Nr. destruct q; destruct r; simpl in E; congruence.
      + simpl in H.
        destruct (zip_lst (fun a v => merge_with sh cl a v) dl sl) as [l|] eqn:E; [discriminate|].
        apply zip_lst_panic_inv in E as (i & a & v & Ha & Hv & Na & Nv & Hp).
        rewrite Forall_forall in IH.
        destruct (IH a (nth_error_In _ _ Ha) v Na Nv (Tidy_nth _ _ _ Td Ha) (Tidy_nth _ _ _ Ts Hv) Hp) as [p Hc].
        exists (SI i :: p). apply (clash_shift_lst dl sl i a v p Ha Hv). assumption.
  Qed.

  Lemma clash_gives_panic : forall p dest src,
    dest <> Nil -> src <> Nil -> Tidy dest -> Tidy src ->
    clash_at dest src p -> merge_with sh cl dest src = Panic.
  Proof.
    induction p as [|a p IH]; intros dest src Nd Ns Td Ts Hc.
    - destruct Hc as (A & B & C & _). simpl in A, B, C.
      destruct dest; simpl in A; try discriminate; destruct src; simpl in C; try discriminate; try congruence; reflexivity.
    - assert (H0 : kcompat (view [] dest) (view [] src) = true).
      { destruct Hc as (_ & _ & _ & D). apply (D [] (a :: p)); [reflexivity | discriminate]. }
      assert (Hd : view (a :: p) dest <> NNone).
      { destruct Hc as (A & _). intro E. rewrite E in A. discriminate. }
      assert (Hs : view (a :: p) src <> NNone) by (destruct Hc as (_ & B & _); assumption).
      destruct a as [s|i].
      + destruct dest as [| | dm |]; simpl in Hd; try congruence.
        destruct src as [| | sm |]; simpl in Hs; try congruence.
        destruct (lookup (K s) dm) as [old|] eqn:Ld; [|congruence].
        destruct (lookup (K s) sm) as [v|] eqn:Ls; [|congruence].
        apply (clash_shift_map dm sm s old v p Ld Ls) in Hc.
        destruct (Tidy_lookup _ _ _ Td Ld) as [No To]. destruct (Tidy_lookup _ _ _ Ts Ls) as [Nv Tv].
        assert (Hp := IH old v No Nv To Tv Hc).
        simpl. rewrite (upd_map_panic (fun o v => merge_with sh cl o v) (unflatten sh sm) dm (K s) old v); auto.
        * apply lookup_In. assumption.
        * rewrite (lookup_unflatten sm (K s) Ts). assumption.
      + destruct dest as [| | | dl]; simpl in Hd; try congruence.
        destruct src as [| | | sl]; simpl in Hs; try congruence.
        destruct (nth_error dl i) as [x|] eqn:Ld; [|congruence].
        destruct (nth_error sl i) as [v|] eqn:Ls; [|congruence].
        apply (clash_shift_lst dl sl i x v p Ld Ls) in Hc.
        assert (Nx : x <> Nil) by (apply (view_nonnone_nonnil p); assumption).
        assert (Nv : v <> Nil) by (apply (view_nonnone_nonnil p); assumption).
        assert (Hp := IH x v Nx Nv (Tidy_nth _ _ _ Td Ld) (Tidy_nth _ _ _ Ts Ls) Hc).
        simpl. rewrite (zip_lst_panic (fun a v => merge_with sh cl a v) dl sl i x v); auto.
  Qed.

  Theorem merge_panic_iff dest src :
    dest <> Nil -> src <> Nil -> Tidy dest -> Tidy src ->
    (merge_with sh cl dest src = Panic <-> exists p, clash_at dest src p).
  Proof.
    intros Nd Ns Td Ts. split.
    - apply panic_gives_clash; assumption.
    - intros [p Hc]. apply (clash_gives_panic p); assumption.
  Qed.
End WithOrder.
