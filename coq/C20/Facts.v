(** C20 — basic facts about association lists, keys, [view] and well-formed
    ("tidy") trees, shared by the proof files. *)
From HV Require Import Base.Prelude C20.Model C20.Spec.
From Coq Require Import Permutation.

Ltac splits := repeat match goal with |- _ /\ _ => split end.
Ltac inv H := inversion H; subst; clear H.

(* ------------------------------------------------------------------ keys *)

Lemma segs_eqb_eq a b : segs_eqb a b = true <-> a = b.
Proof. apply list_eqb_spec. intros x y. apply String.eqb_eq. Qed.

Lemma tag_eqb_eq a b : tag_eqb a b = true <-> a = b.
Proof.
  destruct a as [a1 a2], b as [b1 b2]. unfold tag_eqb; simpl.
  rewrite andb_true_iff, !String.eqb_eq. split; [intros [-> ->]; reflexivity | intro H; inv H; auto].
Qed.

Lemma key_eqb_eq a b : key_eqb a b = true <-> a = b.
Proof.
  destruct a as [a1 a2], b as [b1 b2]. unfold key_eqb; simpl.
  rewrite andb_true_iff, segs_eqb_eq.
  destruct a2 as [ta|], b2 as [tb|]; simpl; try rewrite tag_eqb_eq;
    split; try (intros [-> H]; try discriminate; try subst; reflexivity);
    try (intro H; inv H; auto).
Qed.

Lemma key_eqb_refl a : key_eqb a a = true.
Proof. apply key_eqb_eq. reflexivity. Qed.

Lemma key_eqb_neq a b : a <> b -> key_eqb a b = false.
Proof. intro H. destruct (key_eqb a b) eqn:E; [apply key_eqb_eq in E; contradiction | reflexivity]. Qed.

Lemma key_eqb_sym a b : key_eqb a b = key_eqb b a.
Proof.
  destruct (key_eqb a b) eqn:E.
  - apply key_eqb_eq in E; subst. symmetry. apply key_eqb_refl.
  - symmetry. apply key_eqb_neq. intro H; subst. rewrite key_eqb_refl in E. discriminate.
Qed.

Lemma key_dec (a b : key) : {a = b} + {a <> b}.
Proof.
  destruct (key_eqb a b) eqn:E; [left; apply key_eqb_eq; assumption | right].
  intro H; subst. rewrite key_eqb_refl in E. discriminate.
Qed.

Lemma K_inj s s' : K s = K s' -> s = s'.
Proof. unfold K. congruence. Qed.

Lemma key_eqb_K s s' : key_eqb (K s) (K s') = String.eqb s s'.
Proof.
  destruct (String.eqb s s') eqn:E.
  - apply String.eqb_eq in E; subst. apply key_eqb_refl.
  - apply key_eqb_neq. intro H. apply K_inj in H. subst. rewrite String.eqb_refl in E. discriminate.
Qed.

(* ------------------------------------------------------------------ lookup / set *)

Lemma lookup_In k m v : lookup k m = Some v -> In (k, v) m.
Proof.
  induction m as [|[k' v'] r IH]; simpl; [discriminate|].
  destruct (key_eqb k k') eqn:E.
  - apply key_eqb_eq in E; subst. intro H; inv H. left; reflexivity.
  - intro H. right. auto.
Qed.

Lemma lookup_None k m : lookup k m = None <-> ~ In k (map fst m).
Proof.
  induction m as [|[k' v'] r IH]; simpl; [tauto|].
  destruct (key_eqb k k') eqn:E.
  - apply key_eqb_eq in E; subst. split; [discriminate | intro H; exfalso; apply H; left; reflexivity].
  - rewrite IH. split.
    + intros H [H1|H1]; [subst; rewrite key_eqb_refl in E; discriminate | contradiction].
    + intros H H1. apply H. right. assumption.
Qed.

Lemma lookup_Some_in k m v : lookup k m = Some v -> In k (map fst m).
Proof. intro H. apply lookup_In in H. apply in_map_iff. exists (k, v); auto. Qed.

Lemma NoDup_lookup k v m : NoDup (map fst m) -> In (k, v) m -> lookup k m = Some v.
Proof.
  induction m as [|[k' v'] r IH]; simpl; [tauto|].
  intros ND [H|H].
  - inv H. rewrite key_eqb_refl. reflexivity.
  - inv ND. destruct (key_eqb k k') eqn:E.
    + apply key_eqb_eq in E; subst. exfalso. apply H2. apply in_map_iff. exists (k', v); auto.
    + auto.
Qed.

Lemma lookup_perm k m m' :
  NoDup (map fst m) -> Permutation m m' -> lookup k m = lookup k m'.
Proof.
  intros ND P.
  assert (ND' : NoDup (map fst m')).
  { eapply Permutation_NoDup; [apply Permutation_map; exact P | exact ND]. }
  destruct (lookup k m) as [v|] eqn:E.
  - symmetry. apply NoDup_lookup; [assumption|]. eapply Permutation_in; [exact P|]. apply lookup_In. assumption.
  - symmetry. apply lookup_None. apply lookup_None in E. intro H. apply E.
    eapply Permutation_in; [apply Permutation_map; apply Permutation_sym; exact P | exact H].
Qed.

Lemma lookup_app k m1 m2 :
  lookup k (m1 ++ m2) = match lookup k m1 with Some v => Some v | None => lookup k m2 end.
Proof.
  induction m1 as [|[k' v'] r IH]; simpl; [reflexivity|].
  destruct (key_eqb k k'); auto.
Qed.

Lemma mem_true k m : mem k m = true <-> In k (map fst m).
Proof.
  unfold mem. destruct (lookup k m) eqn:E.
  - split; [intros _; eapply lookup_Some_in; eauto | reflexivity].
  - split; [discriminate | intro H; apply lookup_None in E; contradiction].
Qed.

Lemma mem_false k m : mem k m = false <-> ~ In k (map fst m).
Proof.
  rewrite <- mem_true. destruct (mem k m); split; try congruence; intro H; exfalso; apply H; reflexivity.
Qed.

Lemma lookup_set k' k v m :
  lookup k' (set k v m) = if key_eqb k' k then Some v else lookup k' m.
Proof.
  induction m as [|[k0 v0] r IH]; simpl.
  - destruct (key_eqb k' k); reflexivity.
  - destruct (key_eqb k k0) eqn:E; simpl.
    + apply key_eqb_eq in E; subst. destruct (key_eqb k' k0); reflexivity.
    + destruct (key_eqb k' k0) eqn:E0.
      * apply key_eqb_eq in E0; subst. rewrite key_eqb_sym, E. reflexivity.
      * exact IH.
Qed.

Lemma set_new k v m : ~ In k (map fst m) -> set k v m = m ++ [(k, v)].
Proof.
  induction m as [|[k0 v0] r IH]; simpl; [reflexivity|].
  intro H. destruct (key_eqb k k0) eqn:E.
  - apply key_eqb_eq in E; subst. exfalso. apply H. left; reflexivity.
  - f_equal. apply IH. intro H1. apply H. right; assumption.
Qed.

Lemma set_keys_in k v m : In k (map fst m) -> map fst (set k v m) = map fst m.
Proof.
  induction m as [|[k0 v0] r IH]; simpl; [tauto|].
  intro H. destruct (key_eqb k k0) eqn:E; simpl.
  - apply key_eqb_eq in E; subst. reflexivity.
  - f_equal. apply IH. destruct H as [H|H]; [subst; rewrite key_eqb_refl in E; discriminate | assumption].
Qed.

Lemma NoDup_snoc {A} (l : list A) x : NoDup l -> ~ In x l -> NoDup (l ++ [x]).
Proof.
  intros ND H. eapply Permutation_NoDup; [apply Permutation_cons_append|].
  constructor; assumption.
Qed.

Lemma set_NoDup k v m : NoDup (map fst m) -> NoDup (map fst (set k v m)).
Proof.
  intro ND. destruct (in_dec key_dec k (map fst m)) as [H|H].
  - rewrite set_keys_in; assumption.
  - rewrite set_new by assumption. rewrite map_app; simpl.
    apply NoDup_snoc; assumption.
Qed.

Lemma In_set e k v m : In e (set k v m) -> e = (k, v) \/ In e m.
Proof.
  induction m as [|[k0 v0] r IH]; simpl.
  - intros [H|[]]; auto.
  - destruct (key_eqb k k0); simpl; intros [H|H]; auto.
    apply IH in H. tauto.
Qed.

Lemma In_set_other e k v m : In e m -> fst e <> k -> In e (set k v m).
Proof.
  induction m as [|[k0 v0] r IH]; simpl; [tauto|].
  intros [H|H] N.
  - subst. simpl in N. rewrite key_eqb_neq by congruence. left; reflexivity.
  - destruct (key_eqb k k0); simpl; [right; assumption | right; auto].
Qed.

Lemma In_set_self k v m : In (k, v) (set k v m).
Proof.
  induction m as [|[k0 v0] r IH]; simpl; [left; reflexivity|].
  destruct (key_eqb k k0); simpl; auto.
Qed.

(* ------------------------------------------------------------------ induction on trees *)

Section CfgInd.
  Variable P : cfg -> Prop.
  Hypothesis HNil : P Nil.
  Hypothesis HLeaf : forall v, P (Leaf v).
  Hypothesis HMap : forall m, Forall (fun kv => P (snd kv)) m -> P (Map m).
  Hypothesis HLst : forall l, Forall P l -> P (Lst l).

  Fixpoint cfg_ind' (t : cfg) : P t :=
    match t with
    | Nil => HNil
    | Leaf v => HLeaf v
    | Map m => HMap m ((fix go (m : list (key * cfg)) : Forall (fun kv => P (snd kv)) m :=
                          match m with
                          | [] => Forall_nil _
                          | kv :: r => Forall_cons kv (cfg_ind' (snd kv)) (go r)
                          end) m)
    | Lst l => HLst l ((fix go (l : list cfg) : Forall P l :=
                          match l with
                          | [] => Forall_nil _
                          | x :: r => Forall_cons x (cfg_ind' x) (go r)
                          end) l)
    end.
End CfgInd.

Lemma cfg_nil_dec (t : cfg) : {t = Nil} + {t <> Nil}.
Proof. destruct t; [left; reflexivity | right; discriminate ..]. Qed.

Lemma NoDup_app_intro {A} (l1 l2 : list A) :
  NoDup l1 -> NoDup l2 -> (forall x, In x l1 -> In x l2 -> False) -> NoDup (l1 ++ l2).
Proof.
  induction l1 as [|x r IH]; intros N1 N2 D; simpl; [assumption|].
  inversion N1 as [|x' r' Hx Hr]; subst. constructor.
  - intro H. apply in_app_or in H as [H|H]; [contradiction | apply (D x); [left; reflexivity | assumption]].
  - apply IH; auto. intros y Hy1 Hy2. apply (D y); [right; assumption | assumption].
Qed.

Lemma NoDup_map_filter {A B} (f : A -> B) (p : A -> bool) (l : list A) :
  NoDup (map f l) -> NoDup (map f (filter p l)).
Proof.
  induction l as [|x r IH]; simpl; intro N; [constructor|].
  inversion N as [|x' r' Hx Hr]; subst. destruct (p x); simpl; auto.
  constructor; auto. intro H. apply Hx. apply in_map_iff in H as (y & Hy & Hin).
  apply filter_In in Hin as [Hin _]. apply in_map_iff. eauto.
Qed.

(* ------------------------------------------------------------------ nodes *)

Lemma njoin_none_l y : njoin NNone y = y.
Proof. destruct y; reflexivity. Qed.

Lemma njoin_none_r x : njoin x NNone = x.
Proof. destruct x; reflexivity. Qed.

Lemma kcompat_sym a b : kcompat a b = kcompat b a.
Proof. destruct a, b; reflexivity. Qed.

Lemma kcompat_none_r a : kcompat a NNone = true.
Proof. destruct a; reflexivity. Qed.

(* ------------------------------------------------------------------ view *)

Lemma view_Nil p : view p Nil = NNone.
Proof. destruct p as [|[s|i] r]; reflexivity. Qed.

Lemma view_Leaf_cons v a p : view (a :: p) (Leaf v) = NNone.
Proof. destruct a; reflexivity. Qed.

Lemma view_perm p m m' :
  NoDup (map fst m) -> Permutation m m' -> view p (Map m) = view p (Map m').
Proof.
  intros ND Pm. destruct p as [|[s|i] r]; simpl; try reflexivity.
  rewrite (lookup_perm (K s) m m' ND Pm). reflexivity.
Qed.

(* ------------------------------------------------------------------ tidy trees *)

(** well-formed trees of the property's domain: map keys are single names
    without suffix, unique within a map, and no map value is nil (a nil may
    stand inside a list: a hole) *)
Inductive Tidy : cfg -> Prop :=
| Tidy_Nil : Tidy Nil
| Tidy_Leaf v : Tidy (Leaf v)
| Tidy_Map m :
    NoDup (map fst m) ->
    Forall (fun kv => (exists s, fst kv = K s) /\ snd kv <> Nil /\ Tidy (snd kv)) m ->
    Tidy (Map m)
| Tidy_Lst l : Forall Tidy l -> Tidy (Lst l).

Definition entry_ok (kv : key * cfg) : Prop :=
  (exists s, fst kv = K s) /\ snd kv <> Nil /\ Tidy (snd kv).

Lemma Tidy_Map_inv m : Tidy (Map m) -> NoDup (map fst m) /\ Forall entry_ok m.
Proof. intro T. inversion T as [| | m' ND FE |]; subst. split; assumption. Qed.

Lemma Tidy_Map_intro m : NoDup (map fst m) -> Forall entry_ok m -> Tidy (Map m).
Proof. intros. constructor; assumption. Qed.

Lemma Tidy_Lst_inv l : Tidy (Lst l) -> Forall Tidy l.
Proof. intro T. inversion T; subst; assumption. Qed.

Lemma Tidy_lookup m k v : Tidy (Map m) -> lookup k m = Some v -> v <> Nil /\ Tidy v.
Proof.
  intros T H. apply Tidy_Map_inv in T as [_ FE]. apply lookup_In in H. rewrite Forall_forall in FE.
  apply FE in H. destruct H as (_ & A & B). auto.
Qed.

Lemma Tidy_nth l i v : Tidy (Lst l) -> nth_error l i = Some v -> Tidy v.
Proof.
  intros T H. apply Tidy_Lst_inv in T. rewrite Forall_forall in T. apply T. eapply nth_error_In; eauto.
Qed.
