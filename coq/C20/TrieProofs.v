(** C20 — the nested maps that maps.Unflatten builds from the environment's
    flat keys ("tries": inner nodes without suffix, the converted values under
    keys that still carry their "#hash" suffix), what cleanSuffix makes of them,
    and how one more key changes them. *)
From HV Require Import Base.Prelude C20.Model C20.Spec C20.Facts C20.MergeProofs C20.ConvertProofs.
From Coq Require Import Permutation.

(** first entry whose key has the single segment [s], whatever its suffix *)
Fixpoint find_seg (s : string) (m : list (key * cfg)) : option cfg :=
  match m with
  | [] => None
  | (k, v) :: r => if segs_eqb (fst k) [s] then Some v else find_seg s r
  end.

(** [view] that ignores key suffixes *)
Fixpoint sview (p : path) (t : cfg) : node :=
  match p with
  | [] => match t with
          | Nil => NNone
          | Leaf v => NLeaf v
          | Map _ => NMap
          | Lst l => NLst (length l)
          end
  | SK s :: r => match t with
                 | Map m => match find_seg s m with Some c => sview r c | None => NNone end
                 | _ => NNone
                 end
  | SI i :: r => match t with
                 | Lst l => match nth_error l i with Some c => sview r c | None => NNone end
                 | _ => NNone
                 end
  end.

Definition segk (kv : key * cfg) : list string := fst (fst kv).

Lemma segs_eqb_sym a b : segs_eqb a b = segs_eqb b a.
Proof.
  destruct (segs_eqb a b) eqn:E.
  - apply segs_eqb_eq in E; subst. symmetry. apply segs_eqb_eq. reflexivity.
  - destruct (segs_eqb b a) eqn:E'; [|reflexivity]. apply segs_eqb_eq in E'; subst.
    assert (segs_eqb a a = true) by (apply segs_eqb_eq; reflexivity). congruence.
Qed.

Lemma segs_eqb_single s s' : segs_eqb [s] [s'] = String.eqb s s'.
Proof. unfold segs_eqb. simpl. rewrite andb_true_r. reflexivity. Qed.

Lemma find_seg_None s m : find_seg s m = None <-> ~ In [s] (map segk m).
Proof.
  induction m as [|[k v] r IH]; simpl; [tauto|].
  destruct (segs_eqb (fst k) [s]) eqn:E.
  - apply segs_eqb_eq in E. split; [discriminate | intro H; exfalso; apply H; left; exact E].
  - rewrite IH. unfold segk at 2. simpl. split.
    + intros H [H1|H1]; [rewrite H1 in E; rewrite (proj2 (segs_eqb_eq _ _) eq_refl) in E; discriminate | contradiction].
    + intros H H1. apply H. right; assumption.
Qed.

Lemma find_seg_In s m c : find_seg s m = Some c -> exists k, In (k, c) m /\ fst k = [s].
Proof.
  induction m as [|[k v] r IH]; simpl; [discriminate|].
  destruct (segs_eqb (fst k) [s]) eqn:E.
  - apply segs_eqb_eq in E. intro H; inv H. exists k. auto.
  - intro H. destruct (IH H) as (k' & H1 & H2). exists k'. auto.
Qed.

Lemma NoDup_segk_fst m : NoDup (map segk m) -> NoDup (map fst m).
Proof.
  intro H. induction m as [|[k v] r IH]; simpl in *; [constructor|].
  apply NoDup_cons_iff in H as [H1 H2]. constructor; [|auto].
  intro Hin. apply H1. apply in_map_iff in Hin as ([k' v'] & E & Hin). simpl in E; subst k'.
  apply in_map_iff. exists (k, v'). auto.
Qed.

Lemma In_find_seg s m k c : NoDup (map segk m) -> In (k, c) m -> fst k = [s] -> find_seg s m = Some c.
Proof.
  induction m as [|[k0 v0] r IH]; simpl; [tauto|].
  intros ND [H|H] Hk.
  - inv H. rewrite Hk. rewrite (proj2 (segs_eqb_eq _ _) eq_refl). reflexivity.
  - apply NoDup_cons_iff in ND as [N1 N2]. destruct (segs_eqb (fst k0) [s]) eqn:E.
    + apply segs_eqb_eq in E. exfalso. apply N1. apply in_map_iff. exists (k, c). unfold segk; simpl. split; [congruence | assumption].
    + auto.
Qed.

Lemma find_seg_app s m1 m2 :
  find_seg s (m1 ++ m2) = match find_seg s m1 with Some c => Some c | None => find_seg s m2 end.
Proof.
  induction m1 as [|[k v] r IH]; simpl; [reflexivity|]. destruct (segs_eqb (fst k) [s]); auto.
Qed.

Lemma find_seg_set s' s tg V m :
  In ([s], tg) (map fst m) -> NoDup (map segk m) ->
  find_seg s' (set ([s], tg) V m) = if String.eqb s' s then Some V else find_seg s' m.
Proof.
  induction m as [|[k0 v0] r IH]; simpl; [tauto|].
  intros Hin ND. apply NoDup_cons_iff in ND as [N1 N2].
  destruct (key_eqb ([s], tg) k0) eqn:E; simpl.
  - apply key_eqb_eq in E; subst k0. simpl. rewrite segs_eqb_single. rewrite (String.eqb_sym s s').
    destruct (String.eqb s' s); reflexivity.
  - destruct Hin as [Hin|Hin]; [subst k0; rewrite key_eqb_refl in E; discriminate|].
    rewrite IH by assumption.
    destruct (segs_eqb (fst k0) [s']) eqn:E1; [|reflexivity].
    apply segs_eqb_eq in E1. destruct (String.eqb s' s) eqn:E2; [|reflexivity].
    apply String.eqb_eq in E2; subst s'. exfalso. apply N1.
    apply in_map_iff in Hin as ([k1 v1] & Hk & Hin). simpl in Hk; subst k1.
    apply in_map_iff. exists (([s], tg), v1). unfold segk; simpl. auto.
Qed.

Lemma find_seg_plain s m : plain_keys m -> find_seg s m = lookup (K s) m.
Proof.
  intro PK. induction m as [|[k v] r IH]; simpl; [reflexivity|].
  apply Forall_cons_iff in PK as [[s0 Hs0] PK]. simpl in Hs0; subst k.
  rewrite key_eqb_K. simpl. rewrite segs_eqb_single, (String.eqb_sym s0 s).
  destruct (String.eqb s s0); auto.
Qed.

Lemma sview_map_cons s q m :
  sview (SK s :: q) (Map m) = match find_seg s m with Some c => sview q c | None => NNone end.
Proof. reflexivity. Qed.

Lemma sview_Nil p : sview p Nil = NNone.
Proof. destruct p as [|[s|i] r]; reflexivity. Qed.

Lemma sview_tidy : forall p t, Tidy t -> sview p t = view p t.
Proof.
  induction p as [|[s|i] r IH]; intros t T; [reflexivity| |]; destruct t; simpl; try reflexivity.
  - rewrite find_seg_plain by (apply Tidy_plain; assumption).
    destruct (lookup (K s) m) as [c|] eqn:E; [|reflexivity].
    apply IH. eapply Tidy_lookup; eauto.
  - destruct (nth_error l i) as [c|] eqn:E; [|reflexivity].
    apply IH. eapply Tidy_nth; eauto.
Qed.

(* ------------------------------------------------------------------ tries *)

Definition TrieE (Sub : cfg -> Prop) (kv : key * cfg) : Prop :=
  exists s, fst (fst kv) = [s] /\
    ((exists tg, snd (fst kv) = Some tg /\ Plain (snd kv) /\ Tidy (snd kv)) \/
     (snd (fst kv) = None /\ Sub (snd kv) /\ snd kv <> Map [])).

(** a trie below the top level: segments are unique within a node *)
Inductive SubT : cfg -> Prop :=
| SubT_map m : NoDup (map segk m) -> Forall (TrieE SubT) m -> SubT (Map m).

Lemma SubT_inv m : SubT (Map m) -> NoDup (map segk m) /\ Forall (TrieE SubT) m.
Proof. intro H. inversion H; subst. auto. Qed.

Lemma SubT_is_map t : SubT t -> exists m, t = Map m.
Proof. intro H. inversion H; subst. eauto. Qed.

Lemma Plain_not_nil u : Plain u -> u <> Nil.
Proof. destruct u; simpl; try tauto; discriminate. Qed.

Lemma TrieE_nonnil kv : TrieE SubT kv -> snd kv <> Nil.
Proof.
  intros (s & _ & [(tg & _ & P & _) | (_ & S & _)]); [apply Plain_not_nil; assumption|].
  destruct (SubT_is_map _ S) as [m ->]. discriminate.
Qed.

Lemma TrieE_root kv : TrieE SubT kv -> sview [] (snd kv) <> NNone.
Proof. intro H. apply TrieE_nonnil in H. destruct (snd kv); simpl; congruence. Qed.

Lemma TrieE_map_internal k sub : TrieE SubT (k, Map sub) -> snd k = None /\ SubT (Map sub) /\ sub <> [].
Proof.
  intros (s & _ & [(tg & _ & P & _) | (A & B & C)]); simpl in *; [contradiction|].
  splits; auto. congruence.
Qed.

Section WithOrder.
  Variable sh : nat -> list (key * cfg) -> list (key * cfg).
  Hypothesis sh_perm : forall site l, Permutation (sh site l) l.

  Lemma clean_plain u : Plain u -> clean_asis sh u = u.
  Proof. destruct u; simpl; tauto. Qed.

  Lemma lookup_cleaned (g : cfg -> cfg) s m :
    lookup (K s) (map (fun kv => (strip (fst kv), g (snd kv))) m) = option_map g (find_seg s m).
  Proof.
    induction m as [|[k v] r IH]; simpl; [reflexivity|].
    unfold key_eqb at 1. simpl. rewrite andb_true_r. rewrite (segs_eqb_sym [s] (fst k)).
    destruct (segs_eqb (fst k) [s]); auto.
  Qed.

  Lemma NoDup_strip_keys m :
    NoDup (map segk m) -> forall g : cfg -> cfg, NoDup (map fst (map (fun kv => (strip (fst kv), g (snd kv))) m)).
  Proof.
    intros ND g. rewrite map_map. simpl. unfold strip.
    induction m as [|[k v] r IH]; simpl in *; [constructor|].
    apply NoDup_cons_iff in ND as [N1 N2]. constructor; [|auto].
    intro H. apply N1. apply in_map_iff in H as (kv & E & Hin). inv E.
    apply in_map_iff. exists kv. unfold segk. auto.
  Qed.

  (** cleanSuffix on a trie: a well-formed tree that shows what the trie shows
      when suffixes are ignored *)
  Lemma clean_sub t :
    SubT t -> Tidy (clean_asis sh t) /\ forall p, view p (clean_asis sh t) = sview p t.
  Proof.
    induction t as [| v | m IH | l IH] using cfg_ind'; intro S; try (inversion S; fail).
    destruct (SubT_inv _ S) as [ND FE].
    rewrite clean_asis_map.
    set (C := map (fun kv => (strip (fst kv), clean_asis sh (snd kv))) m).
    assert (NDC : NoDup (map fst C)) by (apply NoDup_strip_keys; assumption).
    assert (ND2 : NoDup (map fst (sh 2 C))).
    { eapply perm_NoDup_keys; [apply Permutation_sym; apply sh_perm | assumption]. }
    rewrite fold_set_new by (simpl; assumption). simpl app.
    assert (EC : forall kv, In kv m ->
                   Tidy (clean_asis sh (snd kv)) /\ clean_asis sh (snd kv) <> Nil /\
                   forall p, view p (clean_asis sh (snd kv)) = sview p (snd kv)).
    { intros kv Hin. rewrite Forall_forall in IH, FE. specialize (IH _ Hin).
      destruct (FE _ Hin) as (s & Hs & [(tg & Ht & P & T) | (Ht & Sb & Ne)]).
      - rewrite clean_plain by assumption. splits; auto using Plain_not_nil.
        intro p. symmetry. apply sview_tidy. assumption.
      - destruct (IH Sb) as [A B]. splits; auto.
        destruct (SubT_is_map _ Sb) as [m' E]. rewrite E. rewrite clean_asis_map. discriminate. }
    split.
    - apply Tidy_Map_intro; [assumption|].
      eapply Permutation_Forall; [apply Permutation_sym; apply sh_perm|].
      unfold C. apply Forall_map. apply Forall_forall. intros kv Hin.
      destruct (EC kv Hin) as (A & B & _). rewrite Forall_forall in FE.
      destruct (FE _ Hin) as (s & Hs & _). unfold entry_ok, strip. simpl. rewrite Hs. splits; auto.
      exists s. reflexivity.
    - intro p. rewrite (view_perm p (sh 2 C) C ND2 (sh_perm 2 C)).
      destruct p as [|[s|i] q]; simpl; try reflexivity.
      unfold C. rewrite lookup_cleaned.
      destruct (find_seg s m) as [c|] eqn:E; simpl; [|reflexivity].
      apply find_seg_In in E as (k & Hin & _). destruct (EC (k, c) Hin) as (_ & _ & H). apply H.
  Qed.
End WithOrder.

(* ------------------------------------------------------------------ one more key *)

Lemma nest_cons s r u : r <> [] -> nest (s :: r) u = Map [(K s, nest r u)].
Proof. destruct r; [congruence | reflexivity]. Qed.

Lemma nest_single s u : nest [s] u = Map [(K s, u)].
Proof. reflexivity. Qed.

Lemma nest_is_map ks u : ks <> [] -> exists m, nest ks u = Map m.
Proof. destruct ks as [|s [|s2 r]]; [congruence | eexists; reflexivity ..]. Qed.

Lemma sview_nest_cons s' s r u q :
  sview (SK s' :: q) (nest (s :: r) u) = if String.eqb s' s then sview q (nest r u) else NNone.
Proof.
  destruct r as [|s2 r'].
  - simpl. rewrite segs_eqb_single, (String.eqb_sym s s'). destruct (String.eqb s' s); reflexivity.
  - rewrite nest_cons by discriminate. simpl sview at 1. rewrite segs_eqb_single, (String.eqb_sym s s').
    destruct (String.eqb s' s); reflexivity.
Qed.

Lemma sview_empty_map_join q ks u :
  ks <> [] -> njoin (sview q (Map [])) (sview q (nest ks u)) = sview q (nest ks u).
Proof.
  intro N. destruct q as [|[s|i] q'].
  - destruct (nest_is_map ks u N) as [m ->]. reflexivity.
  - simpl sview at 1. apply njoin_none_l.
  - simpl sview at 1. apply njoin_none_l.
Qed.

Lemma find_seg_none_of_view s m :
  Forall (TrieE SubT) m -> sview [SK s] (Map m) = NNone -> find_seg s m = None.
Proof.
  intros FE H. simpl in H. destruct (find_seg s m) as [c|] eqn:E; [|reflexivity].
  apply find_seg_In in E as (k & Hin & _). rewrite Forall_forall in FE.
  apply FE in Hin. apply TrieE_root in Hin. simpl in Hin. contradiction.
Qed.

Lemma lookup_K_find_seg s m c : lookup (K s) m = Some c -> find_seg s m <> None.
Proof.
  intro H. apply lookup_In in H. intro E. apply find_seg_None in E. apply E.
  apply in_map_iff. exists (K s, c). auto.
Qed.

Lemma map_segk_set k v m : In k (map fst m) -> map segk (set k v m) = map segk m.
Proof.
  intro H.
  assert (E : forall l : list (key * cfg), map segk l = map fst (map fst l)).
  { intro l. rewrite map_map. reflexivity. }
  rewrite !E, set_keys_in by assumption. reflexivity.
Qed.

Section Insert.
  Variables (u : cfg) (tg : tag).
  Hypothesis Pu : Plain u.
  Hypothesis Tu : Tidy u.

  Lemma sub_insert : forall ks m,
    SubT (Map m) -> ks <> [] ->
    sview (map SK ks) (Map m) = NNone ->
    (forall ks1 ks2, ks = ks1 ++ ks2 -> ks1 <> [] -> ks2 <> [] ->
       sview (map SK ks1) (Map m) = NNone \/ sview (map SK ks1) (Map m) = NMap) ->
    SubT (Map (insert_path m ks (Some tg) u)) /\ insert_path m ks (Some tg) u <> [] /\
    forall q, sview q (Map (insert_path m ks (Some tg) u)) = njoin (sview q (Map m)) (sview q (nest ks u)).
  Proof.
    induction ks as [|s rest IH]; intros m S Nk Hend Hpre; [congruence|].
    destruct (SubT_inv _ S) as [ND FE].
    destruct rest as [|s2 rest'].
    - (* last segment: the value is stored under the suffixed key *)
      clear IH Hpre. simpl in Hend. simpl insert_path.
      assert (Fn : find_seg s m = None) by (apply find_seg_none_of_view; assumption).
      assert (Nin : ~ In ([s], Some tg) (map fst m)).
      { intro H. apply find_seg_None in Fn. apply Fn. apply in_map_iff in H as (kv & E & Hin).
        apply in_map_iff. exists kv. unfold segk. rewrite E. auto. }
      rewrite set_new by assumption. splits.
      + constructor.
        * rewrite map_app. simpl. apply NoDup_snoc; [assumption|]. apply find_seg_None. assumption.
        * apply Forall_app. split; [assumption|]. constructor; [|constructor].
          exists s. simpl. split; [reflexivity|]. left. eauto.
      + destruct m; discriminate.
      + intros [|[s'|i] q]; try reflexivity.
        rewrite (sview_nest_cons s' s [] u q). rewrite !sview_map_cons.
        rewrite find_seg_app. simpl find_seg at 2. rewrite segs_eqb_single, (String.eqb_sym s s').
        destruct (String.eqb s' s) eqn:E.
        * apply String.eqb_eq in E; subst s'. rewrite Fn. rewrite njoin_none_l. reflexivity.
        * destruct (find_seg s' m); rewrite njoin_none_r; reflexivity.
    - (* an inner segment: descend into (or create) the node without suffix *)
      set (rest := s2 :: rest') in *.
      assert (Nr : rest <> []) by discriminate.
      change (insert_path m (s :: rest) (Some tg) u) with
        (match lookup (K s) m with
         | None => set (K s) (Map (insert_path [] rest (Some tg) u)) m
         | Some (Map sub) => set (K s) (Map (insert_path sub rest (Some tg) u)) m
         | Some _ => insert_path m rest (Some tg) u
         end).
      assert (Hs : sview [SK s] (Map m) = NNone \/ sview [SK s] (Map m) = NMap).
      { apply (Hpre [s] rest); [reflexivity | discriminate | assumption]. }
      destruct (find_seg s m) as [c|] eqn:Fs.
      + (* the node exists *)
        assert (Hc : exists sub, c = Map sub).
        { simpl in Hs. rewrite Fs in Hs. destruct Hs as [Hs|Hs].
          - apply find_seg_In in Fs as (k & Hin & _). rewrite Forall_forall in FE.
            apply FE in Hin. apply TrieE_root in Hin. contradiction.
          - destruct c; simpl in Hs; try discriminate. eauto. }
        destruct Hc as [sub ->].
        destruct (find_seg_In _ _ _ Fs) as (k & Hin & Hk).
        assert (TE : TrieE SubT (k, Map sub)) by (rewrite Forall_forall in FE; auto).
        destruct (TrieE_map_internal _ _ TE) as (Hk2 & Ssub & Nsub).
        assert (Ek : k = K s) by (destruct k; simpl in *; subst; reflexivity). subst k.
        assert (Lk : lookup (K s) m = Some (Map sub)).
        { apply NoDup_lookup; [apply NoDup_segk_fst; assumption | assumption]. }
        rewrite Lk.
        destruct (IH sub Ssub Nr) as (S' & N' & V').
        { simpl in Hend. rewrite Fs in Hend. exact Hend. }
        { intros ks1 ks2 E N1 N2.
          specialize (Hpre (s :: ks1) ks2). simpl in Hpre. rewrite Fs in Hpre.
          apply Hpre; [rewrite E; reflexivity | discriminate | assumption]. }
        assert (Kin : In (K s) (map fst m)) by (apply in_map_iff; exists (K s, Map sub); auto).
        splits.
        * constructor.
          -- rewrite map_segk_set; assumption.
          -- rewrite Forall_forall in *. intros e He. apply In_set in He as [->|He]; [|auto].
             exists s. simpl. split; [reflexivity|]. right. splits; auto.
             intro E0. injection E0. exact N'.
        * intro E. assert (H := In_set_self (K s) (Map (insert_path sub rest (Some tg) u)) m). rewrite E in H. contradiction.
        * intros [|[s'|i] q]; try reflexivity.
          rewrite (sview_nest_cons s' s rest u q). rewrite !sview_map_cons.
          unfold K at 1. rewrite find_seg_set by assumption.
          destruct (String.eqb s' s) eqn:E.
          -- apply String.eqb_eq in E; subst s'. rewrite Fs. apply V'.
          -- destruct (find_seg s' m); rewrite njoin_none_r; reflexivity.
      + (* the node is new *)
        assert (Lk : lookup (K s) m = None).
        { destruct (lookup (K s) m) eqn:E; [|reflexivity]. apply lookup_K_find_seg in E. contradiction. }
        rewrite Lk.
        destruct (IH [] (SubT_map [] (NoDup_nil _) (Forall_nil _)) Nr) as (S' & N' & V').
        { destruct rest; [congruence | reflexivity]. }
        { intros ks1 ks2 E N1 N2. left. destruct ks1; [congruence | reflexivity]. }
        assert (Nin : ~ In (K s) (map fst m)) by (apply lookup_None; assumption).
        rewrite set_new by assumption. splits.
        * constructor.
          -- rewrite map_app. simpl. apply NoDup_snoc; [assumption|]. apply find_seg_None. assumption.
          -- apply Forall_app. split; [assumption|]. constructor; [|constructor].
             exists s. simpl. split; [reflexivity|]. right. splits; auto.
             intro E0. injection E0. exact N'.
        * destruct m; discriminate.
        * intros [|[s'|i] q]; try reflexivity.
          rewrite (sview_nest_cons s' s rest u q). rewrite !sview_map_cons.
          rewrite find_seg_app. simpl find_seg at 2. rewrite segs_eqb_single, (String.eqb_sym s s').
          destruct (String.eqb s' s) eqn:E.
          -- apply String.eqb_eq in E; subst s'. rewrite Fs. rewrite njoin_none_l.
             rewrite V'. apply sview_empty_map_join. assumption.
          -- destruct (find_seg s' m); rewrite njoin_none_r; reflexivity.
  Qed.
End Insert.
