(** C20 — splits of a configuration and the narrowed guard of C20-F4: the file
    that remains after moving leaves to the environment ([keep_map sel c]) still
    holds every map and every list of [c], so the first clause of [guard_F4n]
    (no map at the list element) cannot fire for a split.  What is left of the
    guard is its second clause alone ([guard_F4s], a condition on the variables
    only): two variables below the same list element and first name segment. *)
From HV Require Import Base.Prelude C20.Model C20.Spec C20.Facts C20.MergeProofs C20.ConvertProofs
  C20.NodeAlg C20.LoadProofs C20.Proofs C20.ScopeProofs C20.SplitProofs C20.DottedConvert C20.DottedLoad C20.DottedProofs.
From Coq Require Import Permutation.

(** the second clause of [guard_F4n]: a variable continues with two or more
    name segments below a list index, and another variable addresses the same
    element with the same first name segment *)
Definition guard_F4s (ne : list (string * string)) : bool :=
  existsb (fun a =>
    existsb (fun site =>
      existsb (fun b => negb (String.eqb (fst a) (fst b) && String.eqb (snd a) (snd b)) &&
                        match strip_prefix (psegs (fst site ++ [snd site])) (parse_path (fst b)) with
                        | Some _ => true
                        | None => false
                        end) ne)
    (f4_sites [] (split_dot (fst a)))) ne.

Lemma keep_NMap : forall p t sel, Tidy t -> view p t = NMap -> view p (keep sel t) = NMap.
Proof.
  induction p as [|[s|i] q IH]; intros t sel T H.
  - destruct t; simpl in H; try discriminate. rewrite keep_Map. reflexivity.
  - destruct t as [| |m|]; simpl in H; try discriminate.
    rewrite keep_Map. destruct (Tidy_Map_inv _ T) as [ND FE].
    rewrite (keep_map_lookup sel m s ND FE eq_refl q).
    destruct (lookup (K s) m) as [v|] eqn:E; [|discriminate].
    apply IH; [eapply Tidy_lookup; eauto | assumption].
  - destruct t as [| | |l]; simpl in H; try discriminate.
    rewrite keep_Lst, (keep_lst_nth sel l 0 i q).
    destruct (nth_error l i) eqn:E; [|discriminate]. apply IH; [eapply Tidy_nth; eauto | assumption].
Qed.

Lemma f4_sites_split : forall parts pre site,
  In site (f4_sites pre parts) -> exists r, pre ++ parts = fst site ++ snd site :: r.
Proof.
  induction parts as [|p r IH]; intros pre site H; [contradiction|].
  cbn [f4_sites] in H. apply in_app_or in H as [H|H].
  - destruct (is_num p && (2 <=? length (name_prefix r))) eqn:E; [|contradiction].
    destruct H as [<-|[]]. simpl. apply andb_true_iff in E as [_ E]. apply Nat.leb_le in E.
    destruct r as [|q r']; [simpl in E; lia|]. exists r'. simpl. rewrite <- app_assoc. reflexivity.
  - destruct (IH _ _ H) as (r' & E). exists r'. rewrite <- E, <- app_assoc. reflexivity.
Qed.

Lemma strip_prefix_app_intro : forall p r, strip_prefix p (p ++ r) = Some r.
Proof.
  induction p as [|a p IH]; intro r; [reflexivity|]. simpl.
  assert (E : seg_eqb a a = true) by (destruct a; simpl; [apply String.eqb_refl | apply Nat.eqb_refl]).
  rewrite E. apply IH.
Qed.

(** for the variables of a split, only the second clause of the narrowed guard can fire *)
Lemma guard_F4n_of_split to_real d c sel ne tenv :
  Tidy (Map c) -> typed_env to_real ne = Some tenv ->
  (forall e, In e tenv -> In e (leaves (Map c))) ->
  guard_F4s ne = false -> guard_F4n d (keep_map sel c) ne = false.
Proof.
  intros Tc Ht Hl Hs. destruct (typed_env_map to_real _ _ Ht) as [Et _].
  unfold guard_F4n. destruct (existsb _ ne) eqn:E; [|reflexivity]. exfalso.
  apply existsb_exists in E as (a & Ha & E). apply existsb_exists in E as (site & Hsite & E).
  apply orb_true_iff in E as [E|E].
  - (* the element is still a map in the remaining file *)
    apply negb_true_iff in E. apply orb_false_iff in E as [_ E].
    destruct (f4_sites_split _ [] site Hsite) as (r & Er). simpl in Er.
    assert (Hin : In (tof to_real a) (leaves (Map c))) by (apply Hl; rewrite Et; apply in_map; assumption).
    assert (Ep : fst (tof to_real a) = psegs (fst site) ++ SK (snd site) :: psegs r).
    { unfold tof, parse_path. simpl fst. rewrite Er, psegs_app. simpl. unfold seg_of at 1.
      rewrite (f4_sites_nonnum _ _ _ Hsite). reflexivity. }
    assert (Cn : contrib (psegs (fst site)) (tof to_real a) = NMap).
    { unfold contrib. rewrite Ep, strip_prefix_app_intro. reflexivity. }
    assert (S := contrib_leaf_sub (Map c) (tof to_real a) (psegs (fst site)) Tc Hin). rewrite Cn in S.
    assert (Vc : view (psegs (fst site)) (Map c) = NMap).
    { destruct S as [S|S]; [discriminate|]. destruct (view (psegs (fst site)) (Map c)); simpl in S; try discriminate. reflexivity. }
    assert (Vk := keep_NMap _ _ sel Tc Vc). rewrite keep_Map in Vk. rewrite Vk in E. discriminate.
  - assert (X : guard_F4s ne = true).
    { unfold guard_F4s. apply existsb_exists. exists a. split; [assumption|].
      apply existsb_exists. exists site. split; assumption. }
    congruence.
Qed.

(** file/environment equivalence for every split of the leaves of a
    configuration of the domain in which no two moved leaves lie below the same
    list element and first name segment (the shape of C20-F4 that survives when
    the element exists): nested structures inside list elements included *)
Theorem file_env_equivalent_splits_s :
  forall sh sh' to_real pfx d c sel env tenv,
    perm_fun sh -> perm_fun sh' ->
    in_scope d c [] ->
    typed_env to_real (norm_env pfx env) = Some tenv ->
    Permutation tenv (sel_leaves sel (Map c)) ->
    guard_F4s (norm_env pfx env) = false ->
    exists t t', load sh to_real true false pfx d (Some (keep_map sel c)) env = Ok t /\
                 load sh' to_real true false pfx d (Some c) [] = Ok t' /\
                 Tidy (Map t) /\ Tidy (Map t') /\
                 forall p, view p (Map t) = view p (Map t').
Proof.
  intros sh sh' to_real pfx d c sel env tenv Hs Hs' Sc Ht P G.
  apply (file_env_equivalent_splits_n sh sh' to_real pfx d c sel env tenv); auto.
  destruct Sc as (_ & Tc & _).
  apply (guard_F4n_of_split to_real d c sel _ tenv Tc Ht); [|assumption].
  intros e He. apply (Permutation_in _ P) in He. unfold sel_leaves in He. apply filter_In in He. tauto.
Qed.

Local Open Scope string_scope.

Example split_example_s :
  guard_F4s (norm_env "P_" exn_senv) = false /\
  guard_F4s (norm_env "P_" [("P_A_0_CONFIG_USER", "u"); ("P_A_0_CONFIG_PASSWORD", "p")]) = true.
Proof. split; vm_compute; reflexivity. Qed.

(** the second clause of the guard is not over-cautious: with the list element
    (and even its [config] map) in the file, two options of one element given by
    variables — A_0_CONFIG_USER and A_0_CONFIG_PASSWORD — do not both arrive for
    every order: koanfFromEnv's own merge leaves {"config.user": .., "config":
    {password: ..}} (or the other way round), and the last merge's Unflatten
    drops the dotted one when it meets it first.  Each variable alone is inside
    the theorems.  (Replayed on the real loader: 40 of 60 loads lose one.) *)
Definition exs_f : list (key * cfg) :=
  [(K "a", Lst [Map [(K "id", Leaf "x"); (K "config", Map [(K "u", Leaf "1")])]])].

Lemma F4_sharing_refuted :
  exists env env' p,
    Permutation env env' /\
    in_scope_b [] exs_f (typed_env tr_id (norm_env "P_" env)) = true /\
    (forall a, In a env -> guard_F4n [] exs_f (norm_env "P_" [a]) = false) /\
    guard_F4s (norm_env "P_" env) = true /\
    top_view p (load (sh_bits []) tr_id true false "P_" [] (Some exs_f) env) <>
    top_view p (load (sh_bits []) tr_id true false "P_" [] (Some exs_f) env').
Proof.
  exists [("P_A_0_CONFIG_USER", "bob"); ("P_A_0_CONFIG_PASSWORD", "pw")],
         [("P_A_0_CONFIG_PASSWORD", "pw"); ("P_A_0_CONFIG_USER", "bob")],
         [SK "a"; SI 0; SK "config"; SK "user"].
  split; [apply perm_swap|]. split; [vm_compute; reflexivity|]. split.
  - intros a [<-|[<-|[]]]; vm_compute; reflexivity.
  - split; [vm_compute; reflexivity|]. vm_compute. congruence.
Qed.
