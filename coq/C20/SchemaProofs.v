(** C20 — the finite statement about the regenerated schema/loader tables. *)
From HV Require Import Base.Prelude C20.SchemaModel C20.SchemaPinned Gen.SchemaTables Gen.SchemaTablesOk.
Local Open Scope string_scope.

Lemma row_eqb_eq a b : row_eqb a b = true -> a = b.
Proof.
  destruct a, b; simpl; try discriminate; rewrite ?andb_true_iff, ?String.eqb_eq;
    intuition; subst; reflexivity.
Qed.

(** every mechanism type, config object and option that the schema or the
    loader knows is known to both, with the same value constraint and the same
    requiredness — except the rows of the recorded finding C20-F1 *)
Lemma schema_loader_agree :
  forall r, In r (all_rows schema_tbl loader_tbl) -> guard_F1 fixed_F1a fixed_F1b r = false ->
            guard_F6_row schema_tbl loader_tbl r = false ->
            row_agrees schema_tbl loader_tbl r = true.
Proof.
  intros r Hin Hg Hg6. assert (H := tables_agree). unfold tables_ok in H.
  rewrite forallb_forall in H. specialize (H r Hin). rewrite Hg, Hg6 in H. exact H.
Qed.

Lemma pinned_recorded : recorded_all_disagree (known_F1a ++ known_F1b) pinned_schema_tbl pinned_loader_tbl = true.
Proof. vm_compute. reflexivity. Qed.

Lemma pinned_c_recorded : recorded_all_disagree known_F1c pinned_c_schema_tbl pinned_c_loader_tbl = true.
Proof. vm_compute. reflexivity. Qed.

Lemma recorded_sound known s l :
  recorded_all_disagree known s l = true ->
  forall r, In r known -> In r (all_rows s l) /\ row_agrees s l r = false.
Proof.
  intros H r Hin. unfold recorded_all_disagree in H. rewrite forallb_forall in H.
  specialize (H r Hin). apply existsb_exists in H as (x & Hx & E). apply row_eqb_eq in E. subst x.
  unfold disagreements in Hx. apply filter_In in Hx as [A B]. split; [assumption|].
  apply negb_true_iff. assumption.
Qed.

(** no stale guard: every recorded row is a row of the pinned tables on which
    schema and loader disagree (groups a and b: the tree before 80621e4; group c: 6c5864d) *)
Lemma F1_rows_all_disagree :
  (forall r, In r (known_F1a ++ known_F1b) ->
     In r (all_rows pinned_schema_tbl pinned_loader_tbl) /\ row_agrees pinned_schema_tbl pinned_loader_tbl r = false) /\
  (forall r, In r known_F1c ->
     In r (all_rows pinned_c_schema_tbl pinned_c_loader_tbl) /\ row_agrees pinned_c_schema_tbl pinned_c_loader_tbl r = false).
Proof. split; [apply (recorded_sound _ _ _ pinned_recorded) | apply (recorded_sound _ _ _ pinned_c_recorded)]. Qed.

Lemma F1_refuted :
  exists r, In r (all_rows pinned_schema_tbl pinned_loader_tbl) /\ guard_F1 false false r = true /\
            row_agrees pinned_schema_tbl pinned_loader_tbl r = false.
Proof.
  exists (ROpt "error_handlers" "redirect" "code").
  destruct (proj1 F1_rows_all_disagree (ROpt "error_handlers" "redirect" "code")) as [A B].
  { unfold known_F1a, known_F1b. simpl. tauto. }
  split; [assumption | split; [reflexivity | assumption]].
Qed.

(** non-vacuity: the tables are not empty and most rows are unguarded *)
Example tables_nonvacuous :
  Nat.leb 15 (length schema_tbl) && Nat.leb 15 (length loader_tbl) &&
  Nat.leb 100 (length (filter (fun r => negb (guard_F1 false false r)) (all_rows schema_tbl loader_tbl))) = true.
Proof. vm_compute. reflexivity. Qed.

(* ------------------------------------------------------------------ agreement of the tables is agreement on acceptance *)

Lemma find_mech_some t k ty m : find_mech t k ty = Some m -> In m t /\ m_kind m = k /\ m_type m = ty.
Proof.
  unfold find_mech. intro H. apply find_some in H as [A B]. apply andb_true_iff in B as [B1 B2].
  apply String.eqb_eq in B1, B2. auto.
Qed.

Lemma find_opt_some m n o : find_opt m n = Some o -> In o (m_opts m) /\ o_name o = n.
Proof. unfold find_opt. intro H. apply find_some in H as [A B]. apply String.eqb_eq in B. auto. Qed.

Lemma rows_of_type t m : In m t -> In (RType (m_kind m) (m_type m)) (rows_of t).
Proof. intro H. unfold rows_of. apply in_flat_map. exists m. split; [assumption | left; reflexivity]. Qed.

Lemma rows_of_opt t m o : In m t -> In o (m_opts m) -> In (ROpt (m_kind m) (m_type m) (o_name o)) (rows_of t).
Proof.
  intros H Ho. unfold rows_of. apply in_flat_map. exists m. split; [assumption|]. right. right.
  apply in_map_iff. exists o. auto.
Qed.

Lemma subset_existsb a b v : subset a b = true -> existsb (String.eqb v) a = true -> existsb (String.eqb v) b = true.
Proof.
  unfold subset. rewrite forallb_forall. intros H E. apply existsb_exists in E as (x & Hx & Ex).
  apply String.eqb_eq in Ex. subst x. apply H. assumption.
Qed.

Lemma subset_existsb_eq a b v : subset a b = true -> subset b a = true -> existsb (String.eqb v) a = existsb (String.eqb v) b.
Proof.
  intros H1 H2. destruct (existsb (String.eqb v) a) eqn:E.
  - symmetry. eapply subset_existsb; eassumption.
  - destruct (existsb (String.eqb v) b) eqn:E'; [|reflexivity].
    rewrite (subset_existsb b a v H2 E') in E. discriminate.
Qed.

Lemma constr_eqb_value_ok c c' v : constr_eqb c c' = true -> value_ok c v = value_ok c' v.
Proof.
  destruct c, c'; simpl; try discriminate; try reflexivity.
  - intro H. apply andb_true_iff in H as [H1 H2]. apply subset_existsb_eq; assumption.
  - intro H. apply andb_true_iff in H as [H1 H2]. apply Z.eqb_eq in H1, H2. subst. reflexivity.
  - intro H. repeat (apply andb_true_iff in H as [H ?]).
    rewrite (subset_existsb_eq acc acc0 v), (subset_existsb_eq rej rej0 v); auto.
Qed.

Lemma forallb_ext' {A} (f g : A -> bool) l : (forall x, f x = g x) -> forallb f l = forallb g l.
Proof. intro H. induction l as [|x r IH]; simpl; [reflexivity | rewrite H, IH; reflexivity]. Qed.

(** if the tables agree row by row (no wildcard, no excused row), they predict the
    same acceptance for every probe: every mechanism definition is accepted by
    the schema side iff it is accepted by the loader side *)
Theorem strict_ok_accepts s l : strict_ok s l = true -> forall p, accepts s p = accepts l p.
Proof.
  intros H p. unfold strict_ok in H. rewrite forallb_forall in H. unfold accepts.
  destruct (find_mech s (p_kind p) (p_type p)) as [a|] eqn:Ea.
  - destruct (find_mech_some _ _ _ _ Ea) as (Ia & Ka & Ta).
    assert (R := H (RType (p_kind p) (p_type p))). unfold strict_row in R. rewrite Ea in R. cbv beta iota in R.
    destruct (find_mech l (p_kind p) (p_type p)) as [b|] eqn:Eb.
    2:{ assert (X : false = true); [|discriminate]. apply R. apply in_or_app. left.
        rewrite <- Ka, <- Ta. apply rows_of_type. assumption. }
    destruct (find_mech_some _ _ _ _ Eb) as (Ib & Kb & Tb).
    assert (Rc : Bool.eqb (m_cfg_req a) (m_cfg_req b) = true).
    { apply R. apply in_or_app. left. rewrite <- Ka, <- Ta. apply rows_of_type. assumption. }
    apply Bool.eqb_prop in Rc. rewrite Rc.
    assert (Opt : forall n,
              match find_opt a n, find_opt b n with
              | Some x, Some y => constr_eqb (o_constr x) (o_constr y) && req_acc (o_req x) (o_req y) = true
              | None, None => True
              | _, _ => False
              end).
    { intro n. destruct (find_opt a n) as [x|] eqn:Ex; destruct (find_opt b n) as [y|] eqn:Ey; auto.
      - assert (Ro := H (ROpt (p_kind p) (p_type p) n)). unfold strict_row in Ro. rewrite Ea, Eb in Ro. cbv beta iota in Ro. rewrite ?Ex in Ro. cbv beta iota in Ro. rewrite ?Ey in Ro. cbv beta iota in Ro. apply Ro.
        destruct (find_opt_some _ _ _ Ex) as (Ix & Nx). apply in_or_app. left.
        rewrite <- Ka, <- Ta, <- Nx. apply rows_of_opt; assumption.
      - assert (Ro := H (ROpt (p_kind p) (p_type p) n)). unfold strict_row in Ro. rewrite Ea, Eb in Ro. cbv beta iota in Ro. rewrite ?Ex in Ro. cbv beta iota in Ro. rewrite ?Ey in Ro. cbv beta iota in Ro.
        assert (X : false = true); [|discriminate]. apply Ro.
        destruct (find_opt_some _ _ _ Ex) as (Ix & Nx). apply in_or_app. left.
        rewrite <- Ka, <- Ta, <- Nx. apply rows_of_opt; assumption.
      - assert (Ro := H (ROpt (p_kind p) (p_type p) n)). unfold strict_row in Ro. rewrite Ea, Eb in Ro. cbv beta iota in Ro. rewrite ?Ex in Ro. cbv beta iota in Ro. rewrite ?Ey in Ro. cbv beta iota in Ro.
        assert (X : false = true); [|discriminate]. apply Ro.
        destruct (find_opt_some _ _ _ Ey) as (Iy & Ny). apply in_or_app. right.
        rewrite <- Kb, <- Tb, <- Ny. apply rows_of_opt; assumption. }
    f_equal; [f_equal|].
    + apply forallb_ext'. intro n. specialize (Opt n).
      destruct (find_opt a n) as [x|]; destruct (find_opt b n) as [y|]; try contradiction; auto.
      apply andb_true_iff in Opt as [_ Rq]. destruct (o_req x), (o_req y); simpl in Rq; try discriminate; reflexivity.
    + apply forallb_ext'. intros [n v]. simpl. specialize (Opt n).
      destruct (find_opt a n) as [x|]; destruct (find_opt b n) as [y|]; try contradiction; auto.
      apply andb_true_iff in Opt as [Cq _]. apply constr_eqb_value_ok. assumption.
  - destruct (find_mech l (p_kind p) (p_type p)) as [b|] eqn:Eb; [|reflexivity].
    destruct (find_mech_some _ _ _ _ Eb) as (Ib & Kb & Tb).
    assert (R := H (RType (p_kind p) (p_type p))). unfold strict_row in R. rewrite Ea in R. cbv beta iota in R.
    assert (X : false = true); [|discriminate]. apply R. apply in_or_app. right.
    rewrite <- Kb, <- Tb. apply rows_of_type. assumption.
Qed.

(** for the current tables: every probe (mechanism definition with any options set or left out)
    is accepted by the schema table iff it is accepted by the loader table — the
    value syntax of durations (C20-F6) apart *)
Theorem schema_loader_accept_equal :
  forall p, accepts (erase_classes (mech_only schema_tbl)) p = accepts (erase_classes (mech_only loader_tbl)) p.
Proof. apply strict_ok_accepts. exact tables_strict. Qed.
