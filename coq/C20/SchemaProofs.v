(** C20 — the finite statement about the regenerated schema/loader tables. *)
From HV Require Import Base.Prelude C20.SchemaModel C20.SchemaPinned Gen.SchemaTables Gen.SchemaTablesOk.
Local Open Scope string_scope.

Lemma row_eqb_eq a b : row_eqb a b = true -> a = b.
Proof.
  destruct a, b; simpl; try discriminate; rewrite ?andb_true_iff, ?String.eqb_eq;
    intuition; subst; reflexivity.
Qed.

(** every mechanism type, config object and option that the schema or the
    loader knows is known to both, with the same value constraint and the same
    requiredness — except the rows of the recorded finding C20-F1 *)
Lemma schema_loader_agree :
  forall r, In r (all_rows schema_tbl loader_tbl) -> guard_F1 fixed_F1a fixed_F1b r = false ->
            guard_F6_row schema_tbl loader_tbl r = false ->
            row_agrees schema_tbl loader_tbl r = true.
Proof.
  intros r Hin Hg Hg6. assert (H := tables_agree). unfold tables_ok in H.
  rewrite forallb_forall in H. specialize (H r Hin). rewrite Hg, Hg6 in H. exact H.
Qed.

Lemma pinned_recorded : recorded_all_disagree (known_F1a ++ known_F1b) pinned_schema_tbl pinned_loader_tbl = true.
Proof. vm_compute. reflexivity. Qed.

Lemma pinned_c_recorded : recorded_all_disagree known_F1c pinned_c_schema_tbl pinned_c_loader_tbl = true.
Proof. vm_compute. reflexivity. Qed.

Lemma recorded_sound known s l :
  recorded_all_disagree known s l = true ->
  forall r, In r known -> In r (all_rows s l) /\ row_agrees s l r = false.
Proof.
  intros H r Hin. unfold recorded_all_disagree in H. rewrite forallb_forall in H.
  specialize (H r Hin). apply existsb_exists in H as (x & Hx & E). apply row_eqb_eq in E. subst x.
  unfold disagreements in Hx. apply filter_In in Hx as [A B]. split; [assumption|].
  apply negb_true_iff. assumption.
Qed.

(** no stale guard: every recorded row is a row of the pinned tables on which
    schema and loader disagree (groups a and b: the tree before 80621e4; group c: 6c5864d) *)
Lemma F1_rows_all_disagree :
  (forall r, In r (known_F1a ++ known_F1b) ->
     In r (all_rows pinned_schema_tbl pinned_loader_tbl) /\ row_agrees pinned_schema_tbl pinned_loader_tbl r = false) /\
  (forall r, In r known_F1c ->
     In r (all_rows pinned_c_schema_tbl pinned_c_loader_tbl) /\ row_agrees pinned_c_schema_tbl pinned_c_loader_tbl r = false).
Proof. split; [apply (recorded_sound _ _ _ pinned_recorded) | apply (recorded_sound _ _ _ pinned_c_recorded)]. Qed.

Lemma F1_refuted :
  exists r, In r (all_rows pinned_schema_tbl pinned_loader_tbl) /\ guard_F1 false false r = true /\
            row_agrees pinned_schema_tbl pinned_loader_tbl r = false.
Proof.
  exists (ROpt "error_handlers" "redirect" "code").
  destruct (proj1 F1_rows_all_disagree (ROpt "error_handlers" "redirect" "code")) as [A B].
  { unfold known_F1a, known_F1b. simpl. tauto. }
  split; [assumption | split; [reflexivity | assumption]].
Qed.

(** non-vacuity: the tables are not empty and most rows are unguarded *)
Example tables_nonvacuous :
  Nat.leb 15 (length schema_tbl) && Nat.leb 15 (length loader_tbl) &&
  Nat.leb 100 (length (filter (fun r => negb (guard_F1 false false r)) (all_rows schema_tbl loader_tbl))) = true.
Proof. vm_compute. reflexivity. Qed.
