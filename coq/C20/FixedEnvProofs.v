(** C20 — koanfFromEnv with the repair of C20-F3: what maps.Unflatten builds
    ([TInv], every level like the top level: several suffixed keys may carry the
    same name), what the repaired cleanSuffix makes of it, and the merge
    function on top.  No restriction on variables addressing the same nested
    list any more. *)
From HV Require Import Base.Prelude C20.Model C20.Spec C20.Facts C20.MergeProofs C20.ConvertProofs
  C20.NodeAlg C20.TrieProofs C20.UnflattenProofs C20.EnvProofs C20.FixedProofs.
From Coq Require Import Permutation.

Definition etag (e : key * cfg) : option tag := snd (fst e).

(** an entry seen from below its first key segment *)
Definition tail_ent (e : key * cfg) : key * cfg := ((tl (ekey e), etag e), snd e).

Definition tails (s : string) (P : list (key * cfg)) : list (key * cfg) :=
  map tail_ent (filter (named s) P).

(** pairwise coherence without the C20-F3 clause *)
Definition ecoh1 (e1 e2 : key * cfg) : Prop := forall p, nc (econ p e1) (econ p e2).

Lemma ecoh1_sym e1 e2 : ecoh1 e1 e2 -> ecoh1 e2 e1.
Proof. intros H p. apply nc_sym. apply H. Qed.

(** the trie that Unflatten has built from the entries [P] *)
Inductive TInv : list (key * cfg) -> list (key * cfg) -> Prop :=
| TInv_intro m P :
    NoDup (map fst m) ->
    Forall (fun kv => exists s, segk kv = [s]) m ->
    (forall s, existsb (deepb s) P = true ->
       exists sub, grp s m = [(K s, Map sub)] /\ sub <> [] /\ TInv sub (tails s P)) ->
    (forall s, existsb (deepb s) P = false -> grp s m = filter (flatb s) P) ->
    TInv m P.

Lemma TInv_nil : TInv [] [].
Proof. constructor; simpl; try constructor; try discriminate; reflexivity. Qed.

Lemma named_key s e : named s e = true -> exists r, ekey e = s :: r.
Proof.
  unfold named. destruct (ekey e) as [|s' r]; [discriminate|]. intro H. apply String.eqb_eq in H. subst. eauto.
Qed.

Lemma econ_tail s e p : named s e = true -> econ p (tail_ent e) = econ (SK s :: p) e.
Proof.
  intro H. destruct (named_key s e H) as [r Hr]. rewrite (econ_named s p e r Hr).
  unfold econ, tail_ent, ekey. simpl. unfold ekey in Hr. rewrite Hr. reflexivity.
Qed.

Lemma tails_snoc s P e :
  tails s (P ++ [e]) = tails s P ++ (if named s e then [tail_ent e] else []).
Proof. unfold tails. rewrite filter_app, map_app. simpl. destruct (named s e); reflexivity. Qed.

Lemma flat_deep_incoherent1 s e1 e2 :
  EntOk e1 -> EntOk e2 -> flatb s e1 = true -> deepb s e2 = true -> ~ ecoh1 e1 e2.
Proof.
  intros (N1 & _ & P1 & _) (N2 & _ & _ & _) F D C.
  specialize (C [SK s]). destruct C as [C _].
  rewrite (econ_flat s [] e1 F) in C.
  unfold deepb in D. apply andb_true_iff in D as [D1 D2]. unfold named in D1.
  destruct (ekey e2) as [|s' [|s2 r]] eqn:E2; try discriminate.
  apply String.eqb_eq in D1; subst s'.
  rewrite (econ_named s [] e2 (s2 :: r) E2) in C.
  destruct (nest_is_map (s2 :: r) (snd e2)) as [m Em]; [discriminate|]. rewrite Em in C.
  destruct (Plain_root _ P1) as [[w Hw] | [n Hn]]; rewrite ?Hw, ?Hn in C; discriminate.
Qed.

Lemma NoDup_tags_keys P : NoDup (map etag P) -> NoDup (map fst P).
Proof.
  intro H. induction P as [|e r IH]; simpl in *; [constructor|].
  apply NoDup_cons_iff in H as [H1 H2]. constructor; [|auto].
  intro Hin. apply H1. apply in_map_iff in Hin as (e' & E & He'). apply in_map_iff. exists e'.
  unfold etag. rewrite E. auto.
Qed.

Lemma tails_tags_NoDup s P : NoDup (map etag P) -> NoDup (map etag (tails s P)).
Proof.
  unfold tails. rewrite map_map. simpl. change (fun x => etag (tail_ent x)) with etag.
  apply NoDup_map_filter.
Qed.

Lemma PW_In_last {A} (R : A -> A -> Prop) :
  (forall x y, R x y -> R y x) -> forall P e x, PW R (P ++ [e]) -> In x P -> R x e.
Proof.
  intros Sym P e x H Hin. apply in_split in Hin as (l1 & l2 & ->).
  eapply PW_In with (l1 := l1) (l2 := l2) (l3 := []); [exact Sym | | exact H].
  rewrite <- app_assoc. reflexivity.
Qed.

Lemma tails_all_deep s P :
  Forall EntOk P -> PW ecoh1 P -> existsb (deepb s) P = true ->
  forall e, In e P -> named s e = true -> deepb s e = true.
Proof.
  intros HE HC Ex e He Hn. destruct (named_cases _ _ Hn) as [F|D]; [|assumption]. exfalso.
  apply existsb_exists in Ex as (e' & He' & Hd).
  rewrite Forall_forall in HE.
  assert (C : ecoh1 e e').
  { destruct (in_split _ _ He) as (l1 & l2 & E). subst P.
    apply in_app_or in He' as [H1|[H1|H1]].
    - apply in_split in H1 as (a & b & ->). apply ecoh1_sym.
      eapply PW_In with (l1 := a) (l2 := b) (l3 := l2); [exact ecoh1_sym | | exact HC]. rewrite <- app_assoc. reflexivity.
    - subst e'. rewrite (flatb_not_deep s e F) in Hd. discriminate.
    - apply in_split in H1 as (a & b & ->).
      eapply PW_In with (l1 := l1) (l2 := a) (l3 := b); [exact ecoh1_sym | reflexivity | exact HC]. }
  revert C. apply (flat_deep_incoherent1 s); auto.
Qed.

Lemma tails_EntOk s P :
  Forall EntOk P -> PW ecoh1 P -> existsb (deepb s) P = true -> Forall EntOk (tails s P).
Proof.
  intros HE HC Ex. unfold tails. apply Forall_map. apply Forall_forall. intros e He.
  apply filter_In in He as [He Hn].
  assert (D := tails_all_deep s P HE HC Ex e He Hn).
  rewrite Forall_forall in HE. destruct (HE _ He) as (N & T & Pl & Td).
  unfold deepb in D. apply andb_true_iff in D as [_ D]. apply Nat.leb_le in D.
  unfold EntOk, tail_ent, ekey in *. simpl. splits; auto.
  destruct (fst (fst e)) as [|a [|b c]]; simpl in *; try lia. discriminate.
Qed.

Lemma tails_ecoh1 s P : PW ecoh1 P -> PW ecoh1 (tails s P).
Proof.
  intro H. unfold tails. apply PW_map.
  assert (H' := PW_filter ecoh1 (named s) P H).
  assert (F : Forall (fun e => named s e = true) (filter (named s) P)).
  { apply Forall_forall. intros e He. apply filter_In in He. tauto. }
  revert H' F. generalize (filter (named s) P). clear. intros L H F.
  induction H as [|x l Hx Hl IH]; [constructor|].
  apply Forall_cons_iff in F as [Fx Fl]. constructor; [|auto].
  rewrite Forall_forall in *. intros y Hy p. rewrite (econ_tail s x p Fx), (econ_tail s y p (Fl y Hy)).
  apply (Hx y Hy).
Qed.

Lemma deepb_snoc_other s P e : named s e = false -> existsb (deepb s) (P ++ [e]) = existsb (deepb s) P.
Proof. intro H. rewrite existsb_snoc. unfold deepb at 2. rewrite H. simpl. apply orb_false_r. Qed.

Lemma tails_snoc_other s P e : named s e = false -> tails s (P ++ [e]) = tails s P.
Proof. intro H. rewrite tails_snoc, H. apply app_nil_r. Qed.

Lemma set_nonempty k v m : set k v m <> [].
Proof. destruct m as [|[k' v'] r]; simpl; [discriminate|]. destruct (key_eqb k k'); discriminate. Qed.

Lemma insert_path_nonempty : forall ks m tg u, ks <> [] -> insert_path m ks tg u <> [].
Proof.
  induction ks as [|s rest IH]; intros m tg u N; [congruence|].
  destruct rest as [|s2 r'].
  - simpl. apply set_nonempty.
  - rewrite insert_path_cons by discriminate.
    destruct (lookup (K s) m) as [[| | sub |]|]; try apply set_nonempty; apply IH; discriminate.
Qed.

Definition mk_ent (ks : list string) (tg : tag) (u : cfg) : key * cfg := ((ks, Some tg), u).

(** one more key *)
Lemma tinv_insert : forall ks m P tg u, ks <> [] ->
  TInv m P -> Forall EntOk (P ++ [(mk_ent ks tg u)]) -> NoDup (map etag (P ++ [(mk_ent ks tg u)])) ->
  PW ecoh1 (P ++ [(mk_ent ks tg u)]) ->
  TInv (insert_path m ks (Some tg) u) (P ++ [(mk_ent ks tg u)]).
Proof.
  induction ks as [|s0 rest IH]; intros m P tg u Nk HI HE NDT HC; [congruence|].
  set (e := (mk_ent (s0 :: rest) tg u)) in *.
  assert (Ee : e = (mk_ent (s0 :: rest) tg u)) by reflexivity.
  inversion HI as [m' P' ND FS HD HF]; subst m' P'.
  assert (HEP : Forall EntOk P) by (apply Forall_app in HE; tauto).
  assert (HEe : EntOk e) by (apply Forall_app in HE as [_ H]; apply Forall_cons_iff in H; tauto).
  assert (HCP : PW ecoh1 P) by (apply PW_app_l in HC; assumption).
  assert (Hk : ekey e = s0 :: rest) by (rewrite Ee; reflexivity).
  assert (Ne : ekey e <> []) by (rewrite Hk; discriminate).
  assert (Hn0 : named s0 e = true) by (unfold named; rewrite Hk; apply String.eqb_refl).
  assert (Hother : forall s, s <> s0 -> named s e = false).
  { intros s N. unfold named. rewrite Hk. destruct (String.eqb s0 s) eqn:E; [apply String.eqb_eq in E; congruence | reflexivity]. }
  assert (Call : forall e', In e' P -> ecoh1 e' e) by (intros e' He'; apply (PW_In_last ecoh1 ecoh1_sym P e e' HC He')).
  assert (NDP : NoDup (map fst (P ++ [e]))) by (apply NoDup_tags_keys; assumption).
  destruct rest as [|s2 rest'].
  - (* the last segment: the value goes under the suffixed key *)
    assert (Fe : flatb s0 e = true) by (unfold flatb; rewrite Hk; apply segs_eqb_eq; reflexivity).
    assert (NoDeep : existsb (deepb s0) P = false).
    { destruct (existsb (deepb s0) P) eqn:E; [|reflexivity]. exfalso.
      apply existsb_exists in E as (e' & Hin & Hd).
      apply (flat_deep_incoherent1 s0 e e'); auto.
      - rewrite Forall_forall in HEP. auto.
      - apply ecoh1_sym. auto. }
    assert (G0 := HF s0 NoDeep).
    assert (Nin : ~ In ([s0], Some tg) (map fst m)).
    { intro H. apply in_map_iff in H as (kv & Ekv & Hin).
      assert (Hg : In kv (grp s0 m)) by (apply grp_In; split; [assumption | unfold segk; rewrite Ekv; reflexivity]).
      rewrite G0 in Hg. apply filter_In in Hg as [Hg _].
      rewrite map_app in NDP. simpl in NDP. apply NoDup_remove_2 in NDP. rewrite app_nil_r in NDP.
      apply NDP. apply in_map_iff. exists kv. split; [rewrite Ekv; reflexivity | assumption]. }
    simpl insert_path. rewrite set_new by assumption.
    change (TInv (m ++ [e]) (P ++ [e])).
    constructor.
    + rewrite map_app. simpl. apply NoDup_snoc; assumption.
    + apply Forall_app. split; [assumption|]. constructor; [|constructor]. exists s0. rewrite Ee. reflexivity.
    + intros s Hs.
      assert (Ns : s <> s0).
      { intro; subst s. rewrite existsb_snoc, NoDeep, (flatb_not_deep s0 e Fe) in Hs. discriminate. }
      rewrite (deepb_snoc_other s P e (Hother s Ns)) in Hs.
      destruct (HD s Hs) as (sub & Hg & Nsub & Hsub). exists sub. splits; auto.
      * rewrite grp_app, Hg. rewrite Ee. unfold mk_ent. rewrite grp_cons. simpl fst.
        rewrite segs_eqb_single. destruct (String.eqb s0 s) eqn:E; [apply String.eqb_eq in E; congruence | reflexivity].
      * rewrite (tails_snoc_other s P e (Hother s Ns)). assumption.
    + intros s Hs. rewrite existsb_snoc in Hs. apply orb_false_iff in Hs as [Hs _].
      rewrite grp_app, (HF s Hs), filter_app. f_equal.
  - (* an inner segment *)
    remember (s2 :: rest') as rest eqn:Er.
    assert (Nr : rest <> []) by (rewrite Er; discriminate).
    assert (De : deepb s0 e = true) by (unfold deepb; rewrite Hn0, Hk, Er; reflexivity).
    assert (Hfe : forall s, flatb s e = false).
    { intro s. unfold flatb. rewrite Hk. rewrite Er.
      destruct (segs_eqb (s0 :: s2 :: rest') [s]) eqn:E; [apply segs_eqb_eq in E; discriminate | reflexivity]. }
    assert (NoFlat : forall e', In e' P -> flatb s0 e' = false).
    { intros e' Hin. destruct (flatb s0 e') eqn:F; [|reflexivity]. exfalso.
      apply (flat_deep_incoherent1 s0 e' e); auto. rewrite Forall_forall in HEP. auto. }
    assert (Et : tail_ent e = (mk_ent rest tg u)) by (rewrite Ee; reflexivity).
    rewrite insert_path_cons by assumption.
    destruct (existsb (deepb s0) P) eqn:Ex.
    + (* the node exists *)
      destruct (HD s0 Ex) as (sub & Hg & Nsub & Hsub).
      rewrite (grp_single_lookup _ _ _ Hg).
      assert (HI' : TInv (insert_path sub rest (Some tg) u) (tails s0 P ++ [(mk_ent rest tg u)])).
      { apply IH; auto.
        - rewrite <- Et. assert (X := tails_EntOk s0 (P ++ [e]) HE HC).
          rewrite tails_snoc, Hn0 in X. apply X. rewrite existsb_snoc, Ex. reflexivity.
        - rewrite <- Et. assert (X := tails_tags_NoDup s0 (P ++ [e]) NDT). rewrite tails_snoc, Hn0 in X. exact X.
        - rewrite <- Et. assert (X := tails_ecoh1 s0 (P ++ [e]) HC). rewrite tails_snoc, Hn0 in X. exact X. }
      constructor.
      * apply set_NoDup. assumption.
      * rewrite Forall_forall in *. intros x Hx. apply In_set in Hx as [->|Hx]; [exists s0; reflexivity | auto].
      * intros s Hs. destruct (String.eqb s s0) eqn:E.
        -- apply String.eqb_eq in E; subst s. exists (insert_path sub rest (Some tg) u). splits.
           ++ apply (grp_set_single s0 (Map sub)). assumption.
           ++ apply insert_path_nonempty. assumption.
           ++ rewrite tails_snoc, Hn0, Et. assumption.
        -- assert (Ns : s <> s0) by (intro; subst; rewrite String.eqb_refl in E; discriminate).
           rewrite (deepb_snoc_other s P e (Hother s Ns)) in Hs.
           destruct (HD s Hs) as (sub1 & Hg1 & Nsub1 & Hsub1). exists sub1. splits; auto.
           ++ rewrite grp_set_other; [assumption | simpl; congruence].
           ++ rewrite (tails_snoc_other s P e (Hother s Ns)). assumption.
      * intros s Hs. rewrite existsb_snoc in Hs. apply orb_false_iff in Hs as [Hs1 Hs2].
        assert (Ns : s <> s0) by (intro; subst; congruence).
        rewrite grp_set_other by (simpl; congruence).
        rewrite (HF s Hs1), filter_app. simpl. rewrite Hfe, app_nil_r. reflexivity.
    + (* the node is new *)
      assert (G0 : grp s0 m = []) by (rewrite (HF s0 Ex); apply filter_none; assumption).
      assert (Lk : lookup (K s0) m = None).
      { destruct (lookup (K s0) m) eqn:E; [|reflexivity]. apply lookup_K_find_seg in E.
        exfalso. apply E. apply grp_nil_find. assumption. }
      rewrite Lk.
      assert (Unn : forall e', In e' P -> named s0 e' = false).
      { intros e' He'. destruct (named s0 e') eqn:Nm; [|reflexivity]. exfalso.
        destruct (named_cases _ _ Nm) as [F|D].
        - rewrite (NoFlat e' He') in F. discriminate.
        - assert (X : existsb (deepb s0) P = true) by (apply existsb_exists; eauto). congruence. }
      assert (T0 : tails s0 P = []).
      { unfold tails. rewrite (filter_none (named s0) P Unn). reflexivity. }
      assert (HI' : TInv (insert_path [] rest (Some tg) u) ([] ++ [(mk_ent rest tg u)])).
      { apply IH; auto using TInv_nil.
        - simpl. rewrite <- Et. assert (X := tails_EntOk s0 (P ++ [e]) HE HC).
          rewrite tails_snoc, Hn0, T0 in X. apply X. rewrite existsb_snoc, De. apply orb_true_r.
        - simpl. constructor; [simpl; tauto | constructor].
        - simpl. constructor; constructor. }
      assert (Nin : ~ In (K s0) (map fst m)) by (apply lookup_None; assumption).
      rewrite set_new by assumption.
      constructor.
      * rewrite map_app. simpl. apply NoDup_snoc; assumption.
      * apply Forall_app. split; [assumption|]. constructor; [|constructor]. exists s0. reflexivity.
      * intros s Hs. destruct (String.eqb s s0) eqn:E.
        -- apply String.eqb_eq in E; subst s. exists (insert_path [] rest (Some tg) u). splits.
           ++ rewrite grp_app, G0, grp_cons. simpl fst. rewrite segs_eqb_single, String.eqb_refl. reflexivity.
           ++ apply insert_path_nonempty. assumption.
           ++ rewrite tails_snoc, Hn0, T0, Et. exact HI'.
        -- assert (Ns : s <> s0) by (intro; subst; rewrite String.eqb_refl in E; discriminate).
           rewrite (deepb_snoc_other s P e (Hother s Ns)) in Hs.
           destruct (HD s Hs) as (sub1 & Hg1 & Nsub1 & Hsub1). exists sub1. splits; auto.
           ++ rewrite grp_app, Hg1, grp_cons. simpl fst. rewrite segs_eqb_single.
              destruct (String.eqb s0 s) eqn:E'; [apply String.eqb_eq in E'; congruence | reflexivity].
           ++ rewrite (tails_snoc_other s P e (Hother s Ns)). assumption.
      * intros s Hs. rewrite existsb_snoc in Hs. apply orb_false_iff in Hs as [Hs1 Hs2].
        assert (Ns : s <> s0) by (intro; subst; congruence).
        rewrite grp_app, grp_cons. simpl fst. rewrite segs_eqb_single.
        destruct (String.eqb s0 s) eqn:E'; [apply String.eqb_eq in E'; congruence|].
        rewrite (HF s Hs1), filter_app. simpl. rewrite Hfe. reflexivity.
Qed.

(** maps.Unflatten over all entries *)
Lemma tinv_unflatten : forall L U P,
  TInv U P -> Forall EntOk (P ++ L) -> NoDup (map etag (P ++ L)) -> PW ecoh1 (P ++ L) ->
  TInv (fold_left ins_kv L U) (P ++ L).
Proof.
  induction L as [|e L' IH]; intros U P HI HE ND HC.
  - rewrite app_nil_r. assumption.
  - assert (Eq : P ++ e :: L' = (P ++ [e]) ++ L') by (rewrite <- app_assoc; reflexivity).
    rewrite Eq in *. simpl fold_left. apply IH; auto.
    assert (HE1 : Forall EntOk (P ++ [e])) by (apply Forall_app in HE; tauto).
    assert (ND1 : NoDup (map etag (P ++ [e]))) by (rewrite map_app in ND; apply NoDup_app_l in ND; assumption).
    assert (HC1 : PW ecoh1 (P ++ [e])) by (apply PW_app_l in HC; assumption).
    assert (Ee : EntOk e) by (apply Forall_app in HE1 as [_ H]; apply Forall_cons_iff in H; tauto).
    destruct e as [[k t] v]. destruct Ee as (Nk & (tg & Ht) & _). unfold ekey in Nk. simpl in Nk, Ht. subst t.
    apply (tinv_insert k U P tg v Nk HI HE1 ND1 HC1).
Qed.

Lemma jfold_has_map : forall L y, (y = NNone \/ y = NMap) -> Forall (fun a => a = NNone \/ a = NMap) L ->
  (y = NMap \/ In NMap L) -> jfold y L = NMap.
Proof.
  induction L as [|a r IH]; intros y Hy HL H; simpl.
  - destruct H as [H|[]]. assumption.
  - apply Forall_cons_iff in HL as [Ha Hr]. apply IH; auto.
    + destruct Hy as [-> | ->], Ha as [-> | ->]; simpl; auto.
    + destruct H as [H | [H | H]].
      * left. subst y. destruct Ha as [-> | ->]; reflexivity.
      * left. subst a. destruct Hy as [-> | ->]; reflexivity.
      * right. assumption.
Qed.

Section WithOrder.
  Variable sh : nat -> list (key * cfg) -> list (key * cfg).
  Hypothesis sh_perm : forall site l, Permutation (sh site l) l.

  (** a child as the repaired cleanSuffix leaves it *)
  Definition cval (v : cfg) : cfg := match clean_fixed sh v with Ok r => r | Panic => Nil end.

  Lemma cval_plain u : Plain u -> cval u = u.
  Proof. intro H. unfold cval. rewrite clean_fixed_plain by assumption. reflexivity. Qed.

  Lemma clean_kids_ok m :
    (forall kv, In kv m -> clean_fixed sh (snd kv) = Ok (cval (snd kv))) ->
    clean_kids sh m = Ok (map (fun kv => (strip (fst kv), cval (snd kv))) m).
  Proof.
    induction m as [|[k v] r IH]; intro H; [reflexivity|].
    assert (H0 := H (k, v) (or_introl eq_refl)). simpl snd in H0.
    cbn [clean_kids map fst snd]. rewrite H0.
    change ((fix go (m : list (key * cfg)) : res (list (key * cfg)) :=
               match m with
               | [] => Ok []
               | (k0, v0) :: r0 =>
                   match clean_fixed sh v0, go r0 with
                   | Ok cv, Ok r' => Ok ((strip k0, cv) :: r')
                   | _, _ => Panic
                   end
               end) r) with (clean_kids sh r).
    rewrite IH; [reflexivity|]. intros kv Hkv. apply H. right; assumption.
  Qed.

  Lemma grp_map_vals (g : cfg -> cfg) s m :
    grp s (map (fun kv => (strip (fst kv), g (snd kv))) m) = map (fun kv => (strip (fst kv), g (snd kv))) (grp s m).
  Proof.
    induction m as [|[k v] r IH]; [reflexivity|].
    cbn [map fst snd]. rewrite !grp_cons. cbn [fst strip].
    destruct (segs_eqb (fst k) [s]); cbn [map fst snd]; rewrite IH; reflexivity.
  Qed.

  (** what a node's children show per name, once cleaned, against the entries *)
  Definition kids_good (m P : list (key * cfg)) : Prop :=
    forall kv, In kv m ->
      clean_fixed sh (snd kv) = Ok (cval (snd kv)) /\ Tidy (cval (snd kv)) /\ cval (snd kv) <> Nil.

  Definition name_sem (m P : list (key * cfg)) : Prop :=
    forall s q,
      PW nc (map (fun kv => view q (cval (snd kv))) (grp s m)) /\
      jfold NNone (map (fun kv => view q (cval (snd kv))) (grp s m)) = jfold NNone (map (econ (SK s :: q)) P).

  Lemma flat_views s q P :
    Forall EntOk P ->
    map (fun kv => view q (cval (snd kv))) (filter (flatb s) P) = map (econ (SK s :: q)) (filter (flatb s) P).
  Proof.
    intro HE. apply map_ext_in. intros e He. apply filter_In in He as [He Hf].
    rewrite Forall_forall in HE. destruct (HE _ He) as (_ & _ & Pl & Td).
    rewrite (cval_plain _ Pl), (econ_flat s q e Hf). symmetry. apply sview_tidy. assumption.
  Qed.

  Lemma flat_fold s q P :
    Forall EntOk P -> existsb (deepb s) P = false ->
    jfold NNone (map (econ (SK s :: q)) (filter (flatb s) P)) = jfold NNone (map (econ (SK s :: q)) P).
  Proof.
    intros HE Ex. symmetry. apply jfold_filter. intros e He Hf. destruct (named s e) eqn:Nm.
    - destruct (named_cases _ _ Nm) as [F|D]; [congruence|].
      assert (X : existsb (deepb s) P = true) by (apply existsb_exists; eauto). congruence.
    - apply econ_other; [assumption|]. rewrite Forall_forall in HE. destruct (HE _ He). assumption.
  Qed.

  Lemma PW_ecoh1_nc p E : PW ecoh1 E -> PW nc (map (econ p) E).
  Proof. intro H. apply PW_map. eapply PW_impl; [|exact H]. intros x y C. apply C. Qed.

  (** the views of a cleaned inner node, at every path, from its statement per name *)
  Lemma deep_views s P r :
    Forall EntOk P -> PW ecoh1 P -> existsb (deepb s) P = true ->
    (forall s' q', view (SK s' :: q') (Map r) = jfold NNone (map (econ (SK s' :: q')) (tails s P))) ->
    forall q, view q (Map r) = jfold NNone (map (econ (SK s :: q)) P).
  Proof.
    intros HE HC Ex Hr q.
    assert (Hd := tails_all_deep s P HE HC Ex).
    assert (Unn : forall e, In e P -> named s e = false -> forall q0, econ (SK s :: q0) e = NNone).
    { intros e He Hn q0. apply econ_other; [assumption|]. rewrite Forall_forall in HE. destruct (HE _ He). assumption. }
    destruct q as [|[s'|i] q'].
    - symmetry. apply jfold_has_map; [left; reflexivity | |].
      + apply Forall_map. apply Forall_forall. intros e He. destruct (named s e) eqn:Nm.
        * right. specialize (Hd e He Nm). unfold deepb in Hd. apply andb_true_iff in Hd as [_ Hl]. apply Nat.leb_le in Hl.
          destruct (named_key s e Nm) as [t Ht]. rewrite (econ_named s [] e t Ht).
          destruct (nest_is_map t (snd e)) as [mm ->]; [|reflexivity]. intro; subst t. rewrite Ht in Hl. simpl in Hl. lia.
        * left. apply Unn; assumption.
      + right. apply existsb_exists in Ex as (e & He & Hde).
        assert (Nm : named s e = true) by (apply named_of_deepb; assumption).
        apply in_map_iff. exists e. split; [|assumption].
        unfold deepb in Hde. apply andb_true_iff in Hde as [_ Hl]. apply Nat.leb_le in Hl.
        destruct (named_key s e Nm) as [t Ht]. rewrite (econ_named s [] e t Ht).
        destruct (nest_is_map t (snd e)) as [mm ->]; [|reflexivity]. intro; subst t. rewrite Ht in Hl. simpl in Hl. lia.
    - rewrite Hr. unfold tails. rewrite map_map.
      rewrite (jfold_filter (econ (SK s :: SK s' :: q')) (named s) P).
      + f_equal. apply map_ext_in. intros e He. apply filter_In in He as [_ Nm]. apply econ_tail. assumption.
      + intros e He Hn. apply Unn; assumption.
    - symmetry. apply jfold_none_elems. apply Forall_map. apply Forall_forall. intros e He.
      destruct (named s e) eqn:Nm; [|apply Unn; assumption].
      specialize (Hd e He Nm). unfold deepb in Hd. apply andb_true_iff in Hd as [_ Hl]. apply Nat.leb_le in Hl.
      destruct (named_key s e Nm) as [t Ht]. rewrite (econ_named s (SI i :: q') e t Ht).
      destruct (nest_is_map t (snd e)) as [mm ->]; [|reflexivity]. intro; subst t. rewrite Ht in Hl. simpl in Hl. lia.
  Qed.

  (** the repaired cleanSuffix on a trie: per name the join of the entries' contributions *)
  Lemma tinv_clean : forall t m P, t = Map m ->
    TInv m P -> Forall EntOk P -> PW ecoh1 P ->
    (exists r, clean_fixed sh (Map m) = Ok (Map r) /\ Tidy (Map r) /\
               forall s q, view (SK s :: q) (Map r) = jfold NNone (map (econ (SK s :: q)) P)) /\
    kids_good m P /\ name_sem m P.
  Proof.
    induction t as [| v | m0 IH | l IH] using cfg_ind'; intros m P Et HI HE HC; try discriminate.
    inv Et. inversion HI as [m' P' ND FS HD HF]; subst m' P'.
    (* every child *)
    assert (KG : kids_good m P /\
                 forall s sub, In (K s, Map sub) m -> existsb (deepb s) P = true ->
                   forall q, view q (cval (Map sub)) = jfold NNone (map (econ (SK s :: q)) P)).
    { split.
      - intros kv Hkv. rewrite Forall_forall in FS, IH. destruct (FS _ Hkv) as [s Hs].
        assert (Hg : In kv (grp s m)) by (apply grp_In; auto).
        destruct (existsb (deepb s) P) eqn:Ex.
        + destruct (HD s Ex) as (sub & Hgs & Nsub & Hsub). rewrite Hgs in Hg. destruct Hg as [<-|[]]. simpl.
          destruct (IH _ Hkv sub (tails s P) eq_refl Hsub (tails_EntOk s P HE HC Ex) (tails_ecoh1 s P HC)) as ((r & Hr & Tr & _) & _).
          unfold cval. simpl snd. rewrite Hr. splits; auto. discriminate.
        + rewrite (HF s Ex) in Hg. apply filter_In in Hg as [Hg _].
          rewrite Forall_forall in HE. destruct (HE _ Hg) as (_ & _ & Pl & Td).
          rewrite (cval_plain _ Pl). splits; auto using clean_fixed_plain, Plain_not_nil.
      - intros s sub Hin Ex q. rewrite Forall_forall in IH.
        destruct (HD s Ex) as (sub' & Hgs & Nsub & Hsub).
        assert (Hg : In (K s, Map sub) (grp s m)) by (apply grp_In; split; [assumption | reflexivity]).
        rewrite Hgs in Hg. destruct Hg as [Hg|[]]. inv Hg.
        destruct (IH _ Hin sub (tails s P) eq_refl Hsub (tails_EntOk s P HE HC Ex) (tails_ecoh1 s P HC)) as ((r & Hr & Tr & Vr) & _).
        unfold cval. rewrite Hr. apply (deep_views s P r HE HC Ex Vr). }
    destruct KG as [KG KD].
    assert (NS : name_sem m P).
    { intros s q. destruct (existsb (deepb s) P) eqn:Ex.
      - destruct (HD s Ex) as (sub & Hgs & _). rewrite Hgs.
        change (map (fun kv : key * cfg => view q (cval (snd kv))) [(K s, Map sub)]) with [view q (cval (Map sub))].
        split; [constructor; constructor|].
        change (jfold NNone [view q (cval (Map sub))]) with (njoin NNone (view q (cval (Map sub)))).
        rewrite njoin_none_l. apply KD; [|assumption].
        assert (Hg : In (K s, Map sub) (grp s m)) by (rewrite Hgs; left; reflexivity). apply grp_In in Hg. tauto.
      - rewrite (HF s Ex), (flat_views s q P HE). split.
        + apply PW_ecoh1_nc. apply PW_filter. assumption.
        + apply flat_fold; assumption. }
    splits; auto.
    (* the node itself *)
    set (cm := map (fun kv => (strip (fst kv), cval (snd kv))) m).
    assert (Hk : clean_kids sh m = Ok cm) by (apply clean_kids_ok; intros kv Hkv; apply KG; assumption).
    assert (Fcm : Forall entry_ok cm).
    { unfold cm. apply Forall_map. apply Forall_forall. intros kv Hkv. destruct (KG kv Hkv) as (_ & Tk & Nk).
      rewrite Forall_forall in FS. destruct (FS _ Hkv) as [s Hs]. unfold entry_ok, strip. simpl.
      unfold segk in Hs. rewrite Hs. splits; auto. exists s. reflexivity. }
    assert (P2 : Permutation (sh 2 cm) cm) by apply sh_perm.
    assert (F2 : Forall entry_ok (sh 2 cm)) by (eapply Permutation_Forall; [apply Permutation_sym; exact P2 | exact Fcm]).
    assert (Gm : forall s q, map (fun kv : key * cfg => view q (snd kv)) (grp s cm)
                             = map (fun kv => view q (cval (snd kv))) (grp s m)).
    { intros s q. unfold cm. rewrite grp_map_vals, map_map. reflexivity. }
    assert (PWs : forall s q, PW nc (NNone :: map (fun kv : key * cfg => view q (snd kv)) (grp s (sh 2 cm)))).
    { intros s q. constructor; [apply Forall_forall; intros; apply nc_none_l|].
      eapply PW_perm; [exact nc_sym | apply Permutation_sym; apply Permutation_map; apply (grp_perm s (sh 2 cm) cm P2)|].
      rewrite Gm. apply NS. }
    destruct (tidy_fold sh sh_perm false (cl_good_false sh sh_perm) (sh 2 cm) [] F2) as (r & Hr & Tr & Vr).
    { apply Tidy_Map_intro; constructor. }
    { intros s q. apply PWs. }
    exists r. rewrite clean_fixed_map, Hk, Hr. splits; auto.
    intros s q. rewrite Vr. change (view (SK s :: q) (Map [])) with NNone.
    rewrite (jfold_perm _ _ (Permutation_map _ (grp_perm s (sh 2 cm) cm P2))) by apply PWs.
    rewrite Gm. apply NS.
  Qed.

  (** the merge function of koanfFromEnv with the repair, entry by entry *)
  Lemma env_merge_fold_fixed : forall L acc,
    Forall (fun kv => exists s, segk kv = [s]) L ->
    (forall kv, In kv L -> clean_fixed sh (snd kv) = Ok (cval (snd kv)) /\ Tidy (cval (snd kv)) /\ cval (snd kv) <> Nil) ->
    (forall kv, In kv L ->
       (snd kv <> Nil /\ Tidy (snd kv) /\ cval (snd kv) = snd kv) \/
       (exists s, fst kv = K s /\ grp s L = [kv] /\ lookup (K s) acc = None)) ->
    Tidy (Map acc) ->
    (forall s q, PW nc (view (SK s :: q) (Map acc) :: map (fun kv => view q (cval (snd kv))) (grp s L))) ->
    exists r, fold_left (top_step sh true true) L (Ok acc) = Ok r /\ Tidy (Map r) /\
              forall s q, view (SK s :: q) (Map r)
                          = jfold (view (SK s :: q) (Map acc)) (map (fun kv => view q (cval (snd kv))) (grp s L)).
  Proof.
    induction L as [|[k v] L' IH]; intros acc FS HK HA Ta HP.
    - exists acc. simpl. splits; auto.
    - apply Forall_cons_iff in FS as [[s0 Hs0] FS']. unfold segk in Hs0. simpl in Hs0.
      assert (Sk : strip k = K s0) by (unfold strip, K; rewrite Hs0; reflexivity).
      assert (G0 : grp s0 ((k, v) :: L') = (k, v) :: grp s0 L').
      { rewrite grp_cons, Hs0. rewrite (proj2 (segs_eqb_eq _ _) eq_refl). reflexivity. }
      assert (Gs : forall s, s <> s0 -> grp s ((k, v) :: L') = grp s L').
      { intros s N. rewrite grp_cons, Hs0, segs_eqb_single.
        destruct (String.eqb s0 s) eqn:E; [apply String.eqb_eq in E; congruence | reflexivity]. }
      destruct (HK (k, v) (or_introl eq_refl)) as (Hc & Tc & Nc). simpl snd in Hc, Tc, Nc.
      assert (X : exists nv, merge sh true (get (K s0) acc) v = Ok nv /\ nv <> Nil /\ Tidy nv /\
                             forall q, view q nv = njoin (view q (get (K s0) acc)) (view q (cval v))).
      { unfold get. destruct (lookup (K s0) acc) as [old|] eqn:E.
        - destruct (HA (k, v) (or_introl eq_refl)) as [(Nv & Tv & Ev) | (s & Hk & _ & Hl)].
          + simpl snd in Nv, Tv, Ev.
            destruct (Tidy_lookup _ _ _ Ta E) as [No To].
            destruct (merge_with_view sh sh_perm (clean_fixed sh) old v No Nv To Tv) as (nv & Hm & Nn & Tn & Hv).
            { intro q. specialize (HP s0 q). rewrite G0 in HP. simpl map in HP.
              apply PW_cons_iff in HP as [HP _]. apply Forall_cons_iff in HP as [[HP _] _].
              simpl in HP. rewrite E, Ev in HP. exact HP. }
            exists nv. rewrite Ev. splits; auto.
          + simpl fst in Hk. subst k. simpl in Hs0. inv Hs0. congruence.
        - exists (cval v). unfold merge. simpl merge_with. splits; auto.
          intro q. rewrite view_Nil, njoin_none_l. reflexivity. }
      destruct X as (nv & Hm & Nn & Tn & Hv).
      destruct (IH (set (K s0) nv acc) FS') as (r & Hr & Tr & Hvr).
      + intros kv Hkv. apply HK. right; assumption.
      + intros kv Hkv. destruct (HA kv (or_intror Hkv)) as [H | (s & Hk & Hg & Hl)]; [left; assumption|].
        right. exists s.
        assert (Ns : s <> s0).
        { intro; subst s. rewrite G0 in Hg.
          assert (Hnil : grp s0 L' = []) by congruence.
          assert (H : In kv (grp s0 L')) by (apply grp_In; split; [assumption | unfold segk; rewrite Hk; reflexivity]).
          rewrite Hnil in H. contradiction. }
        rewrite <- (Gs s Ns). splits; auto.
        rewrite lookup_set, key_eqb_K.
        destruct (String.eqb s s0) eqn:E; [apply String.eqb_eq in E; congruence | assumption].
      + apply Tidy_set; assumption.
      + intros s q. rewrite view_set_K. destruct (String.eqb s s0) eqn:E.
        * apply String.eqb_eq in E; subst s. specialize (HP s0 q). rewrite G0 in HP. simpl map in HP.
          apply PW_njoin_head in HP. rewrite Hv. unfold get. simpl in HP.
          destruct (lookup (K s0) acc); [exact HP | rewrite view_Nil; exact HP].
        * assert (Ns : s <> s0) by (intro; subst; rewrite String.eqb_refl in E; discriminate).
          specialize (HP s q). rewrite (Gs s Ns) in HP. exact HP.
      + exists r. splits; auto.
        * simpl. rewrite Sk. unfold get in Hm |- *. rewrite Hm. exact Hr.
        * intros s q. rewrite Hvr, view_set_K. destruct (String.eqb s s0) eqn:E.
          -- apply String.eqb_eq in E; subst s. rewrite G0. simpl. rewrite Hv. unfold get.
             destruct (lookup (K s0) acc); [reflexivity | rewrite view_Nil; reflexivity].
          -- assert (Ns : s <> s0) by (intro; subst; rewrite String.eqb_refl in E; discriminate).
             rewrite (Gs s Ns). reflexivity.
  Qed.

  (** koanfFromEnv with the repair, from the provider's flat map [E] on: no
      restriction on variables addressing the same nested list *)
  Theorem env_tree_entries_fixed E :
    Forall EntOk E -> NoDup (map etag E) -> PW ecoh1 E ->
    exists r, merge_top sh true true [] (unflatten sh E) = Ok r /\ Tidy (Map r) /\
              forall s q, view (SK s :: q) (Map r) = jfold NNone (map (econ (SK s :: q)) E).
  Proof.
    intros HE ND HC.
    set (P := sh 0 E).
    assert (PP : Permutation P E) by apply sh_perm.
    assert (HEP : Forall EntOk P) by (eapply Permutation_Forall; [apply Permutation_sym; exact PP | exact HE]).
    assert (NDP : NoDup (map etag P)).
    { eapply Permutation_NoDup; [apply Permutation_map; apply Permutation_sym; exact PP | exact ND]. }
    assert (HCP : PW ecoh1 P) by (eapply PW_perm; [exact ecoh1_sym | apply Permutation_sym; exact PP | exact HC]).
    assert (TI : TInv (unflatten sh E) P).
    { unfold unflatten. fold P. apply (tinv_unflatten P [] [] TInv_nil); simpl; assumption. }
    set (U := unflatten sh E) in *.
    destruct (tinv_clean (Map U) U P eq_refl TI HEP HCP) as (_ & KG & NS).
    inversion TI as [m' P' NDU FS HD HF]; subst m' P'.
    rewrite merge_top_unfold.
    set (L := sh 1 U).
    assert (PL : Permutation L U) by apply sh_perm.
    assert (PWs : forall s q, PW nc (NNone :: map (fun kv : key * cfg => view q (cval (snd kv))) (grp s L))).
    { intros s q. constructor; [apply Forall_forall; intros; apply nc_none_l|].
      eapply PW_perm; [exact nc_sym | apply Permutation_sym; apply Permutation_map; apply (grp_perm s L U PL)|].
      apply NS. }
    destruct (env_merge_fold_fixed L []) as (r & Hr & Tr & Hv).
    - eapply Permutation_Forall; [apply Permutation_sym; exact PL | exact FS].
    - intros kv Hkv. apply KG. eapply Permutation_in; eauto.
    - intros kv Hkv. assert (HkU : In kv U) by (eapply Permutation_in; eauto).
      rewrite Forall_forall in FS. destruct (FS _ HkU) as [s Hs].
      assert (Hg : In kv (grp s U)) by (apply grp_In; auto).
      destruct (existsb (deepb s) P) eqn:Ex.
      + right. destruct (HD s Ex) as (sub & Hgs & _). rewrite Hgs in Hg. destruct Hg as [<-|[]].
        exists s. splits; auto.
        assert (Pg := grp_perm s L U PL). rewrite Hgs in Pg.
        apply Permutation_sym in Pg. apply Permutation_length_1_inv in Pg. assumption.
      + left. rewrite (HF s Ex) in Hg. apply filter_In in Hg as [Hg _].
        rewrite Forall_forall in HEP. destruct (HEP _ Hg) as (_ & _ & Pl & Td).
        splits; auto using Plain_not_nil, cval_plain.
    - apply Tidy_Map_intro; constructor.
    - intros s q. apply PWs.
    - exists r. splits; auto. intros s q. rewrite Hv. change (view (SK s :: q) (Map [])) with NNone.
      rewrite (jfold_perm _ _ (Permutation_map _ (grp_perm s L U PL))) by apply PWs.
      destruct (NS s q) as [_ ->].
      apply jfold_perm; [apply Permutation_map; assumption|].
      constructor; [apply Forall_forall; intros; apply nc_none_l | apply PW_ecoh1_nc; assumption].
  Qed.
End WithOrder.
