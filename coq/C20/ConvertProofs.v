(** C20 — env.go [convert]: for a well-formed name outside the C20-F4 shape the
    converted value shows, below the name's key prefix, exactly what the
    specification says one variable contributes ([contrib]). *)
From HV Require Import Base.Prelude C20.Model C20.Spec C20.Facts.
From Coq Require Import Permutation.

Definition seg_ok (s : string) : Prop :=
  s <> EmptyString /\ (is_num s = true -> (atoi s <= max_index)%N).

Lemma parts_ok_iff parts : parts_ok parts = true <-> Forall seg_ok parts.
Proof.
  unfold parts_ok. rewrite forallb_forall, Forall_forall. split; intros H s Hs; specialize (H s Hs).
  - apply andb_true_iff in H as [H1 H2]. split.
    + intro E; subst. discriminate.
    + intro Hn. rewrite Hn in H2. simpl in H2. apply N.leb_le. assumption.
  - destruct H as [H1 H2]. apply andb_true_iff. split.
    + destruct (String.eqb s EmptyString) eqn:E; [apply String.eqb_eq in E; contradiction | reflexivity].
    + destruct (is_num s); simpl; [apply N.leb_le; auto | reflexivity].
Qed.

(** the part of a name after its key prefix: empty, or starting with an index *)
Definition rel (parts : list string) : list string := skipn (length (name_prefix parts)) parts.

Lemma name_prefix_nonnum parts : Forall (fun s => is_num s = false) (name_prefix parts).
Proof.
  induction parts as [|p r IH]; simpl; [constructor|].
  destruct (is_num p) eqn:E; [constructor | constructor; assumption].
Qed.

Lemma name_prefix_incl parts s : In s (name_prefix parts) -> In s parts.
Proof.
  induction parts as [|p r IH]; simpl; [tauto|].
  destruct (is_num p); simpl; [tauto | intros [H|H]; auto].
Qed.

Lemma parts_split parts : parts = name_prefix parts ++ rel parts.
Proof.
  unfold rel. induction parts as [|p r IH]; simpl; [reflexivity|].
  destruct (is_num p); simpl; [reflexivity | f_equal; assumption].
Qed.

Lemma rel_head parts : rel parts = [] \/ exists p r, rel parts = p :: r /\ is_num p = true.
Proof.
  unfold rel. induction parts as [|p r IH]; simpl; [left; reflexivity|].
  destruct (is_num p) eqn:E; simpl; [right; eauto | assumption].
Qed.

Lemma psegs_nonnum l : Forall (fun s => is_num s = false) l -> psegs l = map SK l.
Proof.
  induction l as [|s r IH]; intro H; simpl; [reflexivity|].
  apply Forall_cons_iff in H as [H1 H2]. unfold seg_of. rewrite H1. f_equal. auto.
Qed.

Lemma psegs_split parts : psegs parts = map SK (name_prefix parts) ++ psegs (rel parts).
Proof.
  rewrite (parts_split parts) at 1. unfold psegs at 1. rewrite map_app.
  f_equal. apply psegs_nonnum. apply name_prefix_nonnum.
Qed.

Definition Plain (u : cfg) : Prop := match u with Leaf _ | Lst _ => True | _ => False end.

Lemma nth_repeat_snoc n (elem : cfg) i :
  nth i (repeat Nil n ++ [elem]) Nil = if Nat.eqb i n then elem else Nil.
Proof.
  revert i. induction n as [|n IH]; intros [|i]; simpl; try reflexivity.
  - destruct i; reflexivity.
  - apply IH.
Qed.

Lemma view_nth' q l i : view (SI i :: q) (Lst l) = view q (nth i l Nil).
Proof.
  simpl. revert i. induction l as [|x r IH]; intros [|i]; simpl; try (symmetry; apply view_Nil); auto.
Qed.

Lemma contrib_nil_path q w : contrib q ([], w) = view q (Leaf w).
Proof. destruct q as [|[s|i] r]; reflexivity. Qed.

Lemma contrib_cons a q b P w :
  contrib (a :: q) (b :: P, w) = if seg_eqb a b then contrib q (P, w) else NNone.
Proof. unfold contrib. simpl. destruct (seg_eqb a b); reflexivity. Qed.

Lemma contrib_root b P w :
  contrib [] (b :: P, w) = match b with SK _ => NMap | SI i => NLst (S i) end.
Proof. reflexivity. Qed.

Lemma Tidy_single s u : u <> Nil -> Tidy u -> Tidy (Map [(K s, u)]).
Proof.
  intros N T. apply Tidy_Map_intro; simpl.
  - constructor; [simpl; tauto | constructor].
  - constructor; [|constructor]. unfold entry_ok; simpl; eauto.
Qed.

(** what [convert] returns for a variable with scalar value [w] *)
Lemma convert_spec w : forall parts,
  Forall seg_ok parts -> flat_after_index parts = false ->
  exists u, convert false parts (Leaf w) = Ok (name_prefix parts, u) /\
            u <> Nil /\ Tidy u /\ Plain u /\
            forall q, view q u = contrib q (psegs (rel parts), w).
Proof.
  induction parts as [|p rest IH]; intros Hok Hf.
  - exists (Leaf w). simpl. splits; auto; try discriminate; try constructor.
    intro q. symmetry. apply contrib_nil_path.
  - apply Forall_cons_iff in Hok as [[Hne Hidx] Hok]. simpl in Hf.
    apply orb_false_iff in Hf as [Hf1 Hf2].
    destruct (IH Hok Hf2) as (u' & Hc & Hn & Ht & Hp & Hv). clear IH.
    simpl. rewrite Hc. destruct (is_num p) eqn:Enum.
    + (* an index: the remainder becomes one element of a sparse slice *)
      simpl in Hf1.
      assert (Hb : (max_index <? atoi p)%N = false) by (apply N.ltb_ge; auto).
      rewrite Hb.
      set (n := N.to_nat (atoi p)).
      assert (Hrel : rel (p :: rest) = p :: rest) by (unfold rel; simpl; rewrite Enum; reflexivity).
      rewrite Hrel. simpl psegs. unfold seg_of at 1. rewrite Enum. fold n.
      destruct (name_prefix rest) as [|s [|s2 more]] eqn:Enp.
      * (* the index is followed by another index or by nothing *)
        simpl. exists (Lst (repeat Nil n ++ [u'])).
        assert (Hr : rel rest = rest) by (unfold rel; rewrite Enp; reflexivity).
        rewrite Hr in Hv.
        splits; auto; try discriminate.
        -- constructor. apply Forall_app. split; [|constructor; [assumption | constructor]].
           apply Forall_forall. intros x Hx. apply repeat_spec in Hx. subst. constructor.
        -- simpl. trivial.
        -- intros [|[s'|i] q].
           ++ simpl. rewrite app_length, repeat_length. simpl. rewrite Nat.add_1_r. reflexivity.
           ++ rewrite contrib_cons. reflexivity.
           ++ rewrite view_nth', nth_repeat_snoc, contrib_cons. simpl seg_eqb.
              destruct (Nat.eqb i n); [apply Hv | apply view_Nil].
      * (* the index is followed by one name segment: a map with that key *)
        assert (Hs : s <> EmptyString).
        { assert (Hin : In s rest) by (apply name_prefix_incl; rewrite Enp; left; reflexivity).
          rewrite Forall_forall in Hok. destruct (Hok _ Hin). assumption. }
        assert (Hke : key_is_empty [s] = false).
        { simpl. destruct (String.eqb s EmptyString) eqn:E; [apply String.eqb_eq in E; contradiction | reflexivity]. }
        rewrite Hke. change (([s], @None tag)) with (K s).
        exists (Lst (repeat Nil n ++ [Map [(K s, u')]])).
        assert (Hps : psegs rest = SK s :: psegs (rel rest)).
        { rewrite (psegs_split rest), Enp. reflexivity. }
        splits; auto; try discriminate.
        -- constructor. apply Forall_app. split; [|constructor; [apply Tidy_single; assumption | constructor]].
           apply Forall_forall. intros x Hx. apply repeat_spec in Hx. subst. constructor.
        -- simpl. trivial.
        -- intros [|[s'|i] q].
           ++ simpl. rewrite app_length, repeat_length. simpl. rewrite Nat.add_1_r. reflexivity.
           ++ rewrite contrib_cons. reflexivity.
           ++ rewrite view_nth', nth_repeat_snoc, contrib_cons. simpl seg_eqb.
              destruct (Nat.eqb i n); [|apply view_Nil].
              rewrite Hps. destruct q as [|[s'|j] q'].
              ** reflexivity.
              ** rewrite contrib_cons. simpl. rewrite key_eqb_K.
                 destruct (String.eqb s' s); [apply Hv | reflexivity].
              ** rewrite contrib_cons. reflexivity.
      * (* two or more name segments after an index: the C20-F4 shape *)
        simpl in Hf1. discriminate.
    + (* a name segment: it joins the key prefix *)
      exists u'.
      assert (Hrel : rel (p :: rest) = rel rest) by (unfold rel; simpl; rewrite Enum; reflexivity).
      rewrite Hrel. splits; auto.
Qed.
