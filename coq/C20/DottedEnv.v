(** C20 — koanfFromEnv (with the repair of C20-F3) on converted values that may
    hold dotted keys: maps.Unflatten builds the trie of the key prefixes, the
    repaired cleanSuffix merges the values of one name, the merge function
    puts the names together.  For pairwise coherent entries ([ecohD]: same
    shape at every path, at most one scalar, dotted keys standing alone) the
    result shows per name the join of the entries' contributions — seen
    through the dotted keys that are still there —, and every dotted key still
    there is one of an entry. *)
From HV Require Import Base.Prelude C20.Model C20.Spec C20.Facts C20.MergeProofs C20.ConvertProofs
  C20.NodeAlg C20.TrieProofs C20.UnflattenProofs C20.EnvProofs C20.FixedProofs C20.FixedEnvProofs
  C20.DottedBase C20.DottedMerge C20.DottedTrie C20.DottedFold.
From Coq Require Import Permutation.

(** an entry of the env provider's flat map as a tree: its value below its key prefix *)
Definition ent (e : key * cfg) : cfg := nest (ekey e) (snd e).

Definition econD (p : path) (e : key * cfg) : node := dview p (ent e).

Definition EntOkD (e : key * cfg) : Prop :=
  ekey e <> [] /\ (exists tg, etag e = Some tg) /\ Plain (snd e) /\ DT (snd e).

Definition ecohD (e1 e2 : key * cfg) : Prop := xc (ent e1) (ent e2).

Lemma ecohD_sym e1 e2 : ecohD e1 e2 -> ecohD e2 e1.
Proof. apply xc_sym. Qed.

Lemma EntOkD_kok e : EntOkD e -> kok e.
Proof. intros (A & B & _). split; assumption. Qed.

Lemma econD_other s q e : named s e = false -> ekey e <> [] -> econD (SK s :: q) e = NNone.
Proof.
  unfold econD, ent, named. destruct (ekey e) as [|s' r]; [congruence|]. intros H _.
  rewrite dview_nest_cons. rewrite String.eqb_sym, H. reflexivity.
Qed.

Lemma econD_named s q e r : ekey e = s :: r -> econD (SK s :: q) e = dview q (nest r (snd e)).
Proof. unfold econD, ent. intros ->. rewrite dview_nest_cons, String.eqb_refl. reflexivity. Qed.

Lemma econD_flat s q e : flatb s e = true -> econD (SK s :: q) e = dview q (snd e).
Proof. unfold flatb. intro H. apply segs_eqb_eq in H. rewrite (econD_named s q e [] H). reflexivity. Qed.

Lemma econD_tail s e p : named s e = true -> econD p (tail_ent e) = econD (SK s :: p) e.
Proof.
  intro H. destruct (named_key s e H) as [r Hr]. rewrite (econD_named s p e r Hr).
  unfold econD, ent, tail_ent, ekey. simpl. unfold ekey in Hr. rewrite Hr. reflexivity.
Qed.

Lemma DK_ent_tail s e pi s' : named s e = true -> (DK (ent (tail_ent e)) pi s' <-> DK (ent e) (SK s :: pi) s').
Proof.
  intro H. destruct (named_key s e H) as [r Hr].
  assert (E1 : ent (tail_ent e) = nest r (snd e)).
  { unfold ent, tail_ent, ekey. simpl. unfold ekey in Hr. rewrite Hr. reflexivity. }
  assert (E2 : ent e = nest (s :: r) (snd e)) by (unfold ent; rewrite Hr; reflexivity).
  rewrite E1, E2. split; intro D.
  - apply DK_nest_inv in D as (pi' & -> & D). apply (DK_nest_intro (s :: r)) in D. exact D.
  - apply DK_nest_inv in D as (pi' & E & D). simpl in E. inv E. apply DK_nest_intro. assumption.
Qed.

Lemma xc_tail s e1 e2 :
  named s e1 = true -> named s e2 = true -> xc (ent e1) (ent e2) -> xc (ent (tail_ent e1)) (ent (tail_ent e2)).
Proof.
  intros N1 N2 (A & B & C). unfold xc. splits.
  - intro p. fold (econD p (tail_ent e1)). fold (econD p (tail_ent e2)).
    rewrite (econD_tail s e1 p N1), (econD_tail s e2 p N2). apply A.
  - intros pi s' H. apply (DK_ent_tail s e1 pi s' N1) in H. specialize (B _ _ H).
    fold (econD (pi ++ [SK s']) (tail_ent e2)). rewrite (econD_tail s e2 _ N2). exact B.
  - intros pi s' H. apply (DK_ent_tail s e2 pi s' N2) in H. specialize (C _ _ H).
    fold (econD (pi ++ [SK s']) (tail_ent e1)). rewrite (econD_tail s e1 _ N1). exact C.
Qed.

Lemma dview_nest_prefix : forall k1 r v, r <> [] -> dview (map SK k1) (nest (k1 ++ r) v) = NMap.
Proof.
  induction k1 as [|s k IH]; intros r v N.
  - simpl. unfold dview. rewrite expand_nest. apply view_nest_root. assumption.
  - simpl map. simpl app. rewrite dview_nest_cons, String.eqb_refl. apply IH. assumption.
Qed.

Lemma Plain_droot u : Plain u -> (exists w, dview [] u = NLeaf w) \/ (exists n, dview [] u = NLst n).
Proof.
  destruct u; simpl; try tauto; intros _.
  - left. eexists. reflexivity.
  - right. rewrite dview_Lst_root. eauto.
Qed.

(** coherent entries have prefix-free keys *)
Lemma ecohD_pfree e1 e2 : EntOkD e1 -> EntOkD e2 -> ecohD e1 e2 -> pfree e1 e2.
Proof.
  assert (X : forall a b, EntOkD a -> xc (ent a) (ent b) -> forall r, r <> [] -> ekey b <> ekey a ++ r).
  { intros a b (_ & _ & Pa & _) (C & _) r Nr E. specialize (C (map SK (ekey a))). destruct C as [C _].
    unfold ent in C. rewrite E in C. rewrite (dview_nest_prefix (ekey a) r (snd b) Nr) in C.
    rewrite <- (app_nil_r (map SK (ekey a))) in C. rewrite dview_nest_app in C.
    destruct (Plain_droot _ Pa) as [[w Hw] | [n Hn]]; rewrite ?Hw, ?Hn in C; discriminate. }
  intros O1 O2 H r Nr. split; [apply (X e1 e2 O1 H r Nr) | apply (X e2 e1 O2 (xc_sym _ _ H) r Nr)].
Qed.

Lemma PW_impl_in {A} (R R' : A -> A -> Prop) (Q : A -> Prop) l :
  Forall Q l -> (forall x y, Q x -> Q y -> R x y -> R' x y) -> PW R l -> PW R' l.
Proof.
  intros F H P. induction P as [|x l Hx Hl IH]; [constructor|].
  apply Forall_cons_iff in F as [Fx Fl]. constructor; [|auto].
  rewrite Forall_forall in *. intros y Hy. apply H; auto.
Qed.

Lemma PW_ecohD_pfree P : Forall EntOkD P -> PW ecohD P -> PW pfree P.
Proof. intros F H. apply (PW_impl_in ecohD pfree EntOkD P F); [|assumption]. intros x y. apply ecohD_pfree. Qed.

Lemma tails_EntOkD s P :
  Forall EntOkD P -> PW pfree P -> existsb (deepb s) P = true -> Forall EntOkD (tails s P).
Proof.
  intros HE HC Ex. unfold tails. apply Forall_map. apply Forall_forall. intros e He.
  apply filter_In in He as [He Hn].
  assert (D := tails_all_deep_s s P HC Ex e He Hn).
  rewrite Forall_forall in HE. destruct (HE _ He) as (N & T & Pl & Td).
  unfold deepb in D. apply andb_true_iff in D as [_ D]. apply Nat.leb_le in D.
  unfold EntOkD, tail_ent, ekey, etag in *. simpl. splits; auto.
  destruct (fst (fst e)) as [|a [|b c]]; simpl in *; try lia. discriminate.
Qed.

Lemma tails_ecohD s P : PW ecohD P -> PW ecohD (tails s P).
Proof.
  intro H. unfold tails. apply PW_map.
  apply (PW_impl_in ecohD _ (fun e => named s e = true)).
  - apply Forall_forall. intros e He. apply filter_In in He. tauto.
  - intros x y Nx Ny C. apply (xc_tail s x y Nx Ny C).
  - apply PW_filter. assumption.
Qed.

Lemma PW_ecohD_nc p E : PW ecohD E -> PW nc (map (econD p) E).
Proof. intro H. apply PW_map. eapply PW_impl; [|exact H]. intros x y (C & _). apply C. Qed.

Section WithOrder.
  Variable sh : nat -> list (key * cfg) -> list (key * cfg).
  Hypothesis sh_perm : forall site l, Permutation (sh site l) l.

  Notation cval := (cval sh).

  Lemma flat_viewsD s q P :
    Forall EntOkD P ->
    map (fun kv => dview q (cval (snd kv))) (filter (flatb s) P) = map (econD (SK s :: q)) (filter (flatb s) P).
  Proof.
    intro HE. apply map_ext_in. intros e He. apply filter_In in He as [He Hf].
    rewrite Forall_forall in HE. destruct (HE _ He) as (_ & _ & Pl & Td).
    rewrite (cval_plain sh _ Pl), (econD_flat s q e Hf). reflexivity.
  Qed.

  Lemma flat_foldD s q P :
    Forall EntOkD P -> existsb (deepb s) P = false ->
    jfold NNone (map (econD (SK s :: q)) (filter (flatb s) P)) = jfold NNone (map (econD (SK s :: q)) P).
  Proof.
    intros HE Ex. symmetry. apply jfold_filter. intros e He Hf. destruct (named s e) eqn:Nm.
    - destruct (named_cases _ _ Nm) as [F|D]; [congruence|].
      assert (X : existsb (deepb s) P = true) by (apply existsb_exists; eauto). congruence.
    - apply econD_other; [assumption|]. rewrite Forall_forall in HE. destruct (HE _ He). assumption.
  Qed.

  (** the views of a cleaned inner node, at every path, from its statement per name *)
  Lemma deep_viewsD s P r :
    Forall EntOkD P -> PW pfree P -> existsb (deepb s) P = true -> PT r ->
    (forall s' q', dview q' (get (K s') r) = jfold NNone (map (econD (SK s' :: q')) (tails s P))) ->
    forall q, dview q (Map r) = jfold NNone (map (econD (SK s :: q)) P).
  Proof.
    intros HE HC Ex Tr Hr q.
    assert (Hd := tails_all_deep_s s P HC Ex).
    assert (Unn : forall e, In e P -> named s e = false -> forall q0, econD (SK s :: q0) e = NNone).
    { intros e He Hn q0. apply econD_other; [assumption|]. rewrite Forall_forall in HE. destruct (HE _ He). assumption. }
    assert (Deep : forall e q0, In e P -> named s e = true ->
              exists t, t <> [] /\ econD (SK s :: q0) e = view q0 (nest t (expand (snd e)))).
    { intros e q0 He Nm. specialize (Hd e He Nm). unfold deepb in Hd. apply andb_true_iff in Hd as [_ Hl]. apply Nat.leb_le in Hl.
      destruct (named_key s e Nm) as [t Ht]. exists t. split.
      - intro; subst t. rewrite Ht in Hl. simpl in Hl. lia.
      - rewrite (econD_named s q0 e t Ht). unfold dview. rewrite expand_nest. reflexivity. }
    destruct q as [|[s'|i] q'].
    - rewrite dview_Map_root. symmetry. apply jfold_has_map; [left; reflexivity | |].
      + apply Forall_map. apply Forall_forall. intros e He. destruct (named s e) eqn:Nm.
        * right. destruct (Deep e [] He Nm) as (t & Nt & ->). apply view_nest_root. assumption.
        * left. apply Unn; assumption.
      + right. apply existsb_exists in Ex as (e & He & Hde).
        assert (Nm : named s e = true) by (apply named_of_deepb; assumption).
        apply in_map_iff. exists e. split; [|assumption].
        destruct (Deep e [] He Nm) as (t & Nt & ->). apply view_nest_root. assumption.
    - rewrite (PT_dview r s' q' Tr). rewrite Hr. unfold tails. rewrite map_map.
      rewrite (jfold_filter (econD (SK s :: SK s' :: q')) (named s) P).
      + f_equal. apply map_ext_in. intros e He. apply filter_In in He as [_ Nm]. apply econD_tail. assumption.
      + intros e He Hn. apply Unn; assumption.
    - rewrite dview_Map_SI. symmetry. apply jfold_none_elems. apply Forall_map. apply Forall_forall. intros e He.
      destruct (named s e) eqn:Nm; [|apply Unn; assumption].
      destruct (Deep e (SI i :: q') He Nm) as (t & Nt & ->). apply view_nest_SI. assumption.
  Qed.

  (** a child as the repaired cleanSuffix leaves it *)
  Definition kids_goodD (m : list (key * cfg)) : Prop :=
    forall kv, In kv m ->
      clean_fixed sh (snd kv) = Ok (cval (snd kv)) /\ DT (cval (snd kv)) /\ cval (snd kv) <> Nil.

  Definition name_semD (m P : list (key * cfg)) : Prop :=
    forall s,
      PW xc (map (fun kv => cval (snd kv)) (grp s m)) /\
      (forall q, jfold NNone (map (fun kv => dview q (cval (snd kv))) (grp s m))
                 = jfold NNone (map (econD (SK s :: q)) P)) /\
      (forall kv pi s', In kv (grp s m) -> DK (cval (snd kv)) pi s' ->
                        exists e, In e P /\ DK (ent e) (SK s :: pi) s').

  Definition node_semD (r P : list (key * cfg)) : Prop :=
    PT r /\
    (forall s q, dview q (get (K s) r) = jfold NNone (map (econD (SK s :: q)) P)) /\
    (forall s pi s', DK (get (K s) r) pi s' -> exists e, In e P /\ DK (ent e) (SK s :: pi) s').

  Lemma grp_vals_perm s (L L' : list (key * cfg)) (g : key * cfg -> cfg) :
    Permutation L L' -> Permutation (map g (grp s L)) (map g (grp s L')).
  Proof. intro H. apply Permutation_map. apply grp_perm. assumption. Qed.

  (** the repaired cleanSuffix on a trie: per name the join of the entries' contributions *)
  Lemma tinv_cleanD : forall t m P, t = Map m ->
    TInv m P -> Forall EntOkD P -> PW ecohD P ->
    (exists r, clean_fixed sh (Map m) = Ok (Map r) /\ node_semD r P) /\
    kids_goodD m /\ name_semD m P.
  Proof.
    induction t as [| v | m0 IH | l IH] using cfg_ind'; intros m P Et HI HE HC; try discriminate.
    inv Et. inversion HI as [m' P' ND FS HD HF]; subst m' P'.
    assert (HPF : PW pfree P) by (apply PW_ecohD_pfree; assumption).
    (* an inner node *)
    assert (Inner : forall s sub, In (K s, Map sub) m -> existsb (deepb s) P = true ->
              exists r, clean_fixed sh (Map sub) = Ok (Map r) /\ node_semD r (tails s P)).
    { intros s sub Hin Ex. rewrite Forall_forall in IH.
      destruct (HD s Ex) as (sub' & Hgs & Nsub & Hsub).
      assert (Hg : In (K s, Map sub) (grp s m)) by (apply grp_In; split; [assumption | reflexivity]).
      rewrite Hgs in Hg. destruct Hg as [Hg|[]]. inv Hg.
      destruct (IH _ Hin sub (tails s P) eq_refl Hsub (tails_EntOkD s P HE HPF Ex) (tails_ecohD s P HC)) as (X & _).
      exact X. }
    assert (InnerV : forall s sub, In (K s, Map sub) m -> existsb (deepb s) P = true ->
              clean_fixed sh (Map sub) = Ok (cval (Map sub)) /\ DT (cval (Map sub)) /\ cval (Map sub) <> Nil /\
              (forall q, dview q (cval (Map sub)) = jfold NNone (map (econD (SK s :: q)) P)) /\
              (forall pi s', DK (cval (Map sub)) pi s' -> exists e, In e P /\ DK (ent e) (SK s :: pi) s')).
    { intros s sub Hin Ex. destruct (Inner s sub Hin Ex) as (r & Hr & Tr & Vr & Dr).
      unfold FixedEnvProofs.cval. rewrite Hr. splits; auto; try discriminate.
      - apply Tr.
      - apply (deep_viewsD s P r HE HPF Ex Tr Vr).
      - intros pi s' H. destruct (PT_DK r pi s' Tr H) as (s1 & pi1 & -> & H1).
        destruct (Dr _ _ _ H1) as (e' & He' & De').
        unfold tails in He'. apply in_map_iff in He' as (e & <- & He). apply filter_In in He as [He Nm].
        exists e. split; [assumption|]. apply (DK_ent_tail s e _ s' Nm). assumption. }
    (* every child *)
    assert (KG : kids_goodD m).
    { intros kv Hkv. rewrite Forall_forall in FS. destruct (FS _ Hkv) as [s Hs].
      assert (Hg : In kv (grp s m)) by (apply grp_In; auto).
      destruct (existsb (deepb s) P) eqn:Ex.
      - destruct (HD s Ex) as (sub & Hgs & _). rewrite Hgs in Hg. destruct Hg as [<-|[]]. simpl snd.
        assert (Hin : In (K s, Map sub) m).
        { assert (X : In (K s, Map sub) (grp s m)) by (rewrite Hgs; left; reflexivity). apply grp_In in X. tauto. }
        destruct (InnerV s sub Hin Ex) as (A & B & C & _). auto.
      - rewrite (HF s Ex) in Hg. apply filter_In in Hg as [Hg _].
        rewrite Forall_forall in HE. destruct (HE _ Hg) as (_ & _ & Pl & Td).
        rewrite (cval_plain sh _ Pl). splits; auto using clean_fixed_plain, Plain_not_nil. }
    assert (NS : name_semD m P).
    { intro s. destruct (existsb (deepb s) P) eqn:Ex.
      - destruct (HD s Ex) as (sub & Hgs & _). rewrite Hgs.
        assert (Hin : In (K s, Map sub) m).
        { assert (X : In (K s, Map sub) (grp s m)) by (rewrite Hgs; left; reflexivity). apply grp_In in X. tauto. }
        destruct (InnerV s sub Hin Ex) as (_ & _ & _ & Vv & Dv).
        cbn [map snd]. splits.
        + constructor; constructor.
        + intro q. change (jfold NNone [dview q (cval (Map sub))]) with (njoin NNone (dview q (cval (Map sub)))).
          rewrite njoin_none_l. apply Vv.
        + intros kv pi s' [<-|[]] H. simpl snd in H. apply Dv. assumption.
      - rewrite (HF s Ex). splits.
        + apply PW_map. apply (PW_impl_in ecohD _ (fun e => EntOkD e /\ flatb s e = true)).
          * apply Forall_forall. intros e He. apply filter_In in He as [He Hf]. rewrite Forall_forall in HE. auto.
          * intros x y [Ox Fx] [Oy Fy] C.
            destruct Ox as (_ & _ & Px & _). destruct Oy as (_ & _ & Py & _).
            rewrite (cval_plain sh _ Px), (cval_plain sh _ Py).
            assert (T := xc_tail s x y (flatb_named s x Fx) (flatb_named s y Fy) C).
            unfold flatb in Fx, Fy. apply segs_eqb_eq in Fx, Fy.
            unfold ent, tail_ent in T. unfold ekey in *. simpl in T. rewrite Fx, Fy in T. exact T.
          * apply PW_filter. assumption.
        + intro q. rewrite (flat_viewsD s q P HE). apply flat_foldD; assumption.
        + intros kv pi s' Hkv H. apply filter_In in Hkv as [Hkv Hf]. exists kv. split; [assumption|].
          rewrite Forall_forall in HE. destruct (HE _ Hkv) as (_ & _ & Pl & _).
          rewrite (cval_plain sh _ Pl) in H.
          unfold flatb in Hf. apply segs_eqb_eq in Hf. unfold ent. rewrite Hf.
          apply (DK_nest_intro [s]). assumption. }
    splits; auto.
    (* the node itself *)
    set (cm := map (fun kv => (strip (fst kv), cval (snd kv))) m).
    assert (Hk : clean_kids sh m = Ok cm) by (apply clean_kids_ok; intros kv Hkv; apply KG; assumption).
    assert (P2 : Permutation (sh 2 cm) cm) by apply sh_perm.
    assert (Gm : forall s, map snd (grp s cm) = map (fun kv => cval (snd kv)) (grp s m)).
    { intro s. unfold cm. rewrite grp_map_vals, map_map. reflexivity. }
    assert (PWs : forall s, PW xc (Nil :: map snd (grp s (sh 2 cm)))).
    { intro s. constructor; [apply Forall_forall; intros; apply xc_Nil_l|].
      eapply PW_perm; [exact xc_sym | apply Permutation_sym; apply (grp_vals_perm s (sh 2 cm) cm snd P2)|].
      rewrite Gm. apply NS. }
    destruct (foldD sh false false snd (sh 2 cm) []) as (r & Hr & Tr & Vr & Dr).
    - eapply Permutation_Forall; [apply Permutation_sym; exact P2|].
      unfold cm. apply Forall_map. apply Forall_forall. intros kv Hkv.
      rewrite Forall_forall in FS. destruct (FS _ Hkv) as [s Hs]. exists s. unfold segk, strip in *. simpl. auto.
    - intros kv Hkv. exists true. split; [|discriminate].
      apply (Permutation_in _ P2) in Hkv. unfold cm in Hkv. apply in_map_iff in Hkv as (kv0 & <- & Hkv0).
      simpl snd. destruct (KG kv0 Hkv0) as (_ & A & B). apply stepOK_false; assumption.
    - apply PT_nil.
    - intro s. apply PWs.
    - exists r. rewrite clean_fixed_map, Hk, Hr. split; [reflexivity|]. unfold node_semD. splits; auto.
      + intros s q. rewrite Vr. change (get (K s) []) with Nil. rewrite dview_Nil.
        assert (E : map (fun kv : key * cfg => dview q (snd kv)) (grp s (sh 2 cm))
                    = map (dview q) (map snd (grp s (sh 2 cm)))) by (rewrite map_map; reflexivity).
        rewrite E.
        rewrite (jfold_perm _ _ (Permutation_map (dview q) (grp_vals_perm s (sh 2 cm) cm snd P2))).
        * rewrite Gm, map_map. apply NS.
        * constructor; [apply Forall_forall; intros; apply nc_none_l|].
          specialize (PWs s). apply PW_cons_iff in PWs as [_ PWs]. apply PW_xc_nc. assumption.
      + intros s pi s' H. destruct (Dr _ _ _ H) as [H1 | (kv & Hkv & Hd)].
        * exfalso. eapply DK_Nil; eauto.
        * apply (Permutation_in _ (grp_perm s _ _ P2)) in Hkv. unfold cm in Hkv. rewrite grp_map_vals in Hkv.
          apply in_map_iff in Hkv as (kv0 & <- & Hkv0). simpl snd in Hd.
          destruct (NS s) as (_ & _ & X). apply (X kv0 pi s' Hkv0 Hd).
  Qed.

  (** koanfFromEnv with the repair, from the provider's flat map [E] on *)
  Theorem env_tree_entriesD E :
    Forall EntOkD E -> NoDup (map etag E) -> PW ecohD E ->
    exists r, merge_top sh true true [] (unflatten sh E) = Ok r /\ node_semD r E.
  Proof.
    intros HE ND HC.
    set (P := sh 0 E).
    assert (PP : Permutation P E) by apply sh_perm.
    assert (HEP : Forall EntOkD P) by (eapply Permutation_Forall; [apply Permutation_sym; exact PP | exact HE]).
    assert (NDP : NoDup (map etag P)).
    { eapply Permutation_NoDup; [apply Permutation_map; apply Permutation_sym; exact PP | exact ND]. }
    assert (HCP : PW ecohD P) by (eapply PW_perm; [exact ecohD_sym | apply Permutation_sym; exact PP | exact HC]).
    assert (HPF : PW pfree P) by (apply PW_ecohD_pfree; assumption).
    assert (TI : TInv (unflatten sh E) P).
    { unfold unflatten. fold P. apply (tinv_unflatten_s P [] [] TInv_nil); simpl; try assumption.
      eapply Forall_impl; [|exact HEP]. intros e. apply EntOkD_kok. }
    set (U := unflatten sh E) in *.
    destruct (tinv_cleanD (Map U) U P eq_refl TI HEP HCP) as (_ & KG & NS).
    inversion TI as [m' P' NDU FS HD HF]; subst m' P'.
    rewrite merge_top_unfold.
    set (L := sh 1 U).
    assert (PL : Permutation L U) by apply sh_perm.
    set (cvf := fun kv : key * cfg => cval (snd kv)).
    assert (PWs : forall s, PW xc (Nil :: map cvf (grp s L))).
    { intro s. constructor; [apply Forall_forall; intros; apply xc_Nil_l|].
      eapply PW_perm; [exact xc_sym | apply Permutation_sym; apply (grp_vals_perm s L U cvf PL)|].
      apply NS. }
    destruct (foldD sh true true cvf L []) as (r & Hr & Tr & Vr & Dr).
    - eapply Permutation_Forall; [apply Permutation_sym; exact PL|].
      eapply Forall_impl; [|exact FS]. intros kv [s Hs]. exists s. split; [assumption | discriminate].
    - intros kv Hkv. assert (HkU : In kv U) by (eapply Permutation_in; eauto).
      rewrite Forall_forall in FS. destruct (FS _ HkU) as [s Hs].
      assert (Hg : In kv (grp s U)) by (apply grp_In; auto).
      destruct (KG kv HkU) as (Hc & Tc & Nc).
      destruct (existsb (deepb s) P) eqn:Ex.
      + exists false. split.
        * intros o [Ho|Ho] To Xo; [discriminate|]. subst o. exists (cvf kv). unfold merge. simpl merge_with.
          splits; auto.
          intro q. rewrite dview_Nil, njoin_none_l. reflexivity.
        * intros _. exists s. splits; auto.
          destruct (HD s Ex) as (sub & Hgs & _). rewrite Hgs in Hg. destruct Hg as [<-|[]].
          assert (Pg := grp_perm s L U PL). rewrite Hgs in Pg.
          apply Permutation_sym in Pg. apply Permutation_length_1_inv in Pg. assumption.
      + exists true. split; [|discriminate].
        rewrite (HF s Ex) in Hg. apply filter_In in Hg as [Hg _].
        rewrite Forall_forall in HEP. destruct (HEP _ Hg) as (_ & _ & Pl & Td).
        unfold cvf. rewrite (cval_plain sh _ Pl). apply stepOK_true_plain; assumption.
    - apply PT_nil.
    - intro s. apply PWs.
    - exists r. split; [exact Hr|]. unfold node_semD. splits; auto.
      + intros s q. rewrite Vr. change (get (K s) []) with Nil. rewrite dview_Nil.
        assert (E0 : map (fun kv : key * cfg => dview q (cvf kv)) (grp s L)
                     = map (dview q) (map cvf (grp s L))) by (rewrite map_map; reflexivity).
        rewrite E0.
        rewrite (jfold_perm _ _ (Permutation_map (dview q) (grp_vals_perm s L U cvf PL))).
        * rewrite map_map. destruct (NS s) as (_ & -> & _).
          apply jfold_perm; [apply Permutation_map; assumption|].
          constructor; [apply Forall_forall; intros; apply nc_none_l | apply PW_ecohD_nc; assumption].
        * constructor; [apply Forall_forall; intros; apply nc_none_l|].
          specialize (PWs s). apply PW_cons_iff in PWs as [_ PWs]. apply PW_xc_nc. assumption.
      + intros s pi s' H. destruct (Dr _ _ _ H) as [H1 | (kv & Hkv & Hd)].
        * exfalso. eapply DK_Nil; eauto.
        * apply (Permutation_in _ (grp_perm s _ _ PL)) in Hkv.
          destruct (NS s) as (_ & _ & X). destruct (X kv pi s' Hkv Hd) as (e & He & De).
          exists e. split; [eapply Permutation_in; eauto | assumption].
  Qed.
End WithOrder.
