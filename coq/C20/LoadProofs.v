(** C20 — the loader on the property's domain: the tree that [load] hands to
    the decoder shows, at every path, what the specification says
    ([spec_view]: environment over file over defaults, per leaf), for every
    iteration order of Go's maps. *)
From HV Require Import Base.Prelude C20.Model C20.Spec C20.Facts C20.MergeProofs C20.ConvertProofs
  C20.NodeAlg C20.TrieProofs C20.UnflattenProofs C20.EnvProofs.
From Coq Require Import Permutation.

(** the property's domain ("valid configurations"): well-formed defaults and
    file, no two variables for one leaf, and at every path the three sources and
    any two variables agree on the shape (one is silent or both show the same
    kind of node) *)
Definition in_scope (d f : list (key * cfg)) (tenv : list (path * string)) : Prop :=
  Tidy (Map d) /\ Tidy (Map f) /\ NoDup (map fst tenv) /\
  (forall p, kcompat (view p (Map d)) (view p (Map f)) = true) /\
  Forall (fun e => forall p, kcompat (view p (Map d)) (contrib p e) = true /\
                             kcompat (view p (Map f)) (contrib p e) = true) tenv /\
  PW (fun a b => forall p, kcompat (contrib p a) (contrib p b) = true) tenv.

(* ------------------------------------------------------------------ small facts *)

Lemma pairwise_PW {A} (f : A -> A -> bool) l : pairwise f l = true -> PW (fun a b => f a b = true) l.
Proof.
  induction l as [|x r IH]; simpl; intro H; [constructor|].
  apply andb_true_iff in H as [H1 H2]. constructor; [|auto].
  apply Forall_forall. intros y Hy. rewrite forallb_forall in H1. auto.
Qed.

Lemma PW_map_inv {A B} (R : B -> B -> Prop) (f : A -> B) l :
  PW R (map f l) -> PW (fun x y => R (f x) (f y)) l.
Proof.
  induction l as [|x r IH]; simpl; intro H; [constructor|].
  apply PW_cons_iff in H as [H1 H2]. constructor; [|auto].
  rewrite Forall_forall in *. intros y Hy. apply H1. apply in_map. assumption.
Qed.

Lemma PW_and {A} (R1 R2 : A -> A -> Prop) l : PW R1 l -> PW R2 l -> PW (fun a b => R1 a b /\ R2 a b) l.
Proof.
  induction l as [|x r IH]; intros H1 H2; [constructor|].
  apply PW_cons_iff in H1 as [A1 B1]. apply PW_cons_iff in H2 as [A2 B2]. constructor; [|auto].
  rewrite Forall_forall in *. intros y Hy. split; auto.
Qed.

Lemma PW_NoDup_neq {A} (l : list A) : NoDup l -> PW (fun a b => a <> b) l.
Proof.
  induction 1; constructor; auto. apply Forall_forall. intros y Hy E. subst. contradiction.
Qed.

Lemma strip_prefix_nil_eq : forall p q, strip_prefix p q = Some [] -> p = q.
Proof.
  induction p as [|a p IH]; intros [|b q]; simpl; try congruence.
  destruct (seg_eqb a b) eqn:E; [|discriminate]. intro H. f_equal; [|auto].
  destruct a, b; simpl in E; try discriminate.
  - apply String.eqb_eq in E. congruence.
  - apply Nat.eqb_eq in E. congruence.
Qed.

Lemma contrib_leaf_path p e w : contrib p e = NLeaf w -> fst e = p.
Proof.
  unfold contrib. destruct (strip_prefix p (fst e)) as [[|[s|i] r]|] eqn:E; try discriminate.
  intros _. symmetry. apply strip_prefix_nil_eq. assumption.
Qed.

Lemma strip_prefix_app : forall p q r, strip_prefix p q = Some r -> q = p ++ r.
Proof.
  induction p as [|a p IH]; intros q r; simpl.
  - intro H; inv H. reflexivity.
  - destruct q as [|b q]; [discriminate|]. destruct (seg_eqb a b) eqn:E; [|discriminate].
    intro H. apply IH in H. subst q.
    destruct a, b; simpl in E; try discriminate.
    + apply String.eqb_eq in E. subst. reflexivity.
    + apply Nat.eqb_eq in E. subst. reflexivity.
Qed.

Lemma contrib_lst_path p e n : contrib p e = NLst n -> exists i r, fst e = p ++ SI i :: r.
Proof.
  unfold contrib. destruct (strip_prefix p (fst e)) as [[|[s|i] r]|] eqn:E; try discriminate.
  intros _. exists i, r. apply strip_prefix_app. assumption.
Qed.

Lemma is_prefix_refl k : is_prefix k k = true.
Proof. induction k as [|s k IH]; simpl; [reflexivity|]. rewrite String.eqb_refl. assumption. Qed.

(** a name whose path is [map SK k ++ SI i :: _] has key prefix [k] and an index *)
Lemma psegs_prefix_index : forall k parts i R,
  psegs parts = map SK k ++ SI i :: R -> name_prefix parts = k /\ has_index parts = true.
Proof.
  induction k as [|s k IH]; intros parts i R H.
  - destruct parts as [|p r]; [discriminate|]. simpl in H. unfold seg_of in H.
    destruct (is_num p) eqn:E; [|discriminate]. simpl. rewrite E. auto.
  - destruct parts as [|p r]; [discriminate|]. simpl in H. unfold seg_of in H.
    destruct (is_num p) eqn:E; [discriminate|]. inv H.
    destruct (IH _ _ _ H2) as [A B]. simpl. rewrite E. simpl. rewrite A, B. auto.
Qed.

Lemma sview_nest_contrib P w u :
  (forall q, sview q u = contrib q (P, w)) ->
  forall k p, sview p (nest k u) = contrib p (map SK k ++ P, w).
Proof.
  intros H. induction k as [|s r IH]; intro p; [apply H|].
  destruct p as [|[s'|i] q].
  - destruct (nest_is_map (s :: r) u) as [m ->]; [discriminate | reflexivity].
  - rewrite sview_nest_cons. simpl map. simpl app. rewrite contrib_cons. simpl seg_eqb.
    destruct (String.eqb s' s); [apply IH | reflexivity].
  - destruct (nest_is_map (s :: r) u) as [m ->]; [discriminate|]. simpl map. simpl app.
    rewrite contrib_cons. reflexivity.
Qed.

Lemma kcompat_njoin_l a b c :
  kcompat a c = true -> kcompat b c = true -> kcompat a b = true -> kcompat (njoin a b) c = true.
Proof. destruct a, b, c; simpl; auto. Qed.

Lemma kcompat_jfold x : forall L y,
  kcompat x y = true -> Forall (fun c => kcompat x c = true) L -> PW nc (y :: L) ->
  kcompat x (jfold y L) = true.
Proof.
  induction L as [|a r IH]; intros y Hy HL HP; simpl; [assumption|].
  apply Forall_cons_iff in HL as [Ha Hr]. apply IH; auto.
  - assert (Hya : nc y a).
    { apply PW_cons_iff in HP as [H1 _]. apply Forall_cons_iff in H1. tauto. }
    destruct Hya as [Hk _]. rewrite kcompat_sym. apply kcompat_njoin_l; [rewrite kcompat_sym; assumption | rewrite kcompat_sym; assumption | assumption].
  - apply PW_njoin_head. assumption.
Qed.

Lemma fold_left_map_njoin {A} (f : A -> node) l y :
  fold_left (fun acc e => njoin acc (f e)) l y = jfold y (map f l).
Proof. revert y. induction l as [|x r IH]; intro y; simpl; auto. Qed.

Lemma split_dot_aux_nonnil : forall s cur, split_dot_aux cur s <> [].
Proof.
  induction s as [|c s IH]; intro cur; simpl; [discriminate|].
  destruct (Ascii.eqb c "."); [discriminate | apply IH].
Qed.

Lemma split_dot_nonnil s : split_dot s <> [].
Proof. apply split_dot_aux_nonnil. Qed.

Section WithOrder.
  Variable sh : nat -> list (key * cfg) -> list (key * cfg).
  Hypothesis sh_perm : forall site l, Permutation (sh site l) l.
  Variable to_real : string -> cfg.

  (** the specification's reading of one variable *)
  Definition tof (nv : string * string) : path * string :=
    (parse_path (fst nv), match to_real (snd nv) with Leaf w => w | _ => EmptyString end).

  (** the env provider's entry for one variable *)
  Definition eof (nv : string * string) : key * cfg :=
    match convert false (split_dot (fst nv)) (to_real (snd nv)) with
    | Ok (k, u) => ((k, Some nv), u)
    | Panic => (([], Some nv), Nil)
    end.

  Definition good (nv : string * string) : Prop :=
    (exists w, to_real (snd nv) = Leaf w) /\ Forall seg_ok (split_dot (fst nv)) /\
    flat_after_index (split_dot (fst nv)) = false /\ name_prefix (split_dot (fst nv)) <> [].

  Lemma typed_env_map ne tenv :
    typed_env to_real ne = Some tenv ->
    tenv = map tof ne /\
    Forall (fun nv => (exists w, to_real (snd nv) = Leaf w) /\ Forall seg_ok (split_dot (fst nv))) ne.
  Proof.
    revert tenv. induction ne as [|[nk val] r IH]; intros tenv H; simpl in H.
    - inv H. split; [reflexivity | constructor].
    - destruct (leaf_payload (to_real val)) as [w|] eqn:E1; [|discriminate].
      destruct (typed_env to_real r) as [r'|] eqn:E2; [|discriminate].
      destruct (parts_ok (split_dot nk)) eqn:E3; [|discriminate]. inv H.
      destruct (IH r' eq_refl) as [A B]. subst r'.
      assert (Ew : to_real val = Leaf w) by (destruct (to_real val); simpl in E1; congruence).
      split.
      + simpl. unfold tof at 2. simpl. rewrite Ew. reflexivity.
      + constructor; [|assumption]. simpl. split; [eauto | apply parts_ok_iff; assumption].
  Qed.

  Lemma eof_spec nv : good nv ->
    exists w u, to_real (snd nv) = Leaf w /\
      convert false (split_dot (fst nv)) (to_real (snd nv)) = Ok (name_prefix (split_dot (fst nv)), u) /\
      eof nv = ((name_prefix (split_dot (fst nv)), Some nv), u) /\
      EntOk (eof nv) /\ forall p, econ p (eof nv) = contrib p (tof nv).
  Proof.
    intros ((w & Hw) & Hok & Hf & Hn).
    destruct (convert_spec w _ Hok Hf) as (u & Hc & Hnn & Ht & Hp & Hv).
    exists w, u. unfold eof. rewrite Hw, Hc. splits; auto.
    - unfold EntOk, ekey. simpl. splits; eauto.
    - intro p. unfold econ, ekey, tof. simpl. rewrite Hw. unfold parse_path.
      rewrite (psegs_split (split_dot (fst nv))).
      apply sview_nest_contrib. intro q. rewrite (sview_tidy q u Ht). apply Hv.
  Qed.

  (** env.Provider.Read *)
  Lemma env_mp_spec : forall ne acc,
    NoDup ne -> Forall good ne ->
    (forall nv kv, In nv ne -> In kv acc -> snd (fst kv) <> Some nv) ->
    env_mp to_real false ne acc = Ok (acc ++ map eof ne).
  Proof.
    induction ne as [|[nk val] r IH]; intros acc ND HG HF; simpl.
    - rewrite app_nil_r. reflexivity.
    - apply NoDup_cons_iff in ND as [N1 N2]. apply Forall_cons_iff in HG as [G0 GR].
      destruct (eof_spec (nk, val) G0) as (w & u & Hw & Ec & He & _ & _).
      simpl in Ec, He |- *. rewrite Ec.
      destruct G0 as (_ & _ & _ & Hn). simpl in Hn.
      assert (Eu : unsplit (name_prefix (split_dot nk)) = name_prefix (split_dot nk)).
      { destruct (name_prefix (split_dot nk)); [congruence | reflexivity]. }
      rewrite Eu.
      assert (Nin : ~ In (name_prefix (split_dot nk), Some (nk, val)) (map fst acc)).
      { intro H. apply in_map_iff in H as (kv & E & Hin).
        apply (HF (nk, val) kv (or_introl eq_refl) Hin). rewrite E. reflexivity. }
      rewrite set_new by assumption.
      rewrite IH; auto.
      + rewrite <- app_assoc. simpl. rewrite He. reflexivity.
      + intros nv kv Hnv Hkv. apply in_app_or in Hkv as [Hkv | [Hkv|[]]].
        * apply (HF nv kv); [right|]; assumption.
        * subst kv. simpl. intro E. inv E. contradiction.
  Qed.

  Lemma eof_keys_NoDup ne : NoDup ne -> Forall good ne -> NoDup (map fst (map eof ne)).
  Proof.
    intros ND HG. induction ne as [|nv r IH]; simpl; [constructor|].
    apply NoDup_cons_iff in ND as [N1 N2]. apply Forall_cons_iff in HG as [G0 GR].
    constructor; [|auto].
    intro H. apply in_map_iff in H as (e & E & Hin). apply in_map_iff in Hin as (nv' & <- & Hin).
    assert (G' : good nv') by (rewrite Forall_forall in GR; auto).
    destruct (eof_spec nv G0) as (_ & u & _ & _ & He & _).
    destruct (eof_spec nv' G') as (_ & u' & _ & _ & He' & _).
    rewrite He, He' in E. simpl in E. inv E. contradiction.
  Qed.

  (** the three spec-level conditions give the coherence of the entries *)
  Lemma entries_coherent ne :
    NoDup (map fst (map tof ne)) -> Forall good ne ->
    PW (fun a b => forall p, kcompat (contrib p a) (contrib p b) = true) (map tof ne) ->
    guard_F3 ne = false ->
    PW ecoh (map eof ne).
  Proof.
    intros ND HG HK HF3.
    assert (NDne : NoDup ne).
    { rewrite map_map in ND. apply NoDup_map_inv in ND. assumption. }
    apply PW_map.
    unfold guard_F3 in HF3. apply negb_false_iff in HF3. apply pairwise_PW in HF3.
    apply PW_map_inv in HK.
    assert (HN : PW (fun a b : string * string => fst (tof a) <> fst (tof b)) ne).
    { apply PW_map_inv with (f := fun nv => fst (tof nv)) (R := fun a b => a <> b).
      rewrite <- map_map. apply PW_NoDup_neq. assumption. }
    assert (HD := PW_NoDup_neq ne NDne).
    assert (HG' : PW (fun a b => good a /\ good b) ne).
    { clear -HG. induction ne as [|x r IH]; [constructor|].
      apply Forall_cons_iff in HG as [G0 GR]. constructor; [|auto].
      rewrite Forall_forall in *. intros y Hy. auto. }
    assert (All := PW_and _ _ _ (PW_and _ _ _ (PW_and _ _ _ (PW_and _ _ _ HK HF3) HN) HD) HG').
    eapply PW_impl; [|exact All]. clear.
    intros a b ((((HK & HF3) & HN) & HD) & (Ga & Gb)). cbv beta in *.
    destruct (eof_spec a Ga) as (wa & ua & _ & _ & _ & _ & Ea).
    destruct (eof_spec b Gb) as (wb & ub & _ & _ & _ & _ & Eb).
    split.
    - intro p. rewrite Ea, Eb. split; [apply HK|].
      destruct (contrib p (tof a)) eqn:Ca; simpl; try reflexivity.
      destruct (contrib p (tof b)) eqn:Cb; simpl; try reflexivity.
      apply contrib_leaf_path in Ca. apply contrib_leaf_path in Cb. exfalso. apply HN. congruence.
    - apply negb_true_iff in HF3. intros k Hk. rewrite Ea, Eb.
      destruct (contrib (map SK k) (tof a)) eqn:Ca; simpl; try reflexivity.
      destruct (contrib (map SK k) (tof b)) eqn:Cb; simpl; try reflexivity.
      exfalso.
      apply contrib_lst_path in Ca as (ia & ra & Pa). apply contrib_lst_path in Cb as (ib & rb & Pb).
      unfold tof, parse_path in Pa, Pb. simpl in Pa, Pb.
      apply psegs_prefix_index in Pa as [Na Ia]. apply psegs_prefix_index in Pb as [Nb Ib].
      unfold f3_pair in HF3. rewrite Na, Nb in HF3.
      rewrite is_prefix_refl in HF3.
      assert (Hl : (2 <=? length k) = true) by (apply Nat.leb_le; assumption).
      rewrite Hl in HF3. simpl in HF3.
      apply negb_false_iff in HF3.
      apply andb_true_iff in HF3 as [E1 E2]. apply String.eqb_eq in E1, E2.
      apply HD. destruct a, b. simpl in *. congruence.
  Qed.

  Lemma guard_F4_good ne tenv d :
    typed_env to_real ne = Some tenv -> guard_F4 ne = false ->
    Forall (fun e => kcompat (view [] (Map d)) (contrib [] e) = true) tenv ->
    Forall good ne.
  Proof.
    intros HT HF4 HR. destruct (typed_env_map _ _ HT) as [-> HB].
    unfold guard_F4 in HF4.
    apply Forall_forall. intros nv Hin.
    rewrite Forall_forall in HB, HR. destruct (HB nv Hin) as [Hw Hok].
    unfold good. splits; auto.
    - destruct (flat_after_index (split_dot (fst nv))) eqn:E; [|reflexivity].
      assert (X : existsb (fun a => flat_after_index (split_dot (fst a))) ne = true) by (apply existsb_exists; eauto).
      congruence.
    - specialize (HR (tof nv) (in_map tof ne nv Hin)). simpl in HR.
      unfold tof, parse_path in HR. rewrite (psegs_split (split_dot (fst nv))) in HR.
      intro E. rewrite E in HR. simpl in HR.
      destruct (rel_head (split_dot (fst nv))) as [Er | (p & r & Er & Hp)].
      + (* no segment at all: impossible, Split never returns an empty list *)
        assert (Es := parts_split (split_dot (fst nv))). rewrite E, Er in Es. simpl in Es.
        exact (split_dot_nonnil _ Es).
      + rewrite Er in HR. simpl in HR. unfold seg_of in HR. rewrite Hp in HR. simpl in HR. discriminate.
  Qed.

  Lemma env_view_jfold tenv p :
    PW nc (map (contrib p) tenv) -> env_view tenv p = jfold NNone (map (contrib p) tenv).
  Proof.
    intro HP. unfold env_view. rewrite <- (rev_involutive tenv) at 1. rewrite fold_left_rev_right.
    rewrite fold_left_map_njoin. symmetry. apply jfold_perm.
    - apply Permutation_map. apply Permutation_rev.
    - constructor; [apply Forall_forall; intros; apply nc_none_l | assumption].
  Qed.

  Section Loader.
    Variable pfx : string.
    Variables (d f : list (key * cfg)) (env : list (string * string)) (tenv : list (path * string)).
    Let ne := norm_env pfx env.
    Hypothesis Htyped : typed_env to_real ne = Some tenv.
    Hypothesis Hscope : in_scope d f tenv.
    Hypothesis HF3 : guard_F3 ne = false.
    Hypothesis HF4 : guard_F4 ne = false.

    Lemma scope_nc p : PW nc (map (contrib p) tenv).
    Proof.
      destruct Hscope as (_ & _ & ND & _ & _ & HP).
      assert (X : PW (fun a b : path * string => fst a <> fst b) tenv).
      { apply PW_map_inv with (f := fst) (R := fun a b => a <> b). apply PW_NoDup_neq. assumption. }
      apply PW_map. eapply PW_impl; [|exact (PW_and _ _ _ HP X)].
      intros a b [H1 H2]. simpl in *. split; [apply H1|].
      destruct (contrib p a) eqn:Ca; simpl; try reflexivity.
      destruct (contrib p b) eqn:Cb; simpl; try reflexivity.
      apply contrib_leaf_path in Ca. apply contrib_leaf_path in Cb. congruence.
    Qed.

    Lemma good_head_SK nv : good nv -> exists s r, fst (tof nv) = SK s :: r.
    Proof.
      intros (_ & _ & _ & Hn). unfold tof, parse_path. simpl.
      rewrite (psegs_split (split_dot (fst nv))).
      destruct (name_prefix (split_dot (fst nv))) as [|s k]; [congruence|]. simpl. eauto.
    Qed.

    (** the main theorem: on the property's domain and outside the shapes of the
        recorded findings, the loader produces a well-formed tree that shows the
        specified node at every path *)
    Theorem load_meets_spec :
      exists t, load sh to_real false false pfx d (Some f) env = Ok t /\ Tidy (Map t) /\
                forall p, view p (Map t) = spec_view d f tenv p.
    Proof.
      destruct Hscope as (Td & Tf & ND & Cdf & Cenv & HP).
      destruct (merge_top_view sh sh_perm d f Td Tf Cdf) as (p1 & Hp1 & Tp1 & Vp1).
      assert (HG : Forall good ne).
      { apply (guard_F4_good ne tenv d Htyped HF4).
        eapply Forall_impl; [|exact Cenv]. intros e H. apply (H []). }
      destruct (typed_env_map _ _ Htyped) as [Et _].
      assert (NDne : NoDup ne).
      { rewrite Et, map_map in ND. apply NoDup_map_inv in ND. assumption. }
      assert (Hmp : env_mp to_real false ne [] = Ok (map eof ne)).
      { apply (env_mp_spec ne [] NDne HG). intros nv kv _ []. }
      set (E := map eof ne).
      assert (HE : Forall EntOk E).
      { unfold E. apply Forall_map. eapply Forall_impl; [|exact HG].
        intros nv G. destruct (eof_spec nv G) as (_ & _ & _ & _ & _ & H & _). exact H. }
      assert (NDE : NoDup (map fst E)) by (apply eof_keys_NoDup; assumption).
      assert (HC : PW ecoh E).
      { apply entries_coherent; auto; rewrite <- Et; assumption. }
      destruct (env_tree_entries sh sh_perm E HE NDE HC) as (e & He & Te & Ve).
      assert (Henv : env_tree sh to_real false false pfx env = Ok e).
      { unfold env_tree. fold ne. rewrite Hmp. exact He. }
      assert (Econ : forall p, map (econ p) E = map (contrib p) tenv).
      { intro p. unfold E. rewrite Et, !map_map. apply map_ext_in. intros nv Hin.
        rewrite Forall_forall in HG. destruct (eof_spec nv (HG nv Hin)) as (_ & _ & _ & _ & _ & _ & H). apply H. }
      assert (Vsk : forall s q, view (SK s :: q) (Map e) = env_view tenv (SK s :: q)).
      { intros s q. rewrite Ve, Econ. symmetry. apply env_view_jfold. apply scope_nc. }
      assert (Vsi : forall i q, env_view tenv (SI i :: q) = NNone).
      { intros i q. rewrite env_view_jfold by apply scope_nc. apply jfold_none_elems.
        rewrite Et. apply Forall_map. apply Forall_map. eapply Forall_impl; [|exact HG].
        intros nv G. destruct (good_head_SK nv G) as (s & r & Hs).
        unfold contrib. rewrite Hs. reflexivity. }
      assert (Vroot : env_view tenv [] = NNone \/ env_view tenv [] = NMap).
      { rewrite env_view_jfold by apply scope_nc. apply jfold_kinds; [left; reflexivity|].
        rewrite Et. apply Forall_map. apply Forall_map. eapply Forall_impl; [|exact HG].
        intros nv G. destruct (good_head_SK nv G) as (s & r & Hs).
        right. unfold contrib. rewrite Hs. reflexivity. }
      assert (Cpe : compat (Map p1) (Map e)).
      { intros [|[s|i] q]; try reflexivity.
        - rewrite Vp1, Ve, Econ. apply kcompat_jfold.
          + apply kcompat_none_r.
          + apply Forall_map. eapply Forall_impl; [|exact Cenv]. intros c H.
            destruct (H (SK s :: q)) as [H1 H2]. apply kcompat_njoin_l; auto.
          + constructor; [apply Forall_forall; intros; apply nc_none_l | apply scope_nc]. }
      destruct (merge_top_view sh sh_perm p1 e Tp1 Te Cpe) as (t & Ht & Tt & Vt).
      exists t. splits; auto.
      - unfold load. rewrite Hp1, Henv. exact Ht.
      - intro p. rewrite Vt, Vp1. unfold spec_view. destruct p as [|[s|i] q].
        + simpl. destruct Vroot as [-> | ->]; reflexivity.
        + rewrite Vsk. reflexivity.
        + rewrite Vsi. reflexivity.
    Qed.
  End Loader.
End WithOrder.
