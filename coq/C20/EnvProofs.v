(** C20 — koanfFromEnv on a coherent environment: Unflatten, then the merge
    function that strips the "#hash" suffixes and merges same-named values.
    The resulting tree is well formed and shows, at every path, the join of the
    variables' contributions, whatever the iteration orders were. *)
From HV Require Import Base.Prelude C20.Model C20.Spec C20.Facts C20.MergeProofs C20.ConvertProofs
  C20.NodeAlg C20.TrieProofs C20.UnflattenProofs.
From Coq Require Import Permutation.

Lemma PW_impl {A} (R R' : A -> A -> Prop) l : (forall x y, R x y -> R' x y) -> PW R l -> PW R' l.
Proof.
  intros H. induction 1; constructor; auto. eapply Forall_impl; [|eassumption]. auto.
Qed.

Lemma NoDup_app_l {A} (l1 l2 : list A) : NoDup (l1 ++ l2) -> NoDup l1.
Proof.
  induction l1 as [|x r IH]; simpl; intro H; [constructor|].
  apply NoDup_cons_iff in H as [H1 H2]. constructor; [|auto].
  intro Hin. apply H1. apply in_or_app. left. assumption.
Qed.

(** maps.Unflatten over all entries *)
Lemma unflatten_inv : forall L U P,
  UInv U P -> Forall EntOk (P ++ L) -> NoDup (map fst (P ++ L)) -> PW ecoh (P ++ L) ->
  UInv (fold_left ins_kv L U) (P ++ L).
Proof.
  induction L as [|e L' IH]; intros U P HI HE ND HC.
  - rewrite app_nil_r. assumption.
  - assert (Eq : P ++ e :: L' = (P ++ [e]) ++ L') by (rewrite <- app_assoc; reflexivity).
    rewrite Eq in *. simpl fold_left. apply IH; auto.
    assert (HE1 : Forall EntOk (P ++ [e])) by (apply Forall_app in HE; tauto).
    assert (ND1 : NoDup (map fst (P ++ [e]))) by (rewrite map_app in ND; apply NoDup_app_l in ND; assumption).
    assert (HC1 : PW ecoh (P ++ [e])) by (apply PW_app_l in HC; assumption).
    assert (Ee : EntOk e).
    { apply Forall_app in HE1 as [_ H]. apply Forall_cons_iff in H. tauto. }
    destruct e as [[k t] v]. destruct Ee as (Nk & (tg & Ht) & _). unfold ekey in Nk. simpl in Nk, Ht. subst t.
    destruct k as [|s0 [|s2 rest]]; [congruence | |].
    + apply step_flat; assumption.
    + apply step_deep; [discriminate | assumption ..].
Qed.

Section WithOrder.
  Variable sh : nat -> list (key * cfg) -> list (key * cfg).
  Hypothesis sh_perm : forall site l, Permutation (sh site l) l.

  Definition tev (q : path) (kv : key * cfg) : node := sview q (snd kv).

  Lemma view_set_K s s0 q nv acc :
    view (SK s :: q) (Map (set (K s0) nv acc)) =
    if String.eqb s s0 then view q nv else view (SK s :: q) (Map acc).
  Proof. simpl. rewrite lookup_set, key_eqb_K. destruct (String.eqb s s0); reflexivity. Qed.

  (** the merge function of koanfFromEnv, entry by entry *)
  Lemma env_merge_fold : forall L acc,
    Forall (TrieE SubT) L ->
    (forall s sub, In (K s, Map sub) L -> grp s L = [(K s, Map sub)] /\ lookup (K s) acc = None) ->
    Tidy (Map acc) ->
    (forall s q, PW nc (view (SK s :: q) (Map acc) :: map (tev q) (grp s L))) ->
    exists r, fold_left (top_step sh false true) L (Ok acc) = Ok r /\ Tidy (Map r) /\
              forall s q, view (SK s :: q) (Map r)
                          = jfold (view (SK s :: q) (Map acc)) (map (tev q) (grp s L)).
  Proof.
    induction L as [|[k v] L' IH]; intros acc FE HU Ta HP.
    - exists acc. simpl. splits; auto.
    - apply Forall_cons_iff in FE as [E0 FE'].
      destruct E0 as (s0 & Hk & Hcase). simpl in Hk, Hcase.
      assert (Sk : strip k = K s0) by (unfold strip, K; rewrite Hk; reflexivity).
      assert (G0 : grp s0 ((k, v) :: L') = (k, v) :: grp s0 L').
      { rewrite grp_cons, Hk. rewrite (proj2 (segs_eqb_eq _ _) eq_refl). reflexivity. }
      assert (Gs : forall s, s <> s0 -> grp s ((k, v) :: L') = grp s L').
      { intros s N. rewrite grp_cons, Hk, segs_eqb_single.
        destruct (String.eqb s0 s) eqn:E; [apply String.eqb_eq in E; congruence | reflexivity]. }
      assert (X : exists nv, merge sh false (get (K s0) acc) v = Ok nv /\ nv <> Nil /\ Tidy nv /\
                             forall q, view q nv = njoin (view q (get (K s0) acc)) (sview q v)).
      { destruct Hcase as [(tg & Ht & Pv & Tv) | (Ht & Sv & Nv)].
        - (* a converted value under a suffixed key *)
          unfold get. destruct (lookup (K s0) acc) as [old|] eqn:E.
          + destruct (Tidy_lookup _ _ _ Ta E) as [No To].
            destruct (merge_with_view sh sh_perm (fun s => Ok (clean_asis sh s)) old v No (Plain_not_nil _ Pv) To Tv)
              as (nv & Hm & Nn & Tn & Hv).
            { intro q. specialize (HP s0 q). rewrite G0 in HP. simpl map in HP.
              apply PW_cons_iff in HP as [HP _]. apply Forall_cons_iff in HP as [[HP _] _].
              unfold tev in HP. simpl in HP. rewrite E in HP. rewrite (sview_tidy q v Tv) in HP. exact HP. }
            exists nv. splits; auto. intro q. rewrite Hv, (sview_tidy q v Tv). reflexivity.
          + exists v. unfold merge. simpl. rewrite (clean_plain sh v Pv).
            splits; auto using Plain_not_nil. intro q. rewrite view_Nil, njoin_none_l. symmetry. apply sview_tidy. assumption.
        - (* an inner node: nothing of that name has arrived, nothing else will *)
          destruct (SubT_is_map _ Sv) as [sub ->].
          assert (Ek : k = K s0) by (destruct k; simpl in *; subst; reflexivity). subst k.
          destruct (HU s0 sub (or_introl eq_refl)) as [_ Lk].
          unfold get. rewrite Lk. unfold merge. simpl merge_with.
          destruct (clean_sub sh sh_perm (Map sub) Sv) as [Tc Vc].
          exists (clean_asis sh (Map sub)). splits; auto.
          + rewrite clean_asis_map. discriminate.
          + intro q. rewrite view_Nil, njoin_none_l. apply Vc. }
      destruct X as (nv & Hm & Nn & Tn & Hv).
      destruct (IH (set (K s0) nv acc) FE') as (r & Hr & Tr & Hvr).
      + intros s sub Hin.
        destruct (HU s sub (or_intror Hin)) as [Hg Hl].
        assert (Ns : s <> s0).
        { intro; subst s. rewrite G0 in Hg.
          assert (Hnil : grp s0 L' = []) by congruence.
          assert (H : In (K s0, Map sub) (grp s0 L')) by (apply grp_In; split; [assumption | reflexivity]).
          rewrite Hnil in H. contradiction. }
        rewrite <- (Gs s Ns). split; [assumption|].
        rewrite lookup_set, key_eqb_K.
        destruct (String.eqb s s0) eqn:E; [apply String.eqb_eq in E; congruence | assumption].
      + apply Tidy_set; assumption.
      + intros s q. rewrite view_set_K. destruct (String.eqb s s0) eqn:E.
        * apply String.eqb_eq in E; subst s. specialize (HP s0 q). rewrite G0 in HP. simpl map in HP.
          apply PW_njoin_head in HP. rewrite Hv.
          unfold get. unfold tev at 1 in HP. simpl in HP.
          destruct (lookup (K s0) acc); [exact HP | rewrite view_Nil; exact HP].
        * assert (Ns : s <> s0) by (intro; subst; rewrite String.eqb_refl in E; discriminate).
          specialize (HP s q). rewrite (Gs s Ns) in HP. exact HP.
      + exists r. splits; auto.
        * simpl. rewrite Sk. unfold get in Hm |- *. rewrite Hm. exact Hr.
        * intros s q. rewrite Hvr, view_set_K. destruct (String.eqb s s0) eqn:E.
          -- apply String.eqb_eq in E; subst s. rewrite G0. simpl. unfold tev at 2. simpl.
             rewrite Hv. unfold get. destruct (lookup (K s0) acc); [reflexivity | rewrite view_Nil; reflexivity].
          -- assert (Ns : s <> s0) by (intro; subst; rewrite String.eqb_refl in E; discriminate).
             rewrite (Gs s Ns). reflexivity.
  Qed.

  Lemma grp_perm s m m' : Permutation m m' -> Permutation (grp s m) (grp s m').
  Proof.
    unfold grp. induction 1; simpl.
    - constructor.
    - destruct (segs_eqb (segk x) [s]); [constructor|]; assumption.
    - destruct (segs_eqb (segk x) [s]), (segs_eqb (segk y) [s]); try apply Permutation_refl.
      apply perm_swap.
    - eapply Permutation_trans; eassumption.
  Qed.

  Lemma PW_ecoh_nc p E : PW ecoh E -> PW nc (map (econ p) E).
  Proof.
    intro H. apply PW_map. eapply PW_impl; [|exact H]. intros x y [C _]. apply C.
  Qed.

  (** koanfFromEnv from the provider's flat map [E] on *)
  Theorem env_tree_entries E :
    Forall EntOk E -> NoDup (map fst E) -> PW ecoh E ->
    exists r, merge_top sh false true [] (unflatten sh E) = Ok r /\ Tidy (Map r) /\
              forall s q, view (SK s :: q) (Map r) = jfold NNone (map (econ (SK s :: q)) E).
  Proof.
    intros HE ND HC.
    set (P := sh 0 E).
    assert (PP : Permutation P E) by apply sh_perm.
    assert (HEP : Forall EntOk P) by (eapply Permutation_Forall; [apply Permutation_sym; exact PP | exact HE]).
    assert (NDP : NoDup (map fst P)) by (eapply perm_NoDup_keys; [apply Permutation_sym; exact PP | exact ND]).
    assert (HCP : PW ecoh P) by (eapply PW_perm; [exact ecoh_sym | apply Permutation_sym; exact PP | exact HC]).
    assert (UI : UInv (unflatten sh E) P).
    { unfold unflatten. fold P. apply (unflatten_inv P [] [] UInv_nil); simpl; assumption. }
    set (U := unflatten sh E) in *.
    destruct UI as [NDU FEU HD HF].
    rewrite merge_top_unfold.
    set (L := sh 1 U).
    assert (PL : Permutation L U) by apply sh_perm.
    assert (Gsingle : forall s sub, In (K s, Map sub) U -> grp s U = [(K s, Map sub)]).
    { intros s sub Hin.
      assert (Hg : In (K s, Map sub) (grp s U)) by (apply grp_In; split; [assumption | reflexivity]).
      destruct (existsb (deepb s) P) eqn:Ex.
      - destruct (HD s Ex) as (sub' & Hg' & _). rewrite Hg' in Hg |- *.
        destruct Hg as [Hg|[]]. rewrite Hg. reflexivity.
      - rewrite (HF s Ex) in Hg. apply filter_In in Hg as [Hg _].
        rewrite Forall_forall in HEP. destruct (HEP _ Hg) as (_ & (tg & Ht) & _). simpl in Ht. discriminate. }
    destruct (env_merge_fold L []) as (r & Hr & Tr & Hv).
    - eapply Permutation_Forall; [apply Permutation_sym; exact PL | exact FEU].
    - intros s sub Hin. split; [|reflexivity].
      assert (HinU : In (K s, Map sub) U) by (eapply Permutation_in; eauto).
      assert (Pg := grp_perm s L U PL). rewrite (Gsingle s sub HinU) in Pg.
      apply Permutation_sym in Pg. apply Permutation_length_1_inv in Pg. assumption.
    - apply Tidy_Map_intro; constructor.
    - intros s q. constructor; [apply Forall_forall; intros; apply nc_none_l|].
      eapply PW_perm; [exact nc_sym | apply Permutation_sym; apply Permutation_map; apply (grp_perm s L U PL)|].
      destruct (existsb (deepb s) P) eqn:Ex.
      + destruct (HD s Ex) as (sub' & Hg' & _). rewrite Hg'. simpl. constructor; constructor.
      + rewrite (HF s Ex).
        assert (Em : map (tev q) (filter (flatb s) P) = map (econ (SK s :: q)) (filter (flatb s) P)).
        { apply map_ext_in. intros e He. apply filter_In in He as [_ He]. unfold tev. symmetry. apply econ_flat. assumption. }
        rewrite Em. apply PW_ecoh_nc. apply PW_filter. assumption.
    - exists r. splits; auto. intros s q. rewrite Hv. simpl view.
      assert (PWq : PW nc (NNone :: map (econ (SK s :: q)) P)).
      { constructor; [apply Forall_forall; intros; apply nc_none_l | apply PW_ecoh_nc; assumption]. }
      transitivity (jfold NNone (map (tev q) (grp s U))).
      { apply jfold_perm; [apply Permutation_map; apply grp_perm; assumption|].
        constructor; [apply Forall_forall; intros; apply nc_none_l|].
        eapply PW_perm; [exact nc_sym | apply Permutation_sym; apply Permutation_map; apply (grp_perm s L U PL)|].
        destruct (existsb (deepb s) P) eqn:Ex.
        - destruct (HD s Ex) as (sub' & Hg' & _). rewrite Hg'. simpl. constructor; constructor.
        - rewrite (HF s Ex).
          assert (Em : map (tev q) (filter (flatb s) P) = map (econ (SK s :: q)) (filter (flatb s) P)).
          { apply map_ext_in. intros e He. apply filter_In in He as [_ He]. unfold tev. symmetry. apply econ_flat. assumption. }
          rewrite Em. apply PW_ecoh_nc. apply PW_filter. assumption. }
      transitivity (jfold NNone (map (econ (SK s :: q)) P)).
      { destruct (existsb (deepb s) P) eqn:Ex.
        - destruct (HD s Ex) as (sub' & Hg' & Hv'). rewrite Hg'.
          change (jfold NNone (map (tev q) [(K s, Map sub')])) with (njoin NNone (sview q (Map sub'))).
          rewrite njoin_none_l. apply Hv'.
        - rewrite (HF s Ex).
          assert (Em : map (tev q) (filter (flatb s) P) = map (econ (SK s :: q)) (filter (flatb s) P)).
          { apply map_ext_in. intros e He. apply filter_In in He as [_ He]. unfold tev. symmetry. apply econ_flat. assumption. }
          rewrite Em. symmetry. apply jfold_filter.
          intros e He Hf. destruct (named s e) eqn:Nm.
          + destruct (named_cases _ _ Nm) as [F|D]; [congruence|].
            assert (X : existsb (deepb s) P = true) by (apply existsb_exists; eauto). congruence.
          + apply econ_other; [assumption|]. rewrite Forall_forall in HEP. destruct (HEP _ He). assumption. }
      apply jfold_perm; [apply Permutation_map; assumption | assumption].
  Qed.
End WithOrder.
