(** C20 — the property's sentences as corollaries of [load_meets_spec], and the
    witnesses of the recorded findings. *)
From HV Require Import Base.Prelude C20.Model C20.Spec C20.Facts C20.MergeProofs C20.ConvertProofs
  C20.NodeAlg C20.TrieProofs C20.UnflattenProofs C20.EnvProofs C20.LoadProofs C20.LoadFixedProofs.
From Coq Require Import Permutation.

Definition perm_fun (sh : nat -> list (key * cfg) -> list (key * cfg)) : Prop :=
  forall site l, Permutation (sh site l) l.

(** the property's domain for one load, outside the shapes of the open findings.
    [fix3] = the repair of C20-F3 is in the code (true for /repo since 0f39207):
    then nothing is required about variables addressing the same nested list *)
Definition domain (fix3 : bool) (to_real : string -> cfg) (pfx : string) (d f : list (key * cfg))
           (env : list (string * string)) (tenv : list (path * string)) : Prop :=
  typed_env to_real (norm_env pfx env) = Some tenv /\ in_scope d f tenv /\
  (fix3 = true \/ guard_F3 (norm_env pfx env) = false) /\ guard_F4 (norm_env pfx env) = false.

(* ------------------------------------------------------------------ permutations of the environment *)

Lemma norm_env_perm pfx env env' : Permutation env env' -> Permutation (norm_env pfx env) (norm_env pfx env').
Proof.
  intro P. unfold norm_env. apply Permutation_map.
  induction P; simpl.
  - constructor.
  - destruct (prefix pfx (fst x)); [constructor|]; assumption.
  - destruct (prefix pfx (fst x)), (prefix pfx (fst y)); try apply Permutation_refl. apply perm_swap.
  - eapply Permutation_trans; eassumption.
Qed.

Lemma typed_env_intro to_real ne :
  Forall (fun nv => (exists w, to_real (snd nv) = Leaf w) /\ Forall seg_ok (split_dot (fst nv))) ne ->
  typed_env to_real ne = Some (map (tof to_real) ne).
Proof.
  induction ne as [|[nk val] r IH]; intro H; simpl; [reflexivity|].
  apply Forall_cons_iff in H as [[[w Hw] Hok] HR]. simpl in Hw, Hok.
  rewrite Hw. simpl. rewrite (IH HR).
  rewrite (proj2 (parts_ok_iff _) Hok). unfold tof at 2. simpl. rewrite Hw. reflexivity.
Qed.

Lemma typed_env_perm to_real ne ne' tenv :
  typed_env to_real ne = Some tenv -> Permutation ne ne' ->
  exists tenv', typed_env to_real ne' = Some tenv' /\ Permutation tenv tenv'.
Proof.
  intros H P. destruct (typed_env_map to_real _ _ H) as [-> HF].
  exists (map (tof to_real) ne'). split.
  - apply typed_env_intro. eapply Permutation_Forall; eassumption.
  - apply Permutation_map. assumption.
Qed.

Lemma kc_rel_sym (a b : path * string) :
  (forall p, kcompat (contrib p a) (contrib p b) = true) -> forall p, kcompat (contrib p b) (contrib p a) = true.
Proof. intros H p. rewrite kcompat_sym. apply H. Qed.

Lemma in_scope_perm d f tenv tenv' : Permutation tenv tenv' -> in_scope d f tenv -> in_scope d f tenv'.
Proof.
  intros P (Td & Tf & ND & C1 & C2 & C3). unfold in_scope. splits; auto.
  - eapply Permutation_NoDup; [apply Permutation_map; exact P | exact ND].
  - eapply Permutation_Forall; eassumption.
  - eapply PW_perm; [exact kc_rel_sym | exact P | exact C3].
Qed.

Lemma PW_pairwise {A} (f : A -> A -> bool) l : PW (fun a b => f a b = true) l -> pairwise f l = true.
Proof.
  induction 1; simpl; [reflexivity|]. apply andb_true_iff. split; [|assumption].
  apply forallb_forall. rewrite Forall_forall in H. assumption.
Qed.

Lemma f3_pair_sym a b : f3_pair a b = f3_pair b a.
Proof.
  unfold f3_pair. f_equal.
  rewrite (String.eqb_sym (fst a) (fst b)), (String.eqb_sym (snd a) (snd b)).
  rewrite (orb_comm (is_prefix (name_prefix (split_dot (fst a))) (name_prefix (split_dot (fst b))) && _)).
  reflexivity.
Qed.

Lemma guard_F3_perm ne ne' : Permutation ne ne' -> guard_F3 ne = false -> guard_F3 ne' = false.
Proof.
  intros P H. unfold guard_F3 in *.
  apply negb_false_iff in H. apply negb_false_iff. apply pairwise_PW in H. apply PW_pairwise.
  eapply PW_perm; [|exact P|exact H]. intros x y E. rewrite f3_pair_sym. assumption.
Qed.

Lemma guard_F4_perm ne ne' : Permutation ne ne' -> guard_F4 ne = false -> guard_F4 ne' = false.
Proof.
  intros P H. unfold guard_F4 in *.
  destruct (existsb (fun a => flat_after_index (split_dot (fst a))) ne') eqn:E; [|reflexivity].
  apply existsb_exists in E as (x & Hin & Hx).
  assert (X : existsb (fun a => flat_after_index (split_dot (fst a))) ne = true).
  { apply existsb_exists. exists x. split; [|assumption]. eapply Permutation_in; [apply Permutation_sym; exact P | exact Hin]. }
  congruence.
Qed.

Lemma domain_perm fix3 to_real pfx d f env env' tenv :
  Permutation env env' -> domain fix3 to_real pfx d f env tenv ->
  exists tenv', Permutation tenv tenv' /\ domain fix3 to_real pfx d f env' tenv'.
Proof.
  intros P (H1 & H2 & H3 & H4).
  assert (Pn := norm_env_perm pfx env env' P).
  destruct (typed_env_perm to_real _ _ _ H1 Pn) as (tenv' & Ht & Pt).
  exists tenv'. split; [assumption|]. unfold domain. splits; auto.
  - eapply in_scope_perm; eassumption.
  - destruct H3 as [H3|H3]; [left; assumption | right; eapply guard_F3_perm; eassumption].
  - eapply guard_F4_perm; eassumption.
Qed.

Lemma in_scope_nc d f tenv p : in_scope d f tenv -> PW nc (map (contrib p) tenv).
Proof.
  intros (_ & _ & ND & _ & _ & HP).
  assert (X : PW (fun a b : path * string => fst a <> fst b) tenv).
  { apply PW_map_inv with (f := fst) (R := fun a b => a <> b). apply PW_NoDup_neq. assumption. }
  apply PW_map. eapply PW_impl; [|exact (PW_and _ _ _ HP X)].
  intros a b [H1 H2]. simpl in *. split; [apply H1|].
  destruct (contrib p a) eqn:Ca; simpl; try reflexivity.
  destruct (contrib p b) eqn:Cb; simpl; try reflexivity.
  apply contrib_leaf_path in Ca. apply contrib_leaf_path in Cb. congruence.
Qed.

Lemma env_view_perm d f tenv tenv' p :
  in_scope d f tenv -> Permutation tenv tenv' -> env_view tenv p = env_view tenv' p.
Proof.
  intros S P.
  assert (N := in_scope_nc d f tenv p S).
  assert (N' := in_scope_nc d f tenv' p (in_scope_perm _ _ _ _ P S)).
  rewrite !env_view_jfold by assumption. apply jfold_perm.
  - apply Permutation_map. assumption.
  - constructor; [apply Forall_forall; intros; apply nc_none_l | assumption].
Qed.

(* ------------------------------------------------------------------ the property's sentences *)

Theorem load_meets_spec_domain :
  forall sh fix3 to_real pfx d f env tenv,
    perm_fun sh -> domain fix3 to_real pfx d f env tenv ->
    exists t, load sh to_real fix3 false pfx d (Some f) env = Ok t /\ Tidy (Map t) /\
              forall p, view p (Map t) = spec_view d f tenv p.
Proof.
  intros sh fix3 to_real pfx d f env tenv Hs (H1 & H2 & H3 & H4). destruct fix3.
  - apply load_meets_spec_fixed; assumption.
  - destruct H3 as [H3|H3]; [discriminate|]. apply load_meets_spec; assumption.
Qed.

(** "the result does not depend on the order in which environment variables are
    enumerated" — nor on the iteration order of any Go map on the way *)
Theorem env_order_independent :
  forall sh sh' fix3 to_real pfx d f env env' tenv,
    perm_fun sh -> perm_fun sh' -> Permutation env env' ->
    domain fix3 to_real pfx d f env tenv ->
    exists t t', load sh to_real fix3 false pfx d (Some f) env = Ok t /\
                 load sh' to_real fix3 false pfx d (Some f) env' = Ok t' /\
                 Tidy (Map t) /\ Tidy (Map t') /\
                 forall p, view p (Map t) = view p (Map t').
Proof.
  intros sh sh' fix3 to_real pfx d f env env' tenv Hs Hs' P D.
  destruct (domain_perm _ _ _ _ _ _ _ _ P D) as (tenv' & Pt & D').
  destruct (load_meets_spec_domain sh fix3 to_real pfx d f env tenv Hs D) as (t & Ht & Tt & Vt).
  destruct (load_meets_spec_domain sh' fix3 to_real pfx d f env' tenv' Hs' D') as (t' & Ht' & Tt' & Vt').
  destruct D as (H1 & H2 & H3 & H4).
  exists t, t'. splits; auto.
  intro p. rewrite Vt, Vt'. unfold spec_view. f_equal. eapply env_view_perm; eassumption.
Qed.

Lemma strip_prefix_refl p : strip_prefix p p = Some [].
Proof.
  induction p as [|a p IH]; simpl; [reflexivity|].
  assert (E : seg_eqb a a = true) by (destruct a; simpl; [apply String.eqb_refl | apply Nat.eqb_refl]).
  rewrite E. assumption.
Qed.

Lemma jfold_leaf_stays w : forall L, Forall (nc (NLeaf w)) L -> jfold (NLeaf w) L = NLeaf w.
Proof.
  induction L as [|a r IH]; intro H; simpl; [reflexivity|].
  apply Forall_cons_iff in H as [[H1 H2] H3].
  destruct a; simpl in *; try discriminate; auto.
Qed.

Lemma env_view_leaf d f tenv e :
  in_scope d f tenv -> In e tenv -> env_view tenv (fst e) = NLeaf (snd e).
Proof.
  intros S Hin. assert (N := in_scope_nc d f tenv (fst e) S).
  rewrite env_view_jfold by assumption.
  apply in_split in Hin as (l1 & l2 & ->).
  assert (P : Permutation (l1 ++ e :: l2) (e :: l1 ++ l2)) by (apply Permutation_sym, Permutation_middle).
  rewrite (jfold_perm _ _ (Permutation_map (contrib (fst e)) P)).
  - simpl. assert (Ce : contrib (fst e) e = NLeaf (snd e)).
    { unfold contrib. rewrite strip_prefix_refl. reflexivity. }
    rewrite Ce. apply jfold_leaf_stays.
    eapply PW_perm in N; [|exact nc_sym | apply Permutation_map; exact P].
    simpl in N. rewrite Ce in N. apply PW_cons_iff in N. tauto.
  - constructor; [apply Forall_forall; intros; apply nc_none_l | assumption].
Qed.

(** "where both define a value the environment wins for exactly that leaf":
    every variable's value is what the result shows at the variable's path,
    whatever file and defaults say there *)
Theorem env_wins_per_leaf :
  forall sh fix3 to_real pfx d f env tenv,
    perm_fun sh -> domain fix3 to_real pfx d f env tenv ->
    exists t, load sh to_real fix3 false pfx d (Some f) env = Ok t /\
              forall e, In e tenv -> view (fst e) (Map t) = NLeaf (snd e).
Proof.
  intros sh fix3 to_real pfx d f env tenv Hs D.
  destruct (load_meets_spec_domain sh fix3 to_real pfx d f env tenv Hs D) as (t & Ht & Tt & Vt).
  destruct D as (H1 & H2 & H3 & H4).
  exists t. split; [assumption|]. intros e Hin. rewrite Vt. unfold spec_view.
  rewrite (env_view_leaf d f tenv e H2 Hin).
  destruct (njoin (view (fst e) (Map d)) (view (fst e) (Map f))); reflexivity.
Qed.

(** "... for exactly that leaf; defaults fill what neither defines": where the
    environment is silent the file's node shows, where both are silent the
    default's *)
Theorem defaults_fill :
  forall sh fix3 to_real pfx d f env tenv,
    perm_fun sh -> domain fix3 to_real pfx d f env tenv ->
    exists t, load sh to_real fix3 false pfx d (Some f) env = Ok t /\
              forall p, env_view tenv p = NNone ->
                        view p (Map t) = njoin (view p (Map d)) (view p (Map f)) /\
                        (view p (Map f) = NNone -> view p (Map t) = view p (Map d)).
Proof.
  intros sh fix3 to_real pfx d f env tenv Hs D.
  destruct (load_meets_spec_domain sh fix3 to_real pfx d f env tenv Hs D) as (t & Ht & Tt & Vt).
  destruct D as (H1 & H2 & H3 & H4).
  exists t. split; [assumption|]. intros p He. rewrite Vt. unfold spec_view. rewrite He.
  rewrite njoin_none_r. split; [reflexivity|]. intros ->. apply njoin_none_r.
Qed.

Lemma njoin_assoc_k a b c :
  kcompat a b = true -> kcompat a c = true -> kcompat b c = true ->
  njoin (njoin a b) c = njoin a (njoin b c).
Proof.
  destruct a, b, c; simpl; intros; try reflexivity; try discriminate.
  rewrite Nat.max_assoc. reflexivity.
Qed.

(** file and environment are equivalent: for every way of giving a
    configuration [c] partly in the file ([f]) and partly in the environment
    ([env]) — "f and env together show c" — the result is the one of giving
    all of [c] in the file *)
Definition split_of (c f : list (key * cfg)) (tenv : list (path * string)) : Prop :=
  forall p, njoin (view p (Map f)) (env_view tenv p) = view p (Map c).

Theorem file_env_equivalent :
  forall sh sh' fix3 to_real pfx d c f env tenv,
    perm_fun sh -> perm_fun sh' ->
    domain fix3 to_real pfx d f env tenv -> domain fix3 to_real pfx d c [] [] ->
    split_of c f tenv ->
    exists t t', load sh to_real fix3 false pfx d (Some f) env = Ok t /\
                 load sh' to_real fix3 false pfx d (Some c) [] = Ok t' /\
                 Tidy (Map t) /\ Tidy (Map t') /\
                 forall p, view p (Map t) = view p (Map t').
Proof.
  intros sh sh' fix3 to_real pfx d c f env tenv Hs Hs' D G S.
  destruct (load_meets_spec_domain sh fix3 to_real pfx d f env tenv Hs D) as (t & Ht & Tt & Vt).
  destruct (load_meets_spec_domain sh' fix3 to_real pfx d c [] [] Hs' G) as (t' & Ht' & Tt' & Vt').
  destruct D as (H1 & H2 & H3 & H4).
  exists t, t'. splits; auto.
  intro p. rewrite Vt, Vt'. unfold spec_view. simpl env_view. rewrite njoin_none_r.
  rewrite <- (S p).
  assert (N := in_scope_nc d f tenv p H2).
  destruct H2 as (_ & _ & _ & C1 & C2 & _).
  assert (PWn : PW nc (NNone :: map (contrib p) tenv)).
  { constructor; [apply Forall_forall; intros; apply nc_none_l | assumption]. }
  apply njoin_assoc_k; [apply C1 | |]; rewrite env_view_jfold by assumption; apply kcompat_jfold;
    try apply kcompat_none_r; try assumption;
    apply Forall_map; (eapply Forall_impl; [|exact C2]); intros e H; destruct (H p); assumption.
Qed.

(* ------------------------------------------------------------------ finding witnesses *)
Local Open Scope string_scope.

Definition tr_id (s : string) : cfg := Leaf s.

Definition top_view (p : path) (r : res (list (key * cfg))) : option node :=
  match r with Ok m => Some (view p (Map m)) | Panic => None end.

(** C20-F3: two variables for one list below a map key — the tree as it is
    keeps only one of them, which one depends on the iteration order *)
Lemma F3_refuted :
  exists env env' p,
    Permutation env env' /\
    guard_F3 (norm_env "P_" env) = true /\ guard_F4 (norm_env "P_" env) = false /\
    top_view p (load (sh_bits []) tr_id false false "P_" [] None env) <>
    top_view p (load (sh_bits []) tr_id false false "P_" [] None env').
Proof.
  exists [("P_M_L_0", "x"); ("P_M_L_1", "y")], [("P_M_L_1", "y"); ("P_M_L_0", "x")],
         [SK "m"; SK "l"; SI 0].
  split; [apply perm_swap|]. vm_compute. repeat split; congruence.
Qed.

(** ... and with the candidate repair both variables arrive, in either order *)
Lemma F3_repaired_on_witness :
  forall env, Permutation [("P_M_L_0", "x"); ("P_M_L_1", "y")] env ->
    load (sh_bits []) tr_id true false "P_" [] None env
    = Ok [(K "m", Map [(K "l", Lst [Leaf "x"; Leaf "y"])])].
Proof.
  intros env H.
  assert (E : env = [("P_M_L_0", "x"); ("P_M_L_1", "y")] \/ env = [("P_M_L_1", "y"); ("P_M_L_0", "x")]).
  { apply Permutation_length_2_inv in H. destruct H; auto. }
  destruct E; subst; vm_compute; reflexivity.
Qed.

(** C20-F4: a nested structure inside a list element given by the environment
    alone is not there after the load (the dotted key stays flat) *)
Lemma F4_refuted :
  exists env nk v r,
    norm_env "P_" env = [(nk, v)] /\
    guard_F4 (norm_env "P_" env) = true /\ guard_F3 (norm_env "P_" env) = false /\
    load (sh_bits []) tr_id true false "P_" [] None env = Ok r /\
    view (parse_path nk) (Map r) <> NLeaf v.
Proof.
  exists [("P_L_0_R_S", "deep")], "l.0.r.s", "deep".
  eexists. vm_compute. repeat split; try reflexivity. congruence.
Qed.

Lemma F4_repaired_on_witness :
  exists r, load (sh_bits []) tr_id false true "P_" [] None [("P_L_0_R_S", "deep")] = Ok r /\
            view (parse_path "l.0.r.s") (Map r) = NLeaf "deep".
Proof. eexists. vm_compute. split; reflexivity. Qed.
