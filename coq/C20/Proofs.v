(** C20 — proofs about the loader model (Model.v) against the specification
    vocabulary (Spec.v). *)
From HV Require Import Base.Prelude C20.Model C20.Spec.
From Coq Require Import Permutation.
Open Scope string_scope.

(* ------------------------------------------------------------------ finding witnesses *)

Definition tr_id (s : string) : cfg := Leaf s.

Definition top_view (p : path) (r : res (list (key * cfg))) : option node :=
  match r with Ok m => Some (view p (Map m)) | Panic => None end.

(** C20-F3: two variables for one list below a map key — the tree as it is
    keeps only one of them, which one depends on the iteration order *)
Lemma F3_refuted :
  exists env env' p,
    Permutation env env' /\
    guard_F3 (norm_env "P_" env) = true /\ guard_F4 (norm_env "P_" env) = false /\
    top_view p (load (sh_bits []) tr_id false false "P_" [] None env) <>
    top_view p (load (sh_bits []) tr_id false false "P_" [] None env').
Proof.
  exists [("P_M_L_0", "x"); ("P_M_L_1", "y")], [("P_M_L_1", "y"); ("P_M_L_0", "x")],
         [SK "m"; SK "l"; SI 0].
  split; [apply perm_swap|]. vm_compute. repeat split; congruence.
Qed.

(** ... and with the candidate repair both variables arrive, in either order *)
Lemma F3_repaired_on_witness :
  forall env, Permutation [("P_M_L_0", "x"); ("P_M_L_1", "y")] env ->
    load (sh_bits []) tr_id true false "P_" [] None env
    = Ok [(K "m", Map [(K "l", Lst [Leaf "x"; Leaf "y"])])].
Proof.
  intros env H.
  assert (E : env = [("P_M_L_0", "x"); ("P_M_L_1", "y")] \/ env = [("P_M_L_1", "y"); ("P_M_L_0", "x")]).
  { apply Permutation_length_2_inv in H. destruct H; auto. }
  destruct E; subst; vm_compute; reflexivity.
Qed.

(** C20-F4: a nested structure inside a list element given by the environment
    alone is not there after the load (the dotted key stays flat) *)
Lemma F4_refuted :
  exists env nk v r,
    norm_env "P_" env = [(nk, v)] /\
    guard_F4 (norm_env "P_" env) = true /\ guard_F3 (norm_env "P_" env) = false /\
    load (sh_bits []) tr_id false false "P_" [] None env = Ok r /\
    view (parse_path nk) (Map r) <> NLeaf v.
Proof.
  exists [("P_L_0_R_S", "deep")], "l.0.r.s", "deep".
  eexists. vm_compute. repeat split; try reflexivity. congruence.
Qed.

Lemma F4_repaired_on_witness :
  exists r, load (sh_bits []) tr_id false true "P_" [] None [("P_L_0_R_S", "deep")] = Ok r /\
            view (parse_path "l.0.r.s") (Map r) = NLeaf "deep".
Proof. eexists. vm_compute. split; reflexivity. Qed.
