(** C20 — the trie that maps.Unflatten builds from the environment's flat keys
    ([TInv] of C20/FixedEnvProofs.v), from structural hypotheses only: the keys
    are non-empty, carry distinct "#hash" suffixes, and none is a proper
    initial part of another.  Nothing is assumed about the values, so the
    statement also serves for converted values that hold dotted keys. *)
From HV Require Import Base.Prelude C20.Model C20.Spec C20.Facts C20.MergeProofs C20.ConvertProofs
  C20.NodeAlg C20.TrieProofs C20.UnflattenProofs C20.EnvProofs C20.FixedProofs C20.FixedEnvProofs.
From Coq Require Import Permutation.

Definition kok (e : key * cfg) : Prop := ekey e <> [] /\ exists tg, etag e = Some tg.

(** neither key is a proper initial part of the other *)
Definition pfree (e1 e2 : key * cfg) : Prop :=
  forall r, r <> [] -> ekey e2 <> ekey e1 ++ r /\ ekey e1 <> ekey e2 ++ r.

Lemma pfree_sym e1 e2 : pfree e1 e2 -> pfree e2 e1.
Proof. intros H r N. destruct (H r N). auto. Qed.

Lemma flat_deep_pf s e1 e2 : flatb s e1 = true -> deepb s e2 = true -> ~ pfree e1 e2.
Proof.
  unfold flatb, deepb, named. intros F D H. apply segs_eqb_eq in F.
  destruct (ekey e2) as [|s' [|s2 r]] eqn:E2; simpl in D; try (rewrite andb_false_r in D); try discriminate.
  apply andb_true_iff in D as [D _]. apply String.eqb_eq in D. subst s'.
  destruct (H (s2 :: r)) as [A _]; [discriminate|]. apply A. rewrite F, E2. reflexivity.
Qed.

Lemma tails_all_deep_s s P :
  PW pfree P -> existsb (deepb s) P = true ->
  forall e, In e P -> named s e = true -> deepb s e = true.
Proof.
  intros HC Ex e He Hn. destruct (named_cases _ _ Hn) as [F|D]; [|assumption]. exfalso.
  apply existsb_exists in Ex as (e' & He' & Hd).
  assert (C : pfree e e').
  { destruct (in_split _ _ He) as (l1 & l2 & E). subst P.
    apply in_app_or in He' as [H1|[H1|H1]].
    - apply in_split in H1 as (a & b & ->). apply pfree_sym.
      eapply PW_In with (l1 := a) (l2 := b) (l3 := l2); [exact pfree_sym | | exact HC]. rewrite <- app_assoc. reflexivity.
    - subst e'. rewrite (flatb_not_deep s e F) in Hd. discriminate.
    - apply in_split in H1 as (a & b & ->).
      eapply PW_In with (l1 := l1) (l2 := a) (l3 := b); [exact pfree_sym | reflexivity | exact HC]. }
  revert C. apply (flat_deep_pf s); assumption.
Qed.

Lemma tails_kok s P :
  Forall kok P -> PW pfree P -> existsb (deepb s) P = true -> Forall kok (tails s P).
Proof.
  intros HE HC Ex. unfold tails. apply Forall_map. apply Forall_forall. intros e He.
  apply filter_In in He as [He Hn].
  assert (D := tails_all_deep_s s P HC Ex e He Hn).
  rewrite Forall_forall in HE. destruct (HE _ He) as (N & T).
  unfold deepb in D. apply andb_true_iff in D as [_ D]. apply Nat.leb_le in D.
  unfold kok, tail_ent, ekey, etag in *. simpl. split; [|assumption].
  destruct (fst (fst e)) as [|a [|b c]]; simpl in *; try lia. discriminate.
Qed.

Lemma tails_pfree s P : PW pfree P -> PW pfree (tails s P).
Proof.
  intro H. unfold tails. apply PW_map.
  assert (H' := PW_filter pfree (named s) P H).
  assert (F : Forall (fun e => named s e = true) (filter (named s) P)).
  { apply Forall_forall. intros e He. apply filter_In in He. tauto. }
  revert H' F. generalize (filter (named s) P). clear. intros L H F.
  induction H as [|x l Hx Hl IH]; [constructor|].
  apply Forall_cons_iff in F as [Fx Fl]. constructor; [|auto].
  rewrite Forall_forall in *. intros y Hy r Nr.
  destruct (named_key s x Fx) as [tx Hx']. destruct (named_key s y (Fl y Hy)) as [ty Hy'].
  destruct (Hx y Hy r Nr) as [A B]. unfold tail_ent, ekey in *. simpl. rewrite Hx', Hy' in *. simpl.
  split; intro E; [apply A | apply B]; rewrite E; reflexivity.
Qed.

(** one more key *)
(** one more key *)
Lemma tinv_insert_s : forall ks m P tg u, ks <> [] ->
  TInv m P -> Forall kok (P ++ [(mk_ent ks tg u)]) -> NoDup (map etag (P ++ [(mk_ent ks tg u)])) ->
  PW pfree (P ++ [(mk_ent ks tg u)]) ->
  TInv (insert_path m ks (Some tg) u) (P ++ [(mk_ent ks tg u)]).
Proof.
  induction ks as [|s0 rest IH]; intros m P tg u Nk HI HE NDT HC; [congruence|].
  set (e := (mk_ent (s0 :: rest) tg u)) in *.
  assert (Ee : e = (mk_ent (s0 :: rest) tg u)) by reflexivity.
  inversion HI as [m' P' ND FS HD HF]; subst m' P'.
  assert (HEP : Forall kok P) by (apply Forall_app in HE; tauto).
  assert (HEe : kok e) by (apply Forall_app in HE as [_ H]; apply Forall_cons_iff in H; tauto).
  assert (HCP : PW pfree P) by (apply PW_app_l in HC; assumption).
  assert (Hk : ekey e = s0 :: rest) by (rewrite Ee; reflexivity).
  assert (Ne : ekey e <> []) by (rewrite Hk; discriminate).
  assert (Hn0 : named s0 e = true) by (unfold named; rewrite Hk; apply String.eqb_refl).
  assert (Hother : forall s, s <> s0 -> named s e = false).
  { intros s N. unfold named. rewrite Hk. destruct (String.eqb s0 s) eqn:E; [apply String.eqb_eq in E; congruence | reflexivity]. }
  assert (Call : forall e', In e' P -> pfree e' e) by (intros e' He'; apply (PW_In_last pfree pfree_sym P e e' HC He')).
  assert (NDP : NoDup (map fst (P ++ [e]))) by (apply NoDup_tags_keys; assumption).
  destruct rest as [|s2 rest'].
  - (* the last segment: the value goes under the suffixed key *)
    assert (Fe : flatb s0 e = true) by (unfold flatb; rewrite Hk; apply segs_eqb_eq; reflexivity).
    assert (NoDeep : existsb (deepb s0) P = false).
    { destruct (existsb (deepb s0) P) eqn:E; [|reflexivity]. exfalso.
      apply existsb_exists in E as (e' & Hin & Hd).
      apply (flat_deep_pf s0 e e' Fe Hd). apply pfree_sym. auto. }
    assert (G0 := HF s0 NoDeep).
    assert (Nin : ~ In ([s0], Some tg) (map fst m)).
    { intro H. apply in_map_iff in H as (kv & Ekv & Hin).
      assert (Hg : In kv (grp s0 m)) by (apply grp_In; split; [assumption | unfold segk; rewrite Ekv; reflexivity]).
      rewrite G0 in Hg. apply filter_In in Hg as [Hg _].
      rewrite map_app in NDP. simpl in NDP. apply NoDup_remove_2 in NDP. rewrite app_nil_r in NDP.
      apply NDP. apply in_map_iff. exists kv. split; [rewrite Ekv; reflexivity | assumption]. }
    simpl insert_path. rewrite set_new by assumption.
    change (TInv (m ++ [e]) (P ++ [e])).
    constructor.
    + rewrite map_app. simpl. apply NoDup_snoc; assumption.
    + apply Forall_app. split; [assumption|]. constructor; [|constructor]. exists s0. rewrite Ee. reflexivity.
    + intros s Hs.
      assert (Ns : s <> s0).
      { intro; subst s. rewrite existsb_snoc, NoDeep, (flatb_not_deep s0 e Fe) in Hs. discriminate. }
      rewrite (deepb_snoc_other s P e (Hother s Ns)) in Hs.
      destruct (HD s Hs) as (sub & Hg & Nsub & Hsub). exists sub. splits; auto.
      * rewrite grp_app, Hg. rewrite Ee. unfold mk_ent. rewrite grp_cons. simpl fst.
        rewrite segs_eqb_single. destruct (String.eqb s0 s) eqn:E; [apply String.eqb_eq in E; congruence | reflexivity].
      * rewrite (tails_snoc_other s P e (Hother s Ns)). assumption.
    + intros s Hs. rewrite existsb_snoc in Hs. apply orb_false_iff in Hs as [Hs _].
      rewrite grp_app, (HF s Hs), filter_app. f_equal.
  - (* an inner segment *)
    remember (s2 :: rest') as rest eqn:Er.
    assert (Nr : rest <> []) by (rewrite Er; discriminate).
    assert (De : deepb s0 e = true) by (unfold deepb; rewrite Hn0, Hk, Er; reflexivity).
    assert (Hfe : forall s, flatb s e = false).
    { intro s. unfold flatb. rewrite Hk. rewrite Er.
      destruct (segs_eqb (s0 :: s2 :: rest') [s]) eqn:E; [apply segs_eqb_eq in E; discriminate | reflexivity]. }
    assert (NoFlat : forall e', In e' P -> flatb s0 e' = false).
    { intros e' Hin. destruct (flatb s0 e') eqn:F; [|reflexivity]. exfalso.
      apply (flat_deep_pf s0 e' e F De). auto. }
    assert (Et : tail_ent e = (mk_ent rest tg u)) by (rewrite Ee; reflexivity).
    rewrite insert_path_cons by assumption.
    destruct (existsb (deepb s0) P) eqn:Ex.
    + (* the node exists *)
      destruct (HD s0 Ex) as (sub & Hg & Nsub & Hsub).
      rewrite (grp_single_lookup _ _ _ Hg).
      assert (HI' : TInv (insert_path sub rest (Some tg) u) (tails s0 P ++ [(mk_ent rest tg u)])).
      { apply IH; auto.
        - rewrite <- Et. assert (X := tails_kok s0 (P ++ [e]) HE HC).
          rewrite tails_snoc, Hn0 in X. apply X. rewrite existsb_snoc, Ex. reflexivity.
        - rewrite <- Et. assert (X := tails_tags_NoDup s0 (P ++ [e]) NDT). rewrite tails_snoc, Hn0 in X. exact X.
        - rewrite <- Et. assert (X := tails_pfree s0 (P ++ [e]) HC). rewrite tails_snoc, Hn0 in X. exact X. }
      constructor.
      * apply set_NoDup. assumption.
      * rewrite Forall_forall in *. intros x Hx. apply In_set in Hx as [->|Hx]; [exists s0; reflexivity | auto].
      * intros s Hs. destruct (String.eqb s s0) eqn:E.
        -- apply String.eqb_eq in E; subst s. exists (insert_path sub rest (Some tg) u). splits.
           ++ apply (grp_set_single s0 (Map sub)). assumption.
           ++ apply insert_path_nonempty. assumption.
           ++ rewrite tails_snoc, Hn0, Et. assumption.
        -- assert (Ns : s <> s0) by (intro; subst; rewrite String.eqb_refl in E; discriminate).
           rewrite (deepb_snoc_other s P e (Hother s Ns)) in Hs.
           destruct (HD s Hs) as (sub1 & Hg1 & Nsub1 & Hsub1). exists sub1. splits; auto.
           ++ rewrite grp_set_other; [assumption | simpl; congruence].
           ++ rewrite (tails_snoc_other s P e (Hother s Ns)). assumption.
      * intros s Hs. rewrite existsb_snoc in Hs. apply orb_false_iff in Hs as [Hs1 Hs2].
        assert (Ns : s <> s0) by (intro; subst; congruence).
        rewrite grp_set_other by (simpl; congruence).
        rewrite (HF s Hs1), filter_app. simpl. rewrite Hfe, app_nil_r. reflexivity.
    + (* the node is new *)
      assert (G0 : grp s0 m = []) by (rewrite (HF s0 Ex); apply filter_none; assumption).
      assert (Lk : lookup (K s0) m = None).
      { destruct (lookup (K s0) m) eqn:E; [|reflexivity]. apply lookup_K_find_seg in E.
        exfalso. apply E. apply grp_nil_find. assumption. }
      rewrite Lk.
      assert (Unn : forall e', In e' P -> named s0 e' = false).
      { intros e' He'. destruct (named s0 e') eqn:Nm; [|reflexivity]. exfalso.
        destruct (named_cases _ _ Nm) as [F|D].
        - rewrite (NoFlat e' He') in F. discriminate.
        - assert (X : existsb (deepb s0) P = true) by (apply existsb_exists; eauto). congruence. }
      assert (T0 : tails s0 P = []).
      { unfold tails. rewrite (filter_none (named s0) P Unn). reflexivity. }
      assert (HI' : TInv (insert_path [] rest (Some tg) u) ([] ++ [(mk_ent rest tg u)])).
      { apply IH; auto using TInv_nil.
        - simpl. rewrite <- Et. assert (X := tails_kok s0 (P ++ [e]) HE HC).
          rewrite tails_snoc, Hn0, T0 in X. apply X. rewrite existsb_snoc, De. apply orb_true_r.
        - simpl. constructor; [simpl; tauto | constructor].
        - simpl. constructor; constructor. }
      assert (Nin : ~ In (K s0) (map fst m)) by (apply lookup_None; assumption).
      rewrite set_new by assumption.
      constructor.
      * rewrite map_app. simpl. apply NoDup_snoc; assumption.
      * apply Forall_app. split; [assumption|]. constructor; [|constructor]. exists s0. reflexivity.
      * intros s Hs. destruct (String.eqb s s0) eqn:E.
        -- apply String.eqb_eq in E; subst s. exists (insert_path [] rest (Some tg) u). splits.
           ++ rewrite grp_app, G0, grp_cons. simpl fst. rewrite segs_eqb_single, String.eqb_refl. reflexivity.
           ++ apply insert_path_nonempty. assumption.
           ++ rewrite tails_snoc, Hn0, T0, Et. exact HI'.
        -- assert (Ns : s <> s0) by (intro; subst; rewrite String.eqb_refl in E; discriminate).
           rewrite (deepb_snoc_other s P e (Hother s Ns)) in Hs.
           destruct (HD s Hs) as (sub1 & Hg1 & Nsub1 & Hsub1). exists sub1. splits; auto.
           ++ rewrite grp_app, Hg1, grp_cons. simpl fst. rewrite segs_eqb_single.
              destruct (String.eqb s0 s) eqn:E'; [apply String.eqb_eq in E'; congruence | reflexivity].
           ++ rewrite (tails_snoc_other s P e (Hother s Ns)). assumption.
      * intros s Hs. rewrite existsb_snoc in Hs. apply orb_false_iff in Hs as [Hs1 Hs2].
        assert (Ns : s <> s0) by (intro; subst; congruence).
        rewrite grp_app, grp_cons. simpl fst. rewrite segs_eqb_single.
        destruct (String.eqb s0 s) eqn:E'; [apply String.eqb_eq in E'; congruence|].
        rewrite (HF s Hs1), filter_app. simpl. rewrite Hfe. reflexivity.
Qed.

(** maps.Unflatten over all entries *)
Lemma tinv_unflatten_s : forall L U P,
  TInv U P -> Forall kok (P ++ L) -> NoDup (map etag (P ++ L)) -> PW pfree (P ++ L) ->
  TInv (fold_left ins_kv L U) (P ++ L).
Proof.
  induction L as [|e L' IH]; intros U P HI HE ND HC.
  - rewrite app_nil_r. assumption.
  - assert (Eq : P ++ e :: L' = (P ++ [e]) ++ L') by (rewrite <- app_assoc; reflexivity).
    rewrite Eq in *. simpl fold_left. apply IH; auto.
    assert (HE1 : Forall kok (P ++ [e])) by (apply Forall_app in HE; tauto).
    assert (ND1 : NoDup (map etag (P ++ [e]))) by (rewrite map_app in ND; apply NoDup_app_l in ND; assumption).
    assert (HC1 : PW pfree (P ++ [e])) by (apply PW_app_l in HC; assumption).
    assert (Ee : kok e) by (apply Forall_app in HE1 as [_ H]; apply Forall_cons_iff in H; tauto).
    destruct e as [[k t] v]. destruct Ee as (Nk & (tg & Ht)). unfold ekey in Nk. unfold etag in Ht. simpl in Nk, Ht. subst t.
    apply (tinv_insert_s k U P tg v Nk HI HE1 ND1 HC1).
Qed.
