(** C20 — the loader with the repair of C20-F3 ([fix3 = true], in /repo since
    0f39207) on the property's domain: the same statement as [load_meets_spec],
    without the restriction on variables addressing the same nested list. *)
From HV Require Import Base.Prelude C20.Model C20.Spec C20.Facts C20.MergeProofs C20.ConvertProofs
  C20.NodeAlg C20.TrieProofs C20.UnflattenProofs C20.EnvProofs C20.LoadProofs C20.FixedProofs C20.FixedEnvProofs.
From Coq Require Import Permutation.

Section WithOrder.
  Variable sh : nat -> list (key * cfg) -> list (key * cfg).
  Hypothesis sh_perm : forall site l, Permutation (sh site l) l.
  Variable to_real : string -> cfg.

  Lemma entries_coherent1 ne :
    NoDup (map fst (map (tof to_real) ne)) -> Forall (good to_real) ne ->
    PW (fun a b => forall p, kcompat (contrib p a) (contrib p b) = true) (map (tof to_real) ne) ->
    PW ecoh1 (map (eof to_real) ne).
  Proof.
    intros ND HG HK.
    apply PW_map. apply PW_map_inv in HK.
    assert (HN : PW (fun a b : string * string => fst (tof to_real a) <> fst (tof to_real b)) ne).
    { apply PW_map_inv with (f := fun nv => fst (tof to_real nv)) (R := fun a b => a <> b).
      rewrite <- map_map. apply PW_NoDup_neq. assumption. }
    assert (HG' : PW (fun a b => good to_real a /\ good to_real b) ne).
    { clear -HG. induction ne as [|x r IH]; [constructor|].
      apply Forall_cons_iff in HG as [G0 GR]. constructor; [|auto].
      rewrite Forall_forall in *. intros y Hy. auto. }
    assert (All := PW_and _ _ _ (PW_and _ _ _ HK HN) HG').
    eapply PW_impl; [|exact All]. clear.
    intros a b ((HK & HN) & (Ga & Gb)). cbv beta in *.
    destruct (eof_spec to_real a Ga) as (wa & ua & _ & _ & _ & _ & Ea).
    destruct (eof_spec to_real b Gb) as (wb & ub & _ & _ & _ & _ & Eb).
    intro p. rewrite Ea, Eb. split; [apply HK|].
    destruct (contrib p (tof to_real a)) eqn:Ca; simpl; try reflexivity.
    destruct (contrib p (tof to_real b)) eqn:Cb; simpl; try reflexivity.
    apply contrib_leaf_path in Ca. apply contrib_leaf_path in Cb. exfalso. apply HN. congruence.
  Qed.

  Lemma eof_tags_NoDup ne : NoDup ne -> Forall (good to_real) ne -> NoDup (map etag (map (eof to_real) ne)).
  Proof.
    intros ND HG.
    assert (E : map etag (map (eof to_real) ne) = map Some ne).
    { rewrite map_map. apply map_ext_in. intros nv Hin. rewrite Forall_forall in HG.
      destruct (eof_spec to_real nv (HG nv Hin)) as (_ & u & _ & _ & He & _). rewrite He. reflexivity. }
    rewrite E. apply FinFun.Injective_map_NoDup; [|assumption]. intros x y H. congruence.
  Qed.

  Section Loader.
    Variable pfx : string.
    Variables (d f : list (key * cfg)) (env : list (string * string)) (tenv : list (path * string)).
    Let ne := norm_env pfx env.
    Hypothesis Htyped : typed_env to_real ne = Some tenv.
    Hypothesis Hscope : in_scope d f tenv.
    Hypothesis HF4 : guard_F4 ne = false.

    Theorem load_meets_spec_fixed :
      exists t, load sh to_real true false pfx d (Some f) env = Ok t /\ Tidy (Map t) /\
                forall p, view p (Map t) = spec_view d f tenv p.
    Proof.
      destruct Hscope as (Td & Tf & ND & Cdf & Cenv & HP).
      destruct (merge_top_view_gen sh sh_perm true d f Td Tf Cdf) as (p1 & Hp1 & Tp1 & Vp1).
      assert (HG : Forall (good to_real) ne).
      { apply (guard_F4_good to_real ne tenv d Htyped HF4).
        eapply Forall_impl; [|exact Cenv]. intros e H. apply (H []). }
      destruct (typed_env_map to_real _ _ Htyped) as [Et _].
      assert (NDne : NoDup ne).
      { rewrite Et, map_map in ND. apply NoDup_map_inv in ND. assumption. }
      assert (Hmp : env_mp to_real false ne [] = Ok (map (eof to_real) ne)).
      { apply (env_mp_spec to_real ne [] NDne HG). intros nv kv _ []. }
      set (E := map (eof to_real) ne).
      assert (HE : Forall EntOk E).
      { unfold E. apply Forall_map. eapply Forall_impl; [|exact HG].
        intros nv G. destruct (eof_spec to_real nv G) as (_ & _ & _ & _ & _ & H & _). exact H. }
      assert (NDE : NoDup (map etag E)) by (apply eof_tags_NoDup; assumption).
      assert (HC : PW ecoh1 E).
      { apply entries_coherent1; auto; rewrite <- Et; assumption. }
      destruct (env_tree_entries_fixed sh sh_perm E HE NDE HC) as (e & He & Te & Ve).
      assert (Henv : env_tree sh to_real true false pfx env = Ok e).
      { unfold env_tree. fold ne. rewrite Hmp. exact He. }
      assert (Econ : forall p, map (econ p) E = map (contrib p) tenv).
      { intro p. unfold E. rewrite Et, !map_map. apply map_ext_in. intros nv Hin.
        rewrite Forall_forall in HG. destruct (eof_spec to_real nv (HG nv Hin)) as (_ & _ & _ & _ & _ & _ & H). apply H. }
      assert (Snc : forall p, PW nc (map (contrib p) tenv)).
      { intro p. apply (scope_nc d f tenv (conj Td (conj Tf (conj ND (conj Cdf (conj Cenv HP)))))). }
      assert (Vsk : forall s q, view (SK s :: q) (Map e) = env_view tenv (SK s :: q)).
      { intros s q. rewrite Ve, Econ. symmetry. apply env_view_jfold. apply Snc. }
      assert (Vsi : forall i q, env_view tenv (SI i :: q) = NNone).
      { intros i q. rewrite env_view_jfold by apply Snc. apply jfold_none_elems.
        rewrite Et. apply Forall_map. apply Forall_map. eapply Forall_impl; [|exact HG].
        intros nv G. destruct (good_head_SK to_real nv G) as (s & r & Hs).
        unfold contrib. rewrite Hs. reflexivity. }
      assert (Vroot : env_view tenv [] = NNone \/ env_view tenv [] = NMap).
      { rewrite env_view_jfold by apply Snc. apply jfold_kinds; [left; reflexivity|].
        rewrite Et. apply Forall_map. apply Forall_map. eapply Forall_impl; [|exact HG].
        intros nv G. destruct (good_head_SK to_real nv G) as (s & r & Hs).
        right. unfold contrib. rewrite Hs. reflexivity. }
      assert (Cpe : compat (Map p1) (Map e)).
      { intros [|[s|i] q]; try reflexivity.
        rewrite Vp1, Ve, Econ. apply kcompat_jfold.
        - apply kcompat_none_r.
        - apply Forall_map. eapply Forall_impl; [|exact Cenv]. intros c H.
          destruct (H (SK s :: q)) as [H1 H2]. apply kcompat_njoin_l; auto.
        - constructor; [apply Forall_forall; intros; apply nc_none_l | apply Snc]. }
      destruct (merge_top_view_gen sh sh_perm true p1 e Tp1 Te Cpe) as (t & Ht & Tt & Vt).
      exists t. splits; auto.
      - unfold load. rewrite Hp1, Henv. exact Ht.
      - intro p. rewrite Vt, Vp1. unfold spec_view. destruct p as [|[s|i] q].
        + simpl. destruct Vroot as [-> | ->]; reflexivity.
        + rewrite Vsk. reflexivity.
        + rewrite Vsi. reflexivity.
    Qed.
  End Loader.
End WithOrder.
