(** C20 — merge.go on well-formed trees: the merged tree shows, at every path,
    the later source's node where it has one and the earlier one's otherwise
    (lists grow to the longer one), it is well-formed again, and [merge] does not
    panic when the two trees agree on the shape.  All statements hold for every
    iteration order [sh] of Go's maps. *)
From HV Require Import Base.Prelude C20.Model C20.Spec C20.Facts.
From Coq Require Import Permutation.

Definition compat (a b : cfg) : Prop := forall p, kcompat (view p a) (view p b) = true.

Lemma compat_map_inv dm src : src <> Nil -> compat (Map dm) src -> exists sm, src = Map sm.
Proof.
  intros N C. specialize (C []). destruct src; simpl in C; try discriminate; try congruence. eauto.
Qed.

Lemma compat_lst_inv dl src : src <> Nil -> compat (Lst dl) src -> exists sl, src = Lst sl.
Proof.
  intros N C. specialize (C []). destruct src; simpl in C; try discriminate; try congruence. eauto.
Qed.

Lemma compat_leaf_inv v src : src <> Nil -> compat (Leaf v) src -> exists w, src = Leaf w.
Proof.
  intros N C. specialize (C []). destruct src; simpl in C; try discriminate; try congruence. eauto.
Qed.

Lemma view_nth q l i : view (SI i :: q) (Lst l) = view q (nth i l Nil).
Proof.
  simpl. revert i. induction l as [|x r IH]; intros [|i]; simpl; try (symmetry; apply view_Nil); auto.
Qed.

Lemma compat_nth dl sl i : compat (Lst dl) (Lst sl) -> compat (nth i dl Nil) (nth i sl Nil).
Proof. intros C q. specialize (C (SI i :: q)). rewrite !view_nth in C. exact C. Qed.

Lemma compat_lookup dm sm s old v :
  compat (Map dm) (Map sm) -> lookup (K s) dm = Some old -> lookup (K s) sm = Some v -> compat old v.
Proof. intros C H1 H2 q. specialize (C (SK s :: q)). simpl in C. rewrite H1, H2 in C. exact C. Qed.

Section WithOrder.
  Variable sh : nat -> list (key * cfg) -> list (key * cfg).
  Hypothesis sh_perm : forall site l, Permutation (sh site l) l.

  (* ---------------------------------------------------------------- unflatten / cleanSuffix on tidy maps *)

  Definition plain_keys (m : list (key * cfg)) : Prop := Forall (fun kv => exists s, fst kv = K s) m.

  Lemma fold_ins_plain L : forall acc,
    plain_keys L -> NoDup (map fst (acc ++ L)) -> fold_left ins_kv L acc = acc ++ L.
  Proof.
    induction L as [|[k v] r IH]; intros acc PK ND; simpl.
    - rewrite app_nil_r. reflexivity.
    - inv PK. destruct H1 as [s Hs]. simpl in Hs. subst k.
      unfold ins_kv at 2. simpl.
      assert (N : ~ In (K s) (map fst acc)).
      { rewrite map_app in ND. simpl in ND. apply NoDup_remove_2 in ND. intro H. apply ND. apply in_or_app. left. assumption. }
      change ([s], @None tag) with (K s). rewrite set_new by assumption.
      rewrite IH; [rewrite <- app_assoc; reflexivity | assumption |].
      rewrite <- app_assoc. simpl. assumption.
  Qed.

  Lemma Tidy_plain m : Tidy (Map m) -> plain_keys m.
  Proof. intro T. apply Tidy_Map_inv in T as [_ FE]. eapply Forall_impl; [|exact FE]. unfold entry_ok. tauto. Qed.

  Lemma perm_plain m m' : Permutation m m' -> plain_keys m -> plain_keys m'.
  Proof. intros P H. unfold plain_keys. eapply Permutation_Forall; eauto. Qed.

  Lemma perm_NoDup_keys (m m' : list (key * cfg)) :
    Permutation m m' -> NoDup (map fst m) -> NoDup (map fst m').
  Proof. intros P H. eapply Permutation_NoDup; [apply Permutation_map; exact P | exact H]. Qed.

  Lemma unflatten_tidy sm : Tidy (Map sm) -> unflatten sh sm = sh 0 sm.
  Proof.
    intro T. unfold unflatten. rewrite fold_ins_plain; [reflexivity | |].
    - eapply perm_plain; [apply Permutation_sym; apply sh_perm | apply Tidy_plain; assumption].
    - simpl. eapply perm_NoDup_keys; [apply Permutation_sym; apply sh_perm | apply Tidy_Map_inv in T; tauto].
  Qed.

  Lemma clean_asis_map m :
    clean_asis sh (Map m) =
    Map (fold_left set_kv (sh 2 (map (fun kv => (strip (fst kv), clean_asis sh (snd kv))) m)) []).
  Proof.
    simpl. do 3 f_equal. induction m as [|[k v] r IH]; simpl; [reflexivity|]. rewrite IH. reflexivity.
  Qed.

  Lemma fold_set_new L : forall acc,
    NoDup (map fst (acc ++ L)) -> fold_left set_kv L acc = acc ++ L.
  Proof.
    induction L as [|[k v] r IH]; intros acc ND; simpl.
    - rewrite app_nil_r. reflexivity.
    - unfold set_kv at 2. simpl.
      assert (N : ~ In k (map fst acc)).
      { rewrite map_app in ND. simpl in ND. apply NoDup_remove_2 in ND. intro H. apply ND. apply in_or_app. left. assumption. }
      rewrite set_new by assumption.
      rewrite IH; [rewrite <- app_assoc; reflexivity |].
      rewrite <- app_assoc. simpl. assumption.
  Qed.

  Lemma lookup_map_values (g : cfg -> cfg) k m :
    lookup k (map (fun kv => (fst kv, g (snd kv))) m) = option_map g (lookup k m).
  Proof.
    induction m as [|[k' v'] r IH]; simpl; [reflexivity|]. destruct (key_eqb k k'); auto.
  Qed.

  Lemma strip_plain m :
    plain_keys m ->
    map (fun kv => (strip (fst kv), clean_asis sh (snd kv))) m
    = map (fun kv => (fst kv, clean_asis sh (snd kv))) m.
  Proof.
    intro PK. apply map_ext_in. intros [k v] Hin. unfold plain_keys in PK. rewrite Forall_forall in PK.
    destruct (PK _ Hin) as [s Hs]. simpl in *. subst. reflexivity.
  Qed.

  (** cleanSuffix leaves a well-formed tree as it is (up to the order of map entries) *)
  Lemma clean_tidy t :
    Tidy t -> Tidy (clean_asis sh t) /\ (t <> Nil -> clean_asis sh t <> Nil) /\
              forall p, view p (clean_asis sh t) = view p t.
  Proof.
    induction t as [| v | m IH | l IH] using cfg_ind'; intro T; try (simpl; splits; auto; fail).
    rewrite clean_asis_map. rewrite strip_plain by (apply Tidy_plain; assumption).
    set (L := map (fun kv => (fst kv, clean_asis sh (snd kv))) m).
    assert (KL : map fst L = map fst m).
    { unfold L. rewrite map_map. simpl. reflexivity. }
    destruct (Tidy_Map_inv _ T) as [NDm FE].
    assert (ND2 : NoDup (map fst (sh 2 L))).
    { eapply perm_NoDup_keys; [apply Permutation_sym; apply sh_perm | rewrite KL; assumption]. }
    rewrite fold_set_new by (simpl; assumption). simpl app.
    assert (TL : Forall entry_ok L).
    { unfold L. apply Forall_map. simpl.
      rewrite Forall_forall in *. intros kv Hin. specialize (FE kv Hin). specialize (IH kv Hin).
      destruct FE as (Hs & Hn & Ht). destruct (IH Ht) as (I1 & I2 & _). unfold entry_ok; splits; auto. }
    splits.
    - apply Tidy_Map_intro; [assumption|]. eapply Permutation_Forall; [apply Permutation_sym; apply sh_perm | exact TL].
    - intros _. discriminate.
    - intro p. rewrite (view_perm p (sh 2 L) L ND2 (sh_perm 2 L)).
      destruct p as [|[s|i] q]; simpl; try reflexivity.
      unfold L. rewrite lookup_map_values.
      destruct (lookup (K s) m) as [c|] eqn:E; simpl; [|reflexivity].
      apply lookup_In in E. rewrite Forall_forall in IH, FE.
      specialize (IH _ E). specialize (FE _ E). simpl in *. destruct FE as (_ & _ & Ht).
      destruct (IH Ht) as (_ & _ & I3). apply I3.
  Qed.

  (* ---------------------------------------------------------------- the loops *)

  Definition merge_goal (cl : cfg -> res cfg) (dest : cfg) : Prop :=
    forall src, dest <> Nil -> src <> Nil -> Tidy dest -> Tidy src -> compat dest src ->
    exists r, merge_with sh cl dest src = Ok r /\ r <> Nil /\ Tidy r /\
              forall p, view p r = njoin (view p dest) (view p src).

  Lemma upd_map_spec cl usm : forall dm,
    Forall (fun kv => merge_goal cl (snd kv)) dm ->
    Forall entry_ok dm -> Forall entry_ok usm ->
    (forall k old v, In (k, old) dm -> lookup k usm = Some v -> compat old v) ->
    exists dm', upd_map (fun o v => merge_with sh cl o v) usm dm = Ok dm' /\
                map fst dm' = map fst dm /\ Forall entry_ok dm' /\
                forall k, match lookup k dm with
                          | None => lookup k dm' = None
                          | Some old => exists x, lookup k dm' = Some x /\
                              forall q, view q x = njoin (view q old)
                                                    (match lookup k usm with Some v => view q v | None => NNone end)
                          end.
  Proof.
    induction dm as [|[k0 old0] r IH]; intros HG HE HU HC.
    - exists []. simpl. splits; auto.
    - apply Forall_cons_iff in HG as [G0 GR]. apply Forall_cons_iff in HE as [E0 ER].
      destruct IH as (r' & Hr & Hk & Her & Hv); auto.
      { intros k old v H1 H2. apply (HC k old v); [right|]; assumption. }
      destruct E0 as (Hs0 & Hn0 & Ht0). simpl in *.
      assert (X : exists x, merge_entry (fun o v => merge_with sh cl o v) old0 (lookup k0 usm) = Ok x /\
                            x <> Nil /\ Tidy x /\
                            forall q, view q x = njoin (view q old0)
                                          (match lookup k0 usm with Some v => view q v | None => NNone end)).
      { destruct (lookup k0 usm) as [v|] eqn:E; simpl.
        - assert (Hv0 : v <> Nil /\ Tidy v).
          { apply lookup_In in E. rewrite Forall_forall in HU. destruct (HU _ E) as (_ & A & B). auto. }
          destruct Hv0 as [Hvn Hvt].
          destruct (G0 v Hn0 Hvn Ht0 Hvt) as (x & Hx & Hxn & Hxt & Hxv).
          { apply (HC k0 old0 v); [left; reflexivity | assumption]. }
          exists x. destruct old0; try congruence; splits; auto.
        - exists old0. splits; auto. intro q. rewrite njoin_none_r. reflexivity. }
      destruct X as (x & Hx & Hxn & Hxt & Hxv).
      exists ((k0, x) :: r'). simpl. rewrite Hx, Hr. splits; auto.
      + f_equal. assumption.
      + constructor; [|assumption]. unfold entry_ok; simpl. auto.
      + intro k. destruct (key_eqb k k0) eqn:E.
        * apply key_eqb_eq in E; subst k. exists x. split; [reflexivity | assumption].
        * apply Hv.
  Qed.

  Lemma zip_lst_spec cl : forall dl,
    Forall (merge_goal cl) dl -> forall sl,
    Forall Tidy dl -> Forall Tidy sl ->
    (forall i, compat (nth i dl Nil) (nth i sl Nil)) ->
    exists l, zip_lst (fun a v => merge_with sh cl a v) dl sl = Ok l /\
              length l = Nat.max (length dl) (length sl) /\ Forall Tidy l /\
              forall i q, view q (nth i l Nil) = njoin (view q (nth i dl Nil)) (view q (nth i sl Nil)).
  Proof.
    induction dl as [|a dr IH]; intros HG sl Td Ts HC.
    - exists sl. simpl. splits; auto.
      intros i q. destruct i; simpl; rewrite view_Nil, njoin_none_l; reflexivity.
    - destruct sl as [|v sr].
      + exists (a :: dr). simpl. splits; auto.
        intros i q. destruct i; simpl; rewrite (view_Nil q), njoin_none_r; reflexivity.
      + apply Forall_cons_iff in HG as [G0 GR]. apply Forall_cons_iff in Td as [Ta Tdr].
        apply Forall_cons_iff in Ts as [Tv Tsr].
        destruct (IH GR sr Tdr Tsr) as (r & Hr & Hl & Htr & Hvr).
        { intro i. apply (HC (S i)). }
        assert (X : exists x, (match a with
                               | Nil => Ok v
                               | _ => match v with Nil => Ok a | _ => merge_with sh cl a v end
                               end) = Ok x /\ Tidy x /\
                              forall q, view q x = njoin (view q a) (view q v)).
        { destruct (cfg_nil_dec a) as [->|Na].
          - exists v. splits; auto. intro q. rewrite view_Nil, njoin_none_l. reflexivity.
          - destruct (cfg_nil_dec v) as [->|Nv].
            + exists a. splits; [destruct a; congruence | assumption |].
              intro q. rewrite view_Nil, njoin_none_r. reflexivity.
            + destruct (G0 v Na Nv Ta Tv (HC 0)) as (x & Hx & _ & Hxt & Hxv).
              exists x. splits; auto. destruct a; try congruence; destruct v; congruence. }
        destruct X as (x & Hx & Hxt & Hxv).
        exists (x :: r). simpl. rewrite Hx, Hr. splits; auto.
        intros [|i] q; simpl; auto.
  Qed.

  Lemma lookup_filter_new k dm L :
    mem k dm = false ->
    lookup k (filter (fun kv => negb (mem (fst kv) dm)) L) = lookup k L.
  Proof.
    intro H. induction L as [|[k' v'] r IH]; simpl; [reflexivity|].
    destruct (key_eqb k k') eqn:E.
    - apply key_eqb_eq in E; subst k'. rewrite H. simpl. rewrite key_eqb_refl. reflexivity.
    - destruct (negb (mem k' dm)); simpl; [rewrite E|]; assumption.
  Qed.

  (** mergeMaps/mergeSlices on well-formed trees that agree on the shape *)
  Theorem merge_with_view cl : forall dest, merge_goal cl dest.
  Proof.
    induction dest as [| w | dm IH | dl IH] using cfg_ind'; intros src Nd Ns Td Ts C.
    - congruence.
    - destruct (compat_leaf_inv _ _ Ns C) as [w' ->]. exists (Leaf w'). simpl. splits; auto; try discriminate.
      intros [|a p]; [reflexivity|]. rewrite !view_Leaf_cons. reflexivity.
    - destruct (compat_map_inv _ _ Ns C) as [sm ->]. simpl.
      rewrite (unflatten_tidy sm Ts).
      destruct (Tidy_Map_inv _ Td) as [NDd FEd]. destruct (Tidy_Map_inv _ Ts) as [NDs FEs].
      assert (P0 : Permutation (sh 0 sm) sm) by apply sh_perm.
      assert (FE0 : Forall entry_ok (sh 0 sm)).
      { eapply Permutation_Forall; [apply Permutation_sym; exact P0 | exact FEs]. }
      assert (ND0 : NoDup (map fst (sh 0 sm))).
      { eapply perm_NoDup_keys; [apply Permutation_sym; exact P0 | exact NDs]. }
      assert (L0 : forall k, lookup k (sh 0 sm) = lookup k sm).
      { intro k. apply lookup_perm; assumption. }
      destruct (upd_map_spec cl (sh 0 sm) dm IH FEd FE0) as (dm' & Hu & Hk & He & Hv).
      { intros k old v Hin Hl. rewrite L0 in Hl.
        assert (Hs : exists s, k = K s).
        { rewrite Forall_forall in FEd. destruct (FEd _ Hin) as ((s & Hs) & _). simpl in Hs. eauto. }
        destruct Hs as [s ->]. eapply compat_lookup; [exact C | | exact Hl].
        apply NoDup_lookup; assumption. }
      rewrite Hu.
      set (news := filter (fun kv => negb (mem (fst kv) dm)) (sh 3 (sh 0 sm))).
      assert (P3 : Permutation (sh 3 (sh 0 sm)) sm).
      { eapply Permutation_trans; [apply sh_perm | exact P0]. }
      assert (ND3 : NoDup (map fst (sh 3 (sh 0 sm)))).
      { eapply perm_NoDup_keys; [apply Permutation_sym; exact P3 | exact NDs]. }
      assert (FE3 : Forall entry_ok (sh 3 (sh 0 sm))).
      { eapply Permutation_Forall; [apply Permutation_sym; exact P3 | exact FEs]. }
      exists (Map (dm' ++ news)). splits; auto; try discriminate.
      + apply Tidy_Map_intro.
        * rewrite map_app, Hk. apply NoDup_app_intro; [assumption | | ].
          -- unfold news. apply NoDup_map_filter. assumption.
          -- intros k H1 H2. unfold news in H2. apply in_map_iff in H2 as (kv & <- & H2).
             apply filter_In in H2 as [_ H2]. apply negb_true_iff in H2. apply mem_false in H2. contradiction.
        * apply Forall_app. split; [assumption|]. unfold news.
          rewrite Forall_forall in *. intros kv H. apply filter_In in H as [H _]. auto.
      + intros [|[s|i] q]; simpl; try reflexivity.
        rewrite lookup_app. specialize (Hv (K s)).
        destruct (lookup (K s) dm) as [old|] eqn:E.
        * destruct Hv as (x & Hx & Hxv). rewrite Hx. rewrite Hxv. rewrite L0. reflexivity.
        * rewrite Hv. unfold news. rewrite lookup_filter_new by (unfold mem; rewrite E; reflexivity).
          rewrite (lookup_perm (K s) _ sm ND3 P3).
          destruct (lookup (K s) sm); [rewrite njoin_none_l|]; reflexivity.
    - destruct (compat_lst_inv _ _ Ns C) as [sl ->]. simpl.
      destruct (zip_lst_spec cl dl IH sl (Tidy_Lst_inv _ Td) (Tidy_Lst_inv _ Ts)) as (l & Hz & Hl & Ht & Hv).
      { intro i. apply compat_nth. assumption. }
      rewrite Hz. exists (Lst l). splits; auto; try discriminate.
      + constructor. assumption.
      + intros [|[s|i] q]; try reflexivity.
        * simpl. rewrite Hl. reflexivity.
        * rewrite !view_nth. apply Hv.
  Qed.

  (* ---------------------------------------------------------------- the merge function of Load *)

  Definition top_step (fix3 strip_keys : bool) (acc : res (list (key * cfg))) (kv : key * cfg) :=
    match acc with
    | Panic => Panic
    | Ok dest =>
        let k := if strip_keys then strip (fst kv) else fst kv in
        match merge sh fix3 (get k dest) (snd kv) with
        | Ok nv => Ok (set k nv dest)
        | Panic => Panic
        end
    end.

  Lemma merge_top_unfold fix3 st dest src :
    merge_top sh fix3 st dest src = fold_left (top_step fix3 st) (sh 1 src) (Ok dest).
  Proof. reflexivity. Qed.

  Lemma Tidy_set s nv acc : Tidy (Map acc) -> nv <> Nil -> Tidy nv -> Tidy (Map (set (K s) nv acc)).
  Proof.
    intros T N Tn. destruct (Tidy_Map_inv _ T) as [ND FE]. apply Tidy_Map_intro.
    - apply set_NoDup. assumption.
    - rewrite Forall_forall in *. intros e H. apply In_set in H as [->|H]; [|auto].
      unfold entry_ok; simpl; eauto.
  Qed.

  Lemma merge_top_fold : forall L acc,
    Forall entry_ok L -> NoDup (map fst L) -> Tidy (Map acc) ->
    (forall k v old, In (k, v) L -> lookup k acc = Some old -> compat old v) ->
    exists r, fold_left (top_step false false) L (Ok acc) = Ok r /\ Tidy (Map r) /\
              forall s q, view (SK s :: q) (Map r)
                          = njoin (view (SK s :: q) (Map acc)) (view (SK s :: q) (Map L)).
  Proof.
    induction L as [|[k v] L' IH]; intros acc FE ND Ta HC.
    - exists acc. simpl. splits; auto. intros s q. rewrite njoin_none_r. reflexivity.
    - apply Forall_cons_iff in FE as [E0 FE']. destruct E0 as ((s0 & Hs0) & Nv & Tv). simpl in Hs0, Nv, Tv. subst k.
      simpl in ND. apply NoDup_cons_iff in ND as [Nin ND'].
      assert (X : exists nv, merge sh false (get (K s0) acc) v = Ok nv /\ nv <> Nil /\ Tidy nv /\
                             forall q, view q nv = njoin (view q (get (K s0) acc)) (view q v)).
      { unfold get. destruct (lookup (K s0) acc) as [old|] eqn:E.
        - destruct (Tidy_lookup _ _ _ Ta E) as [No To].
          apply (merge_with_view _ old v No Nv To Tv). apply (HC (K s0) v old); [left; reflexivity | assumption].
        - exists (clean_asis sh v). destruct (clean_tidy v Tv) as (A & B & C0). unfold merge. simpl. splits; auto.
          intro q. rewrite C0, view_Nil, njoin_none_l. reflexivity. }
      destruct X as (nv & Hm & Nn & Tn & Hv).
      destruct (IH (set (K s0) nv acc) FE' ND' (Tidy_set _ _ _ Ta Nn Tn)) as (r & Hr & Tr & Hvr).
      { intros k v' old Hin Hl. rewrite lookup_set in Hl. destruct (key_eqb k (K s0)) eqn:E.
        - apply key_eqb_eq in E; subst k. exfalso. apply Nin. apply in_map_iff. exists (K s0, v'); auto.
        - apply (HC k v' old); [right; assumption | assumption]. }
      exists r. splits; auto.
      { simpl. unfold get in Hm |- *. rewrite Hm. exact Hr. }
      intros s q. rewrite Hvr. simpl. rewrite lookup_set. rewrite !key_eqb_K.
      destruct (String.eqb s s0) eqn:E.
      + apply String.eqb_eq in E; subst s0.
        assert (E' : lookup (K s) L' = None) by (apply lookup_None; assumption).
        rewrite E'. rewrite njoin_none_r. rewrite Hv. unfold get.
        destruct (lookup (K s) acc); [reflexivity | rewrite view_Nil; reflexivity].
      + reflexivity.
  Qed.

  (** Load's merge function on well-formed trees: the later source wins per
      leaf, the earlier one fills what the later one does not define *)
  Theorem merge_top_view d f :
    Tidy (Map d) -> Tidy (Map f) -> compat (Map d) (Map f) ->
    exists r, merge_top sh false false d f = Ok r /\ Tidy (Map r) /\
              forall p, view p (Map r) = njoin (view p (Map d)) (view p (Map f)).
  Proof.
    intros Td Tf C. rewrite merge_top_unfold.
    destruct (Tidy_Map_inv _ Tf) as [NDf FEf].
    assert (P1 : Permutation (sh 1 f) f) by apply sh_perm.
    assert (ND1 : NoDup (map fst (sh 1 f))).
    { eapply perm_NoDup_keys; [apply Permutation_sym; exact P1 | exact NDf]. }
    destruct (merge_top_fold (sh 1 f) d) as (r & Hr & Tr & Hv); auto.
    - eapply Permutation_Forall; [apply Permutation_sym; exact P1 | exact FEf].
    - intros k v old Hin Hl.
      assert (Hin' : In (k, v) f) by (eapply Permutation_in; eauto).
      assert (Hs : exists s, k = K s).
      { rewrite Forall_forall in FEf. destruct (FEf _ Hin') as ((s & Hs) & _). simpl in Hs. eauto. }
      destruct Hs as [s ->]. eapply compat_lookup; [exact C | exact Hl |]. apply NoDup_lookup; assumption.
    - exists r. splits; auto. intros [|[s|i] q]; try reflexivity.
      rewrite Hv. rewrite (view_perm (SK s :: q) (sh 1 f) f ND1 P1). reflexivity.
  Qed.
End WithOrder.
