(** C20 — koanf's env provider followed by maps.Unflatten, on a coherent
    environment: the top-level map that koanfFromEnv's merge function receives,
    characterised per top-level name by the contributions of the variables
    ("entries": key prefix with its "#hash" suffix, converted value). *)
From HV Require Import Base.Prelude C20.Model C20.Spec C20.Facts C20.MergeProofs C20.ConvertProofs
  C20.NodeAlg C20.TrieProofs.
From Coq Require Import Permutation.

(** key prefix of an entry *)
Definition ekey (e : key * cfg) : list string := fst (fst e).

(** what an entry shows at a path: its value below its key prefix *)
Definition econ (p : path) (e : key * cfg) : node := sview p (nest (ekey e) (snd e)).

Definition named (s : string) (e : key * cfg) : bool :=
  match ekey e with s' :: _ => String.eqb s' s | [] => false end.

Definition flatb (s : string) (e : key * cfg) : bool := segs_eqb (ekey e) [s].

Definition deepb (s : string) (e : key * cfg) : bool := named s e && (2 <=? length (ekey e)).

(** entries as the env provider produces them *)
Definition EntOk (e : key * cfg) : Prop :=
  ekey e <> [] /\ (exists tg, snd (fst e) = Some tg) /\ Plain (snd e) /\ Tidy (snd e).

Definition is_lst (n : node) : bool := match n with NLst _ => true | _ => false end.

(** pairwise coherence of entries: at every path their contributions agree on
    the shape and are not two scalars; and (no C20-F3 shape) no two of them
    address the same list below a map key *)
Definition ecoh (e1 e2 : key * cfg) : Prop :=
  (forall p, nc (econ p e1) (econ p e2)) /\
  (forall k, 2 <= length k -> is_lst (econ (map SK k) e1) && is_lst (econ (map SK k) e2) = false).

Lemma ecoh_sym e1 e2 : ecoh e1 e2 -> ecoh e2 e1.
Proof.
  intros [A B]. split; [intro p; apply nc_sym; apply A | intros k H; rewrite andb_comm; apply B; assumption].
Qed.

Lemma econ_root e : ekey e <> [] -> econ [] e = NMap.
Proof. unfold econ. intro N. destruct (nest_is_map (ekey e) (snd e) N) as [m ->]. reflexivity. Qed.

Lemma econ_SI i q e : ekey e <> [] -> econ (SI i :: q) e = NNone.
Proof. unfold econ. intro N. destruct (nest_is_map (ekey e) (snd e) N) as [m ->]. reflexivity. Qed.

Lemma econ_other s q e : named s e = false -> ekey e <> [] -> econ (SK s :: q) e = NNone.
Proof.
  unfold econ, named. destruct (ekey e) as [|s' r]; [congruence|]. intros H _.
  rewrite sview_nest_cons. rewrite String.eqb_sym, H. reflexivity.
Qed.

Lemma econ_named s q e r : ekey e = s :: r -> econ (SK s :: q) e = sview q (nest r (snd e)).
Proof. unfold econ. intros ->. rewrite sview_nest_cons, String.eqb_refl. reflexivity. Qed.

Lemma econ_flat s q e : flatb s e = true -> econ (SK s :: q) e = sview q (snd e).
Proof. unfold flatb. intro H. apply segs_eqb_eq in H. rewrite (econ_named s q e [] H). reflexivity. Qed.

Lemma flatb_named s e : flatb s e = true -> named s e = true.
Proof. unfold flatb, named. intro H. apply segs_eqb_eq in H. rewrite H. apply String.eqb_refl. Qed.

Lemma flatb_not_deep s e : flatb s e = true -> deepb s e = false.
Proof. unfold flatb, deepb. intro H. apply segs_eqb_eq in H. rewrite H. simpl. apply andb_false_r. Qed.

Lemma sview_map_prefix : forall ks u, ks <> [] ->
  forall ks1 ks2, ks = ks1 ++ ks2 -> ks2 <> [] -> sview (map SK ks1) (nest ks u) = NMap.
Proof.
  induction ks as [|s r IH]; intros u N ks1 ks2 E N2; [congruence|].
  destruct ks1 as [|s1 r1].
  - destruct (nest_is_map (s :: r) u N) as [m ->]. reflexivity.
  - simpl in E. inv E. simpl map. rewrite sview_nest_cons, String.eqb_refl.
    apply (IH u) with (ks2 := ks2); auto. destruct r1; simpl; [assumption | discriminate].
Qed.

Lemma sview_map_full : forall ks u, sview (map SK ks) (nest ks u) = sview [] u.
Proof.
  induction ks as [|s r IH]; intro u; [reflexivity|].
  simpl map. rewrite sview_nest_cons, String.eqb_refl. apply IH.
Qed.

Lemma Plain_root u : Plain u -> (exists w, sview [] u = NLeaf w) \/ (exists n, sview [] u = NLst n).
Proof. destruct u; simpl; try tauto; eauto. Qed.

(** a flat and a deep entry of the same name do not cohere *)
Lemma flat_deep_incoherent s e1 e2 :
  EntOk e1 -> EntOk e2 -> flatb s e1 = true -> deepb s e2 = true -> ~ ecoh e1 e2.
Proof.
  intros (N1 & _ & P1 & _) (N2 & _ & _ & _) F D [C _].
  specialize (C [SK s]). destruct C as [C _].
  rewrite (econ_flat s [] e1 F) in C.
  unfold deepb in D. apply andb_true_iff in D as [D1 D2]. unfold named in D1.
  destruct (ekey e2) as [|s' [|s2 r]] eqn:E2; try discriminate.
  apply String.eqb_eq in D1; subst s'.
  rewrite (econ_named s [] e2 (s2 :: r) E2) in C.
  destruct (nest_is_map (s2 :: r) (snd e2)) as [m Em]; [discriminate|]. rewrite Em in C.
  destruct (Plain_root _ P1) as [[w Hw] | [n Hn]]; rewrite ?Hw, ?Hn in C; discriminate.
Qed.

Definition grp (s : string) (m : list (key * cfg)) : list (key * cfg) :=
  filter (fun kv => segs_eqb (segk kv) [s]) m.

Lemma grp_cons s k v r :
  grp s ((k, v) :: r) = if segs_eqb (fst k) [s] then (k, v) :: grp s r else grp s r.
Proof. reflexivity. Qed.

Lemma grp_app s m1 m2 : grp s (m1 ++ m2) = grp s m1 ++ grp s m2.
Proof. apply filter_app. Qed.

Lemma grp_nil_find s m : grp s m = [] -> find_seg s m = None.
Proof.
  induction m as [|[k v] r IH]; [reflexivity|]. rewrite grp_cons. simpl.
  destruct (segs_eqb (fst k) [s]); [discriminate | assumption].
Qed.

Lemma grp_In s m kv : In kv (grp s m) <-> In kv m /\ segk kv = [s].
Proof. unfold grp. rewrite filter_In, segs_eqb_eq. tauto. Qed.

Lemma grp_set_other s k v m : fst k <> [s] -> grp s (set k v m) = grp s m.
Proof.
  intros N.
  assert (Nk : segs_eqb (fst k) [s] = false).
  { destruct (segs_eqb (fst k) [s]) eqn:E; [apply segs_eqb_eq in E; contradiction | reflexivity]. }
  induction m as [|[k0 v0] r IH].
  - simpl set. rewrite grp_cons, Nk. reflexivity.
  - simpl set. destruct (key_eqb k k0) eqn:E.
    + apply key_eqb_eq in E; subst k0. rewrite !grp_cons, Nk. reflexivity.
    + rewrite !grp_cons, IH. reflexivity.
Qed.

Lemma K_segs_neq s k0 : segs_eqb (fst k0) [s] = false -> key_eqb (K s) k0 = false.
Proof.
  intro E. apply key_eqb_neq. intro Hk. subst k0. simpl in E.
  rewrite segs_eqb_single, String.eqb_refl in E. discriminate.
Qed.

Lemma grp_set_single s v v' m : grp s m = [(K s, v)] -> grp s (set (K s) v' m) = [(K s, v')].
Proof.
  induction m as [|[k0 v0] r IH]; [discriminate|].
  rewrite grp_cons. simpl set. destruct (segs_eqb (fst k0) [s]) eqn:E.
  - intro H. inv H. rewrite key_eqb_refl. rewrite grp_cons. simpl fst.
    rewrite segs_eqb_single, String.eqb_refl. reflexivity.
  - intro H. rewrite (K_segs_neq s k0 E). rewrite grp_cons, E. auto.
Qed.

Lemma grp_single_lookup s v m : grp s m = [(K s, v)] -> lookup (K s) m = Some v.
Proof.
  induction m as [|[k0 v0] r IH]; [discriminate|].
  rewrite grp_cons. simpl lookup. destruct (segs_eqb (fst k0) [s]) eqn:E.
  - intro H. inv H. rewrite key_eqb_refl. reflexivity.
  - intro H. rewrite (K_segs_neq s k0 E). auto.
Qed.

Section Unflatten.
  (** invariant of the fold of maps.Unflatten over the entries [P] processed so far *)
  Record UInv (U P : list (key * cfg)) : Prop := {
    ui_nodup : NoDup (map fst U);
    ui_entries : Forall (TrieE SubT) U;
    ui_deep : forall s, existsb (deepb s) P = true ->
              exists sub, grp s U = [(K s, Map sub)] /\
                          forall q, sview q (Map sub) = jfold NNone (map (econ (SK s :: q)) P);
    ui_flat : forall s, existsb (deepb s) P = false -> grp s U = filter (flatb s) P
  }.

  Lemma UInv_nil : UInv [] [].
  Proof. constructor; simpl; try constructor; try discriminate; reflexivity. Qed.

  Lemma jfold_snoc y L a : jfold y (L ++ [a]) = njoin (jfold y L) a.
  Proof. rewrite jfold_app. reflexivity. Qed.

  Lemma existsb_snoc {A} (f : A -> bool) l x : existsb f (l ++ [x]) = existsb f l || f x.
  Proof. rewrite existsb_app. simpl. rewrite orb_false_r. reflexivity. Qed.

  Lemma named_of_deepb s e : deepb s e = true -> named s e = true.
  Proof. unfold deepb. intro H. apply andb_true_iff in H. tauto. Qed.

  (** no entry of [P] is named [s]: nothing there yet *)
  Lemma jfold_unnamed s q P :
    Forall EntOk P -> (forall e, In e P -> named s e = false) ->
    jfold NNone (map (econ (SK s :: q)) P) = NNone.
  Proof.
    intros HE H. apply jfold_none_elems. apply Forall_map. apply Forall_forall. intros e He.
    apply econ_other; [auto|]. rewrite Forall_forall in HE. destruct (HE _ He). assumption.
  Qed.

  Lemma step_flat U P tg v s0 :
    let e := (([s0], Some tg), v) in
    UInv U P -> Forall EntOk (P ++ [e]) -> NoDup (map fst (P ++ [e])) -> PW ecoh (P ++ [e]) ->
    UInv (ins_kv U e) (P ++ [e]).
  Proof.
    intros e [ND FE HD HF] HE NDP HC.
    apply Forall_app in HE as [HEP HEe]. apply Forall_cons_iff in HEe as [HEe _].
    destruct HEe as (Ne & _ & Pe & Te). simpl in Pe, Te.
    assert (Hk : ekey e = [s0]) by reflexivity.
    assert (Fe : flatb s0 e = true) by (unfold flatb; rewrite Hk; apply segs_eqb_eq; reflexivity).
    (* no deep entry of that name so far *)
    assert (NoDeep : existsb (deepb s0) P = false).
    { destruct (existsb (deepb s0) P) eqn:E; [|reflexivity]. exfalso.
      apply existsb_exists in E as (e' & Hin & Hd).
      apply in_split in Hin as (l1 & l2 & ->).
      assert (C : ecoh e' e).
      { eapply PW_In with (l1 := l1) (l2 := l2) (l3 := []); [exact ecoh_sym | | exact HC].
        rewrite <- app_assoc. reflexivity. }
      apply ecoh_sym in C. revert C. apply (flat_deep_incoherent s0); auto.
      - unfold EntOk. splits; simpl; eauto.
      - rewrite Forall_forall in HEP. apply HEP. apply in_or_app. right. left. reflexivity. }
    assert (G0 := HF s0 NoDeep).
    assert (Nin : ~ In ([s0], Some tg) (map fst U)).
    { intro H. apply in_map_iff in H as (kv & Ekv & Hin).
      assert (Hg : In kv (grp s0 U)) by (apply grp_In; split; [assumption | unfold segk; rewrite Ekv; reflexivity]).
      rewrite G0 in Hg. apply filter_In in Hg as [Hg _].
      rewrite map_app in NDP. simpl in NDP. apply NoDup_remove_2 in NDP. rewrite app_nil_r in NDP.
      apply NDP. apply in_map_iff. exists kv. split; assumption. }
    assert (Ei : ins_kv U e = U ++ [e]).
    { unfold ins_kv, e. simpl. apply set_new. assumption. }
    rewrite Ei.
    constructor.
    - rewrite map_app. simpl. apply NoDup_snoc; assumption.
    - apply Forall_app. split; [assumption|]. constructor; [|constructor].
      exists s0. simpl. split; [reflexivity|]. left. eauto.
    - intros s Hs. rewrite existsb_snoc in Hs.
      assert (Ns : s <> s0).
      { intro; subst s. rewrite NoDeep, (flatb_not_deep s0 e Fe) in Hs. discriminate. }
      assert (Nn : named s e = false).
      { unfold named. rewrite Hk. destruct (String.eqb s0 s) eqn:E; [apply String.eqb_eq in E; congruence | reflexivity]. }
      assert (Hs' : existsb (deepb s) P = true).
      { unfold deepb at 2 in Hs. rewrite Nn in Hs. simpl in Hs. rewrite orb_false_r in Hs. assumption. }
      destruct (HD s Hs') as (sub & Hg & Hv).
      exists sub. split.
      + rewrite grp_app, Hg. unfold e. rewrite grp_cons. simpl fst.
        rewrite segs_eqb_single. destruct (String.eqb s0 s) eqn:E; [apply String.eqb_eq in E; congruence | reflexivity].
      + intro q. rewrite Hv, map_app.
        change (map (econ (SK s :: q)) [e]) with [econ (SK s :: q) e]. rewrite jfold_snoc.
        rewrite (econ_other s q e Nn Ne). rewrite njoin_none_r. reflexivity.
    - intros s Hs. rewrite existsb_snoc in Hs. apply orb_false_iff in Hs as [Hs _].
      rewrite grp_app, (HF s Hs), filter_app. f_equal.
  Qed.

  Lemma insert_path_cons m s rest tg v : rest <> [] ->
    insert_path m (s :: rest) tg v =
    match lookup (K s) m with
    | None => set (K s) (Map (insert_path [] rest tg v)) m
    | Some (Map sub) => set (K s) (Map (insert_path sub rest tg v)) m
    | Some _ => insert_path m rest tg v
    end.
  Proof. destruct rest; [congruence | reflexivity]. Qed.

  Lemma filter_none {A} (f : A -> bool) l : (forall x, In x l -> f x = false) -> filter f l = [].
  Proof.
    induction l as [|x r IH]; intro H; simpl; [reflexivity|].
    rewrite (H x (or_introl eq_refl)). apply IH. intros y Hy. apply H. right; assumption.
  Qed.

  Lemma named_cases s e : named s e = true -> flatb s e = true \/ deepb s e = true.
  Proof.
    unfold named, flatb, deepb, named. destruct (ekey e) as [|s' [|s2 r]]; try discriminate.
    - intro H. apply String.eqb_eq in H; subst. left. apply segs_eqb_eq. reflexivity.
    - intro H. right. rewrite H. reflexivity.
  Qed.

  Lemma nc_leaf_or_list_none x y :
    nc x y -> ((exists w, y = NLeaf w) \/ (exists n, y = NLst n /\ is_lst x = false)) -> x = NNone.
  Proof.
    intros [A B] [[w ->] | (n & -> & C)]; destruct x; simpl in *; try discriminate; reflexivity.
  Qed.

  Lemma nc_map_kinds x : nc x NMap -> x = NNone \/ x = NMap.
  Proof. intros [A _]. destruct x; simpl in A; try discriminate; auto. Qed.

  Lemma step_deep U P tg v s0 rest :
    let e := ((s0 :: rest, Some tg), v) in
    rest <> [] ->
    UInv U P -> Forall EntOk (P ++ [e]) -> PW ecoh (P ++ [e]) ->
    UInv (ins_kv U e) (P ++ [e]).
  Proof.
    intros e Nr [ND FE HD HF] HE HC.
    apply Forall_app in HE as [HEP HEe]. apply Forall_cons_iff in HEe as [HEe _].
    destruct HEe as (Ne & _ & Pe & Te). simpl in Pe, Te.
    assert (Hk : ekey e = s0 :: rest) by reflexivity.
    assert (De : deepb s0 e = true).
    { unfold deepb, named. rewrite Hk, String.eqb_refl. destruct rest; [congruence | reflexivity]. }
    assert (Call : forall e', In e' P -> ecoh e' e).
    { intros e' Hin. apply in_split in Hin as (l1 & l2 & ->).
      eapply PW_In with (l1 := l1) (l2 := l2) (l3 := []); [exact ecoh_sym | | exact HC].
      rewrite <- app_assoc. reflexivity. }
    assert (NoFlat : forall e', In e' P -> flatb s0 e' = false).
    { intros e' Hin. destruct (flatb s0 e') eqn:F; [|reflexivity]. exfalso.
      apply (flat_deep_incoherent s0 e' e); auto.
      - rewrite Forall_forall in HEP. auto.
      - unfold EntOk. splits; simpl; eauto. }
    assert (Hother : forall s, s <> s0 -> named s e = false).
    { intros s N. unfold named. rewrite Hk. destruct (String.eqb s0 s) eqn:E; [apply String.eqb_eq in E; congruence | reflexivity]. }
    assert (Hfe : forall s, flatb s e = false).
    { intro s. unfold flatb. rewrite Hk. destruct rest as [|s2 r]; [congruence|].
      destruct (segs_eqb (s0 :: s2 :: r) [s]) eqn:E; [apply segs_eqb_eq in E; discriminate | reflexivity]. }
    assert (Hec : forall q, econ (SK s0 :: q) e = sview q (nest rest v)).
    { intro q. apply (econ_named s0 q e rest Hk). }
    unfold ins_kv. unfold e at 1 2 3. simpl fst. simpl snd. rewrite insert_path_cons by assumption.
    destruct (existsb (deepb s0) P) eqn:Ex.
    - (* the node of that name exists *)
      destruct (HD s0 Ex) as (sub & Hg & Hv).
      rewrite (grp_single_lookup _ _ _ Hg).
      assert (Hin : In (K s0, Map sub) U).
      { assert (H : In (K s0, Map sub) (grp s0 U)) by (rewrite Hg; left; reflexivity). apply grp_In in H. tauto. }
      assert (TE : TrieE SubT (K s0, Map sub)) by (rewrite Forall_forall in FE; auto).
      destruct (TrieE_map_internal _ _ TE) as (_ & Ssub & Nsub).
      destruct (sub_insert v tg Pe Te rest sub Ssub Nr) as (S' & N' & V').
      { rewrite Hv. apply jfold_none_elems. apply Forall_map. apply Forall_forall. intros e' He'.
        destruct (Call e' He') as [C1 C2].
        specialize (C1 (map SK (s0 :: rest))). specialize (C2 (s0 :: rest)).
        change (SK s0 :: map SK rest) with (map SK (s0 :: rest)).
        assert (Ee : econ (map SK (s0 :: rest)) e = sview [] v).
        { unfold econ. rewrite Hk. apply sview_map_full. }
        rewrite Ee in C1, C2.
        apply (nc_leaf_or_list_none _ _ C1).
        destruct (Plain_root _ Pe) as [[w Hw] | [n Hn]]; [left; eauto | right].
        exists n. split; [assumption|]. rewrite Hn in C2. simpl in C2. rewrite andb_true_r in C2.
        apply C2. destruct rest; [congruence | simpl; lia]. }
      { intros ks1 ks2 E N1 N2. rewrite Hv. apply jfold_kinds; [left; reflexivity|].
        apply Forall_map. apply Forall_forall. intros e' He'.
        destruct (Call e' He') as [C1 _]. specialize (C1 (map SK (s0 :: ks1))).
        assert (Ee : econ (map SK (s0 :: ks1)) e = NMap).
        { unfold econ. rewrite Hk. apply (sview_map_prefix (s0 :: rest) v) with (ks2 := ks2); [discriminate | rewrite E; reflexivity | assumption]. }
        rewrite Ee in C1. apply nc_map_kinds. assumption. }
      constructor.
      + apply set_NoDup. assumption.
      + rewrite Forall_forall in *. intros x Hx. apply In_set in Hx as [->|Hx]; [|auto].
        exists s0. simpl. split; [reflexivity|]. right. splits; auto. intro E0. injection E0. exact N'.
      + intros s Hs. destruct (String.eqb s s0) eqn:E.
        * apply String.eqb_eq in E; subst s. exists (insert_path sub rest (Some tg) v). split.
          -- apply (grp_set_single s0 (Map sub)). assumption.
          -- intro q. rewrite V', Hv, map_app.
             change (map (econ (SK s0 :: q)) [e]) with [econ (SK s0 :: q) e]. rewrite jfold_snoc, Hec. reflexivity.
        * assert (Ns : s <> s0) by (intro; subst; rewrite String.eqb_refl in E; discriminate).
          rewrite existsb_snoc in Hs. unfold deepb at 2 in Hs. rewrite (Hother s Ns) in Hs. simpl in Hs. rewrite orb_false_r in Hs.
          destruct (HD s Hs) as (sub1 & Hg1 & Hv1). exists sub1. split.
          -- rewrite grp_set_other; [assumption | simpl; congruence].
          -- intro q. rewrite Hv1, map_app.
             change (map (econ (SK s :: q)) [e]) with [econ (SK s :: q) e]. rewrite jfold_snoc.
             rewrite (econ_other s q e (Hother s Ns) Ne), njoin_none_r. reflexivity.
      + intros s Hs. rewrite existsb_snoc in Hs. apply orb_false_iff in Hs as [Hs1 Hs2].
        assert (Ns : s <> s0) by (intro; subst; congruence).
        rewrite grp_set_other by (simpl; congruence).
        rewrite (HF s Hs1), filter_app. simpl. rewrite Hfe, app_nil_r. reflexivity.
    - (* the node of that name is new *)
      assert (G0 : grp s0 U = []).
      { rewrite (HF s0 Ex). apply filter_none. assumption. }
      assert (Lk : lookup (K s0) U = None).
      { destruct (lookup (K s0) U) eqn:E; [|reflexivity]. apply lookup_K_find_seg in E.
        exfalso. apply E. apply grp_nil_find. assumption. }
      rewrite Lk.
      destruct (sub_insert v tg Pe Te rest [] (SubT_map [] (NoDup_nil _) (Forall_nil _)) Nr) as (S' & N' & V').
      { destruct rest; [congruence | reflexivity]. }
      { intros ks1 ks2 E N1 N2. left. destruct ks1; [congruence | reflexivity]. }
      assert (Nin : ~ In (K s0) (map fst U)) by (apply lookup_None; assumption).
      rewrite set_new by assumption.
      assert (Unn : forall e', In e' P -> named s0 e' = false).
      { intros e' He'. destruct (named s0 e') eqn:Nm; [|reflexivity]. exfalso.
        destruct (named_cases _ _ Nm) as [F|D].
        - rewrite (NoFlat e' He') in F. discriminate.
        - assert (X : existsb (deepb s0) P = true) by (apply existsb_exists; eauto). congruence. }
      constructor.
      + rewrite map_app. simpl. apply NoDup_snoc; assumption.
      + apply Forall_app. split; [assumption|]. constructor; [|constructor].
        exists s0. simpl. split; [reflexivity|]. right. splits; auto. intro E0. injection E0. exact N'.
      + intros s Hs. destruct (String.eqb s s0) eqn:E.
        * apply String.eqb_eq in E; subst s. exists (insert_path [] rest (Some tg) v). split.
          -- rewrite grp_app, G0, grp_cons. simpl fst. rewrite segs_eqb_single, String.eqb_refl. reflexivity.
          -- intro q. rewrite V', map_app.
             change (map (econ (SK s0 :: q)) [e]) with [econ (SK s0 :: q) e]. rewrite jfold_snoc, Hec.
             rewrite (jfold_unnamed s0 q P HEP Unn). rewrite njoin_none_l.
             apply sview_empty_map_join. assumption.
        * assert (Ns : s <> s0) by (intro; subst; rewrite String.eqb_refl in E; discriminate).
          rewrite existsb_snoc in Hs. unfold deepb at 2 in Hs. rewrite (Hother s Ns) in Hs. simpl in Hs. rewrite orb_false_r in Hs.
          destruct (HD s Hs) as (sub1 & Hg1 & Hv1). exists sub1. split.
          -- rewrite grp_app, Hg1, grp_cons. simpl fst. rewrite segs_eqb_single.
             destruct (String.eqb s0 s) eqn:E'; [apply String.eqb_eq in E'; congruence | reflexivity].
          -- intro q. rewrite Hv1, map_app.
             change (map (econ (SK s :: q)) [e]) with [econ (SK s :: q) e]. rewrite jfold_snoc.
             rewrite (econ_other s q e (Hother s Ns) Ne), njoin_none_r. reflexivity.
      + intros s Hs. rewrite existsb_snoc in Hs. apply orb_false_iff in Hs as [Hs1 Hs2].
        assert (Ns : s <> s0) by (intro; subst; congruence).
        rewrite grp_app, grp_cons. simpl fst. rewrite segs_eqb_single.
        destruct (String.eqb s0 s) eqn:E'; [apply String.eqb_eq in E'; congruence|].
        rewrite (HF s Hs1), filter_app. simpl. rewrite Hfe. reflexivity.
  Qed.
End Unflatten.
