(** C20 — the loader with the repair of C20-F3 ([fix3 = true]: cleanSuffix merges
    entries that receive the same name): cleanSuffix on well-formed trees, the
    merge function of Load, and folds of same-named well-formed values. *)
From HV Require Import Base.Prelude C20.Model C20.Spec C20.Facts C20.MergeProofs C20.ConvertProofs
  C20.NodeAlg C20.TrieProofs C20.UnflattenProofs C20.EnvProofs.
From Coq Require Import Permutation.

Section WithOrder.
  Variable sh : nat -> list (key * cfg) -> list (key * cfg).
  Hypothesis sh_perm : forall site l, Permutation (sh site l) l.

  (** the children of a map, cleaned (first loop of the repaired cleanSuffix) *)
  Definition clean_kids : list (key * cfg) -> res (list (key * cfg)) :=
    fix go (m : list (key * cfg)) : res (list (key * cfg)) :=
      match m with
      | [] => Ok []
      | (k, v) :: r =>
          match clean_fixed sh v, go r with
          | Ok cv, Ok r' => Ok ((strip k, cv) :: r')
          | _, _ => Panic
          end
      end.

  Lemma clean_fixed_map m :
    clean_fixed sh (Map m) =
    match clean_kids m with
    | Panic => Panic
    | Ok cm => match fold_left (top_step sh false false) (sh 2 cm) (Ok []) with
               | Ok a => Ok (Map a)
               | Panic => Panic
               end
    end.
  Proof. reflexivity. Qed.

  Lemma clean_fixed_plain u : Plain u -> clean_fixed sh u = Ok u.
  Proof. destruct u; simpl; tauto. Qed.

  (** what [merge] does with a well-formed source when the destination is nil *)
  Definition cl_good (fix3 : bool) : Prop :=
    forall v, Tidy v ->
      exists r, merge sh fix3 Nil v = Ok r /\ Tidy r /\ (v <> Nil -> r <> Nil) /\
                forall p, view p r = view p v.

  Lemma cl_good_false : cl_good false.
  Proof.
    intros v T. exists (clean_asis sh v). destruct (clean_tidy sh sh_perm v T) as (A & B & C).
    unfold merge. simpl. splits; auto.
  Qed.

  (** folding same-named well-formed values into an accumulator (names may repeat) *)
  Lemma tidy_fold fix3 : cl_good fix3 -> forall L acc,
    Forall entry_ok L -> Tidy (Map acc) ->
    (forall s q, PW nc (view (SK s :: q) (Map acc) :: map (fun kv => view q (snd kv)) (grp s L))) ->
    exists r, fold_left (top_step sh fix3 false) L (Ok acc) = Ok r /\ Tidy (Map r) /\
              forall s q, view (SK s :: q) (Map r)
                          = jfold (view (SK s :: q) (Map acc)) (map (fun kv => view q (snd kv)) (grp s L)).
  Proof.
    intro Hcl. induction L as [|[k v] L' IH]; intros acc FE Ta HP.
    - exists acc. simpl. splits; auto.
    - apply Forall_cons_iff in FE as [((s0 & Hs0) & Nv & Tv) FE']. simpl in Hs0, Nv, Tv. subst k.
      assert (G0 : grp s0 ((K s0, v) :: L') = (K s0, v) :: grp s0 L').
      { rewrite grp_cons. simpl fst. rewrite segs_eqb_single, String.eqb_refl. reflexivity. }
      assert (Gs : forall s, s <> s0 -> grp s ((K s0, v) :: L') = grp s L').
      { intros s N. rewrite grp_cons. simpl fst. rewrite segs_eqb_single.
        destruct (String.eqb s0 s) eqn:E; [apply String.eqb_eq in E; congruence | reflexivity]. }
      assert (X : exists nv, merge sh fix3 (get (K s0) acc) v = Ok nv /\ nv <> Nil /\ Tidy nv /\
                             forall q, view q nv = njoin (view q (get (K s0) acc)) (view q v)).
      { unfold get. destruct (lookup (K s0) acc) as [old|] eqn:E.
        - destruct (Tidy_lookup _ _ _ Ta E) as [No To].
          apply (merge_with_view sh sh_perm _ old v No Nv To Tv).
          intro q. specialize (HP s0 q). rewrite G0 in HP. simpl map in HP.
          apply PW_cons_iff in HP as [HP _]. apply Forall_cons_iff in HP as [[HP _] _].
          simpl in HP. rewrite E in HP. exact HP.
        - destruct (Hcl v Tv) as (r & Hr & Tr & Nr & Vr). exists r. splits; auto.
          intro q. rewrite Vr, view_Nil, njoin_none_l. reflexivity. }
      destruct X as (nv & Hm & Nn & Tn & Hv).
      destruct (IH (set (K s0) nv acc) FE' (Tidy_set _ _ _ Ta Nn Tn)) as (r & Hr & Tr & Hvr).
      + intros s q. rewrite view_set_K. destruct (String.eqb s s0) eqn:E.
        * apply String.eqb_eq in E; subst s. specialize (HP s0 q). rewrite G0 in HP. simpl map in HP.
          apply PW_njoin_head in HP. rewrite Hv. unfold get. simpl in HP.
          destruct (lookup (K s0) acc); [exact HP | rewrite view_Nil; exact HP].
        * assert (Ns : s <> s0) by (intro; subst; rewrite String.eqb_refl in E; discriminate).
          specialize (HP s q). rewrite (Gs s Ns) in HP. exact HP.
      + exists r. splits; auto.
        * simpl. unfold get in Hm |- *. rewrite Hm. exact Hr.
        * intros s q. rewrite Hvr, view_set_K. destruct (String.eqb s s0) eqn:E.
          -- apply String.eqb_eq in E; subst s. rewrite G0. simpl. rewrite Hv. unfold get.
             destruct (lookup (K s0) acc); [reflexivity | rewrite view_Nil; reflexivity].
          -- assert (Ns : s <> s0) by (intro; subst; rewrite String.eqb_refl in E; discriminate).
             rewrite (Gs s Ns). reflexivity.
  Qed.

  Lemma grp_nodup_lookup s (L : list (key * cfg)) :
    plain_keys L -> NoDup (map fst L) ->
    grp s L = match lookup (K s) L with Some v => [(K s, v)] | None => [] end.
  Proof.
    induction L as [|[k v] r IH]; intros PK ND; [reflexivity|].
    apply Forall_cons_iff in PK as [[s0 Hs0] PK']. simpl in Hs0. subst k.
    simpl in ND. apply NoDup_cons_iff in ND as [Nin ND'].
    rewrite grp_cons. simpl fst. simpl lookup. rewrite key_eqb_K, segs_eqb_single, (String.eqb_sym s0 s).
    destruct (String.eqb s s0) eqn:E.
    - apply String.eqb_eq in E. subst s0. rewrite (IH PK' ND').
      assert (L0 : lookup (K s) r = None) by (apply lookup_None; assumption). rewrite L0. reflexivity.
    - apply IH; assumption.
  Qed.

  (** the repaired cleanSuffix leaves a well-formed tree as it is (up to the order of entries) *)
  Lemma clean_fixed_tidy : forall t, Tidy t ->
    exists r, clean_fixed sh t = Ok r /\ Tidy r /\ (t <> Nil -> r <> Nil) /\ forall p, view p r = view p t.
  Proof.
    induction t as [| v | m IH | l IH] using cfg_ind'; intro T;
      try (eexists; simpl; splits; [reflexivity | assumption | auto | reflexivity]; fail).
    destruct (Tidy_Map_inv _ T) as [ND FE].
    (* the cleaned children *)
    assert (K1 : exists cm, clean_kids m = Ok cm /\ map fst cm = map fst m /\ Forall entry_ok cm /\
                            forall s, match lookup (K s) m with
                                      | Some v => exists cv, lookup (K s) cm = Some cv /\ forall q, view q cv = view q v
                                      | None => lookup (K s) cm = None
                                      end).
    { clear T ND. induction m as [|[k v] r IHr]; [exists []; simpl; splits; auto|].
      apply Forall_cons_iff in IH as [IH0 IHR]. apply Forall_cons_iff in FE as [((s0 & Hs0) & Nv & Tv) FE'].
      simpl in Hs0, Nv, Tv, IH0. subst k.
      destruct (IH0 Tv) as (cv & Hcv & Tcv & Ncv & Vcv). destruct (IHr IHR FE') as (cr & Hcr & Kcr & Fcr & Lcr).
      exists ((K s0, cv) :: cr). simpl. rewrite Hcv, Hcr. splits; auto.
      - simpl. f_equal. assumption.
      - constructor; [|assumption]. unfold entry_ok; simpl. splits; eauto.
      - intro s. rewrite !key_eqb_K. destruct (String.eqb s s0); [eauto | apply Lcr]. }
    destruct K1 as (cm & Hk & Kcm & Fcm & Lcm).
    assert (NDc : NoDup (map fst cm)) by (rewrite Kcm; assumption).
    assert (P2 : Permutation (sh 2 cm) cm) by apply sh_perm.
    assert (ND2 : NoDup (map fst (sh 2 cm))) by (eapply perm_NoDup_keys; [apply Permutation_sym; exact P2 | exact NDc]).
    assert (F2 : Forall entry_ok (sh 2 cm)) by (eapply Permutation_Forall; [apply Permutation_sym; exact P2 | exact Fcm]).
    destruct (merge_top_fold sh sh_perm (sh 2 cm) [] F2 ND2) as (r & Hr & Tr & Vr).
    { apply Tidy_Map_intro; constructor. }
    { intros k v old _ H. discriminate. }
    exists (Map r). rewrite clean_fixed_map, Hk, Hr. splits; auto; try discriminate.
    intros [|[s|i] q]; try reflexivity.
    rewrite Vr. rewrite (view_perm (SK s :: q) (sh 2 cm) cm ND2 P2).
    change (view (SK s :: q) (Map [])) with NNone. rewrite njoin_none_l. simpl.
    specialize (Lcm s). destruct (lookup (K s) m) as [v|].
    - destruct Lcm as (cv & -> & Vcv). apply Vcv.
    - rewrite Lcm. reflexivity.
  Qed.

  Lemma cl_good_true : cl_good true.
  Proof. intros v T. unfold merge. simpl. apply clean_fixed_tidy. assumption. Qed.

  Lemma cl_good_any fix3 : cl_good fix3.
  Proof. destruct fix3; [apply cl_good_true | apply cl_good_false]. Qed.

  (** Load's merge function, one source after the other (names are unique within a source) *)
  Lemma merge_top_fold_gen fix3 : forall L acc,
    Forall entry_ok L -> NoDup (map fst L) -> Tidy (Map acc) ->
    (forall k v old, In (k, v) L -> lookup k acc = Some old -> compat old v) ->
    exists r, fold_left (top_step sh fix3 false) L (Ok acc) = Ok r /\ Tidy (Map r) /\
              forall s q, view (SK s :: q) (Map r)
                          = njoin (view (SK s :: q) (Map acc)) (view (SK s :: q) (Map L)).
  Proof.
    induction L as [|[k v] L' IH]; intros acc FE ND Ta HC.
    - exists acc. simpl. splits; auto. intros s q. rewrite njoin_none_r. reflexivity.
    - apply Forall_cons_iff in FE as [E0 FE']. destruct E0 as ((s0 & Hs0) & Nv & Tv). simpl in Hs0, Nv, Tv. subst k.
      simpl in ND. apply NoDup_cons_iff in ND as [Nin ND'].
      assert (X : exists nv, merge sh fix3 (get (K s0) acc) v = Ok nv /\ nv <> Nil /\ Tidy nv /\
                             forall q, view q nv = njoin (view q (get (K s0) acc)) (view q v)).
      { unfold get. destruct (lookup (K s0) acc) as [old|] eqn:E.
        - destruct (Tidy_lookup _ _ _ Ta E) as [No To].
          apply (merge_with_view sh sh_perm _ old v No Nv To Tv). apply (HC (K s0) v old); [left; reflexivity | assumption].
        - destruct (cl_good_any fix3 v Tv) as (r & Hr & Tr & Nr & Vr). exists r. splits; auto.
          intro q. rewrite Vr, view_Nil, njoin_none_l. reflexivity. }
      destruct X as (nv & Hm & Nn & Tn & Hv).
      destruct (IH (set (K s0) nv acc) FE' ND' (Tidy_set _ _ _ Ta Nn Tn)) as (r & Hr & Tr & Hvr).
      { intros k v' old Hin Hl. rewrite lookup_set in Hl. destruct (key_eqb k (K s0)) eqn:E.
        - apply key_eqb_eq in E; subst k. exfalso. apply Nin. apply in_map_iff. exists (K s0, v'); auto.
        - apply (HC k v' old); [right; assumption | assumption]. }
      exists r. splits; auto.
      { simpl. unfold get in Hm |- *. rewrite Hm. exact Hr. }
      intros s q. rewrite Hvr. simpl. rewrite lookup_set. rewrite !key_eqb_K.
      destruct (String.eqb s s0) eqn:E.
      + apply String.eqb_eq in E; subst s0.
        assert (E' : lookup (K s) L' = None) by (apply lookup_None; assumption).
        rewrite E'. rewrite njoin_none_r. rewrite Hv. unfold get.
        destruct (lookup (K s) acc); [reflexivity | rewrite view_Nil; reflexivity].
      + reflexivity.
  Qed.

  (** Load's merge function on well-formed trees, with or without the repair *)
  Theorem merge_top_view_gen fix3 d f :
    Tidy (Map d) -> Tidy (Map f) -> compat (Map d) (Map f) ->
    exists r, merge_top sh fix3 false d f = Ok r /\ Tidy (Map r) /\
              forall p, view p (Map r) = njoin (view p (Map d)) (view p (Map f)).
  Proof.
    intros Td Tf C. rewrite merge_top_unfold.
    destruct (Tidy_Map_inv _ Tf) as [NDf FEf].
    assert (P1 : Permutation (sh 1 f) f) by apply sh_perm.
    assert (ND1 : NoDup (map fst (sh 1 f))).
    { eapply perm_NoDup_keys; [apply Permutation_sym; exact P1 | exact NDf]. }
    destruct (merge_top_fold_gen fix3 (sh 1 f) d) as (r & Hr & Tr & Hv); auto.
    - eapply Permutation_Forall; [apply Permutation_sym; exact P1 | exact FEf].
    - intros k v old Hin Hl.
      assert (Hin' : In (k, v) f) by (eapply Permutation_in; eauto).
      assert (Hs : exists s, k = K s).
      { rewrite Forall_forall in FEf. destruct (FEf _ Hin') as ((s & Hs) & _). simpl in Hs. eauto. }
      destruct Hs as [s ->]. eapply compat_lookup; [exact C | exact Hl |]. apply NoDup_lookup; assumption.
    - exists r. splits; auto. intros [|[s|i] q]; try reflexivity.
      rewrite Hv. rewrite (view_perm (SK s :: q) (sh 1 f) f ND1 P1). reflexivity.
  Qed.
End WithOrder.
