(** C20 — the executable domain check of the evaluator ([in_scope_b], finitely
    many candidate paths) implies the domain of the theorems ([in_scope], all
    paths); and a concrete, non-trivial load inside the domain. *)
From HV Require Import Base.Prelude C20.Model C20.Spec C20.Facts C20.MergeProofs C20.ConvertProofs
  C20.NodeAlg C20.LoadProofs C20.Proofs.
From Coq Require Import Permutation.

Lemma seg_eqb_eq a b : seg_eqb a b = true <-> a = b.
Proof.
  destruct a, b; simpl; try (split; [discriminate | congruence]).
  - rewrite String.eqb_eq. split; congruence.
  - rewrite Nat.eqb_eq. split; congruence.
Qed.

Lemma path_eqb_eq a b : path_eqb a b = true <-> a = b.
Proof. apply list_eqb_spec. exact seg_eqb_eq. Qed.

Lemma pairwise_neq_NoDup {A B} (f : A -> B) (eqb : B -> B -> bool) (l : list A) :
  (forall x y, eqb x y = true <-> x = y) ->
  pairwise (fun a b => negb (eqb (f a) (f b))) l = true -> NoDup (map f l).
Proof.
  intros E. induction l as [|x r IH]; simpl; intro H; [constructor|].
  apply andb_true_iff in H as [H1 H2]. constructor; [|auto].
  intro Hin. apply in_map_iff in Hin as (y & Ey & Hy).
  rewrite forallb_forall in H1. specialize (H1 y Hy). apply negb_true_iff in H1.
  assert (X : eqb (f x) (f y) = true) by (apply E; congruence). congruence.
Qed.

(* ------------------------------------------------------------------ tidy *)

Lemma tidy_sound : forall t, tidy t = true -> Tidy t.
Proof.
  induction t as [| v | m IH | l IH] using cfg_ind'; intro H; try constructor.
  - simpl in H. apply andb_true_iff in H as [H1 H2].
    apply (pairwise_neq_NoDup fst key_eqb m key_eqb_eq). assumption.
  - simpl in H. apply andb_true_iff in H as [_ H2].
    induction m as [|[k v] r IHr]; [constructor|].
    apply Forall_cons_iff in IH as [IH0 IHR].
    destruct k as [[|s [|s2 ss]] [tg|]]; try discriminate.
    simpl in IH0.
    assert (X : v <> Nil /\ tidy v = true /\
                (fix go (m : list (key * cfg)) : bool :=
                   match m with
                   | [] => true
                   | (k, v) :: r =>
                       match k, v with
                       | ([s], None), Nil => false
                       | ([s], None), _ => tidy v && go r
                       | _, _ => false
                       end
                   end) r = true).
    { destruct v; try discriminate; apply andb_true_iff in H2 as [A B]; splits; auto; discriminate. }
    destruct X as (Nv & Tv & Hr).
    constructor; [|apply IHr; assumption].
    simpl. splits; [exists s; reflexivity | assumption | apply IH0; assumption].
  - simpl in H. rewrite forallb_forall in H. rewrite Forall_forall in *. intros x Hx. apply IH; auto.
Qed.

(* ------------------------------------------------------------------ candidate paths *)

Definition paths_map : list (key * cfg) -> list path :=
  fix go (m : list (key * cfg)) : list path :=
    match m with
    | [] => []
    | (k, v) :: r =>
        match fst k with
        | [s] => map (cons (SK s)) (all_paths v)
        | _ => []
        end ++ go r
    end.

Definition paths_lst : nat -> list cfg -> list path :=
  fix go (i : nat) (l : list cfg) : list path :=
    match l with
    | [] => []
    | v :: r => map (cons (SI i)) (all_paths v) ++ go (S i) r
    end.

Lemma all_paths_Map m : all_paths (Map m) = [] :: paths_map m.
Proof. reflexivity. Qed.

Lemma all_paths_Lst l : all_paths (Lst l) = [] :: paths_lst 0 l.
Proof. reflexivity. Qed.

Lemma all_paths_nil_in t : In [] (all_paths t).
Proof. destruct t; left; reflexivity. Qed.

Lemma paths_map_in s c r m : In (K s, c) m -> In r (all_paths c) -> In (SK s :: r) (paths_map m).
Proof.
  induction m as [|[k v] m' IH]; simpl; [tauto|].
  intros [H|H] Hr.
  - inv H. simpl. apply in_or_app. left. apply in_map. assumption.
  - apply in_or_app. right. auto.
Qed.

Lemma paths_lst_in c r : forall l i j, nth_error l i = Some c -> In r (all_paths c) -> In (SI (j + i) :: r) (paths_lst j l).
Proof.
  induction l as [|v l' IH]; intros [|i] j H Hr; simpl in *; try discriminate.
  - inv H. rewrite Nat.add_0_r. apply in_or_app. left. apply in_map. assumption.
  - apply in_or_app. right. replace (j + S i) with (S j + i) by lia. apply IH; assumption.
Qed.

Lemma view_in_all_paths : forall p t, view p t <> NNone -> In p (all_paths t).
Proof.
  induction p as [|[s|i] r IH]; intros t H.
  - apply all_paths_nil_in.
  - destruct t; simpl in H; try congruence.
    destruct (lookup (K s) m) as [c|] eqn:E; [|congruence].
    rewrite all_paths_Map. right. apply (paths_map_in s c); [apply lookup_In; assumption | apply IH; assumption].
  - destruct t; simpl in H; try congruence.
    destruct (nth_error l i) as [c|] eqn:E; [|congruence].
    rewrite all_paths_Lst. right. apply (paths_lst_in c r l i 0); [assumption | apply IH; assumption].
Qed.

Lemma prefixes_app {A} (p r : list A) : In p (prefixes (p ++ r)).
Proof.
  induction p as [|x p IH]; simpl.
  - destruct r; left; reflexivity.
  - right. apply in_map. assumption.
Qed.

Lemma contrib_in_prefixes p e : contrib p e <> NNone -> In p (prefixes (fst e)).
Proof.
  unfold contrib. destruct (strip_prefix p (fst e)) as [r|] eqn:E; [|congruence].
  intros _. apply strip_prefix_app in E. rewrite E. apply prefixes_app.
Qed.

Lemma kcompat_by_cases x y : (x <> NNone -> y <> NNone -> kcompat x y = true) -> kcompat x y = true.
Proof. destruct x, y; simpl; intro H; try reflexivity; apply H; discriminate. Qed.

Lemma pairwise_In {A} (f : A -> A -> bool) l :
  (forall x y, f x y = f y x) -> pairwise f l = true ->
  PW (fun a b => f a b = true) l.
Proof. intros _. apply pairwise_PW. Qed.

Lemma all_none_or_some {A} (f : A -> node) l :
  (forall e, In e l -> f e = NNone) \/ (exists e, In e l /\ f e <> NNone).
Proof.
  induction l as [|x r IH]; [left; intros e []|].
  destruct (f x) eqn:E.
  - destruct IH as [IH | (e & He & Hn)].
    + left. intros e [<-|He]; auto.
    + right. exists e. split; [right; assumption | assumption].
  - right. exists x. split; [left; reflexivity | congruence].
  - right. exists x. split; [left; reflexivity | congruence].
  - right. exists x. split; [left; reflexivity | congruence].
Qed.

(** the finite check is sound for all paths *)
Theorem in_scope_b_sound d f tenv : in_scope_b d f (Some tenv) = true -> in_scope d f tenv.
Proof.
  unfold in_scope_b. intro H.
  apply andb_true_iff in H as [H Hc]. apply andb_true_iff in H as [H Hnd].
  apply andb_true_iff in H as [Htd Htf].
  set (cand := all_paths (Map d) ++ all_paths (Map f) ++ flat_map (fun e => prefixes (fst e)) tenv) in Hc.
  rewrite forallb_forall in Hc.
  assert (Cd : forall p, view p (Map d) <> NNone -> In p cand).
  { intros p Hp. apply in_or_app. left. apply view_in_all_paths. assumption. }
  assert (Cf : forall p, view p (Map f) <> NNone -> In p cand).
  { intros p Hp. apply in_or_app. right. apply in_or_app. left. apply view_in_all_paths. assumption. }
  assert (Ce : forall p e, In e tenv -> contrib p e <> NNone -> In p cand).
  { intros p e He Hp. apply in_or_app. right. apply in_or_app. right.
    apply in_flat_map. exists e. split; [assumption | apply contrib_in_prefixes; assumption]. }
  unfold in_scope. splits.
  - apply tidy_sound. assumption.
  - apply tidy_sound. assumption.
  - apply (pairwise_neq_NoDup fst path_eqb tenv path_eqb_eq). assumption.
  - intro p. apply kcompat_by_cases. intros Hd _.
    specialize (Hc p (Cd p Hd)). apply andb_true_iff in Hc as [Hc _]. apply andb_true_iff in Hc as [Hc _]. assumption.
  - apply Forall_forall. intros e He p. split; apply kcompat_by_cases; intros _ Hp;
      specialize (Hc p (Ce p e He Hp)); apply andb_true_iff in Hc as [Hc _]; apply andb_true_iff in Hc as [_ Hc];
      rewrite forallb_forall in Hc; specialize (Hc e He); apply andb_true_iff in Hc; tauto.
  - (* pairwise: for each p separately, then exchanged with the quantifier over p *)
    assert (HP : forall p, PW (fun a b => kcompat (contrib p a) (contrib p b) = true) tenv).
    { intro p.
      assert (Triv : (forall e, In e tenv -> contrib p e = NNone) \/ In p cand).
      { destruct (all_none_or_some (contrib p) tenv) as [T | (e & He & Hn)]; [left; assumption | right].
        apply (Ce p e); assumption. }
      destruct Triv as [T|T].
      - clear -T. induction tenv as [|e r IH]; [constructor|]. constructor.
        + apply Forall_forall. intros y Hy. rewrite (T e (or_introl eq_refl)). reflexivity.
        + apply IH. intros e' He'. apply T. right; assumption.
      - specialize (Hc p T). apply andb_true_iff in Hc as [_ Hc]. apply pairwise_PW. assumption. }
    clear -HP. induction tenv as [|e r IH]; [constructor|]. constructor.
    + apply Forall_forall. intros y Hy p. specialize (HP p). apply PW_cons_iff in HP as [HP _].
      rewrite Forall_forall in HP. auto.
    + apply IH. intro p. specialize (HP p). apply PW_cons_iff in HP. tauto.
Qed.

(* ------------------------------------------------------------------ a non-trivial load inside the domain *)
Local Open Scope string_scope.

(** defaults [m: {a: d1, c: d3}, l: [q]]; file [m: {a: f1, b: f2}, l: [~, g]];
    environment: one variable overriding a file leaf, one extending the list
    beyond both, one new map key with a literal underscore *)
Definition ex_d : list (key * cfg) :=
  [(K "m", Map [(K "a", Leaf "d1"); (K "c", Leaf "d3")]); (K "l", Lst [Leaf "q"])].
Definition ex_f : list (key * cfg) :=
  [(K "m", Map [(K "a", Leaf "f1"); (K "b", Leaf "f2")]); (K "l", Lst [Nil; Leaf "g"])].
Definition ex_env : list (string * string) :=
  [("P_M_B", "e2"); ("P_L_2", "z"); ("OTHER", "ignored"); ("P_M_N__K", "u")].

Example domain_nonvacuous :
  exists tenv, domain true (fun s => Leaf s) "P_" ex_d ex_f ex_env tenv /\ length tenv = 3.
Proof.
  eexists. unfold domain. splits.
  - vm_compute. reflexivity.
  - apply in_scope_b_sound. vm_compute. reflexivity.
  - left. reflexivity.
  - vm_compute. reflexivity.
  - reflexivity.
Qed.

(* ------------------------------------------------------------------ splits, checked finitely *)
Local Close Scope string_scope.

(** "f and env together show c", checked at the candidate paths *)
Definition split_of_b (c f : list (key * cfg)) (tenv : list (path * string)) : bool :=
  forallb (fun p => node_eqb (njoin (view p (Map f)) (env_view tenv p)) (view p (Map c)))
          (all_paths (Map c) ++ all_paths (Map f) ++ flat_map (fun e => prefixes (fst e)) tenv).

Lemma node_eqb_eq a b : node_eqb a b = true -> a = b.
Proof.
  destruct a, b; simpl; try discriminate; try reflexivity.
  - intro H. apply String.eqb_eq in H. congruence.
  - intro H. apply Nat.eqb_eq in H. congruence.
Qed.

Lemma env_view_all_none tenv p : (forall e, In e tenv -> contrib p e = NNone) -> env_view tenv p = NNone.
Proof.
  induction tenv as [|e r IH]; intro H; simpl; [reflexivity|].
  rewrite (H e (or_introl eq_refl)), njoin_none_r. apply IH. intros e' He'. apply H. right; assumption.
Qed.

Lemma split_of_b_sound c f tenv : split_of_b c f tenv = true -> split_of c f tenv.
Proof.
  unfold split_of_b, split_of. intros H p. rewrite forallb_forall in H.
  destruct (all_none_or_some (contrib p) tenv) as [T | (e & He & Hn)].
  - rewrite (env_view_all_none tenv p T), njoin_none_r.
    destruct (view p (Map f)) eqn:Ef.
    + destruct (view p (Map c)) eqn:Ec; [reflexivity | | |];
        (assert (Hin : In p (all_paths (Map c))) by (apply view_in_all_paths; congruence);
         specialize (H p (in_or_app _ _ _ (or_introl Hin))); apply node_eqb_eq in H;
         rewrite (env_view_all_none tenv p T), njoin_none_r, Ef, Ec in H; exact H).
    + assert (Hin : In p (all_paths (Map f))) by (apply view_in_all_paths; congruence).
      specialize (H p (in_or_app _ _ _ (or_intror (in_or_app _ _ _ (or_introl Hin))))). apply node_eqb_eq in H.
      rewrite (env_view_all_none tenv p T), njoin_none_r, Ef in H. exact H.
    + assert (Hin : In p (all_paths (Map f))) by (apply view_in_all_paths; congruence).
      specialize (H p (in_or_app _ _ _ (or_intror (in_or_app _ _ _ (or_introl Hin))))). apply node_eqb_eq in H.
      rewrite (env_view_all_none tenv p T), njoin_none_r, Ef in H. exact H.
    + assert (Hin : In p (all_paths (Map f))) by (apply view_in_all_paths; congruence).
      specialize (H p (in_or_app _ _ _ (or_intror (in_or_app _ _ _ (or_introl Hin))))). apply node_eqb_eq in H.
      rewrite (env_view_all_none tenv p T), njoin_none_r, Ef in H. exact H.
  - apply node_eqb_eq. apply H. apply in_or_app. right. apply in_or_app. right.
    apply in_flat_map. exists e. split; [assumption | apply contrib_in_prefixes; assumption].
Qed.

Local Open Scope string_scope.

(** a configuration with a map, a list of maps and a nested list; one split of
    its leaves: a list element's key, a nested-list element and a map leaf go to
    the environment, the rest (with holes) stays in the file *)
Definition ex_c : list (key * cfg) :=
  [(K "m", Map [(K "a", Leaf "1"); (K "n_k", Leaf "2")]);
   (K "l", Lst [Map [(K "id", Leaf "x"); (K "type", Leaf "t")]; Map [(K "id", Leaf "y")]]);
   (K "g", Lst [Lst [Leaf "p"; Leaf "q"]])].
Definition ex_cf : list (key * cfg) :=
  [(K "m", Map [(K "a", Leaf "1")]);
   (K "l", Lst [Map [(K "type", Leaf "t")]; Map [(K "id", Leaf "y")]]);
   (K "g", Lst [Lst [Leaf "p"]])].
Definition ex_cenv : list (string * string) :=
  [("P_L_0_ID", "x"); ("P_G_0_1", "q"); ("P_M_N__K", "2")].

Example split_example :
  exists tenv,
    domain true (fun s => Leaf s) "P_" [] ex_cf ex_cenv tenv /\ domain true (fun s => Leaf s) "P_" [] ex_c [] [] /\
    split_of ex_c ex_cf tenv.
Proof.
  eexists. splits.
  - unfold domain. splits; [vm_compute; reflexivity | apply in_scope_b_sound; vm_compute; reflexivity | left; reflexivity | vm_compute; reflexivity].
  - unfold domain. splits; [vm_compute; reflexivity | apply in_scope_b_sound; vm_compute; reflexivity | left; reflexivity | vm_compute; reflexivity].
  - apply split_of_b_sound. vm_compute. reflexivity.
Qed.

(* ------------------------------------------------------------------ the evaluator's narrowed guard of C20-F4 *)
Local Close Scope string_scope.

Lemma f4_sites_none : forall parts pre, flat_after_index parts = false -> f4_sites pre parts = [].
Proof.
  induction parts as [|p r IH]; intros pre H; [reflexivity|].
  simpl in H. apply orb_false_iff in H as [H1 H2]. simpl. rewrite H1. simpl. apply IH. assumption.
Qed.

(** the theorems' syntactic condition implies the evaluator's narrowed one: a load the theorems speak about
    is never excused by the evaluator as C20-F4 *)
Lemma guard_F4n_narrower d f ne : guard_F4 ne = false -> guard_F4n d f ne = false.
Proof.
  unfold guard_F4, guard_F4n. intro H.
  destruct (existsb _ ne) eqn:E in |- *; [|reflexivity]. exfalso.
  apply existsb_exists in E as (a & Ha & Hs).
  assert (Hf : flat_after_index (split_dot (fst a)) = false).
  { destruct (flat_after_index (split_dot (fst a))) eqn:F; [|reflexivity].
    assert (X : existsb (fun a0 => flat_after_index (split_dot (fst a0))) ne = true) by (apply existsb_exists; eauto).
    congruence. }
  rewrite (f4_sites_none _ [] Hf) in Hs. discriminate.
Qed.
