(** C14 — the specification, transcribed from the property statement.  The
    [spec_*] functions (steps, order, inheritance, [spec_rule], [spec_default]) are
    written without the model's factory functions (only its data types):

    "The effective pipeline of a rule consists, stage by stage (authentication,
    authorization/contextualization, finalization, error handling), of the rule's
    own mechanisms of that stage if it defines at least one, otherwise of the
    default rule's; the backtracking setting is the rule's own if given, otherwise
    the default rule's, otherwise off.  A rule whose `execute` list is not ordered
    authenticators, then authorizers/contextualizers, then finalizers, that ends
    up without an authenticator, references an unknown mechanism or a bad
    override, or lacks `forward_to` in proxy mode is rejected when its rule set is
    loaded."

    and the executable predicates the correspondence check evaluates on the
    IMPLEMENTATION's observation.  The predicates compare that observation with
    the observation of the SPECIFICATION's effective rule; how an effective rule
    shows in an observation is the model's business: [prop_rule] is instantiated
    with [Model.observe] / [Model.observe_ids], [prop_set] re-uses [Model.lookup],
    [Model.paths], [Model.old_rule_def] and [Model.observe] ([run] is characterised
    by the C14_trace_* theorems). *)
From HV Require Import Base.Prelude C14.Model.

(** ** Steps *)

Definition opt_key (k : kind) (o : option keyv) : list (kind * keyv) :=
  match o with Some kv => [(k, kv)] | None => [] end.

(** every mechanism a step map names *)
Definition keys_of (st : step) : list (kind * keyv) :=
  opt_key KAuthn (s_authn st) ++ opt_key KAuthz (s_authz st) ++ opt_key KCtx (s_ctx st) ++ opt_key KFin (s_fin st).

(** The statement speaks about steps that name one mechanism.  It is silent
    about a step map with several mechanism keys and about an `if` on an
    authenticator step (the code reads the first key in a fixed order and ignores
    the condition, see [Model.classify]); such definitions are outside the scope
    of the specification. *)
Definition scoped_step (st : step) : bool :=
  match keys_of st with
  | [] => true
  | [(KAuthn, _)] => match s_if st with CondNil => true | _ => false end
  | [_] => true
  | _ => false
  end.

(** the override, if present, is a map *)
Definition spec_cfg (c : cfgv) : option (option nat) :=
  match c with CfgNil => Some None | CfgMap n => Some (Some n) | CfgBad => None end.
(** the condition, if present, is a valid expression *)
Definition spec_cond (c : condv) : option (option nat) :=
  match c with CondNil => Some None | CondOk n => Some (Some n) | _ => None end.

(** the mechanism a well-formed reference denotes: the id is a string naming a
    known mechanism with an acceptable override *)
Definition spec_ref (k : kind) (kv : keyv) (cfg : cfgv) (cond : condv) : option mech :=
  match k_id kv, spec_cfg cfg, spec_cond cond with
  | Some id, Some cm, Some c =>
      if k_ok kv then Some {| m_kind := k; m_id := id; m_cond := c; m_cfg := cm |} else None
  | _, _, _ => None
  end.

(** the mechanism an `execute` step denotes; [None]: malformed (no mechanism
    named, unknown mechanism, bad override, bad condition) *)
Definition spec_mech (st : step) : option mech :=
  match keys_of st with
  | [(k, kv)] => spec_ref k kv (s_cfg st) (s_if st)
  | _ => None
  end.

Definition spec_eh_mech (e : ehstep) : option mech :=
  match e_key e with
  | Some kv => spec_ref KEh kv (e_cfg e) (e_if e)
  | None => None
  end.

Fixpoint all_some {A} (l : list (option A)) : option (list A) :=
  match l with
  | [] => Some []
  | Some x :: r => match all_some r with Some xs => Some (x :: xs) | None => None end
  | None :: _ => None
  end.

(** ** Order: authenticators, then authorizers/contextualizers, then finalizers *)

Definition rank (k : kind) : nat :=
  match k with KAuthn => 0 | KAuthz | KCtx => 1 | KFin => 2 | KEh => 3 end.

Fixpoint sortedb (l : list nat) : bool :=
  match l with
  | x :: ((y :: _) as r) => (x <=? y) && sortedb r
  | _ => true
  end.

Definition of_rank (n : nat) (m : mech) : bool := rank (m_kind m) =? n.

(** the three stages an `execute` list defines: all steps well formed, in
    stage order; each stage is the mechanisms of that stage in definition order *)
Definition spec_pipeline (sts : list step) : option (list mech * list mech * list mech) :=
  match all_some (map spec_mech sts) with
  | Some ms => if sortedb (map (fun m => rank (m_kind m)) ms)
               then Some (filter (of_rank 0) ms, filter (of_rank 1) ms, filter (of_rank 2) ms)
               else None
  | None => None
  end.

Definition spec_errors (es : list ehstep) : option (list mech) := all_some (map spec_eh_mech es).

(** ** Stage-wise inheritance *)

Definition inherit (own def : list mech) : list mech :=
  match own with [] => def | _ => own end.

(** the default rule's stage, nothing without a default rule *)
Definition dflt {A} (def : option effective) (f : effective -> list A) : list A :=
  match def with Some d => f d | None => [] end.

Definition spec_bt (def : option effective) (own : option bool) : bool :=
  match own with
  | Some b => b
  | None => match def with Some d => f_bt d | None => false end
  end.

(** the effective rule; [None]: the rule is rejected *)
Definition spec_rule (proxy : bool) (def : option effective) (r : rule_def) : option effective :=
  if proxy && negb (r_backend r) then None else
  match spec_pipeline (r_exec r), spec_errors (r_eh r) with
  | Some (a, h, f), Some e =>
      match inherit a (dflt def f_sc) with
      | [] => None                                       (* ends up without an authenticator *)
      | sc => Some {| f_sc := sc; f_sh := inherit h (dflt def f_sh); f_fi := inherit f (dflt def f_fi);
                      f_eh := inherit e (dflt def f_eh); f_bt := spec_bt def (r_bt r) |}
      end
  | _, _ => None
  end.

(** the default rule is what its own definition says; it needs an authenticator *)
Definition spec_default (d : default_def) : option effective :=
  match spec_pipeline (d_exec d), spec_errors (d_eh d) with
  | Some (a :: a', h, f), Some e => Some {| f_sc := a :: a'; f_sh := h; f_fi := f; f_eh := e; f_bt := d_bt d |}
  | _, _ => None
  end.

Definition scoped_rule (r : rule_def) : bool :=
  forallb scoped_step (r_exec r).
Definition scoped_default (d : option default_def) : bool :=
  match d with Some dd => forallb scoped_step (d_exec dd) | None => true end.

(** the default rule of a configuration, as the specification reads it:
    [Some None] no default rule, [Some (Some e)] a well-formed one, [None] a
    malformed one (the statement quantifies over absent/partial/complete default
    rules, i.e. well-formed ones) *)
Definition spec_default_opt (d : option default_def) : option (option effective) :=
  match d with
  | None => Some None
  | Some dd => match spec_default dd with Some e => Some (Some e) | None => None end
  end.

(** ** The property's predicate on an observation of the implementation *)

Definition tmech_eqb (a b : tmech) : bool :=
  match a, b with (k1, i1, c1), (k2, i2, c2) => kind_eqb k1 k2 && Nat.eqb i1 i2 && onat_eqb c1 c2 end.
Definition runr_eqb (a b : bool * list tmech) : bool :=
  Bool.eqb (fst a) (fst b) && list_eqb tmech_eqb (snd a) (snd b).
Definition robs_eqb (a b : robs) : bool :=
  list_eqb runr_eqb (o_runs a) (o_runs b) && Bool.eqb (o_bt a) (o_bt b).
Definition kn_eqb (a b : kind * nat) : bool := kind_eqb (fst a) (fst b) && Nat.eqb (snd a) (snd b).
Definition iobs_eqb (a b : iobs) : bool :=
  list_eqb kn_eqb (i_sc a) (i_sc b) && list_eqb kn_eqb (i_sh a) (i_sh b) && list_eqb kn_eqb (i_fi a) (i_fi b) &&
  list_eqb kn_eqb (i_eh a) (i_eh b) && Bool.eqb (i_bt a) (i_bt b).

(** "malformed rules are rejected" holds for the default rule as well: whenever the rule factory exists
    (a rule or a rule set could be handed to it), a default rule in scope must be one the specification accepts —
    a misordered one, one with a malformed step, one without an authenticator must have stopped the start-up *)
Definition default_accepted (d : option default_def) : bool :=
  if scoped_default d then match spec_default_opt d with Some _ => true | None => false end else true.

Section PropRule.
  Context {O : Type} (obs_of : effective -> O) (eqb : O -> O -> bool).

  (** A loaded rule must be one the specification accepts, and what is observed
      of it must be what is observed of the specification's effective rule.  A
      rejection never violates the statement (it does not say that nothing else
      is rejected — over-rejection shows as a correspondence failure only); a
      panic is not a rejection.  Outside the scope of the statement nothing is
      demanded.  A factory that exists over a malformed default rule violates
      the property whatever happens to the rule ([default_accepted]). *)
  Definition prop_rule (proxy : bool) (d : option default_def) (r : rule_def) (o : load_res O) : bool :=
    match o with
    | Loaded (Ok x) =>
        default_accepted d &&
        if scoped_default d && scoped_rule r then
          match spec_default_opt d with
          | Some def => match spec_rule proxy def r with
                        | Some e => eqb (obs_of e) x
                        | None => false
                        end
          | None => true
          end
        else true
    | Loaded Rejected => default_accepted d
    | FactoryFailed => true
    | Loaded Panic | FactoryPanic => false
    end.
End PropRule.

Section PropSet.
  Variable holds : nat -> nat -> bool.

  Definition served_eqb (a b : served) : bool :=
    match a, b with
    | SNone, SNone => true
    | SDefault x, SDefault y => list_eqb runr_eqb x y
    | SRule x, SRule y => robs_eqb x y
    | _, _ => false
    end.

  Definition spec_rules (proxy : bool) (def : option effective) (rs : list rule_def) : option (list effective) :=
    all_some (map (spec_rule proxy def) rs).

  (** the preloaded rules as the specification reads them *)
  Definition spec_old (proxy : bool) (def : option effective) (k : nat) : list effective :=
    match spec_rule proxy def old_rule_def with Some e => repeat e k | None => [] end.

  (** A rule set reported as loaded must consist of rules the specification
      accepts, and every path must be served by the specification's effective
      rule; a rule set reported as rejected must have left the repository as it
      was (no rule of a rejected set is served). *)
  Definition prop_set (proxy : bool) (d : option default_def) (preload : nat) (sd : set_def) (o : set_res) : bool :=
    match o with
    | SDone accepted sv =>
        default_accepted d &&
        if scoped_default d && forallb scoped_rule (sd_rules sd) then
          match spec_default_opt d with
          | Some def =>
              if accepted then
                match spec_rules proxy def (sd_rules sd) with
                | Some es => list_eqb served_eqb (map (lookup holds def es) paths) sv
                | None => false
                end
              else list_eqb served_eqb (map (lookup holds def (spec_old proxy def preload)) paths) sv
          | None => true
          end
        else true
    | SFactoryFailed => true
    | SFactoryPanic | SPanic => false
    end.
End PropSet.
