(** C14 — specification and proofs for the rule factory model. *)
From HV Require Import Base.Prelude C14.Model.

(** ** Specification vocabulary (transcribed from the property statement) *)

(** a step on its own denotes mechanism [m] of kind [k]: the reference is a
    string naming a known mechanism with an acceptable override, and (except for
    authenticators, whose `if` is ignored) the condition is absent or valid *)
Definition denotes (st : step) (k : kind) (m : mech) : Prop :=
  exists kv id, classify st = Some (k, kv) /\ k_id kv = Some id /\ k_ok kv = true /\
    s_cfg st <> CfgBad /\
    match k with
    | KAuthn => m = {| m_kind := k; m_id := id; m_cond := false |}
    | _ => exists c, cond_res (s_if st) = Ok c /\ m = {| m_kind := k; m_id := id; m_cond := c |}
    end.

Definition stage (P : kind -> Prop) (sts : list step) (ms : list mech) : Prop :=
  Forall2 (fun st m => exists k, P k /\ denotes st k m) sts ms.

Definition is_authn k := k = KAuthn.
Definition is_mid k := k = KAuthz \/ k = KCtx.
Definition is_fin k := k = KFin.

(** ** exec_step characterised *)

Lemma create_ok k kv cfg c m :
  create k kv cfg c = Ok m <->
  exists id, k_id kv = Some id /\ k_ok kv = true /\ cfg <> CfgBad /\ m = {| m_kind := k; m_id := id; m_cond := c |}.
Proof.
  unfold create. destruct (k_id kv) as [id|]; [|split; [discriminate | intros (i & H & _); discriminate]].
  destruct cfg; destruct (k_ok kv); split; intro H;
    try discriminate;
    try (inversion H; subst; eexists; repeat split; congruence);
    try (destruct H as (i & Hi & Hk & Hc & Hm); try discriminate; try congruence;
         inversion Hi; subst; reflexivity).
Qed.

Definition order_ok (p : pipes) (k : kind) : Prop :=
  match k with
  | KAuthn => p_h p = [] /\ p_f p = []
  | KAuthz | KCtx => p_f p = []
  | _ => True
  end.

Lemma is_nil_true {A} (l : list A) : is_nil l = true <-> l = [].
Proof. destruct l; simpl; split; congruence. Qed.

Lemma order_okb_spec p k : order_okb p k = true <-> order_ok p k.
Proof.
  destruct k; simpl; rewrite ?andb_true_iff, ?is_nil_true; tauto.
Qed.

Lemma classify_not_eh st kv : classify st <> Some (KEh, kv).
Proof.
  unfold classify. destruct (s_authn st), (s_authz st), (s_ctx st), (s_fin st); congruence.
Qed.

(** the mechanism a classified step creates, order checks aside *)
Definition step_mech (st : step) (k : kind) (kv : keyv) : res mech :=
  match k with
  | KAuthn => create KAuthn kv (s_cfg st) false
  | _ => match cond_res (s_if st) with
         | Ok c => create k kv (s_cfg st) c
         | Rejected => Rejected | Panic => Panic
         end
  end.

Lemma step_mech_denotes st k kv m :
  classify st = Some (k, kv) -> (step_mech st k kv = Ok m <-> denotes st k m).
Proof.
  intros Hcl. unfold denotes, step_mech. split.
  - intro H. exists kv. destruct k.
    + apply create_ok in H as (id & Hi & Hok & Hcfg & Hm). exists id. repeat split; assumption.
    + destruct (cond_res (s_if st)) as [c| |] eqn:Ec; try discriminate.
      apply create_ok in H as (id & Hi & Hok & Hcfg & Hm). exists id. repeat split; try assumption.
      exists c; split; [reflexivity | assumption].
    + destruct (cond_res (s_if st)) as [c| |] eqn:Ec; try discriminate.
      apply create_ok in H as (id & Hi & Hok & Hcfg & Hm). exists id. repeat split; try assumption.
      exists c; split; [reflexivity | assumption].
    + destruct (cond_res (s_if st)) as [c| |] eqn:Ec; try discriminate.
      apply create_ok in H as (id & Hi & Hok & Hcfg & Hm). exists id. repeat split; try assumption.
      exists c; split; [reflexivity | assumption].
    + exfalso. eapply classify_not_eh; eassumption.
  - intros (kv' & id & Hcl' & Hi & Hok & Hcfg & Hm). rewrite Hcl in Hcl'. inversion Hcl'; subst kv'.
    destruct k.
    + subst m. apply create_ok. exists id. repeat split; assumption.
    + destruct Hm as (c & Hc & Hm). rewrite Hc. apply create_ok. exists id. repeat split; assumption.
    + destruct Hm as (c & Hc & Hm). rewrite Hc. apply create_ok. exists id. repeat split; assumption.
    + destruct Hm as (c & Hc & Hm). rewrite Hc. apply create_ok. exists id. repeat split; assumption.
    + exfalso. eapply classify_not_eh; eassumption.
Qed.

Lemma exec_step_eq p st :
  exec_step p st =
  match classify st with
  | None => Rejected
  | Some (k, kv) =>
    if order_okb p k then
      match step_mech st k kv with Ok m => Ok (upd p k m) | Rejected => Rejected | Panic => Panic end
    else Rejected
  end.
Proof.
  unfold exec_step, step_mech, create_handler.
  destruct (classify st) as [[k kv]|]; [|reflexivity].
  destruct k; destruct (order_okb p _); simpl; try reflexivity.
Qed.

Lemma exec_step_ok p st p' :
  exec_step p st = Ok p' <->
  exists k m, denotes st k m /\ order_ok p k /\ p' = upd p k m.
Proof.
  rewrite exec_step_eq. split.
  - destruct (classify st) as [[k kv]|] eqn:Hcl; [|discriminate].
    destruct (order_okb p k) eqn:Ho; [|discriminate].
    destruct (step_mech st k kv) as [m| |] eqn:Hm; try discriminate.
    intro H; inversion H; subst. exists k, m. split; [|split].
    + eapply step_mech_denotes; eassumption.
    + apply order_okb_spec; assumption.
    + reflexivity.
  - intros (k & m & Hd & Ho & Hp).
    assert (Hd' := Hd). destruct Hd' as (kv & id & Hcl & _).
    rewrite Hcl. apply order_okb_spec in Ho. rewrite Ho.
    apply (step_mech_denotes st k kv m Hcl) in Hd. rewrite Hd. subst. reflexivity.
Qed.

(** ** The accepted language of `execute` lists *)

Definition pipes_app (p : pipes) (ma mm mf : list mech) : pipes :=
  {| p_a := p_a p ++ ma; p_h := p_h p ++ mm; p_f := p_f p ++ mf |}.

Lemma app_nil_inv {A} (l : list A) x : l ++ [x] <> [].
Proof. destruct l; discriminate. Qed.

Ltac splits := repeat match goal with |- _ /\ _ => split end.

Ltac stage_tac :=
  first [ constructor; [eexists; split; [|eassumption]; red; auto | assumption] | constructor ].
Ltac eq_tac := subst; unfold pipes_app; simpl; rewrite <- ?app_assoc, ?app_nil_r; reflexivity.
Ltac fin := splits;
  first [assumption | reflexivity | solve [auto] | solve [stage_tac] | solve [eq_tac]
        | solve [right; split; assumption] | idtac].

Lemma first_step_ok p st sts a m f ma mm mf :
  st :: sts = a ++ m ++ f ->
  stage is_authn a ma -> stage is_mid m mm -> stage is_fin f mf ->
  (a = [] \/ (p_h p = [] /\ p_f p = [])) -> (m = [] \/ p_f p = []) ->
  exists p1, exec_step p st = Ok p1.
Proof.
  intros Hs Ha Hm Hf Hoa Hom.
  destruct a as [|st' a]; [destruct m as [|st' m]; [destruct f as [|st' f]; [discriminate|]|]|];
    simpl in Hs; inversion Hs; subst st' sts.
  - inversion Hf as [|? y ? ? (k' & Hk' & Hd') Hf']; subst. red in Hk'; subst k'.
    eexists. apply exec_step_ok. exists KFin, y. split; [assumption|]. split; [exact I | reflexivity].
  - inversion Hm as [|? y ? ? (k' & Hk' & Hd') Hm']; subst.
    destruct Hom as [Hc|Hpf]; [discriminate|].
    eexists. apply exec_step_ok. exists k', y. split; [assumption|]. split; [|reflexivity].
    destruct Hk' as [->| ->]; exact Hpf.
  - inversion Ha as [|? y ? ? (k' & Hk' & Hd') Ha']; subst. red in Hk'; subst k'.
    destruct Hoa as [Hc|Hpp]; [discriminate|].
    eexists. apply exec_step_ok. exists KAuthn, y. split; [assumption|]. split; [exact Hpp | reflexivity].
Qed.

Lemma exec_pipeline_lang p sts p' :
  exec_pipeline p sts = Ok p' <->
  exists a m f ma mm mf,
    sts = a ++ m ++ f /\
    stage is_authn a ma /\ stage is_mid m mm /\ stage is_fin f mf /\
    (a = [] \/ (p_h p = [] /\ p_f p = [])) /\ (m = [] \/ p_f p = []) /\
    p' = pipes_app p ma mm mf.
Proof.
  revert p p'. induction sts as [|st sts IH]; intros p p'; simpl.
  - split.
    + intro H; inversion H; subst. exists [], [], [], [], [], []. unfold pipes_app, stage.
      rewrite !app_nil_r. destruct p'; simpl. repeat split; auto.
    + intros (a & m & f & ma & mm & mf & Hs & Ha & Hm & Hf & _ & _ & Hp).
      symmetry in Hs. apply app_eq_nil in Hs as [-> Hs]. apply app_eq_nil in Hs as [-> ->].
      inversion Ha; inversion Hm; inversion Hf; subst. unfold pipes_app. rewrite !app_nil_r.
      destruct p; reflexivity.
  - destruct (exec_step p st) as [p1| |] eqn:Hst.
    + apply exec_step_ok in Hst as (k & mc & Hd & Ho & Hp1). rewrite IH. clear IH. split.
      * intros (a & m & f & ma & mm & mf & Hs & Ha & Hm & Hf & Hoa & Hom & Hp').
        destruct k.
        -- (* authenticator *)
           destruct Ho as [Hh Hf0].
           exists (st :: a), m, f, (mc :: ma), mm, mf. subst sts p1. simpl. fin.
        -- (* authorizer *)
           simpl in Ho. subst p1. simpl in Hoa.
           destruct Hoa as [->|[Hc _]]; [|exfalso; eapply app_nil_inv; eassumption].
           inversion Ha; subst ma.
           exists [], (st :: m), f, [], (mc :: mm), mf. simpl in *. subst sts. fin.
        -- (* contextualizer *)
           simpl in Ho. subst p1. simpl in Hoa.
           destruct Hoa as [->|[Hc _]]; [|exfalso; eapply app_nil_inv; eassumption].
           inversion Ha; subst ma.
           exists [], (st :: m), f, [], (mc :: mm), mf. simpl in *. subst sts. fin.
        -- (* finalizer *)
           subst p1. simpl in Hoa, Hom.
           destruct Hoa as [->|[_ Hc]]; [|exfalso; eapply app_nil_inv; eassumption].
           destruct Hom as [->|Hc]; [|exfalso; eapply app_nil_inv; eassumption].
           inversion Ha; subst ma. inversion Hm; subst mm.
           exists [], [], (st :: f), [], [], (mc :: mf). simpl in *. subst sts. fin.
        -- exfalso. destruct Hd as (kv & id & Hcl & _). eapply classify_not_eh; eassumption.
      * (* converse: a decomposition of st :: sts gives one of sts *)
        intros (a & m & f & ma & mm & mf & Hs & Ha & Hm & Hf & Hoa & Hom & Hp').
        assert (Hdet : forall k' m', denotes st k' m' -> k' = k /\ m' = mc).
        { intros k' m' (kv' & id' & Hcl' & Hi' & _ & _ & Hm').
          destruct Hd as (kv & id & Hcl & Hi & _ & _ & Hmc).
          rewrite Hcl in Hcl'. inversion Hcl'; subst k' kv'. rewrite Hi in Hi'. inversion Hi'; subst id'.
          split; [reflexivity|].
          destruct k; try congruence;
            destruct Hm' as (c' & Hc' & ->); destruct Hmc as (c & Hc & ->); congruence. }
        destruct a as [|st' a].
        -- destruct m as [|st' m].
           ++ destruct f as [|st' f]; [discriminate|]. simpl in Hs. inversion Hs; subst st' sts.
              inversion Hf as [|? ? ? ? (k' & Hk' & Hd') Hf']; subst.
              apply Hdet in Hd' as [-> ->]. red in Hk'. subst k.
              exists [], [], f, [], [], l'. inversion Ha; inversion Hm; subst. simpl.
              repeat split; auto; try constructor.
              unfold pipes_app; simpl. rewrite <- !app_assoc, !app_nil_r. reflexivity.
           ++ simpl in Hs. inversion Hs; subst st' sts.
              inversion Hm as [|? ? ? ? (k' & Hk' & Hd') Hm']; subst.
              apply Hdet in Hd' as [-> ->].
              destruct Hom as [Hc|Hpf]; [discriminate|].
              exists [], m, f, [], l', mf. inversion Ha; subst. simpl.
              assert (Hu : upd p k mc = {| p_a := p_a p; p_h := p_h p ++ [mc]; p_f := p_f p |})
                by (destruct Hk' as [->| ->]; reflexivity).
              rewrite Hu. simpl. repeat split; auto; try constructor.
              unfold pipes_app; simpl. rewrite <- !app_assoc, !app_nil_r. reflexivity.
        -- simpl in Hs. inversion Hs; subst st' sts.
           inversion Ha as [|? ? ? ? (k' & Hk' & Hd') Ha']; subst.
           apply Hdet in Hd' as [-> ->]. red in Hk'. subst k.
           destruct Hoa as [Hc|[Hph Hpf]]; [discriminate|].
           exists a, m, f, l', mm, mf. simpl. repeat split; auto.
           unfold pipes_app; simpl. rewrite <- !app_assoc. reflexivity.
    + split; [discriminate|].
      intros (a & m & f & ma & mm & mf & Hs & Ha & Hm & Hf & Hoa & Hom & Hp').
      destruct (first_step_ok p st sts a m f ma mm mf Hs Ha Hm Hf Hoa Hom) as [p1 Hp1]. congruence.
    + split; [discriminate|].
      intros (a & m & f & ma & mm & mf & Hs & Ha & Hm & Hf & Hoa & Hom & Hp').
      destruct (first_step_ok p st sts a m f ma mm mf Hs Ha Hm Hf Hoa Hom) as [p1 Hp1]. congruence.
Qed.

(** the `execute` list of a rule or of the default rule is accepted iff it is
    authenticators, then authorizers/contextualizers, then finalizers, each step
    denoting a known mechanism; the three created lists are exactly those *)
Theorem order_language sts pa ph pf :
  exec_pipeline empty_pipes sts = Ok {| p_a := pa; p_h := ph; p_f := pf |} <->
  exists a m f, sts = a ++ m ++ f /\
    stage is_authn a pa /\ stage is_mid m ph /\ stage is_fin f pf.
Proof.
  rewrite exec_pipeline_lang. unfold pipes_app, empty_pipes; simpl. split.
  - intros (a & m & f & ma & mm & mf & Hs & Ha & Hm & Hf & _ & _ & Hp). inversion Hp; subst.
    exists a, m, f. auto.
  - intros (a & m & f & Hs & Ha & Hm & Hf). exists a, m, f, pa, ph, pf. splits; auto.
Qed.

(** ** Error-handler lists *)

Definition eh_denotes (e : ehstep) (m : mech) : Prop :=
  exists kv id c, e_key e = Some kv /\ k_id kv = Some id /\ k_ok kv = true /\ e_cfg e <> CfgBad /\
    cond_res (e_if e) = Ok c /\ m = {| m_kind := KEh; m_id := id; m_cond := c |}.

Lemma eh_step_ok e m : eh_step e = Ok m <-> eh_denotes e m.
Proof.
  unfold eh_step, eh_denotes. split.
  - destruct (e_key e) as [kv|]; [|discriminate].
    destruct (e_cfg e) eqn:Ecfg; try discriminate;
      (destruct (cond_res (e_if e)) as [c| |]; try discriminate;
       destruct (k_id kv) as [id|] eqn:Hid; try discriminate;
       destruct (k_ok kv) eqn:Hok; try discriminate;
       intro H; inversion H; subst; exists kv, id, c; splits; try congruence; try reflexivity).
    all: idtac.
  - intros (kv & id & c & -> & -> & -> & Hcfg & -> & ->).
    destruct (e_cfg e); congruence.
Qed.

Lemma eh_pipeline_ok acc es out :
  eh_pipeline acc es = Ok out <-> exists ms, Forall2 eh_denotes es ms /\ out = acc ++ ms.
Proof.
  revert acc out. induction es as [|e es IH]; intros acc out; simpl.
  - split.
    + intro H; inversion H; subst. exists []. rewrite app_nil_r. split; [constructor | reflexivity].
    + intros (ms & Hf & ->). inversion Hf. rewrite app_nil_r. reflexivity.
  - destruct (eh_step e) as [m| |] eqn:He.
    + apply eh_step_ok in He. rewrite IH. split.
      * intros (ms & Hf & ->). exists (m :: ms). split; [constructor; assumption|].
        rewrite <- app_assoc. reflexivity.
      * intros (ms & Hf & ->). inversion Hf as [|? m' ? ms' He' Hf']; subst.
        assert (m' = m).
        { destruct He as (kv & id & c & H1 & H2 & _ & _ & H3 & ->).
          destruct He' as (kv' & id' & c' & H1' & H2' & _ & _ & H3' & ->). congruence. }
        subst. exists ms'. split; [assumption|]. rewrite <- app_assoc. reflexivity.
    + split; [discriminate|]. intros (ms & Hf & _). inversion Hf as [|? m' ? ms' He' Hf']; subst.
      apply eh_step_ok in He'. congruence.
    + split; [discriminate|]. intros (ms & Hf & _). inversion Hf as [|? m' ? ms' He' Hf']; subst.
      apply eh_step_ok in He'. congruence.
Qed.

(** ** CreateRule *)

(** the rule's own four stages, when its definition is well formed *)
Definition own_stages (r : rule_def) (a h f e : list mech) : Prop :=
  exec_pipeline empty_pipes (r_exec r) = Ok {| p_a := a; p_h := h; p_f := f |} /\
  eh_pipeline [] (r_eh r) = Ok e.

Definition inherit (own def : list mech) : list mech :=
  match own with [] => def | _ => own end.

Lemma or_default_inherit own def : or_default own def = inherit own def.
Proof. destruct own; reflexivity. Qed.

(** the specification of the effective rule (property statement, sentence 1) *)
Definition spec_effective (def : option effective) (r : rule_def) (a h f e : list mech) : effective :=
  match def with
  | Some d => {| f_sc := inherit a (f_sc d); f_sh := inherit h (f_sh d);
                 f_fi := inherit f (f_fi d); f_eh := inherit e (f_eh d);
                 f_bt := match r_bt r with Some b => b | None => f_bt d end |}
  | None => {| f_sc := a; f_sh := h; f_fi := f; f_eh := e;
               f_bt := match r_bt r with Some b => b | None => false end |}
  end.

(** guard of finding C14-F1: no default rule and the rule asks for backtracking *)
Definition guard_F1 (def : option effective) (r : rule_def) : bool :=
  match def, r_bt r with None, Some true => true | _, _ => false end.

Lemma create_rule_char fixed proxy def r eff :
  create_rule fixed proxy def r = Ok eff <->
  exists a h f e, own_stages r a h f e /\
    (proxy = true -> r_backend r = true) /\ r_matchers_ok r = true /\
    f_sc eff <> [] /\
    eff = (if fixed || negb (guard_F1 def r) then spec_effective def r a h f e
           else {| f_sc := a; f_sh := h; f_fi := f; f_eh := e; f_bt := false |}).
Proof.
  unfold create_rule, own_stages. split.
  - destruct (proxy && negb (r_backend r)) eqn:Hpx; [discriminate|].
    destruct (exec_pipeline empty_pipes (r_exec r)) as [[a h f]| |]; try discriminate.
    destruct (eh_pipeline [] (r_eh r)) as [e| |]; try discriminate. simpl.
    match goal with |- (if is_nil (f_sc ?E) then _ else _) = _ -> _ => set (E0 := E) end.
    destruct (is_nil (f_sc E0)) eqn:Hn; [discriminate|].
    destruct (r_matchers_ok r) eqn:Hm; [|discriminate]. simpl.
    intro H; inversion H; subst eff. exists a, h, f, e. splits; auto.
    + intro Hp; subst proxy. simpl in Hpx. destruct (r_backend r); [reflexivity|discriminate].
    + intro Hc. rewrite Hc in Hn. discriminate.
    + subst E0. unfold spec_effective, guard_F1.
      destruct def as [d|]; rewrite ?or_default_inherit; simpl.
      * rewrite orb_true_r. reflexivity.
      * destruct fixed; simpl; [reflexivity|]. destruct (r_bt r) as [[|]|]; reflexivity.
  - intros (a & h & f & e & [-> ->] & Hpx & Hm & Hne & Heff). simpl.
    assert (Hp : proxy && negb (r_backend r) = false).
    { destruct proxy; [rewrite Hpx by reflexivity|]; reflexivity. }
    rewrite Hp, Hm. simpl.
    match goal with |- (if is_nil (f_sc ?E) then _ else _) = _ => set (E0 := E) end.
    assert (E0 = eff).
    { subst E0 eff. unfold spec_effective, guard_F1.
      destruct def as [d|]; rewrite ?or_default_inherit; simpl.
      - rewrite orb_true_r. reflexivity.
      - destruct fixed; simpl; [reflexivity|]. destruct (r_bt r) as [[|]|]; reflexivity. }
    rewrite H. destruct (f_sc eff); [congruence|reflexivity].
Qed.

(** C14, sentence 1, stage-wise inheritance and backtracking — for the code as
    it is ([fixed = false]) outside the guard of C14-F1, and unconditionally for the
    repaired function *)
Theorem stagewise_inheritance fixed proxy def r eff :
  fixed || negb (guard_F1 def r) = true ->
  create_rule fixed proxy def r = Ok eff ->
  exists a h f e, own_stages r a h f e /\ eff = spec_effective def r a h f e.
Proof.
  intros Hg H. apply create_rule_char in H as (a & h & f & e & Ho & _ & _ & _ & He).
  rewrite Hg in He. exists a, h, f, e. auto.
Qed.

Theorem F1_refuted :
  exists def r eff, guard_F1 def r = true /\ create_rule false false def r = Ok eff /\
    forall a h f e, own_stages r a h f e -> eff <> spec_effective def r a h f e.
Proof.
  exists None.
  exists {| r_exec := [ {| s_authn := Some {| k_id := Some 0; k_ok := true |}; s_authz := None; s_ctx := None;
                           s_fin := None; s_if := CondNil; s_cfg := CfgNil |} ];
            r_eh := []; r_bt := Some true; r_backend := false; r_matchers_ok := true |}.
  eexists. split; [reflexivity|]. split; [vm_compute; reflexivity|].
  intros a h f e [H1 H2]. vm_compute in H1, H2. inversion H1; inversion H2; subst.
  unfold spec_effective; simpl. discriminate.
Qed.

(** sentence 2: what is rejected.  A rule is accepted only if ... (all of) *)
Theorem accepted_only_if_wellformed fixed proxy def r eff :
  create_rule fixed proxy def r = Ok eff ->
  (* ordered, known mechanisms, valid overrides and conditions *)
  (exists a m f pa ph pf, r_exec r = a ++ m ++ f /\
      stage is_authn a pa /\ stage is_mid m ph /\ stage is_fin f pf) /\
  (exists pe, Forall2 eh_denotes (r_eh r) pe) /\
  (* ends up with an authenticator *)
  f_sc eff <> [] /\
  (* forward_to in proxy mode *)
  (proxy = true -> r_backend r = true).
Proof.
  intro H. apply create_rule_char in H as (a & h & f & e & [Ho He] & Hpx & _ & Hne & _).
  apply order_language in Ho as (sa & sm & sf & Hs & Ha & Hm & Hf).
  apply eh_pipeline_ok in He as (ms & Hms & ->).
  splits; auto.
  - exists sa, sm, sf, a, h, f. auto.
  - exists ms. assumption.
Qed.

(** and conversely every well-formed definition is accepted (nothing else is rejected) *)
Theorem wellformed_accepted fixed proxy def r a m f pa ph pf pe :
  r_exec r = a ++ m ++ f ->
  stage is_authn a pa -> stage is_mid m ph -> stage is_fin f pf ->
  Forall2 eh_denotes (r_eh r) pe ->
  (pa <> [] \/ exists d, def = Some d /\ f_sc d <> []) ->
  (proxy = true -> r_backend r = true) -> r_matchers_ok r = true ->
  exists eff, create_rule fixed proxy def r = Ok eff.
Proof.
  intros Hs Ha Hm Hf He Hau Hpx Hmm.
  eexists. apply create_rule_char. exists pa, ph, pf, pe. unfold own_stages. splits; auto.
  - apply order_language. exists a, m, f. auto.
  - apply eh_pipeline_ok. exists pe. auto.
  - destruct (fixed || negb (guard_F1 def r)) eqn:Hg; unfold spec_effective.
    + destruct def as [d|]; simpl.
      * destruct Hau as [Hau|(d' & Hd & Hau)].
        -- destruct pa; [congruence | discriminate].
        -- inversion Hd; subst d'. destruct pa; [exact Hau | discriminate].
      * destruct Hau as [Hau|(d' & Hd & _)]; [exact Hau | discriminate].
    + simpl. destruct Hau as [Hau|(d' & Hd & Hau)]; [exact Hau|].
      (* guard_F1 holds only without default rule *)
      exfalso. subst def. unfold guard_F1 in Hg. rewrite orb_true_r in Hg. discriminate.
Qed.

(** ** Rule sets are accepted or rejected as a whole *)
Theorem ruleset_all_or_nothing fixed proxy def rs effs :
  load_rules fixed proxy def rs = Ok effs <->
  Forall2 (fun r e => create_rule fixed proxy def r = Ok e) rs effs.
Proof.
  revert effs. induction rs as [|r rs IH]; intros effs; simpl.
  - split.
    + intro H; inversion H; constructor.
    + intro H; inversion H; reflexivity.
  - destruct (create_rule fixed proxy def r) as [e| |] eqn:Hr.
    + destruct (load_rules fixed proxy def rs) as [es| |] eqn:Hrs.
      * split.
        -- intro H; inversion H; subst. constructor; [assumption | apply IH; reflexivity].
        -- intro H. inversion H as [|? e' ? es' He Hes]; subst.
           apply IH in Hes. inversion Hes; subst. congruence.
      * split; [discriminate|]. intro H. inversion H as [|? e' ? es' He Hes]; subst.
        apply IH in Hes. discriminate.
      * split; [discriminate|]. intro H. inversion H as [|? e' ? es' He Hes]; subst.
        apply IH in Hes. discriminate.
    + split; [discriminate|]. intro H. inversion H; subst. congruence.
    + split; [discriminate|]. intro H. inversion H; subst. congruence.
Qed.

(** one malformed rule anywhere in the set rejects the set *)
Corollary ruleset_one_bad_rejects fixed proxy def rs1 r rs2 :
  (forall e, create_rule fixed proxy def r <> Ok e) ->
  forall effs, load_rules fixed proxy def (rs1 ++ r :: rs2) <> Ok effs.
Proof.
  intros Hbad effs H. apply ruleset_all_or_nothing in H.
  apply Forall2_app_inv_l in H as (l1 & l2 & _ & H2 & _).
  inversion H2 as [|? e ? ? He _]; subst. exact (Hbad e He).
Qed.

(** ** Totality of the loader (rule factory part of C19; holds since fix f8fe9cb) *)

Lemma create_no_panic k kv cfg c : create k kv cfg c <> Panic.
Proof. unfold create. destruct (k_id kv); [destruct cfg; try destruct (k_ok kv)|]; discriminate. Qed.

Lemma create_handler_no_panic k kv st b : create_handler k kv st b <> Panic.
Proof.
  unfold create_handler. destruct (negb b); [discriminate|].
  destruct (s_if st); cbn [cond_res]; try discriminate; apply create_no_panic.
Qed.

Lemma exec_step_no_panic p st : exec_step p st <> Panic.
Proof.
  unfold exec_step. destruct (classify st) as [[k kv]|]; [|discriminate].
  destruct k.
  1: destruct (order_okb p KAuthn); [pose proof (create_no_panic KAuthn kv (s_cfg st) false) as H|];
     [destruct (create KAuthn kv (s_cfg st) false); congruence || discriminate | discriminate].
  all: match goal with |- context [create_handler ?k ?kv ?st ?b] =>
         pose proof (create_handler_no_panic k kv st b) as H; destruct (create_handler k kv st b) end;
       congruence || discriminate.
Qed.

Lemma exec_pipeline_no_panic sts : forall p, exec_pipeline p sts <> Panic.
Proof.
  induction sts as [|st r IH]; intro p; cbn [exec_pipeline]; [discriminate|].
  pose proof (exec_step_no_panic p st) as H. destruct (exec_step p st); [apply IH|discriminate|congruence].
Qed.

Lemma eh_step_no_panic e : eh_step e <> Panic.
Proof.
  unfold eh_step. destruct (e_key e) as [kv|]; [|discriminate].
  destruct (e_cfg e); try discriminate;
    destruct (e_if e); cbn [cond_res]; try discriminate;
    destruct (k_id kv); try discriminate; destruct (k_ok kv); discriminate.
Qed.

Lemma eh_pipeline_no_panic es : forall acc, eh_pipeline acc es <> Panic.
Proof.
  induction es as [|e r IH]; intro acc; cbn [eh_pipeline]; [discriminate|].
  pose proof (eh_step_no_panic e) as H. destruct (eh_step e); [apply IH|discriminate|congruence].
Qed.

Lemma create_rule_no_panic fixed proxy def r : create_rule fixed proxy def r <> Panic.
Proof.
  unfold create_rule. destruct (proxy && negb (r_backend r)); [discriminate|].
  pose proof (exec_pipeline_no_panic (r_exec r) empty_pipes) as H1.
  destruct (exec_pipeline empty_pipes (r_exec r)) as [p| |]; [|discriminate|congruence].
  pose proof (eh_pipeline_no_panic (r_eh r) []) as H2.
  destruct (eh_pipeline [] (r_eh r)) as [eh| |]; [|discriminate|congruence].
  match goal with |- (if is_nil ?x then _ else _) <> _ => destruct (is_nil x) end; [discriminate|].
  destruct (negb (r_matchers_ok r)); discriminate.
Qed.

Lemma init_default_no_panic d : init_default d <> Panic.
Proof.
  unfold init_default.
  pose proof (exec_pipeline_no_panic (d_exec d) empty_pipes) as H1.
  destruct (exec_pipeline empty_pipes (d_exec d)) as [p| |]; [|discriminate|congruence].
  pose proof (eh_pipeline_no_panic (d_eh d) []) as H2.
  destruct (eh_pipeline [] (d_eh d)) as [eh| |]; [|discriminate|congruence].
  destruct (is_nil (p_a p)); discriminate.
Qed.

Lemma load_rules_no_panic fixed proxy def rs : load_rules fixed proxy def rs <> Panic.
Proof.
  induction rs as [|r rest IH]; cbn [load_rules]; [discriminate|].
  pose proof (create_rule_no_panic fixed proxy def r) as H.
  destruct (create_rule fixed proxy def r); [|discriminate|congruence].
  destruct (load_rules fixed proxy def rest); [discriminate|discriminate|congruence].
Qed.

Lemma loader_total fixed proxy d r rs def :
  load fixed proxy d r <> FactoryPanic /\ load fixed proxy d r <> Loaded Panic /\
  load_rules fixed proxy def rs <> Panic.
Proof.
  split; [|split; [|apply load_rules_no_panic]]; unfold load; destruct d as [dd|].
  - pose proof (init_default_no_panic dd) as H. destruct (init_default dd); congruence || discriminate.
  - discriminate.
  - destruct (init_default dd); try discriminate. intro H; inversion H as [H1].
    exact (create_rule_no_panic _ _ _ _ H1).
  - intro H; inversion H as [H1]. exact (create_rule_no_panic _ _ _ _ H1).
Qed.
