(** C14 — proofs: the model of the rule factory / rule-set loader / rule
    execution against the specification of C14/Spec.v. *)
From HV Require Import Base.Prelude C14.Model C14.Spec.

Ltac splits := repeat match goal with |- _ /\ _ => split end.

Definition of_opt {A} (o : option A) : res A := match o with Some a => Ok a | None => Rejected end.

(** ** Small facts *)

Lemma is_nil_true {A} (l : list A) : is_nil l = true <-> l = [].
Proof. destruct l; simpl; split; congruence. Qed.

Lemma inherit_nil own : inherit own [] = own.
Proof. destruct own; reflexivity. Qed.

Lemma or_default_inherit own def : or_default own def = inherit own def.
Proof. destruct own; reflexivity. Qed.

Lemma all_some_map_ext {A B} (f g : A -> option B) l :
  (forall x, In x l -> f x = g x) -> all_some (map f l) = all_some (map g l).
Proof.
  induction l as [|x l IH]; intro H; simpl; [reflexivity|].
  rewrite (H x (or_introl eq_refl)), IH; [reflexivity|]. intros y Hy. apply H. right. exact Hy.
Qed.

Lemma all_some_Some {A B} (f : A -> option B) l ms :
  all_some (map f l) = Some ms <-> Forall2 (fun x m => f x = Some m) l ms.
Proof.
  revert ms. induction l as [|x l IH]; intros ms; simpl.
  - split; [intro H; inversion H; constructor | intro H; inversion H; reflexivity].
  - destruct (f x) as [m|] eqn:Hx.
    + destruct (all_some (map f l)) as [ms'|] eqn:Hl.
      * split.
        -- intro H; inversion H; subst. constructor; [assumption | apply IH; reflexivity].
        -- intro H. inversion H as [|? m' ? ms'' Hm Hr]; subst. apply IH in Hr. congruence.
      * split; [discriminate|]. intro H. inversion H as [|? m' ? ms'' Hm Hr]; subst. apply IH in Hr. discriminate.
    + split; [discriminate|]. intro H. inversion H; subst. congruence.
Qed.

Lemma all_some_None {A B} (f : A -> option B) l :
  all_some (map f l) = None <-> exists x, In x l /\ f x = None.
Proof.
  induction l as [|x l IH]; simpl.
  - split; [discriminate | intros (x & [] & _)].
  - destruct (f x) as [m|] eqn:Hx.
    + destruct (all_some (map f l)) as [ms'|] eqn:Hl.
      * split; [discriminate|]. intros (y & [<-|Hy] & Hn); [congruence|].
        assert (Hs : None = None :> option (list B)) by reflexivity.
        destruct IH as [_ IH]. specialize (IH (ex_intro _ y (conj Hy Hn))). discriminate.
      * split; [|reflexivity]. intros _. destruct IH as [IH _]. destruct (IH eq_refl) as (y & Hy & Hn).
        exists y. split; [right; assumption | assumption].
    + split; [|reflexivity]. intros _. exists x. split; [left; reflexivity | assumption].
Qed.

(** ** One `execute` step *)

(** the mechanism a step denotes AS THE CODE READS IT: the first mechanism key
    in the order authenticator, authorizer, contextualizer, finalizer; the `if` of
    an authenticator step is not looked at.  On the steps the statement speaks
    about this is the specification's [spec_mech] (lemma [model_mech_scoped]). *)
Definition model_mech (st : step) : option mech :=
  match classify st with
  | Some (KAuthn, kv) => spec_ref KAuthn kv (s_cfg st) CondNil
  | Some (k, kv) => spec_ref k kv (s_cfg st) (s_if st)
  | None => None
  end.

Lemma model_mech_scoped st : scoped_step st = true -> model_mech st = spec_mech st.
Proof.
  unfold scoped_step, model_mech, spec_mech, classify, keys_of, opt_key.
  destruct (s_authn st), (s_authz st), (s_ctx st), (s_fin st); simpl; try discriminate; try reflexivity.
  destruct (s_if st); try discriminate. reflexivity.
Qed.

Lemma model_mech_kind st m : model_mech st = Some m -> m_kind m <> KEh.
Proof.
  unfold model_mech, classify, spec_ref.
  destruct (s_authn st) as [kv|]; [|destruct (s_authz st) as [kv|]; [|destruct (s_ctx st) as [kv|];
    [|destruct (s_fin st) as [kv|]; [|discriminate]]]];
  destruct (k_id kv); try discriminate; destruct (spec_cfg (s_cfg st)); try discriminate;
  try (destruct (spec_cond (s_if st)); try discriminate); simpl;
  destruct (k_ok kv); try discriminate; intro H; inversion H; subst; simpl; discriminate.
Qed.

Lemma create_spec k kv cfg c cv :
  spec_cond cv = Some c -> create k kv cfg c = of_opt (spec_ref k kv cfg cv).
Proof.
  intro Hc. unfold create, spec_ref. rewrite Hc.
  destruct (k_id kv); [|reflexivity]. destruct cfg; simpl; try reflexivity; destruct (k_ok kv); reflexivity.
Qed.

Lemma cond_res_spec cv : cond_res cv = of_opt (spec_cond cv).
Proof. destruct cv; reflexivity. Qed.

Lemma spec_ref_bad_cond k kv cfg cv : spec_cond cv = None -> spec_ref k kv cfg cv = None.
Proof. intro H. unfold spec_ref. rewrite H. destruct (k_id kv); [destruct (spec_cfg cfg)|]; reflexivity. Qed.

Lemma spec_ref_kind k kv cfg cv m : spec_ref k kv cfg cv = Some m -> m_kind m = k.
Proof.
  unfold spec_ref. destruct (k_id kv); [|discriminate]. destruct (spec_cfg cfg); [|discriminate].
  destruct (spec_cond cv); [|discriminate]. destruct (k_ok kv); [|discriminate]. intro H; inversion H; reflexivity.
Qed.

Lemma create_handler_spec k kv st b :
  create_handler k kv st b = if b then of_opt (spec_ref k kv (s_cfg st) (s_if st)) else Rejected.
Proof.
  unfold create_handler. destruct b; simpl; [|reflexivity].
  rewrite cond_res_spec. destruct (spec_cond (s_if st)) as [c|] eqn:Hc; simpl.
  - apply create_spec. exact Hc.
  - rewrite spec_ref_bad_cond by exact Hc. reflexivity.
Qed.

Lemma exec_step_char p st :
  exec_step p st =
  match model_mech st with
  | Some m => if order_okb p (m_kind m) then Ok (upd p (m_kind m) m) else Rejected
  | None => Rejected
  end.
Proof.
  unfold exec_step, model_mech. destruct (classify st) as [[k kv]|]; [|reflexivity].
  destruct k.
  - destruct (spec_ref KAuthn kv (s_cfg st) CondNil) as [m|] eqn:Hm.
    + rewrite (spec_ref_kind _ _ _ _ _ Hm). destruct (order_okb p KAuthn); [|reflexivity].
      rewrite (create_spec KAuthn kv (s_cfg st) None CondNil eq_refl), Hm. reflexivity.
    + destruct (order_okb p KAuthn); [|reflexivity].
      rewrite (create_spec KAuthn kv (s_cfg st) None CondNil eq_refl), Hm. reflexivity.
  - rewrite create_handler_spec. destruct (spec_ref KAuthz kv (s_cfg st) (s_if st)) as [m|] eqn:Hm.
    + rewrite (spec_ref_kind _ _ _ _ _ Hm). destruct (order_okb p KAuthz); reflexivity.
    + destruct (order_okb p KAuthz); reflexivity.
  - rewrite create_handler_spec. destruct (spec_ref KCtx kv (s_cfg st) (s_if st)) as [m|] eqn:Hm.
    + rewrite (spec_ref_kind _ _ _ _ _ Hm). destruct (order_okb p KCtx); reflexivity.
    + destruct (order_okb p KCtx); reflexivity.
  - rewrite create_handler_spec. destruct (spec_ref KFin kv (s_cfg st) (s_if st)) as [m|] eqn:Hm.
    + rewrite (spec_ref_kind _ _ _ _ _ Hm). destruct (order_okb p KFin); reflexivity.
    + destruct (order_okb p KFin); reflexivity.
  - rewrite create_handler_spec. destruct (spec_ref KEh kv (s_cfg st) (s_if st)) as [m|] eqn:Hm.
    + rewrite (spec_ref_kind _ _ _ _ _ Hm). destruct (order_okb p KEh); reflexivity.
    + destruct (order_okb p KEh); reflexivity.
Qed.

(** ** The `execute` list: the accumulating order checks of the code are the
    global "sorted by stage" of the specification *)

(** the stage the pipeline built so far has reached *)
Definition floor (p : pipes) : nat :=
  if negb (is_nil (p_f p)) then 2 else if negb (is_nil (p_h p)) then 1 else 0.

Lemma order_okb_floor p k : order_okb p k = (floor p <=? rank k).
Proof.
  unfold order_okb, floor. destruct k; destruct (p_f p), (p_h p); reflexivity.
Qed.

Lemma app_one_not_nil {A} (l : list A) x : is_nil (l ++ [x]) = false.
Proof. destruct l; reflexivity. Qed.

Lemma floor_upd p k m : k <> KEh -> order_okb p k = true -> floor (upd p k m) = rank k.
Proof.
  intros Hk. unfold order_okb, floor, upd.
  destruct k; simpl; try congruence; rewrite ?app_one_not_nil; simpl.
  - rewrite andb_true_iff, !is_nil_true. intros [-> ->]. reflexivity.
  - rewrite is_nil_true. intros ->. reflexivity.
  - rewrite is_nil_true. intros ->. reflexivity.
  - reflexivity.
Qed.

Definition rk (m : mech) : nat := rank (m_kind m).

Lemma sortedb_cons x y l : sortedb (x :: y :: l) = (x <=? y) && sortedb (y :: l).
Proof. reflexivity. Qed.

Definition pipes_app (p : pipes) (ms : list mech) : pipes :=
  {| p_a := p_a p ++ filter (of_rank 0) ms; p_h := p_h p ++ filter (of_rank 1) ms;
     p_f := p_f p ++ filter (of_rank 2) ms |}.

Lemma pipes_app_cons p m ms :
  m_kind m <> KEh -> pipes_app (upd p (m_kind m) m) ms = pipes_app p (m :: ms).
Proof.
  intro Hk. unfold pipes_app, upd. cbn [filter]. unfold of_rank.
  destruct (m_kind m) eqn:Ek; simpl; try congruence; rewrite <- ?app_assoc; reflexivity.
Qed.

Lemma exec_pipeline_char sts : forall p,
  exec_pipeline p sts =
  match all_some (map model_mech sts) with
  | Some ms => if sortedb (floor p :: map rk ms) then Ok (pipes_app p ms) else Rejected
  | None => Rejected
  end.
Proof.
  induction sts as [|st sts IH]; intro p.
  - simpl. unfold pipes_app; simpl. rewrite !app_nil_r. destruct p; reflexivity.
  - cbn [exec_pipeline map all_some]. rewrite exec_step_char.
    destruct (model_mech st) as [m|] eqn:Hm; [|reflexivity].
    pose proof (model_mech_kind _ _ Hm) as Hk.
    destruct (order_okb p (m_kind m)) eqn:Ho.
    + rewrite IH. rewrite (floor_upd _ _ _ Hk Ho).
      destruct (all_some (map model_mech sts)) as [ms|]; [|reflexivity].
      rewrite order_okb_floor in Ho.
      cbn [map]. rewrite sortedb_cons. change (rk m) with (rank (m_kind m)). rewrite Ho. cbn [andb].
      destruct (sortedb (rank (m_kind m) :: map rk ms)); [|reflexivity].
      rewrite pipes_app_cons by exact Hk. reflexivity.
    + destruct (all_some (map model_mech sts)) as [ms|]; [|reflexivity].
      rewrite order_okb_floor in Ho.
      cbn [map]. rewrite sortedb_cons. change (rk m) with (rank (m_kind m)). rewrite Ho. reflexivity.
Qed.

Lemma sortedb_zero l : sortedb (0 :: l) = sortedb l.
Proof. destruct l; reflexivity. Qed.

Definition triple_pipes (t : list mech * list mech * list mech) : pipes :=
  let '(a, h, f) := t in {| p_a := a; p_h := h; p_f := f |}.

(** the pipeline language of the code, for every list of step maps *)
Definition model_pipeline (sts : list step) : option (list mech * list mech * list mech) :=
  match all_some (map model_mech sts) with
  | Some ms => if sortedb (map rk ms)
               then Some (filter (of_rank 0) ms, filter (of_rank 1) ms, filter (of_rank 2) ms)
               else None
  | None => None
  end.

Theorem pipeline_language sts :
  exec_pipeline empty_pipes sts = of_opt (option_map triple_pipes (model_pipeline sts)).
Proof.
  rewrite exec_pipeline_char. unfold model_pipeline.
  destruct (all_some (map model_mech sts)) as [ms|]; [|reflexivity].
  change (floor empty_pipes) with 0. rewrite sortedb_zero.
  destruct (sortedb (map rk ms)); reflexivity.
Qed.

Lemma model_pipeline_scoped sts :
  forallb scoped_step sts = true -> model_pipeline sts = spec_pipeline sts.
Proof.
  intro H. unfold model_pipeline, spec_pipeline.
  rewrite (all_some_map_ext model_mech spec_mech); [reflexivity|].
  intros st Hin. apply model_mech_scoped. rewrite forallb_forall in H. apply H. exact Hin.
Qed.

(** ** Error-handler lists *)

Lemma eh_step_spec e : eh_step e = of_opt (spec_eh_mech e).
Proof.
  unfold eh_step, spec_eh_mech. destruct (e_key e) as [kv|]; [|reflexivity].
  destruct (k_id kv) as [id|] eqn:Hid.
  - destruct (e_cfg e) eqn:Hcfg.
    + rewrite cond_res_spec. destruct (spec_cond (e_if e)) as [c|] eqn:Hc; simpl.
      * apply create_spec. exact Hc.
      * rewrite spec_ref_bad_cond by exact Hc. reflexivity.
    + rewrite cond_res_spec. destruct (spec_cond (e_if e)) as [c|] eqn:Hc; simpl.
      * apply create_spec. exact Hc.
      * rewrite spec_ref_bad_cond by exact Hc. reflexivity.
    + unfold spec_ref. rewrite Hid. reflexivity.
  - unfold spec_ref. rewrite Hid. reflexivity.
Qed.

Lemma eh_pipeline_char es : forall acc,
  eh_pipeline acc es = match spec_errors es with Some ms => Ok (acc ++ ms) | None => Rejected end.
Proof.
  unfold spec_errors. induction es as [|e es IH]; intro acc; simpl.
  - rewrite app_nil_r. reflexivity.
  - rewrite eh_step_spec. destruct (spec_eh_mech e) as [m|]; simpl; [|reflexivity].
    rewrite IH. destruct (all_some (map spec_eh_mech es)); [|reflexivity].
    rewrite <- app_assoc. reflexivity.
Qed.

(** ** CreateRule and initWithDefaultRule against the specification *)

Lemma exec_pipeline_scoped sts :
  forallb scoped_step sts = true ->
  exec_pipeline empty_pipes sts = of_opt (option_map triple_pipes (spec_pipeline sts)).
Proof. intro H. rewrite pipeline_language, model_pipeline_scoped by exact H. reflexivity. Qed.

(** the rule factory computes the specification's effective rule on every
    definition in the scope of the statement (the matchers are C03's business:
    a rule whose matchers cannot be built is rejected whatever its pipeline) *)
Theorem create_rule_spec proxy def r :
  scoped_rule r = true ->
  create_rule proxy def r = if r_matchers_ok r then of_opt (spec_rule proxy def r) else Rejected.
Proof.
  intro Hs. unfold create_rule, spec_rule.
  destruct (proxy && negb (r_backend r)); [destruct (r_matchers_ok r); reflexivity|].
  rewrite (exec_pipeline_scoped _ Hs), eh_pipeline_char.
  destruct (spec_pipeline (r_exec r)) as [[[a h] f]|]; simpl; [|destruct (r_matchers_ok r); reflexivity].
  destruct (spec_errors (r_eh r)) as [e|]; simpl; [|destruct (r_matchers_ok r); reflexivity].
  destruct def as [d|]; simpl; rewrite ?or_default_inherit, ?inherit_nil.
  - destruct (inherit a (f_sc d)) eqn:Hsc; simpl; [destruct (r_matchers_ok r); reflexivity|].
    destruct (r_matchers_ok r); reflexivity.
  - destruct a; simpl; [destruct (r_matchers_ok r); reflexivity|].
    destruct (r_matchers_ok r); reflexivity.
Qed.

Theorem init_default_spec d :
  forallb scoped_step (d_exec d) = true -> init_default d = of_opt (spec_default d).
Proof.
  intro Hs. unfold init_default, spec_default. rewrite (exec_pipeline_scoped _ Hs), eh_pipeline_char.
  destruct (spec_pipeline (d_exec d)) as [[[a h] f]|]; simpl; [|reflexivity].
  destruct (spec_errors (d_eh d)) as [e|]; simpl; [|destruct a; reflexivity].
  destruct a; reflexivity.
Qed.

(** ** The model never panics (since fix f8fe9cb every malformed shape is a rejection) *)

Lemma exec_pipeline_no_panic sts : exec_pipeline empty_pipes sts <> Panic.
Proof. rewrite pipeline_language. destruct (model_pipeline sts); discriminate. Qed.

Lemma eh_pipeline_no_panic es acc : eh_pipeline acc es <> Panic.
Proof. rewrite eh_pipeline_char. destruct (spec_errors es); discriminate. Qed.

Lemma create_rule_no_panic proxy def r : create_rule proxy def r <> Panic.
Proof.
  unfold create_rule. destruct (proxy && negb (r_backend r)); [discriminate|].
  pose proof (exec_pipeline_no_panic (r_exec r)) as H1.
  destruct (exec_pipeline empty_pipes (r_exec r)) as [p| |]; [|discriminate|congruence].
  pose proof (eh_pipeline_no_panic (r_eh r) []) as H2.
  destruct (eh_pipeline [] (r_eh r)) as [eh| |]; [|discriminate|congruence].
  match goal with |- (if is_nil ?x then _ else _) <> _ => destruct (is_nil x) end; [discriminate|].
  destruct (negb (r_matchers_ok r)); discriminate.
Qed.

Lemma init_default_no_panic d : init_default d <> Panic.
Proof.
  unfold init_default.
  pose proof (exec_pipeline_no_panic (d_exec d)) as H1.
  destruct (exec_pipeline empty_pipes (d_exec d)) as [p| |]; [|discriminate|congruence].
  pose proof (eh_pipeline_no_panic (d_eh d) []) as H2.
  destruct (eh_pipeline [] (d_eh d)) as [eh| |]; [|discriminate|congruence].
  destruct (is_nil (p_a p)); discriminate.
Qed.

Lemma load_rules_no_panic proxy def rs : load_rules proxy def rs <> Panic.
Proof.
  induction rs as [|r rest IH]; cbn [load_rules]; [discriminate|].
  pose proof (create_rule_no_panic proxy def r) as H.
  destruct (create_rule proxy def r); [|discriminate|congruence].
  destruct (load_rules proxy def rest); [discriminate|discriminate|congruence].
Qed.

(** ** The statement, clause by clause *)

(** sentence 1: stage by stage own-else-default; backtracking own / default / off.
    [a], [h], [f], [e] are the rule's own mechanisms of the four stages: the
    mechanisms its steps denote, in definition order, split by kind. *)
Theorem stagewise_inheritance proxy def r eff :
  scoped_rule r = true ->
  create_rule proxy def r = Ok eff ->
  exists ms e,
    all_some (map spec_mech (r_exec r)) = Some ms /\ spec_errors (r_eh r) = Some e /\
    f_sc eff = inherit (filter (of_rank 0) ms) (dflt def f_sc) /\
    f_sh eff = inherit (filter (of_rank 1) ms) (dflt def f_sh) /\
    f_fi eff = inherit (filter (of_rank 2) ms) (dflt def f_fi) /\
    f_eh eff = inherit e (dflt def f_eh) /\
    f_bt eff = match r_bt r with
               | Some b => b
               | None => match def with Some d => f_bt d | None => false end
               end.
Proof.
  intros Hs H. rewrite (create_rule_spec _ _ _ Hs) in H.
  destruct (r_matchers_ok r); [|discriminate].
  unfold spec_rule in H. destruct (proxy && negb (r_backend r)); [discriminate|].
  unfold spec_pipeline in H.
  destruct (all_some (map spec_mech (r_exec r))) as [ms|]; [|discriminate].
  destruct (sortedb (map (fun m => rank (m_kind m)) ms)); [|discriminate].
  destruct (spec_errors (r_eh r)) as [e|]; [|discriminate].
  destruct (inherit (filter (of_rank 0) ms) (dflt def f_sc)) eqn:Hsc; [discriminate|].
  simpl in H. inversion H; subst eff; simpl. exists ms, e. splits; auto.
Qed.

(** sentence 2: each of the listed defects rejects the rule *)
Theorem malformed_rejected proxy def r :
  scoped_rule r = true ->
  (* a step that names no mechanism / an unknown mechanism / a bad override / a bad condition *)
  (exists st, In st (r_exec r) /\ spec_mech st = None) \/
  (exists e, In e (r_eh r) /\ spec_eh_mech e = None) \/
  (* not ordered authenticators, authorizers/contextualizers, finalizers *)
  (exists ms, all_some (map spec_mech (r_exec r)) = Some ms /\ sortedb (map rk ms) = false) \/
  (* ends up without an authenticator *)
  (exists ms, all_some (map spec_mech (r_exec r)) = Some ms /\ filter (of_rank 0) ms = [] /\ dflt def f_sc = []) \/
  (* no forward_to in proxy mode *)
  (proxy = true /\ r_backend r = false) ->
  create_rule proxy def r = Rejected.
Proof.
  intros Hs H. rewrite (create_rule_spec _ _ _ Hs).
  assert (Hn : spec_rule proxy def r = None); [|rewrite Hn; destruct (r_matchers_ok r); reflexivity].
  unfold spec_rule, spec_pipeline.
  destruct H as [(st & Hin & Hst)|[(e & Hin & He)|[(ms & Hms & Hso)|[(ms & Hms & Ha & Hd)|[-> ->]]]]].
  - destruct (proxy && negb (r_backend r)); [reflexivity|].
    assert (Hx : all_some (map spec_mech (r_exec r)) = None) by (apply all_some_None; eauto).
    rewrite Hx. reflexivity.
  - destruct (proxy && negb (r_backend r)); [reflexivity|].
    assert (Hx : spec_errors (r_eh r) = None) by (apply all_some_None; eauto).
    rewrite Hx. destruct (all_some (map spec_mech (r_exec r))) as [ms|]; [|reflexivity].
    destruct (sortedb _); reflexivity.
  - destruct (proxy && negb (r_backend r)); [reflexivity|].
    rewrite Hms. unfold rk in Hso. rewrite Hso. reflexivity.
  - destruct (proxy && negb (r_backend r)); [reflexivity|].
    rewrite Hms. destruct (sortedb _); [|reflexivity].
    destruct (spec_errors (r_eh r)); [|reflexivity]. rewrite Ha, Hd. reflexivity.
  - reflexivity.
Qed.

(** the converse for the rule factory: nothing else is rejected *)
Theorem wellformed_accepted proxy def r ms e :
  scoped_rule r = true ->
  all_some (map spec_mech (r_exec r)) = Some ms -> sortedb (map rk ms) = true ->
  spec_errors (r_eh r) = Some e ->
  (filter (of_rank 0) ms <> [] \/ dflt def f_sc <> []) ->
  (proxy = true -> r_backend r = true) -> r_matchers_ok r = true ->
  exists eff, create_rule proxy def r = Ok eff.
Proof.
  intros Hs Hms Hso He Hau Hpx Hmm. rewrite (create_rule_spec _ _ _ Hs), Hmm.
  unfold spec_rule, spec_pipeline. rewrite Hms. unfold rk in Hso. rewrite Hso, He.
  assert (Hp : proxy && negb (r_backend r) = false).
  { destruct proxy; [rewrite Hpx by reflexivity|]; reflexivity. }
  rewrite Hp.
  destruct (inherit (filter (of_rank 0) ms) (dflt def f_sc)) eqn:Hi; [|eexists; reflexivity].
  exfalso. unfold inherit in Hi. destruct (filter (of_rank 0) ms); [|discriminate].
  destruct Hau as [Hc|Hc]; congruence.
Qed.

(** ** Rule sets are accepted or rejected as a whole *)

Theorem load_rules_all_or_nothing proxy def rs effs :
  load_rules proxy def rs = Ok effs <->
  Forall2 (fun r e => create_rule proxy def r = Ok e) rs effs.
Proof.
  revert effs. induction rs as [|r rs IH]; intros effs; simpl.
  - split.
    + intro H; inversion H; constructor.
    + intro H; inversion H; reflexivity.
  - destruct (create_rule proxy def r) as [e| |] eqn:Hr.
    + destruct (load_rules proxy def rs) as [es| |] eqn:Hrs.
      * split.
        -- intro H; inversion H; subst. constructor; [assumption | apply IH; reflexivity].
        -- intro H. inversion H as [|? e' ? es' He Hes]; subst.
           apply IH in Hes. inversion Hes; subst. congruence.
      * split; [discriminate|]. intro H. inversion H as [|? e' ? es' He Hes]; subst.
        apply IH in Hes. discriminate.
      * split; [discriminate|]. intro H. inversion H as [|? e' ? es' He Hes]; subst.
        apply IH in Hes. discriminate.
    + split; [discriminate|]. intro H. inversion H; subst. congruence.
    + split; [discriminate|]. intro H. inversion H; subst. congruence.
Qed.

(** the loader of a rule set (parser validation, version check, factory):
    accepted iff every rule passes the parser's validation, the version is
    supported and the factory accepts every rule *)
Theorem ruleset_all_or_nothing proxy def sd effs :
  load_ruleset proxy def sd = Ok effs <->
  forallb parse_ok (sd_rules sd) = true /\ sd_version_ok sd = true /\
  Forall2 (fun r e => create_rule proxy def r = Ok e) (sd_rules sd) effs.
Proof.
  unfold load_ruleset. destruct (forallb parse_ok (sd_rules sd)); simpl.
  - destruct (sd_version_ok sd); simpl.
    + rewrite load_rules_all_or_nothing. tauto.
    + split; [discriminate | intros (_ & H & _); discriminate].
  - split; [discriminate | intros (H & _); discriminate].
Qed.

(** one rule of the set that the factory does not accept: the set is reported
    as rejected and the rules of the source stay what they were (creation as well
    as update) *)
Theorem ruleset_one_bad_rejects proxy def v rs1 r rs2 old :
  (forall e, create_rule proxy def r <> Ok e) ->
  let res := load_ruleset proxy def {| sd_version_ok := v; sd_rules := rs1 ++ r :: rs2 |} in
  is_ok res = false /\ after old res = old.
Proof.
  intros Hbad res.
  assert (H : forall effs, res <> Ok effs).
  { intros effs H. apply ruleset_all_or_nothing in H as (_ & _ & H). simpl in H.
    apply Forall2_app_inv_l in H as (l1 & l2 & _ & H2 & _).
    inversion H2 as [|? e ? ? He _]; subst. exact (Hbad e He). }
  destruct res as [effs| |]; [exfalso; eapply H; reflexivity| |]; split; reflexivity.
Qed.

Lemma load_rules_spec proxy def rs :
  forallb scoped_rule rs = true -> forallb parse_ok rs = true ->
  load_rules proxy def rs = of_opt (spec_rules proxy def rs).
Proof.
  unfold spec_rules. induction rs as [|r rs IH]; simpl; [reflexivity|].
  rewrite !andb_true_iff. intros [Hs Hss] [Hp Hps].
  rewrite (create_rule_spec _ _ _ Hs). unfold parse_ok in Hp. apply andb_true_iff in Hp as [_ ->].
  destruct (spec_rule proxy def r) as [e|]; simpl; [|reflexivity].
  rewrite (IH Hss Hps). destruct (all_some (map (spec_rule proxy def) rs)); reflexivity.
Qed.

(** the rule-set loader against the specification.  The parser's validation is
    stricter than the statement: a rule without any `execute` step is refused
    although, with a complete default rule, the specification gives it an
    effective pipeline (documented deviation: over-rejection). *)
Theorem load_ruleset_spec proxy def sd :
  forallb scoped_rule (sd_rules sd) = true ->
  load_ruleset proxy def sd =
  if forallb parse_ok (sd_rules sd) && sd_version_ok sd then of_opt (spec_rules proxy def (sd_rules sd)) else Rejected.
Proof.
  intro Hs. unfold load_ruleset. destruct (forallb parse_ok (sd_rules sd)) eqn:Hp; simpl; [|reflexivity].
  destruct (sd_version_ok sd); simpl; [|reflexivity]. apply load_rules_spec; assumption.
Qed.

(** the converse at rule-set level needs the parser's extra demand *)
Theorem ruleset_wellformed_accepted proxy def sd es :
  forallb scoped_rule (sd_rules sd) = true ->
  spec_rules proxy def (sd_rules sd) = Some es ->
  forallb (fun r => negb (is_nil (r_exec r)) && r_matchers_ok r) (sd_rules sd) = true ->
  sd_version_ok sd = true ->
  load_ruleset proxy def sd = Ok es.
Proof.
  intros Hs He Hp Hv. rewrite (load_ruleset_spec _ _ _ Hs).
  change (forallb parse_ok (sd_rules sd) = true) in Hp. rewrite Hp, Hv, He. reflexivity.
Qed.

(** ** The executed trace (rule_impl.go Execute) read stage by stage *)

Section Traces.
  Variable holds : nat -> nat -> bool.
  Notation app := (applicable holds).

  Lemma run_handlers_nofail p hs :
    (forall h, In h hs -> fails p h = false) ->
    run_handlers holds p hs = (map tm (filter (app p) hs), false).
  Proof.
    induction hs as [|h hs IH]; intro H; simpl; [reflexivity|].
    rewrite IH by (intros x Hx; apply H; right; exact Hx).
    destruct (app p h); [|reflexivity]. rewrite (H h (or_introl eq_refl)). reflexivity.
  Qed.

  Definition first_applicable (p : probe) (hs : list mech) : list tmech * bool :=
    match find (app p) hs with Some h => ([tm h], true) | None => ([], false) end.

  Lemma run_handlers_allfail p hs :
    (forall h, In h hs -> fails p h = true) ->
    run_handlers holds p hs = first_applicable p hs.
  Proof.
    unfold first_applicable. induction hs as [|h hs IH]; intro H; simpl; [reflexivity|].
    destruct (app p h); [rewrite (H h (or_introl eq_refl)); reflexivity|].
    apply IH. intros x Hx; apply H; right; exact Hx.
  Qed.

  Lemma run_eh_passthrough p hs :
    passthrough p = true -> run_eh holds p hs = (map tm (filter (app p) hs), false).
  Proof.
    intro Hp. induction hs as [|h hs IH]; simpl; [reflexivity|].
    rewrite IH, Hp. destruct (app p h); reflexivity.
  Qed.

  Lemma run_eh_first p hs :
    passthrough p = false -> run_eh holds p hs = first_applicable p hs.
  Proof.
    intro Hp. unfold first_applicable. induction hs as [|h hs IH]; simpl; [reflexivity|].
    rewrite Hp. destruct (app p h); [reflexivity | exact IH].
  Qed.

  Lemma run_authn_allfail p sc :
    sc <> [] -> (forall a, In a sc -> fails p a = true) -> run_authn p sc = (map tm sc, true).
  Proof.
    induction sc as [|a sc IH]; intros Hne H; [congruence|].
    cbn [run_authn]. rewrite (H a (or_introl eq_refl)). destruct sc as [|b sc]; [reflexivity|].
    rewrite IH; [reflexivity | discriminate | intros x Hx; apply H; right; exact Hx].
  Qed.

  Definition stage_kinds (e : effective) : Prop :=
    f_sc e <> [] /\ Forall (fun m => m_kind m = KAuthn) (f_sc e) /\
    Forall (fun m => rank (m_kind m) = 1) (f_sh e) /\ Forall (fun m => m_kind m = KFin) (f_fi e).

  Lemma Forall_In {A} (P : A -> Prop) l x : Forall P l -> In x l -> P x.
  Proof. intros H Hx. rewrite Forall_forall in H. apply H. exact Hx. Qed.

  (** nothing fails: the first authenticator, then every authorizer /
      contextualizer whose condition holds, then every finalizer whose condition
      holds, in the order of the effective rule; no error handler runs *)
  Theorem run_success e p a sc :
    pr_fail p = FNone -> f_sc e = a :: sc ->
    run holds e p = (false, tm a :: map tm (filter (app p) (f_sh e)) ++ map tm (filter (app p) (f_fi e))).
  Proof.
    intros Hf Hsc. unfold run. rewrite Hsc. cbn [run_authn].
    assert (Hnf : forall m, fails p m = false) by (intro m; unfold fails; rewrite Hf; reflexivity).
    rewrite Hnf. rewrite !run_handlers_nofail by (intros; apply Hnf). reflexivity.
  Qed.

  (** every authenticator fails with an argument error: all of them are tried in
      order; then every error handler whose condition holds (they decline) *)
  Theorem run_authn_failure e p :
    pr_fail p = FAuthn -> stage_kinds e ->
    run holds e p = (true, map tm (f_sc e) ++ map tm (filter (app p) (f_eh e))).
  Proof.
    intros Hf (Hne & Ha & _ & _). unfold run.
    rewrite run_authn_allfail; [| exact Hne |].
    - rewrite run_eh_passthrough by (unfold passthrough; rewrite Hf; reflexivity). reflexivity.
    - intros a Hin. unfold fails. rewrite Hf, (Forall_In _ _ _ Ha Hin). reflexivity.
  Qed.

  (** the authorization stage fails: the pipeline stops at the first authorizer
      / contextualizer whose condition holds, no finalizer runs, the first
      applicable error handler handles the error (else it is returned) *)
  Theorem run_mid_failure e p a sc :
    pr_fail p = FMid -> stage_kinds e -> f_sc e = a :: sc ->
    run holds e p =
    match find (app p) (f_sh e) with
    | Some h => let '(te, handled) := first_applicable p (f_eh e) in (negb handled, [tm a] ++ [tm h] ++ te)
    | None => (false, tm a :: map tm (filter (app p) (f_fi e)))
    end.
  Proof.
    intros Hf (_ & Ha & Hh & Hfi) Hsc. unfold run. rewrite Hsc in *. cbn [run_authn].
    assert (Hfa : fails p a = false).
    { unfold fails. rewrite Hf, (Forall_In _ _ _ Ha (or_introl eq_refl)). reflexivity. }
    rewrite Hfa. rewrite run_handlers_allfail.
    2:{ intros h Hin. unfold fails. rewrite Hf. pose proof (Forall_In _ _ _ Hh Hin) as Hk.
        cbv beta in Hk; revert Hk; destruct (m_kind h); simpl; intro Hk; try discriminate Hk; reflexivity. }
    unfold first_applicable at 1. destruct (find (app p) (f_sh e)) as [h|].
    - rewrite run_eh_first by (unfold passthrough; rewrite Hf; reflexivity).
      destruct (first_applicable p (f_eh e)). reflexivity.
    - rewrite run_handlers_nofail; [reflexivity|].
      intros h Hin. unfold fails. rewrite Hf, (Forall_In _ _ _ Hfi Hin). reflexivity.
  Qed.

  (** the finalization stage fails *)
  Theorem run_fin_failure e p a sc :
    pr_fail p = FFin -> stage_kinds e -> f_sc e = a :: sc ->
    run holds e p =
    match find (app p) (f_fi e) with
    | Some h => let '(te, handled) := first_applicable p (f_eh e) in
                (negb handled, [tm a] ++ map tm (filter (app p) (f_sh e)) ++ [tm h] ++ te)
    | None => (false, tm a :: map tm (filter (app p) (f_sh e)))
    end.
  Proof.
    intros Hf (_ & Ha & Hh & Hfi) Hsc. unfold run. rewrite Hsc in *. cbn [run_authn].
    assert (Hfa : fails p a = false).
    { unfold fails. rewrite Hf, (Forall_In _ _ _ Ha (or_introl eq_refl)). reflexivity. }
    rewrite Hfa. rewrite run_handlers_nofail.
    2:{ intros h Hin. unfold fails. rewrite Hf. pose proof (Forall_In _ _ _ Hh Hin) as Hk.
        cbv beta in Hk; revert Hk; destruct (m_kind h); simpl; intro Hk; try discriminate Hk; reflexivity. }
    rewrite run_handlers_allfail.
    2:{ intros h Hin. unfold fails. rewrite Hf, (Forall_In _ _ _ Hfi Hin). reflexivity. }
    unfold first_applicable at 1. destruct (find (app p) (f_fi e)) as [h|].
    - rewrite run_eh_first by (unfold passthrough; rewrite Hf; reflexivity).
      destruct (first_applicable p (f_eh e)). rewrite <- !app_assoc. reflexivity.
    - rewrite app_nil_r. reflexivity.
  Qed.
End Traces.

(** the stages of an effective rule hold mechanisms of the stage's kinds *)
Lemma filter_rank_Forall n ms : Forall (fun m => rank (m_kind m) = n) (filter (of_rank n) ms).
Proof.
  apply Forall_forall. intros m Hm. apply filter_In in Hm as [_ Hm]. unfold of_rank in Hm.
  apply Nat.eqb_eq in Hm. exact Hm.
Qed.

Lemma rank0 m : rank (m_kind m) = 0 -> m_kind m = KAuthn.
Proof. destruct (m_kind m); simpl; congruence. Qed.
Lemma rank2 m : rank (m_kind m) = 2 -> m_kind m = KFin.
Proof. destruct (m_kind m); simpl; congruence. Qed.

Lemma Forall_impl' {A} (P Q : A -> Prop) l : (forall x, P x -> Q x) -> Forall P l -> Forall Q l.
Proof. intros H HF. eapply Forall_impl; eassumption. Qed.

Lemma spec_default_kinds d e : spec_default d = Some e -> stage_kinds e.
Proof.
  unfold spec_default, spec_pipeline.
  destruct (all_some (map spec_mech (d_exec d))) as [ms|]; [|discriminate].
  destruct (sortedb _); [|discriminate].
  pose proof (filter_rank_Forall 0 ms) as H0. pose proof (filter_rank_Forall 1 ms) as H1.
  pose proof (filter_rank_Forall 2 ms) as H2.
  destruct (filter (of_rank 0) ms) as [|a a'] eqn:Ha; [discriminate|].
  destruct (spec_errors (d_eh d)); [|discriminate]. intro H; inversion H; subst e.
  unfold stage_kinds; simpl. splits; try discriminate.
  - eapply Forall_impl'; [apply rank0 | exact H0].
  - exact H1.
  - eapply Forall_impl'; [apply rank2 | exact H2].
Qed.

Lemma spec_rule_kinds proxy def r e :
  match def with Some d => stage_kinds d | None => True end ->
  spec_rule proxy def r = Some e -> stage_kinds e.
Proof.
  intros Hd. unfold spec_rule, spec_pipeline.
  destruct (proxy && negb (r_backend r)); [discriminate|].
  destruct (all_some (map spec_mech (r_exec r))) as [ms|]; [|discriminate].
  destruct (sortedb _); [|discriminate].
  destruct (spec_errors (r_eh r)); [|discriminate].
  pose proof (filter_rank_Forall 0 ms) as H0. pose proof (filter_rank_Forall 1 ms) as H1.
  pose proof (filter_rank_Forall 2 ms) as H2.
  destruct (inherit (filter (of_rank 0) ms) (dflt def f_sc)) as [|a a'] eqn:Hi; [discriminate|].
  intro H; inversion H; subst e. unfold stage_kinds; simpl. splits; try discriminate.
  - rewrite <- Hi. unfold inherit. destruct (filter (of_rank 0) ms).
    + destruct def as [d|]; simpl; [apply Hd | constructor].
    + eapply Forall_impl'; [apply rank0 | exact H0].
  - unfold inherit. destruct (filter (of_rank 1) ms).
    + destruct def as [d|]; simpl; [apply Hd | constructor].
    + exact H1.
  - unfold inherit. destruct (filter (of_rank 2) ms).
    + destruct def as [d|]; simpl; [apply Hd | constructor].
    + eapply Forall_impl'; [apply rank2 | exact H2].
Qed.

(** ** The evaluator's predicates *)

Lemma kind_eqb_iff a b : kind_eqb a b = true <-> a = b.
Proof. destruct a, b; simpl; split; congruence. Qed.

Lemma onat_eqb_iff a b : onat_eqb a b = true <-> a = b.
Proof.
  destruct a as [x|], b as [y|]; simpl; split; try congruence.
  - intro H. apply Nat.eqb_eq in H. congruence.
  - intro H. inversion H. apply Nat.eqb_refl.
Qed.

Lemma tmech_eqb_iff a b : tmech_eqb a b = true <-> a = b.
Proof.
  destruct a as [[k1 i1] c1], b as [[k2 i2] c2]. unfold tmech_eqb.
  rewrite !andb_true_iff, kind_eqb_iff, Nat.eqb_eq, onat_eqb_iff. split.
  - intros [[-> ->] ->]. reflexivity.
  - intro H; inversion H. auto.
Qed.

Lemma bool_eqb_iff a b : Bool.eqb a b = true <-> a = b.
Proof. destruct a, b; simpl; split; congruence. Qed.

Lemma runr_eqb_iff a b : runr_eqb a b = true <-> a = b.
Proof.
  destruct a as [e1 t1], b as [e2 t2]. unfold runr_eqb; simpl.
  rewrite andb_true_iff, bool_eqb_iff, (list_eqb_spec tmech_eqb tmech_eqb_iff). split.
  - intros [-> ->]. reflexivity.
  - intro H; inversion H. auto.
Qed.

Lemma robs_eqb_iff a b : robs_eqb a b = true <-> a = b.
Proof.
  destruct a as [r1 b1], b as [r2 b2]. unfold robs_eqb; simpl.
  rewrite andb_true_iff, bool_eqb_iff, (list_eqb_spec runr_eqb runr_eqb_iff). split.
  - intros [-> ->]. reflexivity.
  - intro H; inversion H. auto.
Qed.

Lemma kn_eqb_iff a b : kn_eqb a b = true <-> a = b.
Proof.
  destruct a as [k1 i1], b as [k2 i2]. unfold kn_eqb; simpl.
  rewrite andb_true_iff, kind_eqb_iff, Nat.eqb_eq. split.
  - intros [-> ->]. reflexivity.
  - intro H; inversion H. auto.
Qed.

Lemma iobs_eqb_iff a b : iobs_eqb a b = true <-> a = b.
Proof.
  destruct a as [a1 a2 a3 a4 a5], b as [b1 b2 b3 b4 b5]. unfold iobs_eqb; simpl.
  rewrite !andb_true_iff, bool_eqb_iff, !(list_eqb_spec kn_eqb kn_eqb_iff). split.
  - intros [[[[-> ->] ->] ->] ->]. reflexivity.
  - intro H; inversion H. auto.
Qed.

Lemma served_eqb_iff a b : served_eqb a b = true <-> a = b.
Proof.
  destruct a as [|x|x], b as [|y|y]; simpl; split; try congruence.
  - intro H. apply (list_eqb_spec runr_eqb runr_eqb_iff) in H. congruence.
  - intro H. inversion H. apply (list_eqb_spec runr_eqb runr_eqb_iff). reflexivity.
  - intro H. apply robs_eqb_iff in H. congruence.
  - intro H. inversion H. apply robs_eqb_iff. reflexivity.
Qed.

Lemma default_accepted_of_init dd e : init_default dd = Ok e -> default_accepted (Some dd) = true.
Proof.
  unfold default_accepted. cbn [scoped_default spec_default_opt].
  destruct (forallb scoped_step (d_exec dd)) eqn:Hs; [|reflexivity].
  intro H. rewrite (init_default_spec _ Hs) in H. destruct (spec_default dd); [reflexivity|discriminate].
Qed.

Lemma default_accepted_Some d def : scoped_default d = true -> spec_default_opt d = Some def -> default_accepted d = true.
Proof. intros H1 H2. unfold default_accepted. rewrite H1, H2. reflexivity. Qed.

Section EvalRule.
  Context {O : Type} (obs_of : effective -> O) (eqb : O -> O -> bool).
  Hypothesis eqb_iff : forall x y, eqb x y = true <-> x = y.

  (** T_main of the verdict protocol: an implementation that shows what the
      model shows satisfies the property's predicate — for every input, no guard *)
  Theorem corr_implies_prop proxy d r :
    prop_rule obs_of eqb proxy d r (map_load obs_of (load proxy d r)) = true.
  Proof.
    unfold load, with_default. destruct d as [dd|].
    - pose proof (init_default_no_panic dd) as Hnp.
      destruct (init_default dd) as [de| |] eqn:Hd; [|reflexivity|congruence].
      pose proof (default_accepted_of_init _ _ Hd) as Hda.
      pose proof (create_rule_no_panic proxy (Some de) r) as Hnp2.
      cbn [map_load]. destruct (create_rule proxy (Some de) r) as [e| |] eqn:Hr; cbn [map_res]; unfold prop_rule;
        rewrite ?Hda; [|reflexivity|congruence].
      cbn [andb scoped_default spec_default_opt].
      destruct (forallb scoped_step (d_exec dd)) eqn:Hsd; cbn [andb]; [|reflexivity].
      destruct (scoped_rule r) eqn:Hsr; [|reflexivity].
      rewrite (init_default_spec _ Hsd) in Hd. destruct (spec_default dd) as [de'|]; [|discriminate].
      inversion Hd; subst de'. rewrite (create_rule_spec _ _ _ Hsr) in Hr.
      destruct (r_matchers_ok r); [|discriminate]. destruct (spec_rule proxy (Some de) r); [|discriminate].
      inversion Hr; subst. apply eqb_iff. reflexivity.
    - pose proof (create_rule_no_panic proxy None r) as Hnp2.
      cbn [map_load]. destruct (create_rule proxy None r) as [e| |] eqn:Hr; cbn [map_res]; unfold prop_rule;
        [|reflexivity|congruence].
      change (default_accepted None) with true. cbn [andb scoped_default spec_default_opt].
      destruct (scoped_rule r) eqn:Hsr; [|reflexivity].
      rewrite (create_rule_spec _ _ _ Hsr) in Hr.
      destruct (r_matchers_ok r); [|discriminate]. destruct (spec_rule proxy None r); [|discriminate].
      inversion Hr; subst. apply eqb_iff. reflexivity.
  Qed.

  (** what the predicate means when it holds for a loaded rule *)
  Theorem prop_rule_sound proxy d r x def :
    prop_rule obs_of eqb proxy d r (Loaded (Ok x)) = true ->
    scoped_default d = true -> scoped_rule r = true -> spec_default_opt d = Some def ->
    exists e, spec_rule proxy def r = Some e /\ x = obs_of e.
  Proof.
    unfold prop_rule. intros H H1 H2 H3. rewrite (default_accepted_Some _ _ H1 H3), H1, H2, H3 in H. simpl in H.
    destruct (spec_rule proxy def r) as [e|]; [|discriminate].
    exists e. split; [reflexivity|]. apply eqb_iff in H. congruence.
  Qed.

  (** a panic, or a loaded rule the specification rejects, violates it *)
  Theorem prop_rule_rejects proxy d r x def :
    scoped_default d = true -> scoped_rule r = true -> spec_default_opt d = Some def ->
    spec_rule proxy def r = None ->
    prop_rule obs_of eqb proxy d r (Loaded (Ok x)) = false.
  Proof. unfold prop_rule. intros H1 H2 H3 H4. rewrite (default_accepted_Some _ _ H1 H3), H1, H2, H3, H4. reflexivity. Qed.

  (** a factory over a malformed default rule violates it, whatever the rule *)
  Theorem prop_rule_bad_default proxy d r x :
    scoped_default d = true -> spec_default_opt d = None ->
    prop_rule obs_of eqb proxy d r (Loaded x) = false.
  Proof.
    intros H1 H2. unfold prop_rule, default_accepted. rewrite H1, H2. destruct x; reflexivity.
  Qed.
End EvalRule.

Lemma list_eqb_refl {A} (eqb : A -> A -> bool) (H : forall x y, eqb x y = true <-> x = y) l :
  list_eqb eqb l l = true.
Proof. apply (list_eqb_spec eqb H). reflexivity. Qed.

Lemma old_rules_spec proxy def k : old_rules proxy def k = spec_old proxy def k.
Proof.
  unfold old_rules, spec_old. rewrite create_rule_spec by reflexivity. simpl.
  destruct (spec_rule proxy def old_rule_def); reflexivity.
Qed.

Section EvalSet.
  Variable holds : nat -> nat -> bool.

  Theorem corr_implies_prop_set proxy d k sd :
    prop_set holds proxy d k sd (run_set holds proxy d k sd) = true.
  Proof.
    assert (Hgo : forall def, spec_default_opt d = Some def -> scoped_default d = true ->
              prop_set holds proxy d k sd
                (SDone (is_ok (load_ruleset proxy def sd))
                   (map (lookup holds def (after (old_rules proxy def k) (load_ruleset proxy def sd))) paths)) = true).
    { intros def Hdef Hsd. unfold prop_set. rewrite (default_accepted_Some _ _ Hsd Hdef), Hsd, Hdef. cbn [andb].
      destruct (forallb scoped_rule (sd_rules sd)) eqn:Hsr; [|reflexivity].
      rewrite (load_ruleset_spec _ _ _ Hsr).
      destruct (forallb parse_ok (sd_rules sd) && sd_version_ok sd).
      - destruct (spec_rules proxy def (sd_rules sd)) as [es|]; cbn [of_opt is_ok after].
        + apply (list_eqb_refl _ served_eqb_iff).
        + rewrite old_rules_spec. apply (list_eqb_refl _ served_eqb_iff).
      - cbn [is_ok after]. rewrite old_rules_spec. apply (list_eqb_refl _ served_eqb_iff). }
    unfold run_set, with_default. destruct d as [dd|].
    - pose proof (init_default_no_panic dd) as Hnp.
      destruct (init_default dd) as [de| |] eqn:Hd; [|reflexivity|congruence].
      destruct (scoped_default (Some dd)) eqn:Hsd.
      + apply Hgo; [|reflexivity]. simpl in Hsd. rewrite (init_default_spec _ Hsd) in Hd.
        simpl. destruct (spec_default dd); [|discriminate]. inversion Hd. reflexivity.
      + unfold prop_set, default_accepted. rewrite Hsd. reflexivity.
    - apply Hgo; reflexivity.
  Qed.

  Theorem prop_set_sound_accepted proxy d k sd sv def :
    prop_set holds proxy d k sd (SDone true sv) = true ->
    scoped_default d = true -> forallb scoped_rule (sd_rules sd) = true -> spec_default_opt d = Some def ->
    exists es, spec_rules proxy def (sd_rules sd) = Some es /\ sv = map (lookup holds def es) paths.
  Proof.
    unfold prop_set. intros H H1 H2 H3. rewrite (default_accepted_Some _ _ H1 H3), H1, H2, H3 in H. cbn [andb] in H.
    destruct (spec_rules proxy def (sd_rules sd)) as [es|]; [|discriminate].
    exists es. split; [reflexivity|]. apply (list_eqb_spec _ served_eqb_iff) in H. congruence.
  Qed.

  Theorem prop_set_sound_rejected proxy d k sd sv def :
    prop_set holds proxy d k sd (SDone false sv) = true ->
    scoped_default d = true -> forallb scoped_rule (sd_rules sd) = true -> spec_default_opt d = Some def ->
    sv = map (lookup holds def (spec_old proxy def k)) paths.
  Proof.
    unfold prop_set. intros H H1 H2 H3. rewrite (default_accepted_Some _ _ H1 H3), H1, H2, H3 in H. cbn [andb] in H.
    apply (list_eqb_spec _ served_eqb_iff) in H. congruence.
  Qed.
End EvalSet.

Corollary pipeline_language_triple sts :
  exec_pipeline empty_pipes sts =
  match model_pipeline sts with
  | Some (a, h, f) => Ok {| p_a := a; p_h := h; p_f := f |}
  | None => Rejected
  end.
Proof. rewrite pipeline_language. destruct (model_pipeline sts) as [[[a h] f]|]; reflexivity. Qed.

(** ** Histories of calls on one factory *)

(** whatever was created before and is created after, on the same factory: the result for a rule is the
    specification's, a function of that rule's definition, the default rule and the mode alone *)
Theorem history_meets_spec proxy def pre r post :
  scoped_rule r = true ->
  nth_error (create_history proxy def (pre ++ r :: post)) (length pre) =
  Some (if r_matchers_ok r then of_opt (spec_rule proxy def r) else Rejected).
Proof.
  intro Hs. unfold create_history. rewrite map_app. cbn [map].
  rewrite nth_error_app2 by (rewrite map_length; apply Nat.le_refl).
  rewrite map_length, Nat.sub_diag. cbn [nth_error]. rewrite (create_rule_spec _ _ _ Hs). reflexivity.
Qed.

Corollary history_order_irrelevant proxy def rs1 rs2 r e :
  In r rs1 -> In r rs2 -> scoped_rule r = true ->
  (In (r, e) (combine rs1 (create_history proxy def rs1)) <-> In (r, e) (combine rs2 (create_history proxy def rs2))).
Proof.
  assert (H : forall rs, In r rs -> (In (r, e) (combine rs (create_history proxy def rs)) <-> e = create_rule proxy def r)).
  { intros rs. unfold create_history. induction rs as [|x rs IH]; intro Hin; [destruct Hin|].
    cbn [map combine]. split.
    - intros [Heq|Hin']; [inversion Heq; reflexivity|].
      apply in_combine_l in Hin' as Hl. apply IH; assumption.
    - intro He. destruct Hin as [->|Hin]; [left; rewrite He; reflexivity|]. right. apply IH; assumption. }
  intros H1 H2 _. rewrite (H rs1 H1), (H rs2 H2). tauto.
Qed.

(** ** History: finding C14-F1 (repaired by fix: commit 97aaffa) *)

(** the factory of the pinned commit ignored a rule's own backtracking_enabled
    when no default rule is configured; kept only to document the finding *)
Definition create_rule_pinned (proxy : bool) (def : option effective) (r : rule_def) : res effective :=
  match def, create_rule proxy def r with
  | None, Ok e => Ok {| f_sc := f_sc e; f_sh := f_sh e; f_fi := f_fi e; f_eh := f_eh e; f_bt := false |}
  | _, x => x
  end.


Lemma F1_pinned_refuted :
  exists r eff, scoped_rule r = true /\ r_bt r = Some true /\
    create_rule_pinned false None r = Ok eff /\ spec_rule false None r <> Some eff.
Proof.
  exists {| r_exec := [ {| s_authn := Some {| k_id := Some 0; k_ok := true |}; s_authz := None; s_ctx := None;
                           s_fin := None; s_if := CondNil; s_cfg := CfgNil |} ];
            r_eh := []; r_bt := Some true; r_backend := false; r_matchers_ok := true |}.
  eexists. split; [reflexivity|]. split; [reflexivity|]. split; [vm_compute; reflexivity|].
  vm_compute. discriminate.
Qed.
