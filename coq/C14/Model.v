(** C14 — model of internal/rules/rule_factory_impl.go
    (createExecutePipeline, createOnErrorPipeline, createHandler, getConfig,
    getExecutionCondition, initWithDefaultRule, CreateRule up to the matcher
    assembly).  Faithful to the code as it is; Go panics are explicit. *)
From HV Require Import Base.Prelude.

Inductive kind := KAuthn | KAuthz | KCtx | KFin | KEh.

Definition kind_eqb (a b : kind) : bool :=
  match a, b with
  | KAuthn, KAuthn | KAuthz, KAuthz | KCtx, KCtx | KFin, KFin | KEh, KEh => true
  | _, _ => false
  end.

(** The value found under a mechanism-kind key of a step map: [k_id = None]
    means "not a string" (the unchecked [id.(string)] panics); [k_ok] is the
    answer of the mechanism factory for this reference (unknown mechanism or
    bad override => false). *)
Record keyv := { k_id : option nat; k_ok : bool }.

(** value under "config": absent, a map, anything else ([getConfig] panics) *)
Inductive cfgv := CfgNil | CfgMap | CfgBad.
(** value under "if": absent, valid CEL, empty string, not a string, invalid CEL *)
Inductive condv := CondNil | CondOk | CondEmpty | CondNotStr | CondBadCel.

Record step := {
  s_authn : option keyv; s_authz : option keyv; s_ctx : option keyv; s_fin : option keyv;
  s_if : condv; s_cfg : cfgv }.

Record ehstep := { e_key : option keyv; e_if : condv; e_cfg : cfgv }.

(** a created mechanism: kind, referenced id, whether it is wrapped in a CEL condition *)
Record mech := { m_kind : kind; m_id : nat; m_cond : bool }.

Definition mech_eqb (a b : mech) : bool :=
  kind_eqb (m_kind a) (m_kind b) && Nat.eqb (m_id a) (m_id b) && Bool.eqb (m_cond a) (m_cond b).

Inductive res (A : Type) := Ok (a : A) | Rejected | Panic.
Arguments Ok {A} a. Arguments Rejected {A}. Arguments Panic {A}.

Definition cond_res (c : condv) : res bool :=   (* Ok true = CEL condition, Ok false = default *)
  match c with
  | CondNil => Ok false
  | CondOk => Ok true
  | CondEmpty | CondNotStr | CondBadCel => Rejected
  end.

(** [checkMechanismReference] (the id is a string, the config — if present — a
    map; since fix f8fe9cb, finding C19-F3: before that the unchecked [id.(string)]
    and [getConfig] panicked here), then the factory call. *)
Definition create (k : kind) (kv : keyv) (cfg : cfgv) (cond : bool) : res mech :=
  match k_id kv with
  | None => Rejected
  | Some id =>
    match cfg with
    | CfgBad => Rejected
    | _ => if k_ok kv then Ok {| m_kind := k; m_id := id; m_cond := cond |} else Rejected
    end
  end.

(** createHandler after the key was found: check, condition, creation *)
Definition create_handler (k : kind) (kv : keyv) (st : step) (check_ok : bool) : res mech :=
  if negb check_ok then Rejected else
  match cond_res (s_if st) with
  | Ok c => create k kv (s_cfg st) c
  | Rejected => Rejected
  | Panic => Panic
  end.

Record pipes := { p_a : list mech; p_h : list mech; p_f : list mech }.

(** the kind a step map is read as: [createExecutePipeline] looks for the keys
    "authenticator", "authorizer", "contextualizer", "finalizer" in this order
    and uses the first one present *)
Definition classify (st : step) : option (kind * keyv) :=
  match s_authn st, s_authz st, s_ctx st, s_fin st with
  | Some kv, _, _, _ => Some (KAuthn, kv)
  | None, Some kv, _, _ => Some (KAuthz, kv)
  | None, None, Some kv, _ => Some (KCtx, kv)
  | None, None, None, Some kv => Some (KFin, kv)
  | None, None, None, None => None
  end.

Definition upd (p : pipes) (k : kind) (m : mech) : pipes :=
  match k with
  | KAuthn => {| p_a := p_a p ++ [m]; p_h := p_h p; p_f := p_f p |}
  | KAuthz | KCtx => {| p_a := p_a p; p_h := p_h p ++ [m]; p_f := p_f p |}
  | _ => {| p_a := p_a p; p_h := p_h p; p_f := p_f p ++ [m] |}
  end.

(** the order checks: authenticator after anything else; authorizer /
    contextualizer after a finalizer *)
Definition order_okb (p : pipes) (k : kind) : bool :=
  match k with
  | KAuthn => is_nil (p_h p) && is_nil (p_f p)
  | KAuthz | KCtx => is_nil (p_f p)
  | _ => true
  end.

Definition exec_step (p : pipes) (st : step) : res pipes :=
  match classify st with
  | None => Rejected                (* "unsupported configuration in execute" *)
  | Some (k, kv) =>
    let r := match k with
             | KAuthn => if order_okb p k then create KAuthn kv (s_cfg st) false else Rejected
             | _ => create_handler k kv st (order_okb p k)
             end in
    match r with
    | Ok m => Ok (upd p k m)
    | Rejected => Rejected | Panic => Panic
    end
  end.

Fixpoint exec_pipeline (p : pipes) (sts : list step) : res pipes :=
  match sts with
  | [] => Ok p
  | st :: r => match exec_step p st with
               | Ok p' => exec_pipeline p' r
               | Rejected => Rejected | Panic => Panic
               end
  end.

Definition empty_pipes := {| p_a := []; p_h := []; p_f := [] |}.

Definition eh_step (e : ehstep) : res mech :=
  match e_key e with
  | None => Rejected                 (* "unsupported configuration in error handler" *)
  | Some kv =>
    match e_cfg e with
    | CfgBad => Rejected             (* checkMechanismReference runs first here (fix f8fe9cb) *)
    | _ =>
      match cond_res (e_if e) with
      | Ok c => match k_id kv with
                | None => Rejected
                | Some id => if k_ok kv then Ok {| m_kind := KEh; m_id := id; m_cond := c |} else Rejected
                end
      | Rejected => Rejected | Panic => Panic
      end
    end
  end.

Fixpoint eh_pipeline (acc : list mech) (es : list ehstep) : res (list mech) :=
  match es with
  | [] => Ok acc
  | e :: r => match eh_step e with
              | Ok m => eh_pipeline (acc ++ [m]) r
              | Rejected => Rejected | Panic => Panic
              end
  end.

(** what a rule (or the default rule) is after loading *)
Record effective := {
  f_sc : list mech; f_sh : list mech; f_fi : list mech; f_eh : list mech; f_bt : bool }.

Definition effective_eqb (a b : effective) : bool :=
  list_eqb mech_eqb (f_sc a) (f_sc b) && list_eqb mech_eqb (f_sh a) (f_sh b) &&
  list_eqb mech_eqb (f_fi a) (f_fi b) && list_eqb mech_eqb (f_eh a) (f_eh b) &&
  Bool.eqb (f_bt a) (f_bt b).

Record default_def := { d_exec : list step; d_eh : list ehstep; d_bt : bool }.

(** initWithDefaultRule *)
Definition init_default (d : default_def) : res effective :=
  match exec_pipeline empty_pipes (d_exec d) with
  | Ok p =>
    match eh_pipeline [] (d_eh d) with
    | Ok eh => if is_nil (p_a p) then Rejected
               else Ok {| f_sc := p_a p; f_sh := p_h p; f_fi := p_f p; f_eh := eh; f_bt := d_bt d |}
    | Rejected => Rejected | Panic => Panic
    end
  | Rejected => Rejected | Panic => Panic
  end.

Record rule_def := {
  r_exec : list step; r_eh : list ehstep;
  r_bt : option bool;            (* matcher.backtracking_enabled *)
  r_backend : bool;              (* forward_to present *)
  r_matchers_ok : bool }.        (* method/host/path_params matchers can be built (C03) *)

Definition or_default (own def : list mech) : list mech := if is_nil own then def else own.

(** CreateRule.  [fixed_bt = false] is the code as it is at the pinned commit
    (finding C14-F1: the rule's own backtracking_enabled is only honoured when a
    default rule exists); the parameter exists so that the specification and the
    repaired behaviour can be stated with the same function. *)
Definition create_rule (fixed_bt : bool) (proxy : bool) (def : option effective) (r : rule_def) : res effective :=
  if proxy && negb (r_backend r) then Rejected else
  match exec_pipeline empty_pipes (r_exec r) with
  | Ok p =>
    match eh_pipeline [] (r_eh r) with
    | Ok eh =>
      let own_bt := match r_bt r with Some b => b | None => false end in
      let e := match def with
               | Some d => {| f_sc := or_default (p_a p) (f_sc d); f_sh := or_default (p_h p) (f_sh d);
                              f_fi := or_default (p_f p) (f_fi d); f_eh := or_default eh (f_eh d);
                              f_bt := match r_bt r with Some b => b | None => f_bt d end |}
               | None => {| f_sc := p_a p; f_sh := p_h p; f_fi := p_f p; f_eh := eh;
                            f_bt := if fixed_bt then own_bt else false |}
               end in
      if is_nil (f_sc e) then Rejected
      else if negb (r_matchers_ok r) then Rejected
      else Ok e
    | Rejected => Rejected | Panic => Panic
    end
  | Rejected => Rejected | Panic => Panic
  end.

(** the whole loader: default rule first (its failure prevents start-up), then the rule *)
Inductive load_res := FactoryFailed | FactoryPanic | Loaded (r : res effective).

Definition load (fixed_bt proxy : bool) (d : option default_def) (r : rule_def) : load_res :=
  match d with
  | None => Loaded (create_rule fixed_bt proxy None r)
  | Some dd => match init_default dd with
               | Ok e => Loaded (create_rule fixed_bt proxy (Some e) r)
               | Rejected => FactoryFailed
               | Panic => FactoryPanic
               end
  end.

(** ruleSetProcessor.loadRules: the rules of a rule set are created one after
    the other; the first failure aborts the whole set (nothing is handed to the
    repository). *)
Fixpoint load_rules (fixed_bt proxy : bool) (def : option effective) (rs : list rule_def) : res (list effective) :=
  match rs with
  | [] => Ok []
  | r :: rest =>
    match create_rule fixed_bt proxy def r with
    | Ok e => match load_rules fixed_bt proxy def rest with
              | Ok es => Ok (e :: es)
              | Rejected => Rejected | Panic => Panic
              end
    | Rejected => Rejected | Panic => Panic
    end
  end.
