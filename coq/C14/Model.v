(** C14 — model of the code as it is:
    - internal/rules/rule_factory_impl.go (createExecutePipeline, createOnErrorPipeline,
      createHandler, checkMechanismReference, getExecutionCondition, initWithDefaultRule,
      CreateRule up to the matcher assembly),
    - internal/rules/rule_impl.go Execute with composite_subject_creator.go,
      composite_subject_handler.go, composite_error_handler.go, conditional_*_handler.go
      (the trace of mechanisms executed for a request),
    - internal/rules/config/parser.go + rule.go (the two validations that concern this
      property), internal/rules/ruleset_processor_impl.go (OnCreated / OnUpdated) and the
      part of repository_impl.go that decides which rule serves a path.
    Go panics are an explicit outcome; since fix f8fe9cb (finding C19-F3) no branch of
    the factory panics any more, [Panic] remains only as an observation of the
    implementation. *)
From HV Require Import Base.Prelude.

Inductive kind := KAuthn | KAuthz | KCtx | KFin | KEh.

Definition kind_eqb (a b : kind) : bool :=
  match a, b with
  | KAuthn, KAuthn | KAuthz, KAuthz | KCtx, KCtx | KFin, KFin | KEh, KEh => true
  | _, _ => false
  end.

(** The value found under a mechanism-kind key of a step map: [k_id = None]
    means "not a string"; [k_ok] is the answer of the mechanism factory for this
    reference together with the step's override (unknown mechanism or bad
    override => false).  In the stub streams it is fixed by the generator (the
    stub catalogue knows the ids "<n>" and refuses overrides carrying the key
    "bad"); in the real-factory stream it is the catalogue/override table of the
    driver — never the answer of the code under test. *)
Record keyv := { k_id : option nat; k_ok : bool }.

(** value under "config": absent, a map (with the marker the stub mechanisms
    report back), anything else *)
Inductive cfgv := CfgNil | CfgMap (n : nat) | CfgBad.
(** value under "if": absent, valid CEL (number of the expression in the
    driver's table), empty string, not a string, invalid CEL *)
Inductive condv := CondNil | CondOk (n : nat) | CondEmpty | CondNotStr | CondBadCel.

Record step := {
  s_authn : option keyv; s_authz : option keyv; s_ctx : option keyv; s_fin : option keyv;
  s_if : condv; s_cfg : cfgv }.

Record ehstep := { e_key : option keyv; e_if : condv; e_cfg : cfgv }.

(** a created mechanism: kind, referenced id, its execution condition (None =
    unconditional), the override it was created with (None = the prototype) *)
Record mech := { m_kind : kind; m_id : nat; m_cond : option nat; m_cfg : option nat }.

Definition onat_eqb := option_eqb Nat.eqb.

Definition mech_eqb (a b : mech) : bool :=
  kind_eqb (m_kind a) (m_kind b) && Nat.eqb (m_id a) (m_id b) &&
  onat_eqb (m_cond a) (m_cond b) && onat_eqb (m_cfg a) (m_cfg b).

Inductive res (A : Type) := Ok (a : A) | Rejected | Panic.
Arguments Ok {A} a. Arguments Rejected {A}. Arguments Panic {A}.

(** getExecutionCondition *)
Definition cond_res (c : condv) : res (option nat) :=
  match c with
  | CondNil => Ok None
  | CondOk n => Ok (Some n)
  | CondEmpty | CondNotStr | CondBadCel => Rejected
  end.

(** [checkMechanismReference] (the id is a string, the config — if present — a
    map), [getConfig], then the factory call with that config. *)
Definition create (k : kind) (kv : keyv) (cfg : cfgv) (cond : option nat) : res mech :=
  match k_id kv with
  | None => Rejected
  | Some id =>
    match cfg with
    | CfgBad => Rejected
    | CfgNil => if k_ok kv then Ok {| m_kind := k; m_id := id; m_cond := cond; m_cfg := None |} else Rejected
    | CfgMap n => if k_ok kv then Ok {| m_kind := k; m_id := id; m_cond := cond; m_cfg := Some n |} else Rejected
    end
  end.

(** createHandler after the key was found: order check, condition, reference, creation *)
Definition create_handler (k : kind) (kv : keyv) (st : step) (check_ok : bool) : res mech :=
  if negb check_ok then Rejected else
  match cond_res (s_if st) with
  | Ok c => create k kv (s_cfg st) c
  | Rejected => Rejected
  | Panic => Panic
  end.

Record pipes := { p_a : list mech; p_h : list mech; p_f : list mech }.

(** the kind a step map is read as: [createExecutePipeline] looks for the keys
    "authenticator", "authorizer", "contextualizer", "finalizer" in this order
    and uses the first one present *)
Definition classify (st : step) : option (kind * keyv) :=
  match s_authn st, s_authz st, s_ctx st, s_fin st with
  | Some kv, _, _, _ => Some (KAuthn, kv)
  | None, Some kv, _, _ => Some (KAuthz, kv)
  | None, None, Some kv, _ => Some (KCtx, kv)
  | None, None, None, Some kv => Some (KFin, kv)
  | None, None, None, None => None
  end.

Definition upd (p : pipes) (k : kind) (m : mech) : pipes :=
  match k with
  | KAuthn => {| p_a := p_a p ++ [m]; p_h := p_h p; p_f := p_f p |}
  | KAuthz | KCtx => {| p_a := p_a p; p_h := p_h p ++ [m]; p_f := p_f p |}
  | _ => {| p_a := p_a p; p_h := p_h p; p_f := p_f p ++ [m] |}
  end.

(** the order checks: authenticator after anything else; authorizer /
    contextualizer after a finalizer *)
Definition order_okb (p : pipes) (k : kind) : bool :=
  match k with
  | KAuthn => is_nil (p_h p) && is_nil (p_f p)
  | KAuthz | KCtx => is_nil (p_f p)
  | _ => true
  end.

Definition exec_step (p : pipes) (st : step) : res pipes :=
  match classify st with
  | None => Rejected                (* "unsupported configuration in execute" *)
  | Some (k, kv) =>
    let r := match k with
             | KAuthn => if order_okb p k then create KAuthn kv (s_cfg st) None else Rejected
             | _ => create_handler k kv st (order_okb p k)
             end in
    match r with
    | Ok m => Ok (upd p k m)
    | Rejected => Rejected | Panic => Panic
    end
  end.

Fixpoint exec_pipeline (p : pipes) (sts : list step) : res pipes :=
  match sts with
  | [] => Ok p
  | st :: r => match exec_step p st with
               | Ok p' => exec_pipeline p' r
               | Rejected => Rejected | Panic => Panic
               end
  end.

Definition empty_pipes := {| p_a := []; p_h := []; p_f := [] |}.

(** createOnErrorPipeline: reference check, condition, creation *)
Definition eh_step (e : ehstep) : res mech :=
  match e_key e with
  | None => Rejected                 (* "unsupported configuration in error handler" *)
  | Some kv =>
    match k_id kv, e_cfg e with
    | None, _ | _, CfgBad => Rejected
    | Some _, _ =>
      match cond_res (e_if e) with
      | Ok c => create KEh kv (e_cfg e) c
      | Rejected => Rejected | Panic => Panic
      end
    end
  end.

Fixpoint eh_pipeline (acc : list mech) (es : list ehstep) : res (list mech) :=
  match es with
  | [] => Ok acc
  | e :: r => match eh_step e with
              | Ok m => eh_pipeline (acc ++ [m]) r
              | Rejected => Rejected | Panic => Panic
              end
  end.

(** what a rule (or the default rule) is after loading *)
Record effective := {
  f_sc : list mech; f_sh : list mech; f_fi : list mech; f_eh : list mech; f_bt : bool }.

Definition effective_eqb (a b : effective) : bool :=
  list_eqb mech_eqb (f_sc a) (f_sc b) && list_eqb mech_eqb (f_sh a) (f_sh b) &&
  list_eqb mech_eqb (f_fi a) (f_fi b) && list_eqb mech_eqb (f_eh a) (f_eh b) &&
  Bool.eqb (f_bt a) (f_bt b).

Record default_def := { d_exec : list step; d_eh : list ehstep; d_bt : bool }.

(** initWithDefaultRule *)
Definition init_default (d : default_def) : res effective :=
  match exec_pipeline empty_pipes (d_exec d) with
  | Ok p =>
    match eh_pipeline [] (d_eh d) with
    | Ok eh => if is_nil (p_a p) then Rejected
               else Ok {| f_sc := p_a p; f_sh := p_h p; f_fi := p_f p; f_eh := eh; f_bt := d_bt d |}
    | Rejected => Rejected | Panic => Panic
    end
  | Rejected => Rejected | Panic => Panic
  end.

Record rule_def := {
  r_exec : list step; r_eh : list ehstep;
  r_bt : option bool;            (* matcher.backtracking_enabled *)
  r_backend : bool;              (* forward_to present *)
  r_matchers_ok : bool }.        (* method/host/path_params matchers can be built (C03) *)

Definition or_default (own def : list mech) : list mech := if is_nil own then def else own.

(** CreateRule (the tree as it is, i.e. after the fix: commit 97aaffa for finding C14-F1) *)
Definition create_rule (proxy : bool) (def : option effective) (r : rule_def) : res effective :=
  if proxy && negb (r_backend r) then Rejected else
  match exec_pipeline empty_pipes (r_exec r) with
  | Ok p =>
    match eh_pipeline [] (r_eh r) with
    | Ok eh =>
      let e := match def with
               | Some d => {| f_sc := or_default (p_a p) (f_sc d); f_sh := or_default (p_h p) (f_sh d);
                              f_fi := or_default (p_f p) (f_fi d); f_eh := or_default eh (f_eh d);
                              f_bt := match r_bt r with Some b => b | None => f_bt d end |}
               | None => {| f_sc := p_a p; f_sh := p_h p; f_fi := p_f p; f_eh := eh;
                            f_bt := match r_bt r with Some b => b | None => false end |}
               end in
      if is_nil (f_sc e) then Rejected
      else if negb (r_matchers_ok r) then Rejected
      else Ok e
    | Rejected => Rejected | Panic => Panic
    end
  | Rejected => Rejected | Panic => Panic
  end.

(** the whole loader: default rule first (its failure prevents start-up), then the rule *)
Inductive load_res (O : Type) := FactoryFailed | FactoryPanic | Loaded (r : res O).
Arguments FactoryFailed {O}. Arguments FactoryPanic {O}. Arguments Loaded {O} r.

Definition with_default {X} (d : option default_def) (failed panicked : X) (k : option effective -> X) : X :=
  match d with
  | None => k None
  | Some dd => match init_default dd with
               | Ok e => k (Some e)
               | Rejected => failed
               | Panic => panicked
               end
  end.

Definition load (proxy : bool) (d : option default_def) (r : rule_def) : load_res effective :=
  with_default d FactoryFailed FactoryPanic (fun def => Loaded (create_rule proxy def r)).

(** A history of CreateRule calls on ONE factory instance.  The fields of ruleFactory (hf, logger, defaultRule,
    hasDefaultRule, mode, defaultBacktracking) are written by NewRuleFactory / initWithDefaultRule only; CreateRule
    reads them and keeps nothing, so the n-th result is [create_rule] of the n-th definition.  (That the code has
    no such memory is what the "history" stream checks: every call of a generated history is compared on its own.) *)
Definition create_history (proxy : bool) (def : option effective) (rs : list rule_def) : list (res effective) :=
  map (create_rule proxy def) rs.

(** ** Execution: rule_impl.go Execute *)

(** A probe is one request together with the way the stub mechanisms of the
    harness behave for it: the request method (the conditions of the driver's
    table look only at it) and which stage fails.  [FAuthn]: every authenticator
    fails with an argument error (so the composite falls back to the next one)
    and the error handlers answer "not applicable" (so the composite tries every
    one); [FMid]/[FFin]: every authorizer and contextualizer / every finalizer
    fails, the error handlers handle. *)
Inductive fail := FNone | FAuthn | FMid | FFin.
Record probe := { pr_meth : nat; pr_fail : fail }.

(** an executed mechanism as the stubs log it *)
Definition tmech := (kind * nat * option nat)%type.
Definition tm (m : mech) : tmech := (m_kind m, m_id m, m_cfg m).

Definition fails (p : probe) (m : mech) : bool :=
  match pr_fail p, m_kind m with
  | FAuthn, KAuthn | FMid, KAuthz | FMid, KCtx | FFin, KFin => true
  | _, _ => false
  end.

Definition passthrough (p : probe) : bool := match pr_fail p with FAuthn => true | _ => false end.

Section Exec.
  (** the CEL oracle: does condition number [c] hold for a request with method [m] *)
  Variable holds : nat -> nat -> bool.

  Definition applicable (p : probe) (m : mech) : bool :=
    match m_cond m with None => true | Some c => holds c (pr_meth p) end.

  (** compositeSubjectCreator.Execute: the first authenticator that succeeds
      ends the loop; a failing one (argument error) is followed by the next; the
      error of the last one is returned.  An empty list returns (nil, nil). *)
  Fixpoint run_authn (p : probe) (sc : list mech) : list tmech * bool :=
    match sc with
    | [] => ([], false)
    | a :: r => if fails p a
                then match r with
                     | [] => ([tm a], true)
                     | _ => let '(t, e) := run_authn p r in (tm a :: t, e)
                     end
                else ([tm a], false)
    end.

  (** compositeSubjectHandler.Execute over conditionalSubjectHandlers
      (ContinueOnError is false for the stubs) *)
  Fixpoint run_handlers (p : probe) (hs : list mech) : list tmech * bool :=
    match hs with
    | [] => ([], false)
    | h :: r => if applicable p h
                then if fails p h then ([tm h], true)
                     else let '(t, e) := run_handlers p r in (tm h :: t, e)
                else run_handlers p r
    end.

  (** compositeErrorHandler.Execute over conditionalErrorHandlers; second
      component: the error was handled *)
  Fixpoint run_eh (p : probe) (hs : list mech) : list tmech * bool :=
    match hs with
    | [] => ([], false)
    | h :: r => if applicable p h
                then if passthrough p then let '(t, e) := run_eh p r in (tm h :: t, e)
                     else ([tm h], true)
                else run_eh p r
    end.

  (** ruleImpl.Execute: (Execute returned an error, trace) *)
  Definition run (e : effective) (p : probe) : bool * list tmech :=
    let on_error (t : list tmech) := let '(te, handled) := run_eh p (f_eh e) in (negb handled, t ++ te) in
    let '(ta, ea) := run_authn p (f_sc e) in
    if ea then on_error ta else
    let '(th, eh) := run_handlers p (f_sh e) in
    if eh then on_error (ta ++ th) else
    let '(tf, ef) := run_handlers p (f_fi e) in
    if ef then on_error (ta ++ th ++ tf) else (false, ta ++ th ++ tf).

  (** the fixed probe set of the harness: 3 methods x 4 failure modes *)
  Definition probes : list probe :=
    flat_map (fun f => map (fun m => {| pr_meth := m; pr_fail := f |}) [0; 1; 2]) [FNone; FAuthn; FMid; FFin].

  (** what the harness observes of a loaded rule, through rule.Rule only:
      Execute on every probe and AllowsBacktracking() *)
  Record robs := { o_runs : list (bool * list tmech); o_bt : bool }.

  Definition runs_of (e : effective) : list (bool * list tmech) := map (run e) probes.
  Definition observe (e : effective) : robs := {| o_runs := runs_of e; o_bt := f_bt e |}.
End Exec.

(** the coarser observation of the real-factory stream: ids per stage *)
Record iobs := { i_sc : list (kind * nat); i_sh : list (kind * nat); i_fi : list (kind * nat);
                 i_eh : list (kind * nat); i_bt : bool }.
Definition km (m : mech) : kind * nat := (m_kind m, m_id m).
Definition observe_ids (e : effective) : iobs :=
  {| i_sc := map km (f_sc e); i_sh := map km (f_sh e); i_fi := map km (f_fi e); i_eh := map km (f_eh e);
     i_bt := f_bt e |}.

Definition map_res {A B} (f : A -> B) (r : res A) : res B :=
  match r with Ok a => Ok (f a) | Rejected => Rejected | Panic => Panic end.
Definition map_load {A B} (f : A -> B) (r : load_res A) : load_res B :=
  match r with FactoryFailed => FactoryFailed | FactoryPanic => FactoryPanic | Loaded x => Loaded (map_res f x) end.

(** ** Rule sets: parser validation, ruleSetProcessor, repository *)

(** ruleSetProcessor.loadRules: the rules of a rule set are created one after
    the other; the first failure aborts the whole set (nothing is handed to the
    repository). *)
Fixpoint load_rules (proxy : bool) (def : option effective) (rs : list rule_def) : res (list effective) :=
  match rs with
  | [] => Ok []
  | r :: rest =>
    match create_rule proxy def r with
    | Ok e => match load_rules proxy def rest with
              | Ok es => Ok (e :: es)
              | Rejected => Rejected | Panic => Panic
              end
    | Rejected => Rejected | Panic => Panic
    end
  end.

(** what the rule-set parser's validation (rules/config/rule.go) refuses before
    the factory sees any rule of the set: a rule without any `execute` step
    (validate:"gt=0"), an empty method name *)
Definition parse_ok (r : rule_def) : bool := negb (is_nil (r_exec r)) && r_matchers_ok r.

Record set_def := { sd_version_ok : bool; sd_rules : list rule_def }.

(** ParseRules, then OnCreated / OnUpdated up to the call of the repository *)
Definition load_ruleset (proxy : bool) (def : option effective) (sd : set_def) : res (list effective) :=
  if negb (forallb parse_ok (sd_rules sd)) then Rejected
  else if negb (sd_version_ok sd) then Rejected          (* isVersionSupported *)
  else load_rules proxy def (sd_rules sd).

(** the rules of the source after the operation: AddRuleSet / UpdateRuleSet are
    reached only with a completely loaded set *)
Definition after (old : list effective) (r : res (list effective)) : list effective :=
  match r with Ok es => es | _ => old end.

Definition is_ok {A} (r : res A) : bool := match r with Ok _ => true | _ => false end.

(** the rule the harness preloads [k] times (ids r0.., paths /p0..) before an
    update: one authenticator "9", forward_to present *)
Definition old_rule_def : rule_def :=
  {| r_exec := [ {| s_authn := Some {| k_id := Some 9; k_ok := true |}; s_authz := None; s_ctx := None;
                    s_fin := None; s_if := CondNil; s_cfg := CfgNil |} ];
     r_eh := []; r_bt := None; r_backend := true; r_matchers_ok := true |}.

Definition old_rules (proxy : bool) (def : option effective) (k : nat) : list effective :=
  match create_rule proxy def old_rule_def with Ok e => repeat e k | _ => [] end.

Section Serve.
  Variable holds : nat -> nat -> bool.

  (** which rule answers a request for path /p<i> (rule i of the source has that
      path; repository.FindRule falls back to the default rule) *)
  Inductive served := SNone | SDefault (runs : list (bool * list tmech)) | SRule (o : robs).

  Definition lookup (def : option effective) (rules : list effective) (i : nat) : served :=
    match nth_error rules i with
    | Some e => SRule (observe holds e)
    | None => match def with Some d => SDefault (runs_of holds d) | None => SNone end
    end.

  Definition paths : list nat := [0; 1; 2; 3].

  Inductive set_res := SFactoryFailed | SFactoryPanic | SPanic | SDone (accepted : bool) (sv : list served).

  Definition run_set (proxy : bool) (d : option default_def) (preload : nat) (sd : set_def) : set_res :=
    with_default d SFactoryFailed SFactoryPanic (fun def =>
      let r := load_ruleset proxy def sd in
      SDone (is_ok r) (map (lookup def (after (old_rules proxy def preload) r)) paths)).
End Serve.
