(** C13 — model of the three entry points of heimdall and of the request view
    each of them shows to the rule pipeline:

    - internal/handler/requestcontext/request_context.go  (New, Request — lazily
      created AND cached —, Header, Headers, Cookie, Body, requestClientIPs) —
      shared by the HTTP decision service and the proxy service,
    - internal/handler/envoyextauth/grpcv3/request_context.go (NewRequestContext,
      canonicalizeHeaders, Request — as pinned REBUILT on every call, cached since
      fix: b2286d8 —, Header, Headers, Cookie, Body, Finalize),
    - internal/handler/decision/request_context.go Finalize,
      internal/handler/proxy/request_context.go Finalize / rewriteRequest (the
      hand-over of pipeline headers and cookies),
    - internal/rules/rule_executor_impl.go Execute, repository_impl.go FindRule
      (captures written into the view), rule_impl.go Execute (encoded-slash
      switch, unescaping of the captures in place, then the mechanisms, each of
      which asks the context for the view again).

    Faithful to the code as it is for the requests the theorems are about ([wf_lreqb]).  The record
    [fixes] has one flag per repaired finding of the three-entry-point model: F1 (fix: b2286d8), F2
    (7c3e9fc), F3 (a5ef279), F4 (ae6db4f), F6 (06faa19), F7 (19923cd), F9 (58408fc), F11 (9fe653a);
    [false] = the code before that commit, [true] = since.  C13-F10 (f446e16) is a separate flag of
    [view_tp].  /repo since f446e16 = all flags true.

    A *logical request* [lreq] is what the property quantifies over; [mk_http]
    / [mk_envoy] say what each entry point receives for it (net/http's parser;
    Envoy's ext_authz CheckRequest: lower-case header names, repeated headers
    joined with "," — cookies with "; " —, the peer in the gRPC metadata
    x-forwarded-for; per request the request target as documented for Envoy
    (query inside [path]) or in separate fields as heimdall's own gRPC tests
    build it ([l_qpath]), and the body in the string field, the bytes field or
    both ([l_pack])).

    Oracles (data of a case or Section variables, never axioms): the body
    decoders (contenttype.NewDecoder + Decode, JSON/YAML/form) and rule lookup
    (C02/C03: an arbitrary function of the lookup view).  net/url's unescape /
    escape / EscapedPath come from Base/GoUrl.v, net/textproto's
    CanonicalMIMEHeaderKey and net/http's cookie reader/sanitiser are modelled
    here; all of them are compared with the real library on every run. *)
From HV Require Import Base.Prelude Base.GoUrl.
From HV Require Import C13.Http.
Open Scope string_scope.

(* ------------------------------------------------------------------ bytes, header names *)

Definition is_upper (c : ascii) : bool := in_range 65 90 c.
Definition is_lower (c : ascii) : bool := in_range 97 122 c.
Definition to_lower (c : ascii) : ascii := if is_upper c then ascii_of_N (nb c + 32) else c.
Definition to_upper (c : ascii) : ascii := if is_lower c then ascii_of_N (nb c - 32) else c.

Fixpoint lower (s : string) : string :=
  match s with
  | EmptyString => EmptyString
  | String c r => String (to_lower c) (lower r)
  end.

Fixpoint all_bytes (f : ascii -> bool) (s : string) : bool :=
  match s with
  | EmptyString => true
  | String c r => f c && all_bytes f r
  end.

(** net/textproto validHeaderFieldByte = RFC 7230 token characters *)
Definition token_byte (c : ascii) : bool := is_alnum c || mem_ascii c "!#$%&'*+-.^_`|~".

Fixpoint canon_from (upper : bool) (s : string) : string :=
  match s with
  | EmptyString => EmptyString
  | String c r =>
    let c' := if upper then to_upper c else to_lower c in
    String c' (canon_from (Ascii.eqb c' "-") r)
  end.

(** textproto.CanonicalMIMEHeaderKey = http.CanonicalHeaderKey: a name with a
    byte that is not a token character is returned unchanged *)
Definition canon (s : string) : string :=
  if all_bytes token_byte s then canon_from true s else s.

(* ------------------------------------------------------------------ association lists (Go maps with unique keys) *)

Fixpoint assoc_opt (k : string) (m : list (string * string)) : option string :=
  match m with
  | [] => None
  | (k', v) :: r => if String.eqb k' k then Some v else assoc_opt k r
  end.

Definition assoc (k : string) (m : list (string * string)) : string :=
  match assoc_opt k m with Some v => v | None => "" end.

(** [m[k] = f(m[k])] / insertion at the end when absent *)
Fixpoint upsert (k : string) (f : option string -> string) (m : list (string * string)) : list (string * string) :=
  match m with
  | [] => [(k, f None)]
  | (k', v) :: r => if String.eqb k' k then (k', f (Some v)) :: r else (k', v) :: upsert k f r
  end.

(** distinct keys in order of first appearance *)
Fixpoint keys_of (l : list (string * string)) (seen : list string) : list string :=
  match l with
  | [] => []
  | (k, _) :: r => if existsb (String.eqb k) seen then keys_of r seen else k :: keys_of r (k :: seen)
  end.

(* ------------------------------------------------------------------ the logical request and what the entry points receive *)

(** How the deployment's Envoy conveys the request body to the ext_authz service
    (with_request_body.pack_as_bytes): in the string field [body] (Envoy's default), in the bytes field
    [raw_body], or — as heimdall's own gRPC tests build the request — in both.  Not part of the logical
    request proper; carried along so that every statement is about every conveyance. *)
Inductive packing := PackBody | PackRaw | PackBoth.

Record lreq := {
  l_method : string;
  l_tls : bool;                       (* scheme https / http *)
  l_host : string;
  l_rawpath : string;                 (* the path as it appears in the request line (escaped form) *)
  l_query : string;                   (* raw query, "" when absent *)
  l_hdrs : list (string * string);    (* header lines in order: name as sent (any casing), value; no Host line *)
  l_body : string;
  l_peer : string;                    (* address of the directly connected client *)
  l_pack : packing;                   (* Envoy only: which CheckRequest field carries the body *)
  l_qpath : bool                      (* Envoy only: true = the documented shape of AttributeContext.HttpRequest (path = request
                                         target INCLUDING the query string, query always empty); false = path and query in
                                         separate fields, as heimdall's own gRPC tests build the request *)
}.

Definition scheme_of (L : lreq) : string := if l_tls L then "https" else "http".

(** net/http's parser: URL.setPath on the request path, then URL.EscapedPath() *)
Definition escpath_of_wire (raw : string) : string :=
  match GoUrl.set_path raw with
  | Some (p, rp) => GoUrl.escaped_path p rp
  | None => ""                         (* net/http rejects the request; excluded by [wf_lreq] *)
  end.

(** the connection and request line the HTTP services see (C09's [conn]) *)
Definition http_conn (L : lreq) : conn :=
  {| c_peer := l_peer L; c_tls := l_tls L; c_method := l_method L; c_host := l_host L;
     c_escpath := escpath_of_wire (l_rawpath L); c_rawquery := l_query L |}.

(** req.Header after net/http's parser (canonical keys) *)
Definition http_hdrs_wire (L : lreq) : hdrs := map (fun nv => (canon (fst nv), snd nv)) (l_hdrs L).

(** ... and after the trustedproxy middleware.  The services of this property
    run without trusted_proxies, so every peer is untrusted (C09). *)
Definition http_hdrs (L : lreq) : hdrs := strip false (http_hdrs_wire L).

(** Envoy's header map: lower-case names, repeated headers joined (cookie: "; ", others: ",") *)
Definition envoy_sep (lname : string) : string := if String.eqb lname "cookie" then "; " else ",".

Definition envoy_add (m : list (string * string)) (nv : string * string) : list (string * string) :=
  let k := lower (fst nv) in
  upsert k (fun old => match old with Some o => o ++ envoy_sep k ++ snd nv | None => snd nv end) m.

Definition envoy_wire_hdrs (L : lreq) : list (string * string) := fold_left envoy_add (l_hdrs L) [].

(** the CheckRequest attributes heimdall reads *)
Record ereq := {
  e_method : string; e_scheme : string; e_host : string; e_path : string; e_query : string;
  e_hdrs : list (string * string); e_body : string; e_rawbody : string; e_xff : list string
}.

Definition mk_envoy (L : lreq) : ereq :=
  {| e_method := l_method L; e_scheme := scheme_of L; e_host := l_host L;
     e_path := if l_qpath L then l_rawpath L ++ (if nonempty (l_query L) then "?" ++ l_query L else "") else l_rawpath L;
     e_query := if l_qpath L then "" else l_query L; e_hdrs := envoy_wire_hdrs L;
     e_body := match l_pack L with PackRaw => "" | _ => l_body L end;
     e_rawbody := match l_pack L with PackBody => "" | _ => l_body L end;
     e_xff := [l_peer L] |}.

(** grpcv3 canonicalizeHeaders *)
Definition canonicalize_headers (m : list (string * string)) : list (string * string) :=
  map (fun kv => (canon (fst kv), snd kv)) m.

(* ------------------------------------------------------------------ heimdall.Request: the view object *)

Record rview := {
  rv_method : string;
  rv_scheme : string;
  rv_host : string;
  rv_path : string;
  rv_rawpath : string;
  rv_query : string;
  rv_caps : option (list (string * string));   (* URL.Captures; [None] is Go's nil map *)
  rv_ips : list string
}.

(** requestcontext.New + Request(): extractMethod, extractURL, requestClientIPs (C09's [view_of]) *)
Definition build_http (L : lreq) : rview :=
  let v := view_of (fun _ => None) (http_conn L) (http_hdrs L) in
  {| rv_method := v_method v; rv_scheme := v_scheme v; rv_host := v_host v;
     rv_path := GoUrl.unescape_or_empty (v_rawpath v); rv_rawpath := v_rawpath v;
     rv_query := v_query v; rv_caps := None; rv_ips := v_ips v |}.

(** Which of the recorded findings are repaired in the tree that is modelled ([false] = the code as
    pinned).  Every definition below that depends on a finding takes the flag; the theorems hold for
    every combination. *)
Record fixes := {
  fx_F1 : bool;   (* fix: b2286d8 (fixes/C13-F1.diff): the Envoy context caches the view *)
  fx_F2 : bool;   (* fix: 7c3e9fc (fixes/C13-F2.diff): grpcv3 Header(name) canonicalises the name *)
  fx_F3 : bool;   (* fix: a5ef279 (fixes/C13-F3.diff): decision and proxy hand all values of a pipeline header over *)
  fx_F4 : bool;   (* fix: ae6db4f (fixes/C13-F4.diff): decoded Path and RawPath in the Envoy context *)
  fx_F6 : bool;   (* fix: 06faa19 (fixes/C13-F6.diff): grpcv3 Header("Host") gives the request host *)
  fx_F7 : bool;   (* fix: 19923cd (fixes/C13-F7.diff): grpcv3 Body() of an empty body is "" *)
  fx_F9 : bool;   (* fix: 58408fc (fixes/C13-F9.diff): grpcv3 falls back to the string field [body] when [raw_body] is empty *)
  fx_F11 : bool   (* fix: 9fe653a (fixes/C13-F11.diff): grpcv3 splits the request target at the first "?" *)
}.

Definition pinned : fixes :=
  {| fx_F1 := false; fx_F2 := false; fx_F3 := false; fx_F4 := false; fx_F6 := false; fx_F7 := false; fx_F9 := false; fx_F11 := false |}.
Definition all_fixed : fixes :=
  {| fx_F1 := true; fx_F2 := true; fx_F3 := true; fx_F4 := true; fx_F6 := true; fx_F7 := true; fx_F9 := true; fx_F11 := true |}.
Definition set_F1 (b : bool) (f : fixes) : fixes :=
  {| fx_F1 := b; fx_F2 := fx_F2 f; fx_F3 := fx_F3 f; fx_F4 := fx_F4 f; fx_F6 := fx_F6 f; fx_F7 := fx_F7 f; fx_F9 := fx_F9 f; fx_F11 := fx_F11 f |}.
Definition set_F2 (b : bool) (f : fixes) : fixes :=
  {| fx_F1 := fx_F1 f; fx_F2 := b; fx_F3 := fx_F3 f; fx_F4 := fx_F4 f; fx_F6 := fx_F6 f; fx_F7 := fx_F7 f; fx_F9 := fx_F9 f; fx_F11 := fx_F11 f |}.
Definition set_F3 (b : bool) (f : fixes) : fixes :=
  {| fx_F1 := fx_F1 f; fx_F2 := fx_F2 f; fx_F3 := b; fx_F4 := fx_F4 f; fx_F6 := fx_F6 f; fx_F7 := fx_F7 f; fx_F9 := fx_F9 f; fx_F11 := fx_F11 f |}.
Definition set_F4 (b : bool) (f : fixes) : fixes :=
  {| fx_F1 := fx_F1 f; fx_F2 := fx_F2 f; fx_F3 := fx_F3 f; fx_F4 := b; fx_F6 := fx_F6 f; fx_F7 := fx_F7 f; fx_F9 := fx_F9 f; fx_F11 := fx_F11 f |}.
Definition set_F6 (b : bool) (f : fixes) : fixes :=
  {| fx_F1 := fx_F1 f; fx_F2 := fx_F2 f; fx_F3 := fx_F3 f; fx_F4 := fx_F4 f; fx_F6 := b; fx_F7 := fx_F7 f; fx_F9 := fx_F9 f; fx_F11 := fx_F11 f |}.
Definition set_F7 (b : bool) (f : fixes) : fixes :=
  {| fx_F1 := fx_F1 f; fx_F2 := fx_F2 f; fx_F3 := fx_F3 f; fx_F4 := fx_F4 f; fx_F6 := fx_F6 f; fx_F7 := b; fx_F9 := fx_F9 f; fx_F11 := fx_F11 f |}.
Definition set_F9 (b : bool) (f : fixes) : fixes :=
  {| fx_F1 := fx_F1 f; fx_F2 := fx_F2 f; fx_F3 := fx_F3 f; fx_F4 := fx_F4 f; fx_F6 := fx_F6 f; fx_F7 := fx_F7 f; fx_F9 := b; fx_F11 := fx_F11 f |}.
Definition set_F11 (b : bool) (f : fixes) : fixes :=
  {| fx_F1 := fx_F1 f; fx_F2 := fx_F2 f; fx_F3 := fx_F3 f; fx_F4 := fx_F4 f; fx_F6 := fx_F6 f; fx_F7 := fx_F7 f;
     fx_F9 := fx_F9 f; fx_F11 := b |}.

(** /repo since f446e16: the eight committed repairs of the [fixes] record are in — F1 b2286d8, F2 7c3e9fc,
    F3 a5ef279, F4 ae6db4f, F6 06faa19, F7 19923cd, F9 58408fc, F11 9fe653a (F10 f446e16 is a separate
    flag of [view_tp]) *)
Definition repo_now : fixes := all_fixed.

(** what grpcv3.NewRequestContext takes for path and query: as pinned the two attributes as they are
    (finding C13-F11: with the documented Envoy shape the query string stays glued to the path); with fix: 9fe653a (fixes/C13-F11.diff) the request target is cut at the first "?" *)
Fixpoint has_qmark (s : string) : bool :=
  match s with
  | EmptyString => false
  | String c r => Ascii.eqb c "?" || has_qmark r
  end.

Definition norm_envoy (fixed_F11 : bool) (E : ereq) : ereq :=
  if fixed_F11 && has_qmark (e_path E) then
    let '(p, q) := GoUrl.cut_on "?" (e_path E) in
    {| e_method := e_method E; e_scheme := e_scheme E; e_host := e_host E; e_path := p; e_query := q;
       e_hdrs := e_hdrs E; e_body := e_body E; e_rawbody := e_rawbody E; e_xff := e_xff E |}
  else E.

(** grpcv3.NewRequestContext + Request().  [fixed_F4 = false]: the pinned code puts the path as received
    (escaped) into URL.Path and leaves RawPath empty (finding C13-F4); [fixed_F4 = true]: fix: ae6db4f (Path = PathUnescape(path), RawPath = path, as extractURL does for HTTP). *)
Definition build_envoy (fixed_F4 : bool) (E : ereq) : rview :=
  {| rv_method := e_method E; rv_scheme := e_scheme E; rv_host := e_host E;
     rv_path := if fixed_F4 then GoUrl.unescape_or_empty (e_path E) else e_path E;
     rv_rawpath := if fixed_F4 then e_path E else "";
     rv_query := e_query E; rv_caps := None; rv_ips := e_xff E |}.

(** url.URL.String() for a URL with scheme and host (Opaque, User, Fragment empty; the host needs no escaping) *)
Definition url_string (v : rview) : string :=
  rv_scheme v ++ "://" ++ rv_host v ++ GoUrl.escaped_path (rv_path v) (rv_rawpath v) ++
  (if nonempty (rv_query v) then "?" ++ rv_query v else "").

(* ------------------------------------------------------------------ cookies *)

(** textproto.TrimString: ASCII space, \t, \n, \r *)
Definition is_http_space (a : ascii) : bool :=
  let n := N_of_ascii a in (n =? 32)%N || (n =? 9)%N || (n =? 10)%N || (n =? 13)%N.
Definition trim_string (s : string) : string := trim_right is_http_space (trim_left is_http_space s).

(** net/http isCookieNameValid: non-empty token *)
Definition cookie_name_valid (s : string) : bool := nonempty s && all_bytes token_byte s.

(** net/http validCookieValueByte *)
Definition cookie_value_byte (c : ascii) : bool :=
  let n := N_of_ascii c in
  ((32 <=? n) && (n <? 127))%N && negb (n =? 34)%N && negb (n =? 59)%N && negb (n =? 92)%N.

Fixpoint last_byte (s : string) : option ascii :=
  match s with
  | EmptyString => None
  | String c EmptyString => Some c
  | String _ r => last_byte r
  end.

Fixpoint drop_last (s : string) : string :=
  match s with
  | EmptyString => EmptyString
  | String _ EmptyString => EmptyString
  | String c r => String c (drop_last r)
  end.

(** net/http parseCookieValue(raw, true): [None] = not ok *)
Definition dquote : ascii := ascii_of_N 34.

Definition parse_cookie_value (raw : string) : option string :=
  let raw' := match raw with
              | String c (String _ _ as r) =>
                if Ascii.eqb c dquote then
                  match last_byte r with
                  | Some d => if Ascii.eqb d dquote then drop_last r else raw
                  | None => raw
                  end
                else raw
              | _ => raw
              end in
  if all_bytes cookie_value_byte raw' then Some raw' else None.

(** one ";"-separated part of a Cookie line in net/http readCookies with filter [name] *)
Definition http_cookie_part (name part : string) : option string :=
  let part := trim_string part in
  if String.eqb part "" then None
  else let '(n, v) := GoUrl.cut_on "=" part in
       let n := trim_string n in
       if negb (cookie_name_valid n) then None
       else if negb (String.eqb n name) then None
       else parse_cookie_value v.

Fixpoint first_some {A B} (f : A -> option B) (l : list A) : option B :=
  match l with
  | [] => None
  | x :: r => match f x with Some y => Some y | None => first_some f r end
  end.

(** http.Request.Cookie(name).Value over the Cookie lines, "" when there is none *)
Definition http_cookie (lines : list string) (name : string) : string :=
  if String.eqb name "" then ""
  else match first_some (fun line => first_some (http_cookie_part name) (split_on ";" (trim_string line))) lines with
       | Some v => v
       | None => ""
       end.

(** grpcv3 RequestContext.Cookie: strings.Split(values, ";"), strings.Cut(cookie, "="), TrimSpace *)
Fixpoint has_byte (c : ascii) (s : string) : bool :=
  match s with
  | EmptyString => false
  | String d r => Ascii.eqb c d || has_byte c r
  end.

Definition envoy_cookie_part (name part : string) : option string :=
  if has_byte "=" part then
    let '(n, v) := GoUrl.cut_on "=" part in
    if String.eqb (trim_space n) name then Some (trim_space v) else None
  else None.

Definition envoy_cookie (m : list (string * string)) (name : string) : string :=
  match assoc_opt "Cookie" m with
  | None => ""
  | Some line => match first_some (envoy_cookie_part name) (split_on ";" line) with Some v => v | None => "" end
  end.

(** net/http sanitizeCookieValue(v, false): invalid bytes dropped, quoted when it contains a space or a comma *)
Fixpoint filter_bytes (f : ascii -> bool) (s : string) : string :=
  match s with
  | EmptyString => EmptyString
  | String c r => if f c then String c (filter_bytes f r) else filter_bytes f r
  end.

Definition sanitize_cookie_value (v : string) : string :=
  let v' := filter_bytes cookie_value_byte v in
  if String.eqb v' "" then v'
  else if has_byte " " v' || has_byte "," v' then String dquote (v' ++ String dquote "") else v'.

(* ------------------------------------------------------------------ values the pipeline can read *)

Inductive value :=
| VStr (s : string)
| VNone                                   (* missing map key / nil: "<no value>" in a template, an error in CEL *)
| VMap (m : list (string * string))
| VList (l : list string)
| VJson (s : string).                     (* decoded body, as canonical JSON text *)

(** the JSON text of Go's empty string *)
Definition json_empty_string : string := String dquote (String dquote "").

(** heimdall.RequestFunctions of one context *)
Record accessors := {
  a_header : string -> string;
  a_headers : list (string * string);
  a_cookie : string -> string;
  a_body : value
}.

Section Oracles.
  (** contenttype.NewDecoder(ct) + Decode(body) with the fall-back to the raw string, as JSON text *)
  Variable decode : string -> string -> value.

  (** requestcontext.RequestContext: Header, Headers, Cookie, Body *)
  Definition header_http (h : hdrs) (host name : string) : string :=
    let key := canon name in
    if String.eqb key "Host" then host else join "," (values key h).

  Definition headers_http (h : hdrs) (host : string) : list (string * string) :=
    fold_left (fun m k => upsert k (fun _ => join "," (values k h)) m) (keys_of h []) [("Host", host)].

  Definition body_http (h : hdrs) (host body : string) : value :=
    if String.eqb body "" then VJson json_empty_string else decode (header_http h host "Content-Type") body.

  Definition acc_http (L : lreq) : accessors :=
    let h := http_hdrs L in
    {| a_header := header_http h (l_host L); a_headers := headers_http h (l_host L);
       a_cookie := http_cookie (values "Cookie" h); a_body := body_http h (l_host L) (l_body L) |}.

  (** grpcv3.RequestContext: Header (pinned: a raw map lookup), Headers, Cookie, Body (pinned: the
      decoder is asked even when there is no body).  Body() itself always reads the Content-Type
      through Header("Content-Type"). *)
  Definition header_envoy (fx : fixes) (m : list (string * string)) (host name : string) : string :=
    let key := if fx_F2 fx then canon name else name in
    if fx_F6 fx && String.eqb key "Host" then host else assoc key m.

  (** grpcv3 reads the bytes field [raw_body] only; the string field [body] is stored and never used
      (finding C13-F9; fix: 58408fc falls back to it when [raw_body] is empty) *)
  Definition envoy_raw_body (fx : fixes) (E : ereq) : string :=
    if fx_F9 fx && String.eqb (e_rawbody E) "" then e_body E else e_rawbody E.

  Definition acc_envoy (fx : fixes) (E : ereq) : accessors :=
    let m := canonicalize_headers (e_hdrs E) in
    {| a_header := header_envoy fx m (e_host E); a_headers := m;
       a_cookie := envoy_cookie m;
       a_body := let raw := envoy_raw_body fx E in
                 if fx_F7 fx && String.eqb raw "" then VJson json_empty_string
                 else decode (header_envoy fx m (e_host E) "Content-Type") raw |}.

  (* ---------------------------------------------------------------- queries *)

  Inductive query :=
  | QMethod | QScheme | QHost | QPath | QRawPath | QQuery | QUrl
  | QCapture (n : string) | QCaptures
  | QHeader (n : string) | QHeaders
  | QCookie (n : string)
  | QBody | QIps.

  Definition answer (a : accessors) (v : rview) (q : query) : value :=
    match q with
    | QMethod => VStr (rv_method v)
    | QScheme => VStr (rv_scheme v)
    | QHost => VStr (rv_host v)
    | QPath => VStr (rv_path v)
    | QRawPath => VStr (rv_rawpath v)
    | QQuery => VStr (rv_query v)
    | QUrl => VStr (url_string v)
    | QCapture n => match rv_caps v with
                    | None => VNone
                    | Some m => match assoc_opt n m with Some x => VStr x | None => VNone end
                    end
    | QCaptures => VMap (match rv_caps v with Some m => m | None => [] end)   (* nil and empty map are not distinguished *)
    | QHeader n => VStr (a_header a n)
    | QHeaders => VMap (a_headers a)
    | QCookie n => VStr (a_cookie a n)
    | QBody => a_body a
    | QIps => VList (rv_ips v)
    end.

  (* ---------------------------------------------------------------- pipelines *)

  Inductive add := AddHeader (name value : string) | AddCookie (name value : string).

  (** [ERedirect to]: heimdall.RedirectError set by a redirect error handler (Location = [to]) *)
  Inductive errkind := EAuthn | EAuthz | EArgument | ENoRule | EInternal | ERedirect (to : string).

  (** an arbitrary terminating pipeline: it reads the view through queries,
      emits AddHeaderForUpstream / AddCookieForUpstream calls and ends by
      allowing the request or failing with an error kind *)
  Inductive prog :=
  | Ask (q : query) (k : value -> prog)
  | Emit (a : add) (p : prog)
  | Allow
  | Fail (e : errkind).

  Fixpoint run_prog (ans : query -> value) (p : prog) : option errkind * list add :=
    match p with
    | Ask q k => run_prog ans (k (ans q))
    | Emit a p' => let '(r, l) := run_prog ans p' in (r, a :: l)
    | Allow => (None, [])
    | Fail e => (Some e, [])
    end.

  (** the queries a run asks, in order *)
  Fixpoint trace (ans : query -> value) (p : prog) : list query :=
    match p with
    | Ask q k => q :: trace ans (k (ans q))
    | Emit _ p' => trace ans p'
    | Allow | Fail _ => []
    end.

  (* ---------------------------------------------------------------- rules and the executor *)

  Inductive slashes := SOff | SOn | SNoDecode.

  (** [r_on_error]: the rule's error pipeline (compositeErrorHandler), run by ruleImpl.Execute when a
      mechanism of the pipeline fails: it reads the same view; [Fail e'] = the handler replaced the error
      (SetPipelineError), [Allow] = no handler was applicable, the pipeline's error stays; what it emits
      is of no consequence (every Finalize returns the pipeline error before anything is handed over) *)
  Record rule := { r_id : string; r_slashes : slashes; r_prog : prog; r_on_error : option prog }.

  Fixpoint as_handler (e : errkind) (h : prog) : prog :=
    match h with
    | Ask q k => Ask q (fun v => as_handler e (k v))
    | Emit _ h' => as_handler e h'
    | Allow => Fail e
    | Fail e' => Fail e'
    end.

  Fixpoint on_fail (p : prog) (h : errkind -> prog) : prog :=
    match p with
    | Ask q k => Ask q (fun v => on_fail (k v) h)
    | Emit a p' => Emit a (on_fail p' h)
    | Allow => Allow
    | Fail e => h e
    end.

  (** pipeline followed by the error pipeline, as one program *)
  Definition rule_prog (rl : rule) : prog :=
    match r_on_error rl with
    | None => r_prog rl
    | Some h => on_fail (r_prog rl) (fun e => as_handler e h)
    end.

  (** rules.containsEncodedSlash (since fix: a779db8 both spellings count) *)
  Definition contains_encoded_slash (p : string) : bool := GoUrl.contains "%2F" p || GoUrl.contains "%2f" p.

  (** strings.Split(s, sep) for a non-empty separator: first piece and the remaining pieces.
      [skip] counts the bytes of a matched separator still to be dropped. *)
  Fixpoint split_str_from (sep : string) (skip : nat) (s : string) : string * list string :=
    match s with
    | EmptyString => (EmptyString, [])
    | String c r =>
      match skip with
      | S k => split_str_from sep k r
      | O =>
        if GoUrl.has_prefix sep s
        then (EmptyString, let '(h, t) := split_str_from sep (Nat.pred (String.length sep)) r in h :: t)
        else let '(h, t) := split_str_from sep O r in (String c h, t)
      end
    end.

  Definition split_str (sep s : string) : list string := let '(h, t) := split_str_from sep O s in h :: t.

  Fixpoint all_some (l : list (option string)) : option (list string) :=
    match l with
    | [] => Some []
    | Some x :: r => option_map (cons x) (all_some r)
    | None :: _ => None
    end.

  (** rules.unescape / unescapeExceptSlashes (since fix: 6d0a3af): unless encoded slashes are to be
      decoded, the lower-case spelling %2f is turned into %2F, the value is cut at the encoded slashes,
      the pieces are decoded one by one (an invalid escape anywhere gives ""), and they are joined with
      %2F again — no place-holder text *)
  Definition unescape_capture (s : slashes) (v : string) : string :=
    match s with
    | SOn => GoUrl.unescape_or_empty v
    | _ => match all_some (map GoUrl.unescape (split_str "%2F" (GoUrl.replace_all "%2f" "%2F" v))) with
           | Some parts => join "%2F" parts
           | None => ""
           end
    end.

  (** what rule lookup reads of the view (repository.FindRule: RawPath if set, else Path; the route
      matchers read method, scheme and host) *)
  Record lview := { lk_path : string; lk_method : string; lk_scheme : string; lk_host : string }.

  Definition lookup_of (v : rview) : lview :=
    {| lk_path := if nonempty (rv_rawpath v) then rv_rawpath v else rv_path v;
       lk_method := rv_method v; lk_scheme := rv_scheme v; lk_host := rv_host v |}.

  (** rule lookup (C02/C03): the matched rule and the raw captured values *)
  Variable find : lview -> option (rule * list (string * string)).

  (** the first half of ruleImpl.Execute on the object [v] that ctx.Request() returned *)
  Definition slash_switch (s : slashes) (v : rview) : option rview :=
    match s with
    | SOn => Some {| rv_method := rv_method v; rv_scheme := rv_scheme v; rv_host := rv_host v; rv_path := rv_path v;
                     rv_rawpath := ""; rv_query := rv_query v; rv_caps := rv_caps v; rv_ips := rv_ips v |}
    | SOff => if contains_encoded_slash (rv_rawpath v) then None else Some v
    | SNoDecode => Some v
    end.

  Definition set_caps (v : rview) (c : option (list (string * string))) : rview :=
    {| rv_method := rv_method v; rv_scheme := rv_scheme v; rv_host := rv_host v; rv_path := rv_path v;
       rv_rawpath := rv_rawpath v; rv_query := rv_query v; rv_caps := c; rv_ips := rv_ips v |}.

  Definition unescape_caps (s : slashes) (v : rview) : rview :=
    set_caps v (option_map (map (fun kv => (fst kv, unescape_capture s (snd kv)))) (rv_caps v)).

  (** the view object the mechanisms of the matched rule get from ctx.Request(), or the error of the
      lookup / of the slash switch.  [caches]: does ctx.Request() return the same object every time?
      [build]: the object a (first) call creates. *)
  Definition mech_view (caches : bool) (build : rview) : errkind + (rule * rview) :=
    let r1 := build in                                        (* FindRule: request := ctx.Request() *)
    match find (lookup_of r1) with
    | None => inl ENoRule
    | Some (rl, caps) =>
      let written := set_caps r1 (Some caps) in               (* request.URL.Captures = the values the lookup captured *)
      let r2 := if caches then written else build in          (* ruleImpl.Execute: request := ctx.Request() *)
      match slash_switch (r_slashes rl) r2 with
      | None => inl EArgument
      | Some r2a =>
        let r2b := unescape_caps (r_slashes rl) r2a in
        inr (rl, if caches then r2b else build)               (* every mechanism: ctx.Request() *)
      end
    end.

  Record outcome := { o_err : option errkind; o_rule : string; o_adds : list add }.

  Definition execute (caches : bool) (build : rview) (a : accessors) : outcome :=
    match mech_view caches build with
    | inl e => {| o_err := Some e; o_rule := ""; o_adds := [] |}
    | inr (rl, v) =>
      let '(r, adds) := run_prog (answer a v) (rule_prog rl) in
      {| o_err := r; o_rule := r_id rl; o_adds := adds |}
    end.

  Definition exec_http (L : lreq) : outcome := execute true (build_http L) (acc_http L).
  Definition exec_envoy (fx : fixes) (L : lreq) : outcome :=
    execute (fx_F1 fx) (build_envoy (fx_F4 fx) (norm_envoy (fx_F11 fx) (mk_envoy L))) (acc_envoy fx (mk_envoy L)).

  (* ---------------------------------------------------------------- Finalize: the hand-over to the upstream side *)

  (** ctx.AddHeaderForUpstream: http.Header.Add (canonical key, values in call order);
      ctx.AddCookieForUpstream: map assignment (the last value wins) *)
  Definition upstream_headers (adds : list add) : hdrs :=
    flat_map (fun a => match a with AddHeader n v => [(canon n, v)] | AddCookie _ _ => [] end) adds.

  Definition upstream_cookies (adds : list add) : list (string * string) :=
    fold_left (fun m a => match a with AddCookie n v => upsert n (fun _ => v) m | AddHeader _ _ => m end) adds [].

  (** what reaches the upstream side, projected: per header name one value, per cookie name the value
      as it is put on the wire *)
  Record handover := { ho_headers : list (string * string); ho_cookies : list (string * string) }.

  (** decision: rw.Header().Set(k, uh.Get(k)) — the first value only; after fixes/C13-F3.diff all values
      (as separate header lines, projected to their ","-join); http.SetCookie (invalid names are
      dropped, values sanitised).  What is handed over is what is read off the wire: optional white
      space around a header value does not survive it ([http_trim]). *)
  Definition handed_value (fixed_F3 : bool) (uh : hdrs) (k : string) : string :=
    if fixed_F3 then join "," (map http_trim (values k uh)) else http_trim (get k uh).

  Definition finalize_decision (fixed_F3 : bool) (adds : list add) : handover :=
    let uh := upstream_headers adds in
    {| ho_headers := map (fun k => (k, handed_value fixed_F3 uh k)) (keys_of uh []);
       ho_cookies := flat_map (fun kv => if cookie_name_valid (fst kv) then [(fst kv, sanitize_cookie_value (snd kv))] else [])
                              (upstream_cookies adds) |}.

  (** proxy: proxyReq.Out.Header.Set(k, uh.Get(k)) (likewise); Out.AddCookie (values sanitised; names only lose CR/LF) *)
  Definition finalize_proxy (fixed_F3 : bool) (adds : list add) : handover :=
    let uh := upstream_headers adds in
    {| ho_headers := map (fun k => (k, handed_value fixed_F3 uh k)) (keys_of uh []);
       ho_cookies := map (fun kv => (fst kv, sanitize_cookie_value (snd kv))) (upstream_cookies adds) |}.

  (** envoy: strings.Join(upstreamHeaders.Values(k), ",") (Envoy puts that on the wire to the upstream);
      one Cookie header "k=v;k=v" without any sanitising *)
  Definition finalize_envoy (adds : list add) : handover :=
    let uh := upstream_headers adds in
    {| ho_headers := map (fun k => (k, http_trim (join "," (values k uh)))) (keys_of uh []);
       ho_cookies := upstream_cookies adds |}.

  (** one request through one entry point: error kind or matched rule + hand-over *)
  Record served := { s_err : option errkind; s_rule : string; s_handover : option handover }.

  Definition serve_with (fin : list add -> handover) (o : outcome) : served :=
    {| s_err := o_err o; s_rule := match o_err o with None => o_rule o | Some _ => "" end;
       s_handover := match o_err o with None => Some (fin (o_adds o)) | Some _ => None end |}.

  Definition serve_decision (fx : fixes) (L : lreq) : served := serve_with (finalize_decision (fx_F3 fx)) (exec_http L).
  Definition serve_proxy (fx : fixes) (L : lreq) : served := serve_with (finalize_proxy (fx_F3 fx)) (exec_http L).
  Definition serve_envoy (fx : fixes) (L : lreq) : served := serve_with finalize_envoy (exec_envoy fx L).
End Oracles.

(* ------------------------------------------------------------------ the mechanisms of the correspondence harness as programs *)

(** the CEL expression [<query> == "<constant>"] (cel authorizer expression, step-level `if`) *)
Record cond := { cd_q : query; cd_c : string }.

(** a header / cookie template: a constant or [{{ <query> }}] *)
Inductive tmpl := TConst (s : string) | TEcho (q : query).

(** one finalizer step: optional `if`, header or cookie finalizer, its name -> template map *)
Record step := { st_if : option cond; st_cookie : bool; st_items : list (string * tmpl) }.

(** text/template prints a missing map key as "<no value>" *)
Definition render (v : value) : string :=
  match v with
  | VStr s => s
  | VNone => "<no value>"
  | _ => "?"
  end.

(** CEL: a missing map key is an evaluation error (heimdall: internal error) *)
Definition cond_prog (c : cond) (yes no : prog) : prog :=
  Ask (cd_q c) (fun v => match v with
                         | VStr s => if String.eqb s (cd_c c) then yes else no
                         | _ => Fail EInternal
                         end).

Definition items_prog (cookie : bool) (items : list (string * tmpl)) (rest : prog) : prog :=
  fold_right (fun it acc =>
                let mk := fun v => if cookie then AddCookie (fst it) v else AddHeader (fst it) v in
                match snd it with
                | TConst s => Emit (mk s) acc
                | TEcho q => Ask q (fun v => Emit (mk (render v)) acc)
                end) rest items.

Definition step_prog (st : step) (rest : prog) : prog :=
  match st_if st with
  | None => items_prog (st_cookie st) (st_items st) rest
  | Some c => cond_prog c (items_prog (st_cookie st) (st_items st) rest) rest
  end.

(** redirect error handler: `to` = a constant prefix followed by the echo of one read (or nothing) *)
Definition redirect_prog (prefix : string) (echo : option query) : prog :=
  match echo with
  | None => Fail (ERedirect prefix)
  | Some q => Ask q (fun v => Fail (ERedirect (prefix ++ render v)))
  end.

(** anonymous authenticator; optional cel authorizer; finalizer steps *)
Definition pipeline_prog (authz : option cond) (steps : list step) : prog :=
  let body := fold_right step_prog Allow steps in
  match authz with
  | None => body
  | Some c => cond_prog c body (Fail EAuthz)
  end.

(* ------------------------------------------------------------------ the decision service as deployed: behind a trusted proxy *)

(** In its normal deployment the HTTP decision service does not get the request itself: an API
    gateway, listed in trusted_proxies, describes it through X-Forwarded-Method / -Proto / -Host / -Uri
    on a carrier request to the decision endpoint.  [tp_*]: that conveyance of a logical request;
    extractURL / extractMethod (C13/Http.v [view_of]) then rebuild the view from the headers.
    url.Parse on the X-Forwarded-Uri value is modelled with Base/GoUrl.v: EscapedPath() of the part
    before "?" and Query().Encode() (ParseQuery, then keys sorted and everything re-escaped) of the rest. *)
Definition forwarded_uri (L : lreq) : string :=
  l_rawpath L ++ (if nonempty (l_query L) then "?" ++ l_query L else "").

Definition parse_forwarded_uri (fixed_F10 : bool) (v : string) : option (string * string) :=
  let '(p, q) := GoUrl.cut_on "?" v in
  match GoUrl.set_path p with
  | None => None
  | Some (path, rp) =>
    Some (GoUrl.escaped_path path rp,
          if fixed_F10 then q                                       (* fix: f446e16 (fixes/C13-F10.diff): RawQuery as sent *)
          else GoUrl.values_encode (fst (GoUrl.parse_query q)))     (* as pinned: Query().Encode() — finding C13-F10 *)
  end.

Definition tp_carrier_host := "heimdall.internal".
Definition tp_carrier_path := "/decisions".

Definition tp_conn (L : lreq) : conn :=
  {| c_peer := l_peer L; c_tls := false; c_method := "GET"; c_host := tp_carrier_host;
     c_escpath := tp_carrier_path; c_rawquery := "" |}.

Definition tp_headers (L : lreq) : hdrs :=
  [(XFM, l_method L); (XFP, scheme_of L); (XFH, l_host L); (XFU, forwarded_uri L)].

(** the view of the decision service behind the trusted proxy (the middleware leaves the headers: [strip true]) *)
Definition view_tp (fixed_F10 : bool) (L : lreq) : view :=
  view_of (parse_forwarded_uri fixed_F10) (tp_conn L) (strip true (tp_headers L)).

(** the view of a service that gets the request itself (C13's other encodings) *)
Definition view_direct (L : lreq) : view := view_of (fun _ => None) (http_conn L) (http_hdrs L).

(** what matching and the pipeline read of the URL and the method *)
Definition url_parts (v : view) : string * string * string * string * string :=
  (v_method v, v_scheme v, v_host v, v_rawpath v, v_query v).

(* ------------------------------------------------------------------ requests in flight at the same time *)

(** Several requests are being processed; each has its own context, which decodes the body at the first
    Body() call and caches the result ([savedBody]).  [flight]: per request the logical request and its
    cache; an operation is "the pipeline of request i reads the body".  There is no state shared
    between the contexts — that is the point the correspondence stream `interleaved` ties to the code. *)
Definition flight := list (lreq * option value).

Fixpoint read_body (bodyf : lreq -> value) (i : nat) (st : flight) : option value * flight :=
  match st, i with
  | [], _ => (None, [])
  | (L, c) :: r, O =>
    let v := match c with Some v => v | None => bodyf L end in
    (Some v, (L, Some v) :: r)
  | x :: r, S j => let '(v, r') := read_body bodyf j r in (v, x :: r')
  end.

(** the values a sequence of reads returns *)
Fixpoint run_reads (bodyf : lreq -> value) (ops : list nat) (st : flight) : list (nat * option value) :=
  match ops with
  | [] => []
  | i :: r => let '(v, st') := read_body bodyf i st in (i, v) :: run_reads bodyf r st'
  end.
