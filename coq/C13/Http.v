(** C13/Http — the HTTP side of the request view: the string and header helpers, the trustedproxy
    middleware's deletion of the forwarded headers, extractURL / extractMethod / requestClientIPs and
    requestcontext.New + Request().  This is a COPY of the corresponding definitions and lemmas of
    coq/C09/Model.v and coq/C09/Proofs.v (same author, state of 2026-10-01), kept here so that C13 does
    not break when C09's files are edited by their new owner.  C13 uses them for services without
    trusted proxies only (every peer untrusted: [strip false]) and, in [view_tp], for X-Forwarded-Uri
    values that url.Parse accepts; the fall-back for a value it rejects (used as received since fix:
    d3f6cd7) is NOT modelled here — unreachable under [wf_lreqb] and never generated. *)
From HV Require Import Base.Prelude.
Open Scope string_scope.

(* ------------------------------------------------------------------ strings *)

(** strings.Split(s, c) for a single-byte separator: never empty *)
Fixpoint split_on (c : ascii) (s : string) : list string :=
  match s with
  | EmptyString => [EmptyString]
  | String a r =>
    let l := split_on c r in
    if Ascii.eqb a c then EmptyString :: l
    else match l with
         | [] => [String a EmptyString]
         | h :: t => String a h :: t
         end
  end.

(** ASCII white space of strings.TrimSpace: \t \n \v \f \r and space *)
Definition is_space (a : ascii) : bool :=
  let n := N_of_ascii a in ((9 <=? n) && (n <=? 13))%N || (n =? 32)%N.

(** optional white space of HTTP header values (net/http trims it on the wire) *)
Definition is_ows (a : ascii) : bool :=
  let n := N_of_ascii a in (n =? 9)%N || (n =? 32)%N.

Fixpoint trim_left (f : ascii -> bool) (s : string) : string :=
  match s with
  | String a r => if f a then trim_left f r else s
  | EmptyString => EmptyString
  end.

Fixpoint trim_right (f : ascii -> bool) (s : string) : string :=
  match s with
  | EmptyString => EmptyString
  | String a r =>
    match trim_right f r with
    | EmptyString => if f a then EmptyString else String a EmptyString
    | r' => String a r'
    end
  end.

Definition trim_space (s : string) : string := trim_right is_space (trim_left is_space s).
Definition http_trim (s : string) : string := trim_right is_ows (trim_left is_ows s).

(** strings.CutPrefix *)
Fixpoint cut_prefix (p s : string) : option string :=
  match p with
  | EmptyString => Some s
  | String a p' =>
    match s with
    | String b s' => if Ascii.eqb a b then cut_prefix p' s' else None
    | EmptyString => None
    end
  end.

Definition nonempty (s : string) : bool := negb (String.eqb s "").

Fixpoint join (sep : string) (l : list string) : string :=
  match l with
  | [] => ""
  | [x] => x
  | x :: r => x ++ sep ++ join sep r
  end.

(* ------------------------------------------------------------------ headers *)

(** http.Header after net/http's parser: canonical keys; per key the values in
    arrival order.  Represented as the list of (key, value) pairs. *)
Definition hdrs := list (string * string).

Definition values (k : string) (h : hdrs) : list string :=
  map snd (filter (fun kv => String.eqb (fst kv) k) h).

(** Header.Get: first value or "" *)
Definition get (k : string) (h : hdrs) : string :=
  match values k h with v :: _ => v | [] => "" end.

Definition has (k : string) (h : hdrs) : bool := negb (is_nil (values k h)).

(** Header.Del *)
Definition del (k : string) (h : hdrs) : hdrs :=
  filter (fun kv => negb (String.eqb (fst kv) k)) h.

Definition XFF := "X-Forwarded-For".
Definition XFP := "X-Forwarded-Proto".
Definition XFH := "X-Forwarded-Host".
Definition XFU := "X-Forwarded-Uri".
Definition XFPath := "X-Forwarded-Path".
Definition XFM := "X-Forwarded-Method".
Definition FWD := "Forwarded".

(** trustedproxy.untrustedHeader *)
Definition untrusted_header : list string := [FWD; XFF; XFP; XFH; XFU; XFPath; XFM].


(** the middleware: delete the seven headers unless the peer is trusted *)
Definition strip (trusted : bool) (h : hdrs) : hdrs :=
  if trusted then h else fold_left (fun acc n => del n acc) untrusted_header h.

(* ------------------------------------------------------------------ the request view *)

(** what the connection and the request line say *)
Record conn := {
  c_peer : string;      (* httpx.IPFromHostPort(req.RemoteAddr) *)
  c_tls : bool;         (* req.TLS != nil *)
  c_method : string;    (* req.Method *)
  c_host : string;      (* req.Host *)
  c_escpath : string;   (* req.URL.EscapedPath() *)
  c_rawquery : string   (* req.URL.RawQuery *)
}.

(** heimdall.Request as the pipeline sees it (URL.Path is PathUnescape(RawPath)) *)
Record view := {
  v_method : string;
  v_scheme : string;
  v_host : string;
  v_rawpath : string;
  v_query : string;
  v_ips : list string;
  v_hdrs : hdrs          (* what Header()/Headers() read: the request headers after the middleware *)
}.

Section Oracle.
  (** url.Parse on an X-Forwarded-Uri value: [Some (EscapedPath(), query)], [None] on error (the query component is chosen by the caller: C13/Model.v [parse_forwarded_uri]; since fix: f446e16 the RawQuery as sent) *)
  Variable parse_uri : string -> option (string * string).

  Definition actual_scheme (c : conn) : string := if c_tls c then "https" else "http".

  (** extractURL *)
  Definition extract_url (c : conn) (h : hdrs) : string * string * string * string :=
    let proto := let p := get XFP h in if nonempty p then p else actual_scheme c in
    let host := let x := get XFH h in if nonempty x then x else c_host c in
    let pq := let v := get XFU h in
              if nonempty v then match parse_uri v with Some pq => pq | None => ("", "") end
              else ("", "") in
    let rawpath := if nonempty (fst pq) then fst pq else c_escpath c in
    let query := if nonempty (snd pq) then snd pq else c_rawquery c in
    (proto, host, rawpath, query).

  (** extractMethod *)
  Definition extract_method (c : conn) (h : hdrs) : string :=
    let v := get XFM h in if nonempty v then v else c_method c.

  (** the inner loops of requestClientIPs for one element of the Forwarded header *)
  Definition forwarded_for (elem : string) : string :=
    fold_left (fun acc part => match cut_prefix "for=" (trim_space part) with Some a => a | None => acc end)
              (split_on ";" (trim_space elem)) "".

  (** requestClientIPs *)
  Definition client_ips (c : conn) (h : hdrs) : list string :=
    let fw := get FWD h in
    let ips := if nonempty fw then map forwarded_for (split_on "," fw)
               else let xff := get XFF h in
                    if nonempty xff then map trim_space (split_on "," xff) else [] in
    ips ++ [c_peer c].

  (** requestcontext.New + Request(), on the headers the middleware left *)
  Definition view_of (c : conn) (h : hdrs) : view :=
    let '(proto, host, rawpath, query) := extract_url c h in
    {| v_method := extract_method c h; v_scheme := proto; v_host := host; v_rawpath := rawpath;
       v_query := query; v_ips := client_ips c h; v_hdrs := h |}.

End Oracle.

(* ------------------------------------------------------------------ untrusted peers: only the connection counts *)

Definition is_forwarded_name (k : string) : bool := existsb (String.eqb k) untrusted_header.
Definition not_forwarded (h : hdrs) : hdrs := filter (fun kv => negb (is_forwarded_name (fst kv))) h.

Definition spec_view_untrusted (c : conn) (h : hdrs) : view :=
  {| v_method := c_method c; v_scheme := if c_tls c then "https" else "http"; v_host := c_host c;
     v_rawpath := c_escpath c; v_query := c_rawquery c; v_ips := [c_peer c]; v_hdrs := not_forwarded h |}.

Lemma filter_filter {A} (f g : A -> bool) l : filter f (filter g l) = filter (fun x => g x && f x) l.
Proof.
  induction l as [|x l IH]; simpl; [reflexivity|].
  destruct (g x); simpl; [destruct (f x); simpl; congruence | exact IH].
Qed.

Lemma strip_untrusted h : strip false h = not_forwarded h.
Proof.
  unfold strip, not_forwarded, untrusted_header. simpl. unfold del.
  rewrite !filter_filter. apply filter_ext. intros [k v]. unfold is_forwarded_name, untrusted_header. simpl.
  rewrite !negb_orb. rewrite !andb_assoc. rewrite andb_true_r. reflexivity.
Qed.

Lemma values_not_forwarded k h : is_forwarded_name k = true -> values k (not_forwarded h) = [].
Proof.
  intro Hk. unfold values, not_forwarded. rewrite filter_filter.
  assert (E : filter (fun x : string * string => negb (is_forwarded_name (fst x)) && String.eqb (fst x) k) h = []).
  { induction h as [|[k' v] h IH]; simpl; [reflexivity|].
    destruct (String.eqb k' k) eqn:Ek.
    - apply String.eqb_eq in Ek. subst. rewrite Hk. simpl. exact IH.
    - rewrite andb_false_r. exact IH. }
  rewrite E. reflexivity.
Qed.

Lemma get_not_forwarded k h : is_forwarded_name k = true -> get k (not_forwarded h) = "".
Proof. intro Hk. unfold get. rewrite values_not_forwarded by assumption. reflexivity. Qed.

Lemma view_untrusted parse_uri c h :
  view_of parse_uri c (not_forwarded h) = spec_view_untrusted c h.
Proof.
  unfold view_of, extract_url, extract_method, client_ips, spec_view_untrusted.
  rewrite !get_not_forwarded by reflexivity. reflexivity.
Qed.
