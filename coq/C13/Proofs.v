(** C13 — specification vocabulary (finding guards) and proofs. *)
From HV Require Import Base.Prelude Base.GoUrl.
From HV Require Import C13.Http C13.Model.
Open Scope string_scope.

(* ------------------------------------------------------------------ guards of the findings *)

(** C13-F1 (pinned grpcv3.RequestContext only): the pipeline reads something that lookup or
    ruleImpl.Execute WROTE into the view: a capture that matching stored, or — once the Envoy context
    carries a RawPath at all (fixed_F4) — the RawPath that `allow_encoded_slashes: on` resets *)
Definition is_on (s : slashes) : bool := match s with SOn => true | _ => false end.

Definition g_F1_query (caps : list (string * string)) (s : slashes) (fixed_F4 : bool) (q : query) : bool :=
  match q with
  | QCapture n => existsb (String.eqb n) (map fst caps)
  | QCaptures => negb (is_nil caps)
  | QRawPath | QUrl => fixed_F4 && is_on s
  | _ => false
  end.

(** C13-F2: Header(name) with a name that is not in canonical form, for a header that is present
    (Host counts as a header once grpcv3 knows it, [fixed_F6]; before that it is C13-F6's) *)
Definition g_F2_query (fixed_F6 : bool) (L : lreq) (q : query) : bool :=
  match q with
  | QHeader n => negb (String.eqb (canon n) n) && (fixed_F6 || negb (String.eqb (canon n) "Host")) &&
                 nonempty (header_http (http_hdrs L) (l_host L) n)
  | _ => false
  end.

(** C13-F3: a pipeline header name that was added more than once — with the pinned Finalize of
    decision and proxy always (first value only), with the repaired one only when one of the values
    carries surrounding blanks (separate header lines are trimmed one by one on the wire, Envoy's
    joined value only at its ends) *)
Definition no_lead (s : string) : bool := match s with String c _ => negb (is_ows c) | EmptyString => true end.
Definition no_trail (s : string) : bool := match last_byte s with Some c => negb (is_ows c) | None => true end.
Definition trimmedb (s : string) : bool := no_lead s && no_trail s.

Definition g_F3_adds (fixed_F3 : bool) (adds : list add) : bool :=
  let uh := upstream_headers adds in
  existsb (fun k => Nat.ltb 1 (length (values k uh)) &&
                    (negb fixed_F3 || negb (forallb trimmedb (values k uh)))) (keys_of uh []).

(** C13-F4: the path carries percent-escapes (URL.Path / String()), RawPath is read, or an encoded
    slash meets the default `allow_encoded_slashes: off` *)
Definition g_F4_query (s : slashes) (L : lreq) (q : query) : bool :=
  match q with
  | QPath => negb (String.eqb (GoUrl.unescape_or_empty (l_rawpath L)) (l_rawpath L))
  | QRawPath => match s with SOn => false | _ => nonempty (l_rawpath L) end
  | QUrl => negb (String.eqb (GoUrl.escape GoUrl.MPath (l_rawpath L)) (l_rawpath L))
  | _ => false
  end.

Definition g_F4_decision (s : slashes) (L : lreq) : bool :=
  match s with SOff => contains_encoded_slash (l_rawpath L) | _ => false end.

(** C13-F5, read side: a Cookie line with a part that is not of the plain form [ *SP token "=" *octet ] *)
Definition plain_value_byte (c : ascii) : bool :=
  cookie_value_byte c && negb (Ascii.eqb c " ").

Definition good_cookie_part (p : string) : bool :=
  let p' := trim_left (fun a => Ascii.eqb a " ") p in
  has_byte "=" p' &&
  let '(n, v) := GoUrl.cut_on "=" p' in
  cookie_name_valid n && all_bytes plain_value_byte v.

Definition plain_cookie_line (line : string) : bool := forallb good_cookie_part (split_on ";" line).

Definition plain_line (line : string) : bool := String.eqb (trim_string line) line && plain_cookie_line line.

(** a part concerns the name [n] when one of the two readers takes its name to be [n] *)
Definition concerns (n p : string) : bool :=
  String.eqb (trim_string (fst (GoUrl.cut_on "=" (trim_string p)))) n ||
  (has_byte "=" p && String.eqb (trim_space (fst (GoUrl.cut_on "=" p))) n).

(** the parts of the line that concern [n] are all of the plain form *)
Definition plain_for (n line : string) : bool :=
  String.eqb (trim_string line) line &&
  forallb (fun p => negb (concerns n p) || good_cookie_part p) (split_on ";" line).

Definition g_F5_query (L : lreq) (q : query) : bool :=
  match q with
  | QCookie n => negb (forallb (plain_for n) (values "Cookie" (http_hdrs L)))
  | _ => false
  end.

(** C13-F5, hand-over side: a pipeline cookie whose value net/http sanitises or quotes, or whose name it rejects *)
Definition g_F5_adds (adds : list add) : bool :=
  existsb (fun kv => negb (cookie_name_valid (fst kv)) || negb (String.eqb (sanitize_cookie_value (snd kv)) (snd kv)))
          (upstream_cookies adds).

(** C13-F6: the Host header through Header() *)
Definition g_F6_query (q : query) : bool :=
  match q with
  | QHeader n => String.eqb (canon n) "Host"
  | _ => false
  end.

(** C13-F8: Headers() as a whole: the HTTP contexts add the Host key, grpcv3 does not (its own unit
    test pins the map) *)
Definition g_F8_query (q : query) : bool :=
  match q with
  | QHeaders => true
  | _ => false
  end.

(** C13-F7: the body of a request without body *)
Definition value_is (v : value) (s : string) : bool :=
  match v with VJson x => String.eqb x s | _ => false end.

Definition g_F7_query (decode : string -> string -> value) (L : lreq) (q : query) : bool :=
  match q with
  | QBody => String.eqb (l_body L) "" &&
             negb (value_is (decode (header_http (http_hdrs L) (l_host L) "Content-Type") "") json_empty_string)
  | _ => false
  end.

(** C13-F9: the body of a request whose body Envoy conveys in the string field [body] only *)
Definition g_F9_query (L : lreq) (q : query) : bool :=
  match q with
  | QBody => match l_pack L with PackBody => nonempty (l_body L) | _ => false end
  | _ => false
  end.

(** C13-F11: a request with a query string that Envoy conveys the documented way (query inside [path]) *)
Definition g_F11 (L : lreq) : bool := l_qpath L && nonempty (l_query L).

(* ------------------------------------------------------------------ well-formed logical requests *)

(** what net/http accepts and the harness's encoding conventions: header names are tokens, no Host
    line (the host is [l_host]), none of the seven forwarded headers (C09: the services run without
    trusted proxies and delete them), values without surrounding optional white space, at most one
    Cookie line (Envoy joins cookie lines with "; ", net/http keeps the lines apart), a request path
    that starts with "/" and is a valid encoding *)
Definition wf_hdr (nv : string * string) : bool :=
  nonempty (fst nv) && all_bytes token_byte (fst nv) &&
  negb (String.eqb (canon (fst nv)) "Host") &&
  negb (existsb (String.eqb (canon (fst nv))) untrusted_header) &&
  String.eqb (http_trim (snd nv)) (snd nv).

Definition starts_with_slash (s : string) : bool :=
  match s with String c _ => Ascii.eqb c "/" | EmptyString => false end.

Definition wf_lreqb (L : lreq) : bool :=
  forallb wf_hdr (l_hdrs L) &&
  Nat.leb (length (values "Cookie" (http_hdrs_wire L))) 1 &&
  nonempty (l_host L) &&
  starts_with_slash (l_rawpath L) && GoUrl.valid_encoded (l_rawpath L) &&
  match GoUrl.unescape (l_rawpath L) with Some _ => true | None => false end.

(* ================================================================== proofs *)
From HV Require Import Base.GoUrlFacts.

Lemma eqb_refl_s s : String.eqb s s = true.
Proof. apply String.eqb_refl. Qed.

(* ------------------------------------------------------------------ header names: canon and lower *)

Lemma to_lower_upper_b : forall c, Ascii.eqb (to_lower (to_upper c)) (to_lower c) = true.
Proof. by_ascii. Qed.
Lemma to_lower_idem_b : forall c, Ascii.eqb (to_lower (to_lower c)) (to_lower c) = true.
Proof. by_ascii. Qed.
Lemma to_upper_lower_b : forall c, Ascii.eqb (to_upper (to_lower c)) (to_upper c) = true.
Proof. by_ascii. Qed.
Lemma token_lower_b : forall c, Bool.eqb (token_byte (to_lower c)) (token_byte c) = true.
Proof. by_ascii. Qed.
Lemma dash_upper_b : forall c, Bool.eqb (Ascii.eqb (to_upper c) "-") (Ascii.eqb c "-") = true.
Proof. by_ascii. Qed.
Lemma dash_lower_b : forall c, Bool.eqb (Ascii.eqb (to_lower c) "-") (Ascii.eqb c "-") = true.
Proof. by_ascii. Qed.

Lemma to_lower_upper c : to_lower (to_upper c) = to_lower c.
Proof. apply Ascii.eqb_eq, to_lower_upper_b. Qed.
Lemma to_lower_idem c : to_lower (to_lower c) = to_lower c.
Proof. apply Ascii.eqb_eq, to_lower_idem_b. Qed.
Lemma to_upper_lower c : to_upper (to_lower c) = to_upper c.
Proof. apply Ascii.eqb_eq, to_upper_lower_b. Qed.
Lemma token_lower c : token_byte (to_lower c) = token_byte c.
Proof. apply Bool.eqb_prop, token_lower_b. Qed.
Lemma dash_upper c : Ascii.eqb (to_upper c) "-" = Ascii.eqb c "-".
Proof. apply Bool.eqb_prop, dash_upper_b. Qed.
Lemma dash_lower c : Ascii.eqb (to_lower c) "-" = Ascii.eqb c "-".
Proof. apply Bool.eqb_prop, dash_lower_b. Qed.

Lemma lower_idem s : lower (lower s) = lower s.
Proof. induction s as [|c r IH]; simpl; [reflexivity|]. rewrite to_lower_idem, IH. reflexivity. Qed.

Lemma all_token_lower s : all_bytes token_byte (lower s) = all_bytes token_byte s.
Proof. induction s as [|c r IH]; simpl; [reflexivity|]. rewrite token_lower, IH. reflexivity. Qed.

Lemma lower_canon_from u s : lower (canon_from u s) = lower s.
Proof.
  revert u. induction s as [|c r IH]; intro u; simpl; [reflexivity|].
  rewrite IH. destruct u; [rewrite to_lower_upper | rewrite to_lower_idem]; reflexivity.
Qed.

Lemma canon_from_lower u s : canon_from u (lower s) = canon_from u s.
Proof.
  revert u. induction s as [|c r IH]; intro u; simpl; [reflexivity|].
  destruct u.
  - rewrite to_upper_lower, IH. reflexivity.
  - rewrite to_lower_idem, IH. reflexivity.
Qed.

(** for header names made of token characters *)
Lemma lower_canon s : lower (canon s) = lower s.
Proof. unfold canon. destruct (all_bytes token_byte s); [apply lower_canon_from | reflexivity]. Qed.

Lemma canon_lower s : all_bytes token_byte s = true -> canon (lower s) = canon s.
Proof. intro H. unfold canon. rewrite all_token_lower, H. apply canon_from_lower. Qed.

(** a canonical name [n] names exactly the header lines whose lower-cased name is [lower n] *)
Lemma canon_eq_iff_lower x n :
  all_bytes token_byte x = true -> canon n = n ->
  String.eqb (canon x) n = String.eqb (lower x) (lower n).
Proof.
  intros Hx Hn. destruct (String.eqb (canon x) n) eqn:E1; symmetry.
  - apply String.eqb_eq in E1. apply String.eqb_eq. rewrite <- E1. symmetry. apply lower_canon.
  - apply String.eqb_neq. intro E2. apply String.eqb_neq in E1. apply E1.
    rewrite <- (canon_lower x Hx), E2.
    destruct (all_bytes token_byte n) eqn:Tn.
    + rewrite canon_lower by assumption. exact Hn.
    + (* [n] is not a token: then lower x = lower n is not one either, contradiction *)
      rewrite <- all_token_lower, <- E2, all_token_lower, Hx in Tn. discriminate.
Qed.

(* ------------------------------------------------------------------ association lists *)

Lemma assoc_opt_upsert_same k f m :
  assoc_opt k (upsert k f m) = Some (f (assoc_opt k m)).
Proof.
  induction m as [|[k' v] m IH]; simpl.
  - rewrite eqb_refl_s. reflexivity.
  - destruct (String.eqb k' k) eqn:E; simpl; rewrite E; [reflexivity | exact IH].
Qed.

Lemma assoc_opt_upsert_other k k' f m :
  String.eqb k' k = false -> assoc_opt k (upsert k' f m) = assoc_opt k m.
Proof.
  intro Hk. induction m as [|[k0 v] m IH]; simpl.
  - rewrite Hk. reflexivity.
  - destruct (String.eqb k0 k') eqn:E; simpl.
    + apply String.eqb_eq in E. subst k0. rewrite Hk. reflexivity.
    + destruct (String.eqb k0 k); [reflexivity | exact IH].
Qed.

(** appending values to an optional joined value *)
Definition append_vals (sep : string) (o : option string) (vs : list string) : option string :=
  fold_left (fun acc v => Some (match acc with Some a => a ++ sep ++ v | None => v end)) vs o.

Lemma app_assoc_s (a b c : string) : (a ++ b) ++ c = a ++ (b ++ c).
Proof. induction a as [|x a IH]; simpl; [reflexivity | rewrite IH; reflexivity]. Qed.

Lemma append_vals_some sep a vs : append_vals sep (Some a) vs = Some (join sep (a :: vs)).
Proof.
  revert a. induction vs as [|v vs IH]; intro a; [reflexivity|].
  unfold append_vals in *. simpl fold_left. rewrite IH.
  destruct vs as [|w ws]; [reflexivity|].
  change (join sep ((a ++ sep ++ v) :: w :: ws)) with ((a ++ sep ++ v) ++ sep ++ join sep (w :: ws)).
  change (join sep (a :: v :: w :: ws)) with (a ++ sep ++ (v ++ sep ++ join sep (w :: ws))).
  rewrite !app_assoc_s. reflexivity.
Qed.

Lemma append_vals_none sep vs :
  append_vals sep None vs = match vs with [] => None | _ => Some (join sep vs) end.
Proof.
  destruct vs as [|v vs]; [reflexivity|].
  unfold append_vals. simpl fold_left. apply (append_vals_some sep v vs).
Qed.

(** the values of the header lines whose lower-cased name is [k] *)
Definition vals_lower (k : string) (l : list (string * string)) : list string :=
  map snd (filter (fun nv => String.eqb (lower (fst nv)) k) l).

Lemma envoy_fold_assoc k l m0 :
  assoc_opt k (fold_left envoy_add l m0) = append_vals (envoy_sep k) (assoc_opt k m0) (vals_lower k l).
Proof.
  revert m0. induction l as [|[n v] l IH]; intro m0; [reflexivity|].
  simpl fold_left. rewrite IH. unfold vals_lower. simpl filter.
  unfold envoy_add at 1. simpl fst. simpl snd.
  destruct (String.eqb (lower n) k) eqn:E.
  - apply String.eqb_eq in E. subst k. rewrite assoc_opt_upsert_same. simpl map.
    unfold append_vals. simpl fold_left. reflexivity.
  - rewrite assoc_opt_upsert_other by exact E. reflexivity.
Qed.

(** every key of Envoy's header map is a lower-cased header name *)
Lemma envoy_fold_keys l m0 k v :
  In (k, v) (fold_left envoy_add l m0) ->
  (exists v0, In (k, v0) m0) \/ exists nv, In nv l /\ k = lower (fst nv).
Proof.
  revert m0. induction l as [|[n x] l IH]; intros m0 H; [left; eauto|].
  simpl in H. apply IH in H. destruct H as [[v0 H]|[nv [H1 H2]]].
  - unfold envoy_add in H. simpl in H.
    assert (G : forall f m, In (k, v0) (upsert (lower n) f m) -> (exists v1, In (k, v1) m) \/ k = lower n).
    { intros f m. induction m as [|[k1 v1] m IHm]; simpl; intro G.
      - destruct G as [G|[]]. inversion G. right; reflexivity.
      - destruct (String.eqb k1 (lower n)) eqn:E.
        + destruct G as [G|G].
          * inversion G; subst. apply String.eqb_eq in E. right; exact E.
          * left; eauto.
        + destruct G as [G|G].
          * inversion G; subst. left; eauto.
          * apply IHm in G. destruct G as [[v2 G]|G]; [left; eauto | right; exact G]. }
    apply G in H. destruct H as [H|H]; [left; exact H | right; exists (n, x); split; [left; reflexivity | exact H]].
  - right. exists nv. split; [right; exact H1 | exact H2].
Qed.

(** lookup of a canonical name in the canonicalised map = lookup of its lower-case form in Envoy's map *)
Lemma assoc_opt_canonicalize n m :
  canon n = n ->
  (forall k v, In (k, v) m -> all_bytes token_byte k = true /\ lower k = k) ->
  assoc_opt n (canonicalize_headers m) = assoc_opt (lower n) m.
Proof.
  intros Hn Hm. induction m as [|[k v] m IH]; [reflexivity|].
  simpl. destruct (Hm k v (or_introl eq_refl)) as [Tk Lk].
  rewrite (canon_eq_iff_lower k n Tk Hn), Lk.
  destruct (String.eqb k (lower n)); [reflexivity|].
  apply IH. intros k' v' H. apply (Hm k' v'). right; exact H.
Qed.

(* ------------------------------------------------------------------ the two header views of a well-formed request *)

Lemma wf_hdr_token nv : wf_hdr nv = true -> all_bytes token_byte (fst nv) = true.
Proof. unfold wf_hdr. intro H. repeat (apply andb_true_iff in H as [H ?]). assumption. Qed.

Lemma wf_hdr_not_forwarded nv : wf_hdr nv = true -> is_forwarded_name (canon (fst nv)) = false.
Proof.
  unfold wf_hdr. intro H. repeat (apply andb_true_iff in H as [H ?]).
  apply negb_true_iff. assumption.
Qed.

(** the trustedproxy middleware has nothing to delete *)
Lemma http_hdrs_wf L : forallb wf_hdr (l_hdrs L) = true -> http_hdrs L = http_hdrs_wire L.
Proof.
  intro H. unfold http_hdrs. rewrite strip_untrusted. unfold http_hdrs_wire, not_forwarded.
  induction (l_hdrs L) as [|nv l IH]; [reflexivity|].
  simpl in H. apply andb_true_iff in H as [H1 H2]. simpl.
  rewrite (wf_hdr_not_forwarded nv H1). simpl. rewrite IH by assumption. reflexivity.
Qed.

Lemma values_wire_lower n l :
  canon n = n -> forallb wf_hdr l = true ->
  values n (map (fun nv => (canon (fst nv), snd nv)) l) = vals_lower (lower n) l.
Proof.
  intros Hn H. unfold values, vals_lower. induction l as [|nv l IH]; [reflexivity|].
  simpl in H. apply andb_true_iff in H as [H1 H2]. simpl.
  rewrite (canon_eq_iff_lower (fst nv) n (wf_hdr_token nv H1) Hn).
  destruct (String.eqb (lower (fst nv)) (lower n)); simpl; rewrite IH by assumption; reflexivity.
Qed.

Lemma envoy_keys_wf L k v :
  forallb wf_hdr (l_hdrs L) = true -> In (k, v) (envoy_wire_hdrs L) ->
  all_bytes token_byte k = true /\ lower k = k.
Proof.
  intros H Hin. unfold envoy_wire_hdrs in Hin. apply envoy_fold_keys in Hin.
  destruct Hin as [[v0 []]|[nv [H1 H2]]]. subst k.
  rewrite forallb_forall in H. specialize (H nv H1).
  split; [rewrite all_token_lower; apply wf_hdr_token; exact H | apply lower_idem].
Qed.

(** Envoy's map, looked up with a canonical name *)
Lemma envoy_lookup_canonical L n :
  canon n = n -> forallb wf_hdr (l_hdrs L) = true ->
  assoc_opt n (canonicalize_headers (envoy_wire_hdrs L)) =
  match vals_lower (lower n) (l_hdrs L) with
  | [] => None
  | vs => Some (join (envoy_sep (lower n)) vs)
  end.
Proof.
  intros Hn H. rewrite assoc_opt_canonicalize; [| exact Hn | intros k v; apply envoy_keys_wf; exact H].
  unfold envoy_wire_hdrs. rewrite envoy_fold_assoc. simpl assoc_opt. rewrite append_vals_none.
  destruct (vals_lower (lower n) (l_hdrs L)); reflexivity.
Qed.

Lemma join_single_sep s1 s2 (vs : list string) : (length vs <= 1)%nat -> join s1 vs = join s2 vs.
Proof. destruct vs as [|v [|w vs]]; simpl; intro H; try reflexivity. lia. Qed.

(** C13, headers: a canonical name other than Host finds in Envoy's canonicalised map what
    requestcontext's Header() answers *)
Lemma header_map_agree L k :
  forallb wf_hdr (l_hdrs L) = true ->
  (length (values "Cookie" (http_hdrs_wire L)) <= 1)%nat ->
  canon k = k -> String.eqb k "Host" = false ->
  header_http (http_hdrs L) (l_host L) k = assoc k (canonicalize_headers (envoy_wire_hdrs L)).
Proof.
  intros H Hc Hn Hh.
  unfold header_http. rewrite Hn, Hh. rewrite http_hdrs_wf by exact H.
  unfold http_hdrs_wire. rewrite values_wire_lower by assumption.
  unfold assoc. rewrite envoy_lookup_canonical by assumption.
  destruct (vals_lower (lower k) (l_hdrs L)) as [|v vs] eqn:E; [reflexivity|].
  unfold envoy_sep. destruct (String.eqb (lower k) "cookie") eqn:Ec; [|reflexivity].
  (* the Cookie header: at most one line *)
  apply join_single_sep. rewrite <- E.
  assert (Hck : canon "Cookie" = "Cookie") by reflexivity.
  unfold http_hdrs_wire in Hc. rewrite (values_wire_lower "Cookie" _ Hck H) in Hc.
  apply String.eqb_eq in Ec. rewrite Ec. exact Hc.
Qed.

Lemma to_upper_idem_b : forall c, Ascii.eqb (to_upper (to_upper c)) (to_upper c) = true.
Proof. by_ascii. Qed.
Lemma token_upper_b : forall c, Bool.eqb (token_byte (to_upper c)) (token_byte c) = true.
Proof. by_ascii. Qed.
Lemma to_upper_idem c : to_upper (to_upper c) = to_upper c.
Proof. apply Ascii.eqb_eq, to_upper_idem_b. Qed.
Lemma token_upper c : token_byte (to_upper c) = token_byte c.
Proof. apply Bool.eqb_prop, token_upper_b. Qed.

Lemma all_token_canon_from u s : all_bytes token_byte (canon_from u s) = all_bytes token_byte s.
Proof.
  revert u. induction s as [|c r IH]; intro u; simpl; [reflexivity|].
  rewrite IH. destruct u; [rewrite token_upper | rewrite token_lower]; reflexivity.
Qed.

Lemma canon_from_idem u s : canon_from u (canon_from u s) = canon_from u s.
Proof.
  revert u. induction s as [|c r IH]; intro u; simpl; [reflexivity|].
  destruct u.
  - rewrite to_upper_idem, IH. reflexivity.
  - rewrite to_lower_idem, IH. reflexivity.
Qed.

Lemma canon_idem s : canon (canon s) = canon s.
Proof.
  unfold canon. destruct (all_bytes token_byte s) eqn:T.
  - rewrite all_token_canon_from, T. apply canon_from_idem.
  - rewrite T. reflexivity.
Qed.

(** a name that is not in canonical form is not a key of the canonicalised map *)
Lemma assoc_opt_noncanonical n m :
  canon n <> n -> assoc_opt n (canonicalize_headers m) = None.
Proof.
  intro Hn. induction m as [|[k v] m IH]; [reflexivity|]. simpl.
  destruct (String.eqb (canon k) n) eqn:E; [|exact IH].
  apply String.eqb_eq in E. exfalso. apply Hn. rewrite <- E. apply canon_idem.
Qed.

(* ------------------------------------------------------------------ the views of a well-formed request *)

Lemma wf_parts L :
  wf_lreqb L = true ->
  forallb wf_hdr (l_hdrs L) = true /\ (length (values "Cookie" (http_hdrs_wire L)) <= 1)%nat /\
  nonempty (l_host L) = true /\ starts_with_slash (l_rawpath L) = true /\
  GoUrl.valid_encoded (l_rawpath L) = true /\ exists p, GoUrl.unescape (l_rawpath L) = Some p.
Proof.
  unfold wf_lreqb. intro H. repeat (apply andb_true_iff in H as [H ?]).
  repeat split; try assumption.
  - apply Nat.leb_le. assumption.
  - destruct (GoUrl.unescape (l_rawpath L)) as [p|]; [eauto | discriminate].
Qed.

Lemma escpath_wire_wf raw p :
  starts_with_slash raw = true -> GoUrl.valid_encoded raw = true -> GoUrl.unescape raw = Some p ->
  escpath_of_wire raw = raw.
Proof.
  intros Hs Hv Hu. unfold escpath_of_wire.
  destruct (GoUrl.set_path raw) as [[p0 rp]|] eqn:E.
  - pose proof (set_path_unescape _ _ _ E) as Hu'. rewrite Hu in Hu'. inversion Hu'; subst p0.
    rewrite (set_path_escaped _ _ _ E), Hv; [reflexivity|].
    destruct raw as [|c r]; [discriminate|]. simpl in Hs. apply Ascii.eqb_eq in Hs. subst c.
    unfold GoUrl.unescape in Hu. rewrite unescape_gen_cons_plain in Hu by reflexivity.
    destruct (GoUrl.unescape_gen false r); [|discriminate]. inversion Hu. discriminate.
  - apply set_path_none in E. congruence.
Qed.

Lemma build_http_wf L :
  wf_lreqb L = true ->
  build_http L = {| rv_method := l_method L; rv_scheme := scheme_of L; rv_host := l_host L;
                    rv_path := GoUrl.unescape_or_empty (l_rawpath L); rv_rawpath := l_rawpath L;
                    rv_query := l_query L; rv_caps := None; rv_ips := [l_peer L] |}.
Proof.
  intro W. destruct (wf_parts L W) as (_ & _ & _ & Hs & Hv & p & Hu).
  unfold build_http, http_hdrs. rewrite strip_untrusted, view_untrusted.
  unfold spec_view_untrusted, http_conn. cbn [v_method v_scheme v_host v_rawpath v_query v_ips c_method c_tls c_host c_escpath c_rawquery c_peer].
  rewrite (escpath_wire_wf _ _ Hs Hv Hu). reflexivity.
Qed.

Lemma nonempty_slash s : starts_with_slash s = true -> nonempty s = true.
Proof. destruct s; [discriminate | reflexivity]. Qed.

(** what grpcv3 builds the view from, outside the guard of C13-F11: the path and the query of the request *)
Definition envoy_built (fixed_F4 : bool) (L : lreq) : rview :=
  {| rv_method := l_method L; rv_scheme := scheme_of L; rv_host := l_host L;
     rv_path := if fixed_F4 then GoUrl.unescape_or_empty (l_rawpath L) else l_rawpath L;
     rv_rawpath := if fixed_F4 then l_rawpath L else "";
     rv_query := l_query L; rv_caps := None; rv_ips := [l_peer L] |}.

Lemma has_qmark_valid s : GoUrl.valid_encoded s = true -> has_qmark s = false.
Proof.
  induction s as [|c r IH]; [reflexivity|]. cbn [GoUrl.valid_encoded has_qmark]. intro H.
  apply andb_true_iff in H as [Hc Hr]. rewrite (IH Hr), orb_false_r.
  destruct (Ascii.eqb c "?") eqn:E; [|reflexivity].
  apply Ascii.eqb_eq in E. subst c. vm_compute in Hc. discriminate.
Qed.

Lemma has_qmark_app p q : has_qmark (p ++ String "?" q) = true.
Proof. induction p as [|c r IH]; cbn [append has_qmark]; [reflexivity|]. rewrite IH. apply orb_true_r. Qed.

Lemma cut_on_qmark_app0 p q : GoUrl.valid_encoded p = true -> GoUrl.cut_on "?" (p ++ String "?" q) = (p, q).
Proof.
  induction p as [|c r IH]; [reflexivity|]. cbn [GoUrl.valid_encoded append GoUrl.cut_on]. intro H.
  apply andb_true_iff in H as [Hc Hr].
  destruct (Ascii.eqb c "?") eqn:E.
  - apply Ascii.eqb_eq in E. subst c. vm_compute in Hc. discriminate.
  - rewrite (IH Hr). reflexivity.
Qed.

Lemma build_envoy_wf fixed4 fixed11 L :
  wf_lreqb L = true -> fixed11 || negb (g_F11 L) = true ->
  build_envoy fixed4 (norm_envoy fixed11 (mk_envoy L)) = envoy_built fixed4 L.
Proof.
  intros W G. destruct (wf_parts L W) as (_ & _ & _ & Hs & Hv & _).
  unfold g_F11 in G. unfold norm_envoy, mk_envoy. cbn [e_path e_query].
  assert (A : forall x : string, x ++ "" = x) by (intro x; induction x as [|c r IH]; [reflexivity | cbn; rewrite IH; reflexivity]).
  destruct (l_qpath L) eqn:Qp.
  - destruct (nonempty (l_query L)) eqn:Nq.
    + (* documented shape with a query: only the repaired code gets here *)
      cbn [andb negb] in G. rewrite orb_false_r in G. subst fixed11.
      cbn [append]. rewrite has_qmark_app. cbn [andb]. rewrite (cut_on_qmark_app0 _ _ Hv).
      unfold build_envoy, envoy_built. cbn. reflexivity.
    + assert (Q : l_query L = "") by (unfold nonempty in Nq; apply negb_false_iff, String.eqb_eq in Nq; exact Nq).
      rewrite A, (has_qmark_valid _ Hv), andb_false_r.
      unfold build_envoy, envoy_built. cbn. rewrite Q. reflexivity.
  - rewrite (has_qmark_valid _ Hv), andb_false_r. unfold build_envoy, envoy_built. cbn. reflexivity.
Qed.

(** C13: rule lookup sees the same thing at all entry points *)
Theorem same_lookup fixed_F4 fixed_F11 L :
  wf_lreqb L = true -> fixed_F11 || negb (g_F11 L) = true ->
  lookup_of (build_http L) = lookup_of (build_envoy fixed_F4 (norm_envoy fixed_F11 (mk_envoy L))).
Proof.
  intros W G. rewrite build_http_wf by exact W. rewrite (build_envoy_wf _ _ _ W G).
  destruct (wf_parts L W) as (_ & _ & _ & Hs & _).
  unfold lookup_of, envoy_built. destruct fixed_F4; cbn; rewrite (nonempty_slash _ Hs); reflexivity.
Qed.

(* ------------------------------------------------------------------ cookies: the two readers agree on plain Cookie lines *)

Definition is_sp (a : ascii) : bool := Ascii.eqb a " ".

(** bytes that neither reader trims *)
Definition solid (c : ascii) : bool := negb (is_space c) && negb (is_http_space c).

Lemma token_solid_b : forall c, implb (token_byte c) (solid c) = true.
Proof. by_ascii. Qed.
Lemma plain_solid_b : forall c, implb (plain_value_byte c) (solid c) = true.
Proof. by_ascii. Qed.
Lemma plain_value_b : forall c, implb (plain_value_byte c) (cookie_value_byte c && negb (Ascii.eqb c dquote)) = true.
Proof. by_ascii. Qed.
Lemma token_not_eq_b : forall c, implb (token_byte c) (negb (Ascii.eqb c "=")) = true.
Proof. by_ascii. Qed.
Lemma sp_facts_b : forall c, implb (is_sp c) (is_space c && is_http_space c && negb (Ascii.eqb c "=")) = true.
Proof. by_ascii. Qed.

Lemma implb_elim (a b : bool) : implb a b = true -> a = true -> b = true.
Proof. destruct a, b; simpl; congruence. Qed.

Lemma all_bytes_impl (f g : ascii -> bool) s :
  (forall c, f c = true -> g c = true) -> all_bytes f s = true -> all_bytes g s = true.
Proof.
  intro H. induction s as [|c r IH]; simpl; [reflexivity|]. intro A.
  apply andb_true_iff in A as [A1 A2]. rewrite (H c A1), (IH A2). reflexivity.
Qed.

Lemma trim_left_solid f s :
  (forall c, solid c = true -> f c = false) ->
  match s with String c _ => solid c = true | EmptyString => True end -> trim_left f s = s.
Proof. intros H Hs. destruct s as [|c r]; [reflexivity|]. simpl. rewrite (H c Hs). reflexivity. Qed.

Lemma trim_right_solid f s :
  (forall c, solid c = true -> f c = false) -> all_bytes solid s = true -> trim_right f s = s.
Proof.
  intros H. induction s as [|c r IH]; [reflexivity|]. simpl. intro A.
  apply andb_true_iff in A as [A1 A2]. rewrite (IH A2). rewrite (H c A1).
  destruct r; reflexivity.
Qed.

Lemma solid_not_space c : solid c = true -> is_space c = false.
Proof. unfold solid. intro H. apply andb_true_iff in H as [H _]. apply negb_true_iff. exact H. Qed.
Lemma solid_not_http_space c : solid c = true -> is_http_space c = false.
Proof. unfold solid. intro H. apply andb_true_iff in H as [_ H]. apply negb_true_iff. exact H. Qed.

Lemma trim_space_solid s : all_bytes solid s = true -> trim_space s = s.
Proof.
  intro A. unfold trim_space. rewrite trim_left_solid.
  - apply trim_right_solid; [apply solid_not_space | exact A].
  - apply solid_not_space.
  - destruct s; [exact I|]. simpl in A. apply andb_true_iff in A as [A _]. exact A.
Qed.

Lemma trim_string_solid s : all_bytes solid s = true -> trim_string s = s.
Proof.
  intro A. unfold trim_string. rewrite trim_left_solid.
  - apply trim_right_solid; [apply solid_not_http_space | exact A].
  - apply solid_not_http_space.
  - destruct s; [exact I|]. simpl in A. apply andb_true_iff in A as [A _]. exact A.
Qed.

(** a part = some spaces followed by its space-free rest *)
Lemma trim_left_sp_split f p :
  (forall c, is_sp c = true -> f c = true) ->
  match trim_left is_sp p with String c _ => f c = false | EmptyString => True end ->
  trim_left f p = trim_left is_sp p.
Proof.
  intros H. induction p as [|c r IH]; [reflexivity|]. simpl.
  destruct (is_sp c) eqn:E.
  - rewrite (H c E). exact IH.
  - simpl. intro Hc. rewrite Hc. reflexivity.
Qed.

Lemma all_bytes_app f a b : all_bytes f (a ++ b) = all_bytes f a && all_bytes f b.
Proof. induction a as [|c r IH]; simpl; [reflexivity|]. rewrite IH, andb_assoc. reflexivity. Qed.

Lemma cut_on_eq_spec s :
  has_byte "=" s = true ->
  s = fst (GoUrl.cut_on "=" s) ++ String "=" (snd (GoUrl.cut_on "=" s)).
Proof.
  induction s as [|c r IH]; [discriminate|].
  cbn [has_byte GoUrl.cut_on]. rewrite (Ascii.eqb_sym "=" c).
  destruct (Ascii.eqb c "=") eqn:E.
  - apply Ascii.eqb_eq in E. subst c. reflexivity.
  - cbn [orb]. intro H. destruct (GoUrl.cut_on "=" r) as [a b0] eqn:Ec. cbn [fst snd] in *.
    cbn [append]. rewrite <- (IH H). reflexivity.
Qed.

(** the spaces in front of a part *)
Fixpoint sp_prefix (s : string) : string :=
  match s with
  | String c r => if is_sp c then String c (sp_prefix r) else EmptyString
  | EmptyString => EmptyString
  end.

Lemma sp_not_eq c : is_sp c = true -> Ascii.eqb c "=" = false.
Proof.
  intro E. pose proof (implb_elim _ _ (sp_facts_b c) E) as F. apply andb_true_iff in F as [_ F].
  apply negb_true_iff in F. exact F.
Qed.

(** cutting a part with leading spaces *)
Lemma cut_on_leading_sp p :
  GoUrl.cut_on "=" p =
  (sp_prefix p ++ fst (GoUrl.cut_on "=" (trim_left is_sp p)), snd (GoUrl.cut_on "=" (trim_left is_sp p))).
Proof.
  induction p as [|c r IH]; [reflexivity|].
  cbn [GoUrl.cut_on trim_left sp_prefix].
  destruct (is_sp c) eqn:E.
  - rewrite (sp_not_eq c E). rewrite IH. reflexivity.
  - cbn [GoUrl.cut_on append]. destruct (Ascii.eqb c "="); [reflexivity|].
    destruct (GoUrl.cut_on "=" r) as [n v]. reflexivity.
Qed.

Lemma has_byte_leading_sp p : has_byte "=" p = has_byte "=" (trim_left is_sp p).
Proof.
  induction p as [|c r IH]; [reflexivity|]. cbn [has_byte trim_left].
  destruct (is_sp c) eqn:E; [|reflexivity].
  rewrite (Ascii.eqb_sym "=" c), (sp_not_eq c E). exact IH.
Qed.

Lemma trim_left_sp_prefix f p s :
  (forall c, is_sp c = true -> f c = true) -> trim_left f (sp_prefix p ++ s) = trim_left f s.
Proof.
  intro H. induction p as [|c r IH]; [reflexivity|]. cbn [sp_prefix].
  destruct (is_sp c) eqn:E; [|reflexivity]. cbn [append trim_left]. rewrite (H c E). exact IH.
Qed.

Lemma sp_is_space c : is_sp c = true -> is_space c = true.
Proof.
  intro E. pose proof (implb_elim _ _ (sp_facts_b c) E) as F.
  apply andb_true_iff in F as [F _]. apply andb_true_iff in F as [F _]. exact F.
Qed.
Lemma sp_is_http_space c : is_sp c = true -> is_http_space c = true.
Proof.
  intro E. pose proof (implb_elim _ _ (sp_facts_b c) E) as F.
  apply andb_true_iff in F as [F _]. apply andb_true_iff in F as [_ F]. exact F.
Qed.

Lemma all_solid_first s : all_bytes solid s = true ->
  match s with String c _ => solid c = true | EmptyString => True end.
Proof. destruct s; [exact (fun _ => I)|]. simpl. intro A. apply andb_true_iff in A as [A _]. exact A. Qed.

(** what a good part consists of *)
Lemma good_part_shape p :
  good_cookie_part p = true ->
  exists nm v, trim_left is_sp p = nm ++ String "=" v /\ GoUrl.cut_on "=" (trim_left is_sp p) = (nm, v) /\
               has_byte "=" (trim_left is_sp p) = true /\
               cookie_name_valid nm = true /\ all_bytes token_byte nm = true /\ nm <> "" /\
               all_bytes plain_value_byte v = true.
Proof.
  unfold good_cookie_part. change (fun a : ascii => Ascii.eqb a " ") with is_sp.
  intro G. apply andb_true_iff in G as [G1 G2].
  destruct (GoUrl.cut_on "=" (trim_left is_sp p)) as [nm v] eqn:Ec.
  apply andb_true_iff in G2 as [G2 G3].
  exists nm, v. pose proof (cut_on_eq_spec _ G1) as S. rewrite Ec in S. cbn [fst snd] in S.
  unfold cookie_name_valid in G2. pose proof G2 as G2'. apply andb_true_iff in G2' as [N1 N2].
  repeat split; try assumption.
  intro E. subst nm. discriminate.
Qed.

Lemma parse_plain_value v : all_bytes plain_value_byte v = true -> parse_cookie_value v = Some v.
Proof.
  intro A. unfold parse_cookie_value.
  assert (C : all_bytes cookie_value_byte v = true).
  { apply (all_bytes_impl plain_value_byte); [|exact A]. intros c Hc.
    pose proof (implb_elim _ _ (plain_value_b c) Hc) as F. apply andb_true_iff in F as [F _]. exact F. }
  destruct v as [|c [|d r]]; try (rewrite C; reflexivity).
  assert (Q : Ascii.eqb c dquote = false).
  { cbn [all_bytes] in A. apply andb_true_iff in A as [A _].
    pose proof (implb_elim _ _ (plain_value_b c) A) as F. apply andb_true_iff in F as [_ F].
    apply negb_true_iff in F. exact F. }
  rewrite Q, C. reflexivity.
Qed.

Lemma good_part_agree n p :
  good_cookie_part p = true -> http_cookie_part n p = envoy_cookie_part n p.
Proof.
  intro G. destruct (good_part_shape p G) as (nm & v & Sh & Ec & Hb & Nv & Nt & Nn & Pv).
  assert (Snm : all_bytes solid nm = true).
  { apply (all_bytes_impl token_byte); [|exact Nt]. intros c Hc. exact (implb_elim _ _ (token_solid_b c) Hc). }
  assert (Sv : all_bytes solid v = true).
  { apply (all_bytes_impl plain_value_byte); [|exact Pv]. intros c Hc. exact (implb_elim _ _ (plain_solid_b c) Hc). }
  assert (Sp' : all_bytes solid (trim_left is_sp p) = true).
  { rewrite Sh, all_bytes_app. cbn [all_bytes]. rewrite Snm, Sv. reflexivity. }
  (* net/http *)
  unfold http_cookie_part.
  assert (T : trim_string p = trim_left is_sp p).
  { unfold trim_string. rewrite (trim_left_sp_split is_http_space p sp_is_http_space).
    - apply trim_right_solid; [apply solid_not_http_space | exact Sp'].
    - pose proof (all_solid_first _ Sp') as F. destruct (trim_left is_sp p); [exact I|].
      apply solid_not_http_space. exact F. }
  rewrite T.
  assert (Ne : String.eqb (trim_left is_sp p) "" = false).
  { rewrite Sh. destruct nm; reflexivity. }
  rewrite Ne, Ec. rewrite (trim_string_solid nm Snm), Nv. cbn [negb].
  (* grpcv3 *)
  unfold envoy_cookie_part. rewrite has_byte_leading_sp, Hb. rewrite cut_on_leading_sp, Ec. cbn [fst snd].
  assert (Tn : trim_space (sp_prefix p ++ nm) = nm).
  { unfold trim_space. rewrite (trim_left_sp_prefix is_space p nm sp_is_space).
    fold (trim_space nm). apply trim_space_solid. exact Snm. }
  rewrite Tn, (trim_space_solid v Sv), (parse_plain_value v Pv).
  destruct (String.eqb nm n); reflexivity.
Qed.

Lemma first_some_ext {A B} (f g : A -> option B) l :
  (forall x, In x l -> f x = g x) -> first_some f l = first_some g l.
Proof.
  induction l as [|x l IH]; intro H; [reflexivity|]. simpl.
  rewrite (H x (or_introl eq_refl)). destruct (g x); [reflexivity|]. apply IH. intros y Hy. apply H. right; exact Hy.
Qed.

(** with the empty name grpcv3 finds nothing in a plain line (net/http answers "" at once) *)
Lemma good_part_empty_name p : good_cookie_part p = true -> envoy_cookie_part "" p = None.
Proof.
  intro G. rewrite <- good_part_agree by exact G.
  destruct (good_part_shape p G) as (nm & v & Sh & Ec & Hb & Nv & Nt & Nn & Pv).
  unfold http_cookie_part.
  destruct (String.eqb (trim_string p) ""); [reflexivity|].
  destruct (GoUrl.cut_on "=" (trim_string p)) as [a b].
  destruct (cookie_name_valid (trim_string a)) eqn:V; [|reflexivity]. cbn [negb].
  destruct (String.eqb (trim_string a) "") eqn:E; [|reflexivity].
  apply String.eqb_eq in E. rewrite E in V. discriminate.
Qed.

(** a part that does not concern [n] is skipped by both readers *)
Lemma unconcerned_part n p : concerns n p = false -> http_cookie_part n p = None /\ envoy_cookie_part n p = None.
Proof.
  unfold concerns. intro H. apply orb_false_iff in H as [H1 H2]. split.
  - unfold http_cookie_part. destruct (String.eqb (trim_string p) ""); [reflexivity|].
    destruct (GoUrl.cut_on "=" (trim_string p)) as [a b0]. cbn [fst] in H1.
    destruct (cookie_name_valid (trim_string a)); [|reflexivity]. cbn [negb]. rewrite H1. reflexivity.
  - unfold envoy_cookie_part. destruct (has_byte "=" p); [|reflexivity]. cbn [andb] in H2.
    destruct (GoUrl.cut_on "=" p) as [a b0]. cbn [fst] in H2. rewrite H2. reflexivity.
Qed.

(** C13, cookies: both readers find the same value under the name [n] whenever the parts of the
    Cookie line that concern [n] are plain — whatever the other parts look like *)
Lemma cookie_line_agree n line :
  plain_for n line = true ->
  http_cookie [line] n =
  match first_some (envoy_cookie_part n) (split_on ";" line) with Some v => v | None => "" end.
Proof.
  unfold plain_for. intro P. apply andb_true_iff in P as [P1 P2].
  apply String.eqb_eq in P1. rewrite forallb_forall in P2.
  unfold http_cookie. cbn [first_some]. rewrite P1.
  assert (PW : forall x, In x (split_on ";" line) -> http_cookie_part n x = envoy_cookie_part n x \/
                          (concerns n x = true /\ good_cookie_part x = true)).
  { intros x Hx. specialize (P2 x Hx). destruct (concerns n x) eqn:C.
    - right. split; [reflexivity | exact P2].
    - left. destruct (unconcerned_part n x C) as [A B]. rewrite A, B. reflexivity. }
  destruct (String.eqb n "") eqn:En.
  - apply String.eqb_eq in En. subst n.
    assert (F : first_some (envoy_cookie_part "") (split_on ";" line) = None).
    { induction (split_on ";" line) as [|x l IH]; [reflexivity|]. cbn [first_some].
      assert (E : envoy_cookie_part "" x = None).
      { specialize (P2 x (or_introl eq_refl)). destruct (concerns "" x) eqn:C.
        - apply good_part_empty_name. exact P2.
        - apply (unconcerned_part "" x C). }
      rewrite E. apply IH.
      + intros y Hy. apply PW. right; exact Hy.
      + intros y Hy. apply P2. right; exact Hy. }
    rewrite F. reflexivity.
  - rewrite (first_some_ext (http_cookie_part n) (envoy_cookie_part n)).
    + destruct (first_some (envoy_cookie_part n) (split_on ";" line)); reflexivity.
    + intros x Hx. destruct (PW x Hx) as [E|[_ G]]; [exact E | apply good_part_agree; exact G].
Qed.

(** in particular on a line all of whose parts are plain, for every name *)
Lemma plain_line_plain_for n line : plain_line line = true -> plain_for n line = true.
Proof.
  unfold plain_line, plain_for, plain_cookie_line. intro P. apply andb_true_iff in P as [P1 P2].
  rewrite P1. cbn [andb]. rewrite forallb_forall in *. intros x Hx. rewrite (P2 x Hx). apply orb_true_r.
Qed.

(* ------------------------------------------------------------------ URL.String() *)

Lemma escape_fixpoint_unescape s : GoUrl.escape GoUrl.MPath s = s -> GoUrl.unescape s = Some s.
Proof. intro E. rewrite <- E at 1. apply unescape_escape. discriminate. Qed.

Lemma escaped_path_plain raw rp :
  GoUrl.escape GoUrl.MPath raw = raw -> rp = raw \/ rp = "" ->
  GoUrl.escaped_path raw rp = raw.
Proof.
  intros E [H|H]; subst rp; unfold GoUrl.escaped_path.
  - destruct (negb (GoUrl.is_empty raw) && GoUrl.valid_encoded raw &&
              match GoUrl.unescape raw with Some p => String.eqb p raw | None => false end); [reflexivity|].
    destruct (String.eqb raw "*") eqn:S; [apply String.eqb_eq in S; congruence | exact E].
  - cbn [GoUrl.is_empty negb andb].
    destruct (String.eqb raw "*") eqn:S; [apply String.eqb_eq in S; congruence | exact E].
Qed.

(* ------------------------------------------------------------------ the views the mechanisms get *)

Section Agree.
  Variable decode : string -> string -> value.
  Variable find : lview -> option (rule * list (string * string)).

  Definition unesc_caps (s : slashes) (caps : list (string * string)) : list (string * string) :=
    map (fun kv => (fst kv, unescape_capture s (snd kv))) caps.

  Definition http_mech (L : lreq) (s : slashes) (caps : list (string * string)) : rview :=
    {| rv_method := l_method L; rv_scheme := scheme_of L; rv_host := l_host L;
       rv_path := GoUrl.unescape_or_empty (l_rawpath L);
       rv_rawpath := if is_on s then "" else l_rawpath L;
       rv_query := l_query L; rv_caps := Some (unesc_caps s caps); rv_ips := [l_peer L] |}.

  (** what the mechanisms see under Envoy: with the pinned context nothing that was written into the
      view (captures, RawPath reset); with the pinned URL construction the escaped path in Path *)
  Definition envoy_mech (fixed_F1 fixed_F4 : bool) (L : lreq) (s : slashes) (caps : list (string * string)) : rview :=
    {| rv_method := l_method L; rv_scheme := scheme_of L; rv_host := l_host L;
       rv_path := if fixed_F4 then GoUrl.unescape_or_empty (l_rawpath L) else l_rawpath L;
       rv_rawpath := if fixed_F4 then (if fixed_F1 && is_on s then "" else l_rawpath L) else "";
       rv_query := l_query L; rv_caps := if fixed_F1 then Some (unesc_caps s caps) else None; rv_ips := [l_peer L] |}.

  Lemma mech_view_http L rl caps :
    wf_lreqb L = true -> find (lookup_of (build_http L)) = Some (rl, caps) ->
    mech_view find true (build_http L) =
    if g_F4_decision (r_slashes rl) L then inl EArgument else inr (rl, http_mech L (r_slashes rl) caps).
  Proof.
    intros W F. unfold mech_view. rewrite F. rewrite build_http_wf by exact W.
    unfold g_F4_decision, slash_switch, set_caps, unescape_caps, http_mech, unesc_caps, is_on.
    cbn [rv_method rv_scheme rv_host rv_path rv_rawpath rv_query rv_caps rv_ips option_map].
    destruct (r_slashes rl); try reflexivity.
    destruct (contains_encoded_slash (l_rawpath L)); reflexivity.
  Qed.

  Lemma mech_view_envoy fixed1 fixed4 fixed11 L rl caps :
    wf_lreqb L = true -> fixed11 || negb (g_F11 L) = true ->
    find (lookup_of (build_envoy fixed4 (norm_envoy fixed11 (mk_envoy L)))) = Some (rl, caps) ->
    mech_view find fixed1 (build_envoy fixed4 (norm_envoy fixed11 (mk_envoy L))) =
    if fixed4 && g_F4_decision (r_slashes rl) L then inl EArgument
    else inr (rl, envoy_mech fixed1 fixed4 L (r_slashes rl) caps).
  Proof.
    intros W G11. rewrite (build_envoy_wf _ _ _ W G11).
    intros F. unfold mech_view. rewrite F.
    unfold g_F4_decision, slash_switch, set_caps, unescape_caps, envoy_mech, unesc_caps, envoy_built, is_on.
    destruct fixed1, fixed4; destruct (r_slashes rl);
      cbn [rv_method rv_scheme rv_host rv_path rv_rawpath rv_query rv_caps rv_ips option_map andb]; try reflexivity;
      destruct (contains_encoded_slash (l_rawpath L)); reflexivity.
  Qed.

  (** all the guards of one read of the view; the guard of a repaired finding is off *)
  Definition guard_query (fx : fixes) (s : slashes) (caps : list (string * string)) (L : lreq) (q : query) : bool :=
    (negb (fx_F1 fx) && g_F1_query caps s (fx_F4 fx) q) || (negb (fx_F2 fx) && g_F2_query (fx_F6 fx) L q) ||
    (negb (fx_F4 fx) && g_F4_query s L q) || g_F5_query L q || (negb (fx_F6 fx) && g_F6_query q) ||
    (negb (fx_F7 fx) && g_F7_query decode L q) || g_F8_query q || (negb (fx_F9 fx) && g_F9_query L q).

  Lemma assoc_opt_unesc_none s n caps :
    existsb (String.eqb n) (map fst caps) = false -> assoc_opt n (unesc_caps s caps) = None.
  Proof.
    induction caps as [|[k v] caps IH]; [reflexivity|]. cbn [map fst existsb unesc_caps assoc_opt snd].
    intro H. apply orb_false_iff in H as [H1 H2]. rewrite String.eqb_sym, H1. apply IH. exact H2.
  Qed.

  Lemma cookie_agree fx L n :
    wf_lreqb L = true -> forallb (plain_for n) (values "Cookie" (http_hdrs L)) = true ->
    a_cookie (acc_http decode L) n = a_cookie (acc_envoy decode fx (mk_envoy L)) n.
  Proof.
    intros W P. destruct (wf_parts L W) as (Hh & Hc & _).
    cbn [a_cookie acc_http acc_envoy mk_envoy e_hdrs]. unfold envoy_cookie.
    assert (Hck : canon "Cookie" = "Cookie") by reflexivity.
    rewrite (envoy_lookup_canonical L "Cookie" Hck Hh).
    rewrite http_hdrs_wf in * by exact Hh. unfold http_hdrs_wire in *.
    rewrite (values_wire_lower "Cookie" _ Hck Hh) in *.
    change (lower "Cookie") with "cookie" in *.
    destruct (vals_lower "cookie" (l_hdrs L)) as [|line [|l2 r]] eqn:E.
    - unfold http_cookie. destruct (String.eqb n ""); reflexivity.
    - cbn [join]. apply cookie_line_agree. cbn [forallb] in P. apply andb_true_iff in P as [P _]. exact P.
    - cbn [length] in Hc. lia.
  Qed.

  (** Header(n): the two accessors, for every combination of the repairs of F2 and F6 *)
  Lemma header_agree fx L n :
    wf_lreqb L = true ->
    negb (fx_F2 fx) && g_F2_query (fx_F6 fx) L (QHeader n) = false ->
    negb (fx_F6 fx) && g_F6_query (QHeader n) = false ->
    header_http (http_hdrs L) (l_host L) n =
    header_envoy fx (canonicalize_headers (envoy_wire_hdrs L)) (l_host L) n.
  Proof.
    intros W G2 G6. destruct (wf_parts L W) as (Hh & Hc & Hhost & _).
    cbn [g_F2_query g_F6_query] in G2, G6. unfold header_envoy.
    destruct (String.eqb (canon n) "Host") eqn:CH.
    - (* the Host header *)
      destruct (fx_F6 fx) eqn:F6; [|discriminate]. cbn [negb andb orb] in G2.
      assert (HH : header_http (http_hdrs L) (l_host L) n = l_host L) by (unfold header_http; rewrite CH; reflexivity).
      destruct (fx_F2 fx) eqn:F2.
      + rewrite CH. cbn [andb]. exact HH.
      + cbn [negb andb] in G2. rewrite HH, Hhost, !andb_true_r in G2.
        apply negb_false_iff, String.eqb_eq in G2. rewrite G2 in CH. rewrite CH. cbn [andb]. exact HH.
    - (* any other header *)
      assert (NH : forall k, canon k = k -> String.eqb (canon n) k = true -> String.eqb k "Host" = false).
      { intros k _ E. apply String.eqb_eq in E. subst k. exact CH. }
      destruct (fx_F2 fx) eqn:F2.
      + (* grpcv3 canonicalises: the key is canon n *)
        rewrite CH, andb_false_r.
        rewrite <- (header_map_agree L (canon n) Hh Hc (canon_idem n) CH).
        unfold header_http. rewrite canon_idem. reflexivity.
      + cbn [negb andb] in G2. rewrite orb_true_r, andb_true_r in G2.
        destruct (String.eqb (canon n) n) eqn:Cn.
        * apply String.eqb_eq in Cn. rewrite <- Cn at 2. rewrite CH, andb_false_r.
          rewrite <- Cn at 2. rewrite <- (header_map_agree L (canon n) Hh Hc (canon_idem n) CH).
          unfold header_http. rewrite canon_idem. reflexivity.
        * cbn [negb andb] in G2. apply negb_false_iff, String.eqb_eq in G2. rewrite G2.
          assert (NHn : String.eqb n "Host" = false).
          { apply String.eqb_neq. intro E. subst n. discriminate. }
          rewrite NHn, andb_false_r.
          unfold assoc. rewrite assoc_opt_noncanonical; [reflexivity|].
          intro E. rewrite E, eqb_refl_s in Cn. discriminate.
  Qed.

  (** C13, the view: every read of the view that no guard covers gives the same answer at the
      HTTP entry points and at the Envoy entry point *)
  Theorem answer_agree fx L s caps q :
    wf_lreqb L = true -> guard_query fx s caps L q = false ->
    answer (acc_http decode L) (http_mech L s caps) q =
    answer (acc_envoy decode fx (mk_envoy L)) (envoy_mech (fx_F1 fx) (fx_F4 fx) L s caps) q.
  Proof.
    intros W G. unfold guard_query in G.
    repeat (apply orb_false_iff in G as [G ?]).
    rename G into G1, H5 into G2, H4 into G4, H3 into G5, H2 into G6, H1 into G7, H0 into G8, H into G9.
    destruct (wf_parts L W) as (Hh & Hc & Hhost & Hs & Hv & p & Hu).
    destruct q; cbn [answer http_mech envoy_mech rv_method rv_scheme rv_host rv_path rv_rawpath rv_query rv_caps rv_ips];
      try reflexivity.
    - (* QPath *)
      destruct (fx_F4 fx); [reflexivity|]. cbn [negb andb g_F4_query] in G4.
      apply negb_false_iff, String.eqb_eq in G4. rewrite G4. reflexivity.
    - (* QRawPath *)
      destruct (fx_F4 fx).
      + destruct (fx_F1 fx); [reflexivity|]. cbn [negb andb g_F1_query] in G1. rewrite G1. reflexivity.
      + cbn [negb andb g_F4_query] in G4. destruct s; try reflexivity;
          rewrite (nonempty_slash _ Hs) in G4; discriminate.
    - (* QUrl *)
      destruct (fx_F4 fx).
      + destruct (fx_F1 fx); [reflexivity|]. cbn [negb andb g_F1_query] in G1.
        unfold url_string, http_mech, envoy_mech. cbn [rv_scheme rv_host rv_path rv_rawpath rv_query andb]. rewrite G1. reflexivity.
      + cbn [negb andb g_F4_query] in G4. apply negb_false_iff, String.eqb_eq in G4.
        unfold url_string, http_mech, envoy_mech. cbn [rv_scheme rv_host rv_path rv_rawpath rv_query].
        pose proof (escape_fixpoint_unescape _ G4) as U.
        unfold GoUrl.unescape_or_empty. rewrite U.
        rewrite (escaped_path_plain (l_rawpath L) (if is_on s then "" else l_rawpath L) G4)
          by (destruct (is_on s); auto).
        rewrite (escaped_path_plain (l_rawpath L) "" G4) by auto. reflexivity.
    - (* QCapture *)
      destruct (fx_F1 fx); [reflexivity|]. cbn [negb andb g_F1_query] in G1.
      rewrite (assoc_opt_unesc_none s n caps G1). reflexivity.
    - (* QCaptures *)
      destruct (fx_F1 fx); [reflexivity|]. cbn [negb andb g_F1_query] in G1.
      apply negb_false_iff in G1. destruct caps; [reflexivity | discriminate].
    - (* QHeader *)
      f_equal. cbn [a_header acc_http acc_envoy mk_envoy e_hdrs e_host]. apply header_agree; assumption.
    - (* QHeaders *) discriminate.
    - (* QCookie *)
      f_equal. cbn [g_F5_query] in G5. apply negb_false_iff in G5. apply cookie_agree; assumption.
    - (* QBody *)
      cbn [a_body acc_http acc_envoy mk_envoy e_hdrs e_host]. unfold body_http.
      assert (Ct : header_http (http_hdrs L) (l_host L) "Content-Type" =
                   header_envoy fx (canonicalize_headers (envoy_wire_hdrs L)) (l_host L) "Content-Type").
      { apply header_agree; [exact W| |].
        - cbn [g_F2_query]. change (canon "Content-Type") with "Content-Type". rewrite eqb_refl_s.
          cbn [negb andb]. apply andb_false_r.
        - cbn [g_F6_query]. change (canon "Content-Type") with "Content-Type". cbn. apply andb_false_r. }
      (* the bytes grpcv3 decodes are the request body, outside the guard of C13-F9 *)
      assert (Raw : envoy_raw_body fx (mk_envoy L) = l_body L).
      { unfold envoy_raw_body, mk_envoy. cbn [e_body e_rawbody]. cbn [g_F9_query] in G9.
        destruct (l_pack L).
        - rewrite eqb_refl_s, andb_true_r. destruct (fx_F9 fx); [reflexivity|].
          cbn [negb andb] in G9. apply negb_false_iff, String.eqb_eq in G9. symmetry. exact G9.
        - destruct (fx_F9 fx && String.eqb (l_body L) "") eqn:E; [|reflexivity].
          apply andb_true_iff in E as [_ E]. apply String.eqb_eq in E. symmetry. exact E.
        - destruct (fx_F9 fx && String.eqb (l_body L) "") eqn:E; reflexivity. }
      rewrite Raw. cbn [g_F7_query] in G7. rewrite <- Ct.
      destruct (String.eqb (l_body L) "") eqn:B.
      + destruct (fx_F7 fx); [reflexivity|]. cbn [negb andb] in G7. apply negb_false_iff in G7.
        apply String.eqb_eq in B. rewrite B.
        unfold value_is in G7.
        destruct (decode (header_http (http_hdrs L) (l_host L) "Content-Type") "") as [| |?|?|x]; try discriminate.
        apply String.eqb_eq in G7. subst x. reflexivity.
      + rewrite andb_false_r. reflexivity.
  Qed.
End Agree.

(* ------------------------------------------------------------------ pipelines: equal answers, equal runs *)

Lemma run_agree (ans1 ans2 : query -> value) (p : prog) :
  (forall q, In q (trace ans1 p) -> ans1 q = ans2 q) ->
  run_prog ans1 p = run_prog ans2 p /\ trace ans1 p = trace ans2 p.
Proof.
  induction p as [q k IH|a p IH| |e]; intro H; cbn [run_prog trace] in *.
  - assert (E : ans1 q = ans2 q) by (apply H; left; reflexivity).
    rewrite <- E. destruct (IH (ans1 q)) as [R T].
    + intros q' Hq. apply H. right. exact Hq.
    + split; [exact R | rewrite T; reflexivity].
  - destruct (IH H) as [R T]. rewrite R. split; reflexivity || exact T.
  - split; reflexivity.
  - split; reflexivity.
Qed.

(* ------------------------------------------------------------------ Finalize: the hand-over *)

Lemma existsb_false_forall {A} (f : A -> bool) l : existsb f l = false -> forall x, In x l -> f x = false.
Proof.
  induction l as [|y l IH]; intros H x Hx; [destruct Hx|].
  cbn [existsb] in H. apply orb_false_iff in H as [H1 H2]. destruct Hx as [Hx|Hx]; [subst; exact H1 | apply IH; assumption].
Qed.

Lemma get_join_single k (h : hdrs) : (length (values k h) <= 1)%nat -> get k h = join "," (values k h).
Proof. unfold get. destruct (values k h) as [|v [|w r]]; cbn; intro H; try reflexivity. lia. Qed.

(** values without surrounding blanks pass the wire unchanged, and so does their ","-join *)
Lemma trim_right_no_trail f s :
  match last_byte s with Some c => f c = false | None => True end -> trim_right f s = s.
Proof.
  induction s as [|a r IH]; [reflexivity|]. cbn [last_byte trim_right].
  destruct r as [|b r'].
  - cbn. intro H. rewrite H. reflexivity.
  - intro H. rewrite (IH H). reflexivity.
Qed.

Lemma trimmed_spec s : trimmedb s = true -> http_trim s = s.
Proof.
  unfold trimmedb, no_lead, no_trail, http_trim. intro H. apply andb_true_iff in H as [H1 H2].
  assert (L : trim_left is_ows s = s).
  { destruct s as [|c r]; [reflexivity|]. cbn. apply negb_true_iff in H1. rewrite H1. reflexivity. }
  rewrite L. apply trim_right_no_trail. destruct (last_byte s); [apply negb_true_iff; exact H2 | exact I].
Qed.

Lemma last_byte_cons c r : last_byte (String c r) <> None.
Proof. revert c. induction r as [|d r IH]; intro c; [discriminate|]. cbn [last_byte]. apply IH. Qed.

Lemma last_byte_app a b : last_byte (a ++ b) = match last_byte b with Some c => Some c | None => last_byte a end.
Proof.
  induction a as [|x a IH]; [cbn; destruct (last_byte b); reflexivity|].
  cbn [append last_byte]. destruct (a ++ b) as [|y r] eqn:E.
  - destruct a; [|discriminate]. cbn in E. subst b. reflexivity.
  - rewrite IH. destruct (last_byte b) eqn:Lb; [reflexivity|].
    destruct a as [|z a']; [|reflexivity]. cbn in E. subst b. exfalso. exact (last_byte_cons y r Lb).
Qed.

Lemma join_trimmed vs : forallb trimmedb vs = true -> trimmedb (join "," vs) = true.
Proof.
  induction vs as [|v vs IH]; [reflexivity|]. cbn [forallb]. intro H. apply andb_true_iff in H as [Hv Hr].
  destruct vs as [|w ws]; [exact Hv|].
  specialize (IH Hr). change (join "," (v :: w :: ws)) with (v ++ "," ++ join "," (w :: ws)).
  unfold trimmedb in *. apply andb_true_iff in Hv as [V1 V2]. apply andb_true_iff in IH as [I1 I2].
  apply andb_true_iff. split.
  - destruct v; [reflexivity | exact V1].
  - unfold no_trail in *. rewrite last_byte_app.
    change ("," ++ join "," (w :: ws)) with (String "," (join "," (w :: ws))).
    cbn [last_byte]. destruct (join "," (w :: ws)) as [|c r] eqn:J; [reflexivity|].
    destruct (last_byte (String c r)) eqn:Lc; [exact I2|]. exfalso. exact (last_byte_cons c r Lc).
Qed.

Lemma map_trim_id vs : forallb trimmedb vs = true -> map http_trim vs = vs.
Proof.
  induction vs as [|v vs IH]; [reflexivity|]. cbn [forallb map]. intro H. apply andb_true_iff in H as [Hv Hr].
  rewrite (trimmed_spec v Hv), (IH Hr). reflexivity.
Qed.

(** C13, hand-over: without a pipeline header added twice (with the repair of C13-F3: without blanks
    around the values of such a header) and without cookie values that net/http rewrites, the three
    Finalize hand the same headers and cookies over *)
Theorem same_upstream fixed3 adds :
  g_F3_adds fixed3 adds = false -> g_F5_adds adds = false ->
  finalize_decision fixed3 adds = finalize_proxy fixed3 adds /\ finalize_decision fixed3 adds = finalize_envoy adds.
Proof.
  intros G3 G5. unfold g_F5_adds in G5.
  pose proof (existsb_false_forall _ _ G5) as H5. clear G5.
  assert (Ck : forall l, (forall x, In x l -> negb (cookie_name_valid (fst x)) || negb (String.eqb (sanitize_cookie_value (snd x)) (snd x)) = false) ->
               flat_map (fun kv : string * string => if cookie_name_valid (fst kv) then [(fst kv, sanitize_cookie_value (snd kv))] else []) l = l /\
               map (fun kv : string * string => (fst kv, sanitize_cookie_value (snd kv))) l = l).
  { induction l as [|[n v] l IH]; intro H; [split; reflexivity|].
    pose proof (H (n, v) (or_introl eq_refl)) as Hx. cbn [fst snd] in Hx.
    apply orb_false_iff in Hx as [Hn Hv]. apply negb_false_iff in Hn. apply negb_false_iff, String.eqb_eq in Hv.
    destruct IH as [I1 I2]; [intros y Hy; apply H; right; exact Hy|].
    cbn [flat_map map fst snd]. rewrite Hn, Hv. cbn [app]. rewrite I1, I2. split; reflexivity. }
  destruct (Ck _ H5) as [C1 C2].
  unfold finalize_decision, finalize_proxy, finalize_envoy. rewrite C1, C2. split; [reflexivity|].
  f_equal. apply map_ext_in. intros k Hk. f_equal. unfold handed_value.
  unfold g_F3_adds in G3. pose proof (existsb_false_forall _ _ G3 k Hk) as H3. cbv beta in H3.
  apply andb_false_iff in H3 as [H3|H3].
  - (* at most one value *)
    apply Nat.ltb_ge in H3. destruct fixed3.
    + destruct (values k (upstream_headers adds)) as [|v [|w r]]; cbn in H3 |- *; try reflexivity. lia.
    + rewrite (get_join_single k _ H3). reflexivity.
  - (* repaired Finalize, all values without surrounding blanks *)
    apply orb_false_iff in H3 as [F3 T]. apply negb_false_iff in F3, T. subst fixed3.
    rewrite (map_trim_id _ T).
    destruct (values k (upstream_headers adds)) as [|v vs] eqn:E; [reflexivity|].
    symmetry. apply trimmed_spec. apply join_trimmed. exact T.
Qed.

(* ------------------------------------------------------------------ the three entry points *)

Section Main.
  Variable decode : string -> string -> value.
  Variable find : lview -> option (rule * list (string * string)).

  (** the guards of one logical request: those of every read the HTTP run makes, of the
      encoded-slash check and of the hand-over *)
  Definition guards_fire (fx : fixes) (L : lreq) : bool :=
    (negb (fx_F11 fx) && g_F11 L) ||
    match find (lookup_of (build_http L)) with
    | None => false
    | Some (rl, caps) =>
      (negb (fx_F4 fx) && g_F4_decision (r_slashes rl) L) ||
      let ans := answer (acc_http decode L) (http_mech L (r_slashes rl) caps) in
      existsb (guard_query decode fx (r_slashes rl) caps L) (trace ans (rule_prog rl)) ||
      g_F3_adds (fx_F3 fx) (snd (run_prog ans (rule_prog rl))) || g_F5_adds (snd (run_prog ans (rule_prog rl)))
    end.

  (** C13, the decision and what the pipeline emits: the executor ends alike at the HTTP entry points and at Envoy *)
  Theorem same_execution fx L :
    wf_lreqb L = true -> guards_fire fx L = false ->
    exec_http decode find L = exec_envoy decode find fx L.
  Proof.
    intros W G. unfold guards_fire in G. apply orb_false_iff in G as [G11 G].
    assert (G11' : fx_F11 fx || negb (g_F11 L) = true).
    { destruct (fx_F11 fx); [reflexivity|]. cbn [negb andb] in G11. rewrite G11. reflexivity. }
    unfold exec_http, exec_envoy, execute.
    pose proof (same_lookup (fx_F4 fx) (fx_F11 fx) L W G11') as SL.
    destruct (find (lookup_of (build_http L))) as [[rl caps]|] eqn:F.
    - rewrite (mech_view_http find L rl caps W F).
      rewrite SL in F. rewrite (mech_view_envoy find (fx_F1 fx) (fx_F4 fx) (fx_F11 fx) L rl caps W G11' F).
      apply orb_false_iff in G as [G4 G]. cbv zeta in G.
      apply orb_false_iff in G as [G G5]. apply orb_false_iff in G as [Gq G3].
      destruct (g_F4_decision (r_slashes rl) L) eqn:D4.
      + destruct (fx_F4 fx); [reflexivity | discriminate].
      + rewrite andb_false_r.
        destruct (run_agree (answer (acc_http decode L) (http_mech L (r_slashes rl) caps))
                            (answer (acc_envoy decode fx (mk_envoy L)) (envoy_mech (fx_F1 fx) (fx_F4 fx) L (r_slashes rl) caps))
                            (rule_prog rl)) as [R _].
        * intros q Hq. apply answer_agree; [exact W|]. exact (existsb_false_forall _ _ Gq q Hq).
        * rewrite R. reflexivity.
    - unfold mech_view. rewrite F. rewrite SL in F. rewrite F. reflexivity.
  Qed.

  (** C13: same decision, same matched rule, same hand-over at all three entry points *)
  Theorem three_entry_points_agree fx L :
    wf_lreqb L = true -> guards_fire fx L = false ->
    serve_decision decode find fx L = serve_proxy decode find fx L /\
    serve_decision decode find fx L = serve_envoy decode find fx L.
  Proof.
    intros W G. unfold serve_decision, serve_proxy, serve_envoy.
    rewrite <- (same_execution fx L W G).
    unfold guards_fire in G. apply orb_false_iff in G as [_ G]. unfold exec_http, execute in *.
    destruct (find (lookup_of (build_http L))) as [[rl caps]|] eqn:F.
    - rewrite (mech_view_http find L rl caps W F) in *.
      apply orb_false_iff in G as [G4 G]. cbv zeta in G.
      apply orb_false_iff in G as [G G5]. apply orb_false_iff in G as [Gq G3].
      destruct (g_F4_decision (r_slashes rl) L) eqn:D4; [split; reflexivity|].
      destruct (run_prog (answer (acc_http decode L) (http_mech L (r_slashes rl) caps)) (rule_prog rl)) as [r adds] eqn:R.
      cbn [snd] in G3, G5. destruct (same_upstream (fx_F3 fx) adds G3 G5) as [U1 U2].
      unfold serve_with. cbn [o_err o_rule o_adds]. rewrite <- U1, <- U2. split; reflexivity.
    - unfold mech_view. rewrite F. split; reflexivity.
  Qed.

  (** C13: the HTTP decision service and the proxy service share the context: same decision, same
      rule, same view for every pipeline and every request — no guard *)
  Theorem decision_proxy_same_execution fx L :
    s_err (serve_decision decode find fx L) = s_err (serve_proxy decode find fx L) /\
    s_rule (serve_decision decode find fx L) = s_rule (serve_proxy decode find fx L) /\
    forall adds, ho_headers (finalize_decision (fx_F3 fx) adds) = ho_headers (finalize_proxy (fx_F3 fx) adds).
  Proof. repeat split. Qed.

  (** C13, the view: whatever the pipeline of the matched rule may ask, outside the guards the answer
      is the same (this covers reads that the run at hand does not make) *)
  Theorem same_view fx L rl caps q :
    wf_lreqb L = true -> fx_F11 fx || negb (g_F11 L) = true ->
    find (lookup_of (build_http L)) = Some (rl, caps) ->
    g_F4_decision (r_slashes rl) L = false ->
    guard_query decode fx (r_slashes rl) caps L q = false ->
    exists vh ve, mech_view find true (build_http L) = inr (rl, vh) /\
                  mech_view find (fx_F1 fx) (build_envoy (fx_F4 fx) (norm_envoy (fx_F11 fx) (mk_envoy L))) = inr (rl, ve) /\
                  answer (acc_http decode L) vh q = answer (acc_envoy decode fx (mk_envoy L)) ve q.
  Proof.
    intros W G11 F G4 Gq.
    exists (http_mech L (r_slashes rl) caps), (envoy_mech (fx_F1 fx) (fx_F4 fx) L (r_slashes rl) caps).
    rewrite (mech_view_http find L rl caps W F), G4.
    rewrite (same_lookup (fx_F4 fx) (fx_F11 fx) L W G11) in F.
    rewrite (mech_view_envoy find (fx_F1 fx) (fx_F4 fx) (fx_F11 fx) L rl caps W G11 F), G4, andb_false_r.
    repeat split. apply answer_agree; assumption.
  Qed.

  (** the encoded-slash check itself: with the repaired URL construction it rejects at all entry points alike *)
  Theorem slash_check_agrees fixed1 fixed11 L rl caps :
    wf_lreqb L = true -> fixed11 || negb (g_F11 L) = true ->
    find (lookup_of (build_http L)) = Some (rl, caps) ->
    g_F4_decision (r_slashes rl) L = true ->
    mech_view find true (build_http L) = inl EArgument /\
    mech_view find fixed1 (build_envoy true (norm_envoy fixed11 (mk_envoy L))) = inl EArgument.
  Proof.
    intros W G11 F G4. rewrite (mech_view_http find L rl caps W F), G4.
    rewrite (same_lookup true fixed11 L W G11) in F. rewrite (mech_view_envoy find fixed1 true fixed11 L rl caps W G11 F), G4.
    split; reflexivity.
  Qed.
End Main.

Lemma existsb_ext_all {A} (f g : A -> bool) l : (forall x, f x = g x) -> existsb f l = existsb g l.
Proof. intro H. induction l as [|x l IH]; [reflexivity|]. cbn. rewrite H, IH. reflexivity. Qed.

(** with every repair applied (/repo since f446e16) only the cookie findings (C13-F5) and Headers() as a whole
    (C13-F8) remain guarded *)
Lemma all_fixed_guards decode s caps L q :
  guard_query decode all_fixed s caps L q = g_F5_query L q || g_F8_query q.
Proof. unfold guard_query. cbn [all_fixed fx_F1 fx_F2 fx_F4 fx_F6 fx_F7 fx_F9 fx_F11 negb andb orb]. rewrite !orb_false_r. reflexivity. Qed.

(** the tree as it is (= all repairs) *)
Lemma repo_guards decode s caps L q :
  guard_query decode repo_now s caps L q = g_F5_query L q || g_F8_query q.
Proof. exact (all_fixed_guards decode s caps L q). Qed.

Lemma repo_guards_fire decode find L :
  guards_fire decode find repo_now L =
  match find (lookup_of (build_http L)) with
  | None => false
  | Some (rl, caps) =>
    let ans := answer (acc_http decode L) (http_mech L (r_slashes rl) caps) in
    existsb (fun q => g_F5_query L q || g_F8_query q) (trace ans (rule_prog rl)) ||
    g_F3_adds true (snd (run_prog ans (rule_prog rl))) || g_F5_adds (snd (run_prog ans (rule_prog rl)))
  end.
Proof.
  unfold guards_fire.
  change (fx_F11 repo_now) with true. change (fx_F4 repo_now) with true. change (fx_F3 repo_now) with true.
  cbn [negb andb orb].
  destruct (find (lookup_of (build_http L))) as [[rl caps]|]; [|reflexivity]. cbv zeta.
  f_equal. f_equal. apply existsb_ext_all. intro q. apply repo_guards.
Qed.

(* ------------------------------------------------------------------ witnesses: every guard is needed, none is vacuous *)

Definition w_decode : string -> string -> value :=
  fun ct body =>
    if String.eqb body "" then
      if String.eqb ct "application/x-www-form-urlencoded" then VJson "{}" else VJson json_empty_string
    else VJson body.

Definition w_find (path : string) (rl : rule) (caps : list (string * string)) : lview -> option (rule * list (string * string)) :=
  fun lv => if String.eqb (lk_path lv) path then Some (rl, caps) else None.

Definition w_req (method path : string) (hdrs : list (string * string)) (body : string) : lreq :=
  {| l_method := method; l_tls := false; l_host := "a.example.com"; l_rawpath := path; l_query := "";
     l_hdrs := hdrs; l_body := body; l_peer := "10.0.0.1"; l_pack := PackRaw; l_qpath := false |}.

Definition w_rule (id : string) (s : slashes) (authz : option cond) (steps : list step) : rule :=
  {| r_id := id; r_slashes := s; r_prog := pipeline_prog authz steps; r_on_error := None |}.

Definition hdr_step (name : string) (t : tmpl) : step := {| st_if := None; st_cookie := false; st_items := [(name, t)] |}.
Definition ck_step (name : string) (t : tmpl) : step := {| st_if := None; st_cookie := true; st_items := [(name, t)] |}.

(** The findings C13-F1, F2, F3, F4, F6, F7 are repaired in /repo ([repo_now = all_fixed]).  Each witness
    below takes the tree in which exactly that repair is missing ([set_Fi false all_fixed]), shows
    that its guard fires there and that the entry points differ, and that the repaired tree agrees on
    the very same request. *)

(** C13-F1 (fix: b2286d8): the captured value was handed to the upstream as "<no value>" under Envoy *)
Definition w1_rule := w_rule "c0" SOff None [hdr_step "X-User" (TEcho (QCapture "name"))].
Definition w1_req := w_req "GET" "/c0/abc" [] "".
Definition w1_find := w_find "/c0/abc" w1_rule [("name", "abc")].
Definition tree_F1 := set_F1 false all_fixed.

Lemma F1_refuted :
  wf_lreqb w1_req = true /\
  guards_fire w_decode w1_find tree_F1 w1_req = true /\
  guards_fire w_decode w1_find repo_now w1_req = false /\
  serve_decision w_decode w1_find tree_F1 w1_req <> serve_envoy w_decode w1_find tree_F1 w1_req /\
  serve_decision w_decode w1_find repo_now w1_req = serve_envoy w_decode w1_find repo_now w1_req /\
  serve_decision w_decode w1_find pinned w1_req <> serve_envoy w_decode w1_find pinned w1_req.
Proof. repeat split; try (vm_compute; reflexivity); vm_compute; intro E; inversion E. Qed.

(** ... and a CEL condition on the capture failed with an internal error under Envoy *)
Definition w1b_rule := w_rule "c1" SOff (Some {| cd_q := QCapture "name"; cd_c := "admin" |}) [].
Definition w1b_find := w_find "/c1/admin" w1b_rule [("name", "admin")].
Lemma F1_refuted_decision :
  s_err (serve_decision w_decode w1b_find tree_F1 (w_req "GET" "/c1/admin" [] "")) = None /\
  s_err (serve_envoy w_decode w1b_find tree_F1 (w_req "GET" "/c1/admin" [] "")) = Some EInternal /\
  s_err (serve_envoy w_decode w1b_find repo_now (w_req "GET" "/c1/admin" [] "")) = None.
Proof. repeat split; vm_compute; reflexivity. Qed.

(** C13-F2 (fix: 7c3e9fc) *)
Definition w2_rule := w_rule "c2" SOff (Some {| cd_q := QHeader "x-role"; cd_c := "admin" |}) [].
Definition w2_req := w_req "GET" "/c2/lit" [("X-Role", "admin")] "".
Definition w2_find := w_find "/c2/lit" w2_rule [].
Definition tree_F2 := set_F2 false all_fixed.
Lemma F2_refuted :
  wf_lreqb w2_req = true /\ guards_fire w_decode w2_find tree_F2 w2_req = true /\
  existsb (g_F2_query true w2_req) [QHeader "x-role"] = true /\
  s_err (serve_decision w_decode w2_find tree_F2 w2_req) = None /\
  s_err (serve_envoy w_decode w2_find tree_F2 w2_req) = Some EAuthz /\
  guards_fire w_decode w2_find repo_now w2_req = false /\
  s_err (serve_envoy w_decode w2_find repo_now w2_req) = None.
Proof. repeat split; vm_compute; reflexivity. Qed.

(** C13-F3 (fix: a5ef279) *)
Lemma F3_refuted :
  let adds := [AddHeader "X-Out" "one"; AddHeader "x-out" "two"] in
  g_F3_adds false adds = true /\ g_F3_adds true adds = false /\ g_F5_adds adds = false /\
  finalize_decision false adds = finalize_proxy false adds /\
  ho_headers (finalize_decision false adds) = [("X-Out", "one")] /\
  ho_headers (finalize_envoy adds) = [("X-Out", "one,two")] /\
  finalize_decision true adds = finalize_envoy adds /\ finalize_proxy true adds = finalize_envoy adds.
Proof. repeat split; vm_compute; reflexivity. Qed.

(** what is left of C13-F3 after the repair: values with surrounding blanks of a header added twice *)
Lemma F3_refuted_blanks :
  let adds := [AddHeader "X-Out" " a "; AddHeader "X-Out" "b"] in
  g_F3_adds true adds = true /\
  ho_headers (finalize_decision true adds) = [("X-Out", "a,b")] /\
  ho_headers (finalize_envoy adds) = [("X-Out", "a ,b")].
Proof. repeat split; vm_compute; reflexivity. Qed.

(** C13-F4 (fix: ae6db4f): the encoded slash was refused by the HTTP entry points and let through
    under Envoy; URL.Path differed for an escaped path *)
Definition w4_rule := w_rule "c4" SOff None [hdr_step "X-Path" (TEcho QPath)].
Definition w4_req := w_req "GET" "/c4/a/b%2Fc" [] "".
Definition w4_find := w_find "/c4/a/b%2Fc" w4_rule [].
Definition tree_F4 := set_F4 false all_fixed.
Lemma F4_refuted :
  wf_lreqb w4_req = true /\ g_F4_decision SOff w4_req = true /\ guards_fire w_decode w4_find tree_F4 w4_req = true /\
  s_err (serve_decision w_decode w4_find tree_F4 w4_req) = Some EArgument /\
  s_err (serve_envoy w_decode w4_find tree_F4 w4_req) = None /\
  guards_fire w_decode w4_find repo_now w4_req = false /\
  s_err (serve_envoy w_decode w4_find repo_now w4_req) = Some EArgument.
Proof. repeat split; vm_compute; reflexivity. Qed.

Definition w4b_req := w_req "GET" "/c4/a%20b" [] "".
Definition w4b_find := w_find "/c4/a%20b" w4_rule [].
Lemma F4_refuted_view :
  wf_lreqb w4b_req = true /\ g_F4_query SOff w4b_req QPath = true /\
  s_handover (serve_decision w_decode w4b_find tree_F4 w4b_req) = Some {| ho_headers := [("X-Path", "/c4/a b")]; ho_cookies := [] |} /\
  s_handover (serve_envoy w_decode w4b_find tree_F4 w4b_req) = Some {| ho_headers := [("X-Path", "/c4/a%20b")]; ho_cookies := [] |} /\
  guards_fire w_decode w4b_find repo_now w4b_req = false /\
  s_handover (serve_envoy w_decode w4b_find repo_now w4b_req) = Some {| ho_headers := [("X-Path", "/c4/a b")]; ho_cookies := [] |}.
Proof. repeat split; vm_compute; reflexivity. Qed.

(** C13-F5 (open): a quoted cookie value is read differently; a value with a space is handed over differently *)
Definition w5_rule := w_rule "c6" SOff (Some {| cd_q := QCookie "sid"; cd_c := "123" |}) [].
Definition w5_req := w_req "GET" "/c6/lit" [("Cookie", String "s" (String "i" (String "d" (String "=" (String dquote (String "1" (String "2" (String "3" (String dquote "")))))))))] "".
Definition w5_find := w_find "/c6/lit" w5_rule [].
Lemma F5_refuted :
  wf_lreqb w5_req = true /\ g_F5_query w5_req (QCookie "sid") = true /\
  guards_fire w_decode w5_find repo_now w5_req = true /\
  s_err (serve_decision w_decode w5_find repo_now w5_req) = None /\
  s_err (serve_envoy w_decode w5_find repo_now w5_req) = Some EAuthz.
Proof. repeat split; vm_compute; reflexivity. Qed.

Lemma F5_refuted_handover : forall fixed3,
  let adds := [AddCookie "pc1" "v 1"] in
  g_F5_adds adds = true /\ g_F3_adds fixed3 adds = false /\
  finalize_decision fixed3 adds = finalize_proxy fixed3 adds /\
  finalize_decision fixed3 adds <> finalize_envoy adds.
Proof. intros []; repeat split; try (vm_compute; reflexivity); vm_compute; intro E; inversion E. Qed.

(** C13-F6 (fix: 06faa19) *)
Definition w6_rule := w_rule "c7" SOff (Some {| cd_q := QHeader "Host"; cd_c := "a.example.com" |}) [].
Definition w6_req := w_req "GET" "/c7/lit" [] "".
Definition w6_find := w_find "/c7/lit" w6_rule [].
Definition tree_F6 := set_F6 false all_fixed.
Lemma F6_refuted :
  wf_lreqb w6_req = true /\ g_F6_query (QHeader "Host") = true /\ guards_fire w_decode w6_find tree_F6 w6_req = true /\
  s_err (serve_decision w_decode w6_find tree_F6 w6_req) = None /\
  s_err (serve_envoy w_decode w6_find tree_F6 w6_req) = Some EAuthz /\
  guards_fire w_decode w6_find repo_now w6_req = false /\
  s_err (serve_envoy w_decode w6_find repo_now w6_req) = None.
Proof. repeat split; vm_compute; reflexivity. Qed.

(** C13-F7 (fix: 19923cd): a pipeline that hands the decoded body on *)
Definition w7_rule : rule :=
  {| r_id := "c8"; r_slashes := SOff;
     r_prog := Ask QBody (fun v => match v with VJson s => Emit (AddHeader "X-Body" s) Allow | _ => Fail EInternal end);
     r_on_error := None |}.
Definition w7_req := w_req "POST" "/c8/lit" [("Content-Type", "application/x-www-form-urlencoded")] "".
Definition w7_find := w_find "/c8/lit" w7_rule [].
Definition tree_F7 := set_F7 false all_fixed.
Lemma F7_refuted :
  wf_lreqb w7_req = true /\ g_F7_query w_decode w7_req QBody = true /\ guards_fire w_decode w7_find tree_F7 w7_req = true /\
  serve_decision w_decode w7_find tree_F7 w7_req <> serve_envoy w_decode w7_find tree_F7 w7_req /\
  guards_fire w_decode w7_find repo_now w7_req = false /\
  serve_decision w_decode w7_find repo_now w7_req = serve_envoy w_decode w7_find repo_now w7_req.
Proof. repeat split; try (vm_compute; reflexivity); vm_compute; intro E; inversion E. Qed.

(** C13-F8 (open): Headers() as a whole *)
Definition w8_rule : rule :=
  {| r_id := "c7"; r_slashes := SOff;
     r_prog := Ask QHeaders (fun v => match v with VMap m => Emit (AddHeader "X-Host" (assoc "Host" m)) Allow | _ => Fail EInternal end);
     r_on_error := None |}.
Definition w8_find := w_find "/c7/lit" w8_rule [].
Lemma F8_refuted :
  wf_lreqb w6_req = true /\ g_F8_query QHeaders = true /\ guards_fire w_decode w8_find repo_now w6_req = true /\
  s_handover (serve_decision w_decode w8_find repo_now w6_req) = Some {| ho_headers := [("X-Host", "a.example.com")]; ho_cookies := [] |} /\
  s_handover (serve_envoy w_decode w8_find repo_now w6_req) = Some {| ho_headers := [("X-Host", "")]; ho_cookies := [] |}.
Proof. repeat split; vm_compute; reflexivity. Qed.

(** non-vacuity: a request with headers in odd casing (read through a lower-case name), a cookie, a
    JSON body and an ESCAPED path with an encoded slash through a rule with allow_encoded_slashes: on
    whose pipeline reads a capture, a header, the Host header, a cookie and URL parts in a CEL
    condition, a step condition and templates, and sets a header twice: no guard fires on the tree as
    it is, the request is allowed and headers and a cookie are handed over — the main theorem applies *)
Definition nv_rule : rule :=
  w_rule "files" SOn (Some {| cd_q := QHeader "x-role"; cd_c := "admin,lead" |})
    [ {| st_if := Some {| cd_q := QCookie "sid"; cd_c := "123" |}; st_cookie := false;
         st_items := [("X-User", TEcho (QCapture "name")); ("X-Path", TEcho QPath)] |};
      {| st_if := None; st_cookie := true; st_items := [("session", TEcho (QCookie "theme"))] |};
      hdr_step "X-Url" (TEcho QUrl); hdr_step "X-User" (TEcho (QHeader "host")) ].
Definition nv_req : lreq :=
  {| l_method := "POST"; l_tls := true; l_host := "a.example.com:8443"; l_rawpath := "/files/2024%2Freport.pdf"; l_query := "v=2";
     l_hdrs := [("x-role", "admin"); ("X-ROLE", "lead"); ("Cookie", "sid=123; theme=dark"); ("content-type", "application/json");
                ("Content-Length", "13")];
     l_body := "{""user"":""u""}"; l_peer := "10.0.0.1"; l_pack := PackBoth; l_qpath := false |}.
Definition nv_find := w_find "/files/2024%2Freport.pdf" nv_rule [("name", "2024%2Freport.pdf")].

Example nonvacuous :
  wf_lreqb nv_req = true /\ guards_fire w_decode nv_find repo_now nv_req = false /\
  guards_fire w_decode nv_find pinned nv_req = true /\
  serve_envoy w_decode nv_find repo_now nv_req =
    {| s_err := None; s_rule := "files";
       s_handover := Some {| ho_headers := [("X-User", "2024/report.pdf,a.example.com:8443"); ("X-Path", "/files/2024/report.pdf");
                                            ("X-Url", "https://a.example.com:8443/files/2024/report.pdf?v=2")];
                             ho_cookies := [("session", "dark")] |} |}.
Proof. repeat split; vm_compute; reflexivity. Qed.

(** a request through a rule that reads nothing the findings touch: no guard fires for the pinned tree either *)
Definition nv2_rule : rule :=
  w_rule "files" SNoDecode (Some {| cd_q := QMethod; cd_c := "POST" |}) [hdr_step "X-Q" (TEcho QQuery); ck_step "c" (TEcho (QHeader "Content-Type"))].
Definition nv2_req : lreq :=
  {| l_method := "POST"; l_tls := true; l_host := "a.example.com:8443"; l_rawpath := "/files/report.pdf"; l_query := "v=2";
     l_hdrs := [("content-type", "application/json"); ("Content-Length", "13")];
     l_body := "{""user"":""u""}"; l_peer := "10.0.0.1"; l_pack := PackBoth; l_qpath := false |}.
Definition nv2_find := w_find "/files/report.pdf" nv2_rule [("name", "report.pdf")].
Example nonvacuous_pinned :
  guards_fire w_decode nv2_find pinned nv2_req = false /\
  s_handover (serve_envoy w_decode nv2_find pinned nv2_req) =
    Some {| ho_headers := [("X-Q", "v=2")]; ho_cookies := [("c", "application/json")] |}.
Proof. split; vm_compute; reflexivity. Qed.

(** C13-F9 (fix: 58408fc): Envoy conveys the body in the string field [body] (its default): grpcv3 decodes
    nothing, the HTTP services decode the body; the repair removes the difference *)
Definition w9_req : lreq :=
  {| l_method := "POST"; l_tls := false; l_host := "a.example.com"; l_rawpath := "/c8/lit"; l_query := "";
     l_hdrs := [("Content-Type", "application/json"); ("Content-Length", "12")];
     l_body := "{""user"":1}"; l_peer := "10.0.0.1"; l_pack := PackBody; l_qpath := false |}.
Definition tree_F9 := set_F9 false all_fixed.
Lemma F9_refuted :
  wf_lreqb w9_req = true /\ g_F9_query w9_req QBody = true /\ guards_fire w_decode w7_find tree_F9 w9_req = true /\
  s_handover (serve_decision w_decode w7_find tree_F9 w9_req) = Some {| ho_headers := [("X-Body", "{""user"":1}")]; ho_cookies := [] |} /\
  s_handover (serve_envoy w_decode w7_find tree_F9 w9_req) = Some {| ho_headers := [("X-Body", json_empty_string)]; ho_cookies := [] |} /\
  guards_fire w_decode w7_find repo_now w9_req = false /\
  serve_decision w_decode w7_find repo_now w9_req = serve_envoy w_decode w7_find repo_now w9_req.
Proof. repeat split; vm_compute; reflexivity. Qed.

(* ------------------------------------------------------------------ Headers(): the two maps agree apart from the key Host *)

Lemma fold_upsert_lookup (F : string -> string) k ks m0 :
  assoc_opt k (fold_left (fun m k' => upsert k' (fun _ => F k') m) ks m0) =
  if existsb (String.eqb k) ks then Some (F k) else assoc_opt k m0.
Proof.
  revert m0. induction ks as [|k' ks IH]; intro m0; [reflexivity|].
  cbn [fold_left existsb]. rewrite IH.
  destruct (existsb (String.eqb k) ks); [rewrite orb_true_r; reflexivity|]. rewrite orb_false_r.
  destruct (String.eqb k k') eqn:E.
  - apply String.eqb_eq in E. subst k'. apply assoc_opt_upsert_same.
  - apply assoc_opt_upsert_other. rewrite String.eqb_sym. exact E.
Qed.

Lemma keys_of_spec k (h : hdrs) seen :
  existsb (String.eqb k) (keys_of h seen) = negb (existsb (String.eqb k) seen) && negb (is_nil (values k h)).
Proof.
  revert seen. induction h as [|[k0 v] h IH]; intro seen; [cbn; rewrite andb_false_r; reflexivity|].
  cbn [keys_of]. unfold values in *. cbn [filter fst].
  destruct (existsb (String.eqb k0) seen) eqn:S0.
  - rewrite IH. destruct (String.eqb k0 k) eqn:E; [|reflexivity].
    apply String.eqb_eq in E. subst k0. rewrite S0. reflexivity.
  - cbn [existsb]. rewrite IH. cbn [existsb]. rewrite (String.eqb_sym k k0).
    destruct (String.eqb k0 k) eqn:E.
    + apply String.eqb_eq in E. subst k0. rewrite S0. reflexivity.
    + cbn [orb negb andb]. reflexivity.
Qed.

Lemma values_noncanonical k l :
  canon k <> k -> values k (map (fun nv : string * string => (canon (fst nv), snd nv)) l) = [].
Proof.
  intro Hk. unfold values. induction l as [|[n v] l IH]; [reflexivity|]. cbn [map filter fst snd].
  destruct (String.eqb (canon n) k) eqn:E; [|exact IH].
  apply String.eqb_eq in E. exfalso. apply Hk. rewrite <- E. apply canon_idem.
Qed.

(** C13, Headers(): every key other than Host has the same value in requestcontext's Headers() map
    and in grpcv3's — the difference behind C13-F8 is the key Host and nothing else *)
Theorem headers_agree_except_host L k :
  wf_lreqb L = true -> String.eqb k "Host" = false ->
  assoc_opt k (headers_http (http_hdrs L) (l_host L)) = assoc_opt k (canonicalize_headers (envoy_wire_hdrs L)).
Proof.
  intros W Hk. destruct (wf_parts L W) as (Hh & Hc & _).
  unfold headers_http. rewrite (fold_upsert_lookup (fun k' => join "," (values k' (http_hdrs L)))).
  rewrite keys_of_spec. cbn [existsb negb andb assoc_opt]. rewrite (String.eqb_sym "Host" k), Hk.
  rewrite http_hdrs_wf by exact Hh. unfold http_hdrs_wire in *.
  destruct (String.eqb (canon k) k) eqn:Ck.
  - apply String.eqb_eq in Ck. rewrite (envoy_lookup_canonical L k Ck Hh).
    rewrite (values_wire_lower k _ Ck Hh).
    destruct (vals_lower (lower k) (l_hdrs L)) as [|v vs] eqn:E; [reflexivity|]. cbn [is_nil negb].
    f_equal. unfold envoy_sep. destruct (String.eqb (lower k) "cookie") eqn:Ec; [|reflexivity].
    apply join_single_sep. rewrite <- E.
    assert (Hck : canon "Cookie" = "Cookie") by reflexivity.
    rewrite (values_wire_lower "Cookie" _ Hck Hh) in Hc.
    apply String.eqb_eq in Ec. rewrite Ec. exact Hc.
  - assert (N : canon k <> k) by (intro E; rewrite E, eqb_refl_s in Ck; discriminate).
    rewrite (values_noncanonical k _ N). cbn [is_nil negb]. symmetry. apply assoc_opt_noncanonical. exact N.
Qed.

(** ... and the key Host itself: the request host in requestcontext's map, absent from grpcv3's *)
Lemma headers_host_key L :
  wf_lreqb L = true ->
  assoc_opt "Host" (headers_http (http_hdrs L) (l_host L)) = Some (l_host L) /\
  assoc_opt "Host" (canonicalize_headers (envoy_wire_hdrs L)) = None.
Proof.
  intro W. destruct (wf_parts L W) as (Hh & Hc & _). split.
  - unfold headers_http. rewrite (fold_upsert_lookup (fun k' => join "," (values k' (http_hdrs L)))).
    rewrite keys_of_spec. cbn [existsb negb andb assoc_opt].
    rewrite http_hdrs_wf by exact Hh. unfold http_hdrs_wire.
    assert (V : values "Host" (map (fun nv : string * string => (canon (fst nv), snd nv)) (l_hdrs L)) = []).
    { unfold values. induction (l_hdrs L) as [|nv l IH]; [reflexivity|]. cbn [forallb] in Hh.
      apply andb_true_iff in Hh as [H1 H2]. cbn [map filter fst].
      unfold wf_hdr in H1. repeat (apply andb_true_iff in H1 as [H1 ?]).
      match goal with Hx : negb (String.eqb (canon (fst nv)) "Host") = true |- _ => apply negb_true_iff in Hx; rewrite Hx end.
      apply IH. exact H2. }
    rewrite V. reflexivity.
  - assert (Ck : canon "Host" = "Host") by reflexivity.
    rewrite (envoy_lookup_canonical L "Host" Ck Hh). change (lower "Host") with "host".
    assert (V : vals_lower "host" (l_hdrs L) = []).
    { unfold vals_lower. induction (l_hdrs L) as [|nv l IH]; [reflexivity|]. cbn [forallb] in Hh.
      apply andb_true_iff in Hh as [H1 H2]. cbn [filter].
      destruct (String.eqb (lower (fst nv)) "host") eqn:E; [|apply IH; exact H2].
      exfalso. unfold wf_hdr in H1. repeat (apply andb_true_iff in H1 as [H1 ?]).
      match goal with Hx : negb (String.eqb (canon (fst nv)) "Host") = true |- _ => apply negb_true_iff in Hx; rename Hx into NH end.
      match goal with Hx : all_bytes token_byte (fst nv) = true |- _ => rename Hx into TK end.
      assert (Ch : canon "Host" = "Host") by reflexivity.
      rewrite (canon_eq_iff_lower (fst nv) "Host" TK Ch) in NH. change (lower "Host") with "host" in NH. congruence. }
    rewrite V. reflexivity.
Qed.

(** a denial answered by the rule's error pipeline: the redirect target echoes a read of the view and is
    the same at all three entry points *)
Definition nv3_rule : rule :=
  {| r_id := "files"; r_slashes := SOff; r_prog := pipeline_prog (Some {| cd_q := QHeader "x-role"; cd_c := "root" |}) [];
     r_on_error := Some (redirect_prog "http://login.example.com/?o=" (Some QUrl)) |}.
Definition nv3_find := w_find "/files/report.pdf" nv3_rule [("name", "report.pdf")].
Example nonvacuous_redirect :
  guards_fire w_decode nv3_find repo_now nv2_req = false /\
  s_err (serve_envoy w_decode nv3_find repo_now nv2_req) =
    Some (ERedirect "http://login.example.com/?o=https://a.example.com:8443/files/report.pdf?v=2") /\
  serve_decision w_decode nv3_find repo_now nv2_req = serve_envoy w_decode nv3_find repo_now nv2_req.
Proof. repeat split; vm_compute; reflexivity. Qed.

(* ------------------------------------------------------------------ the decision service behind a trusted proxy *)

(** C13-F10: extractURL re-encodes the query of X-Forwarded-Uri (ParseQuery + Values.Encode: keys sorted,
    %20 becomes +, pairs with ";" dropped, "x" becomes "x="; an empty result falls back to the carrier
    request's query): the guard is "the query is not its own re-encoding" *)
Definition reencoded_query (q : string) : string := GoUrl.values_encode (fst (GoUrl.parse_query q)).

Definition g_F10 (L : lreq) : bool := negb (String.eqb (reencoded_query (l_query L)) (l_query L)).

Lemma valid_encoded_no_qmark s : GoUrl.valid_encoded s = true -> GoUrl.cut_on "?" s = (s, "").
Proof.
  induction s as [|c r IH]; [reflexivity|]. cbn [GoUrl.valid_encoded GoUrl.cut_on]. intro H.
  apply andb_true_iff in H as [Hc Hr].
  destruct (Ascii.eqb c "?") eqn:E.
  - apply Ascii.eqb_eq in E. subst c. vm_compute in Hc. discriminate.
  - rewrite (IH Hr). reflexivity.
Qed.

Lemma cut_on_qmark_app p q : GoUrl.valid_encoded p = true -> GoUrl.cut_on "?" (p ++ String "?" q) = (p, q).
Proof.
  induction p as [|c r IH]; [reflexivity|]. cbn [GoUrl.valid_encoded append GoUrl.cut_on]. intro H.
  apply andb_true_iff in H as [Hc Hr].
  destruct (Ascii.eqb c "?") eqn:E.
  - apply Ascii.eqb_eq in E. subst c. vm_compute in Hc. discriminate.
  - rewrite (IH Hr). reflexivity.
Qed.

(** C13, the decision service as deployed: conveyed through the X-Forwarded-* headers of a trusted
    proxy, a logical request gives the same method, scheme, host, path and query as when a service
    receives it directly — unless the query is not its own re-encoding (C13-F10) *)
Theorem deployed_decision_same_url fixed10 L :
  wf_lreqb L = true -> nonempty (l_method L) = true -> fixed10 || negb (g_F10 L) = true ->
  url_parts (view_tp fixed10 L) = url_parts (view_direct L).
Proof.
  intros W Hm G0. destruct (wf_parts L W) as (Hh & Hc & Hhost & Hs & Hv & p & Hu).
  assert (G : (if fixed10 then l_query L else reencoded_query (l_query L)) = l_query L).
  { destruct fixed10; [reflexivity|]. cbn [orb] in G0. unfold g_F10 in G0.
    apply negb_true_iff, negb_false_iff, String.eqb_eq in G0. exact G0. }
  unfold view_direct. unfold http_hdrs. rewrite strip_untrusted, view_untrusted.
  unfold view_tp, strip, view_of, extract_url, extract_method, url_parts, spec_view_untrusted, tp_headers, tp_conn, http_conn.
  cbn [get values filter map fst snd XFM XFP XFH XFU FWD XFF String.eqb Ascii.eqb Bool.eqb
       v_method v_scheme v_host v_rawpath v_query c_method c_tls c_host c_escpath c_rawquery c_peer].
  rewrite Hm.
  assert (Sc : nonempty (scheme_of L) = true) by (unfold scheme_of; destruct (l_tls L); reflexivity).
  rewrite Sc, Hhost.
  assert (Nu : nonempty (forwarded_uri L) = true).
  { unfold forwarded_uri. destruct (l_rawpath L); [discriminate | reflexivity]. }
  rewrite Nu. rewrite (escpath_wire_wf _ _ Hs Hv Hu).
  assert (P : parse_forwarded_uri fixed10 (forwarded_uri L) =
              Some (l_rawpath L, if fixed10 then l_query L else reencoded_query (l_query L))).
  { unfold parse_forwarded_uri, forwarded_uri. destruct (nonempty (l_query L)) eqn:Nq.
    - cbn [append]. rewrite (cut_on_qmark_app _ _ Hv).
      pose proof (escpath_wire_wf _ _ Hs Hv Hu) as E. unfold escpath_of_wire in E.
      destruct (GoUrl.set_path (l_rawpath L)) as [[pa rp]|] eqn:Sp.
      + rewrite E. destruct fixed10; reflexivity.
      + apply set_path_none in Sp. congruence.
    - assert (Q : l_query L = "") by (unfold nonempty in Nq; apply negb_false_iff, String.eqb_eq in Nq; exact Nq).
      rewrite Q. assert (A : forall x : string, x ++ "" = x) by (intro x; induction x as [|c r IH]; [reflexivity | cbn; rewrite IH; reflexivity]).
      rewrite (A (l_rawpath L)).
      rewrite (valid_encoded_no_qmark _ Hv).
      pose proof (escpath_wire_wf _ _ Hs Hv Hu) as E. unfold escpath_of_wire in E.
      destruct (GoUrl.set_path (l_rawpath L)) as [[pa rp]|] eqn:Sp.
      + rewrite E. destruct fixed10; reflexivity.
      + apply set_path_none in Sp. congruence. }
  rewrite P. cbn [fst snd]. rewrite (nonempty_slash _ Hs). rewrite G.
  unfold scheme_of. destruct (nonempty (l_query L)) eqn:Nq; [reflexivity|].
  unfold nonempty in Nq. apply negb_false_iff, String.eqb_eq in Nq. rewrite Nq. reflexivity.
Qed.

(** C13-F10, witnesses: sorted keys, "+" for %20, a pair with ";" dropped *)
Definition w10_req (q : string) : lreq :=
  {| l_method := "GET"; l_tls := true; l_host := "a.example.com"; l_rawpath := "/t/abc"; l_query := q;
     l_hdrs := []; l_body := ""; l_peer := "10.0.0.1"; l_pack := PackRaw; l_qpath := false |}.
Lemma F10_refuted :
  wf_lreqb (w10_req "b=2&a=1") = true /\ g_F10 (w10_req "b=2&a=1") = true /\
  v_query (view_direct (w10_req "b=2&a=1")) = "b=2&a=1" /\ v_query (view_tp false (w10_req "b=2&a=1")) = "a=1&b=2" /\
  v_query (view_tp false (w10_req "q=a%20b")) = "q=a+b" /\ v_query (view_tp false (w10_req "a=1;b=2")) = "" /\
  g_F10 (w10_req "a=1&b=2") = false /\ url_parts (view_tp false (w10_req "a=1&b=2")) = url_parts (view_direct (w10_req "a=1&b=2")) /\
  url_parts (view_tp true (w10_req "b=2&a=1")) = url_parts (view_direct (w10_req "b=2&a=1")) /\
  v_query (view_tp true (w10_req "a=1;b=2")) = "a=1;b=2".
Proof. repeat split; vm_compute; reflexivity. Qed.

(** C13-F11 (fix: 9fe653a): Envoy conveys the request target the documented way (query inside [path]):
    grpcv3 looked the rule up with "?x=1" glued to the last segment — a wildcard swallowed it into the
    capture, a literal route missed — and the query was empty *)
Definition w11_req : lreq :=
  {| l_method := "GET"; l_tls := false; l_host := "a.example.com"; l_rawpath := "/c0/abc"; l_query := "x=1";
     l_hdrs := []; l_body := ""; l_peer := "10.0.0.1"; l_pack := PackRaw; l_qpath := true |}.
Definition w11_rule := w_rule "c0" SOff None [hdr_step "X-User" (TEcho (QCapture "name")); hdr_step "X-Q" (TEcho QQuery)].
Definition w11_find : lview -> option (rule * list (string * string)) :=
  fun lv => if String.eqb (lk_path lv) "/c0/abc" then Some (w11_rule, [("name", "abc")])
            else if String.eqb (lk_path lv) "/c0/abc?x=1" then Some (w11_rule, [("name", "abc?x=1")]) else None.
Definition w11_find_literal : lview -> option (rule * list (string * string)) :=
  fun lv => if String.eqb (lk_path lv) "/c0/abc" then Some (w11_rule, []) else None.
Definition tree_F11 := set_F11 false all_fixed.
Lemma F11_refuted :
  wf_lreqb w11_req = true /\ g_F11 w11_req = true /\ guards_fire w_decode w11_find tree_F11 w11_req = true /\
  s_handover (serve_decision w_decode w11_find tree_F11 w11_req) = Some {| ho_headers := [("X-User", "abc"); ("X-Q", "x=1")]; ho_cookies := [] |} /\
  s_handover (serve_envoy w_decode w11_find tree_F11 w11_req) = Some {| ho_headers := [("X-User", "abc?x=1"); ("X-Q", "")]; ho_cookies := [] |} /\
  s_err (serve_decision w_decode w11_find_literal tree_F11 w11_req) = None /\
  s_err (serve_envoy w_decode w11_find_literal tree_F11 w11_req) = Some ENoRule /\
  guards_fire w_decode w11_find repo_now w11_req = false /\
  serve_decision w_decode w11_find repo_now w11_req = serve_envoy w_decode w11_find repo_now w11_req.
Proof. repeat split; vm_compute; reflexivity. Qed.

(* ------------------------------------------------------------------ requests in flight at the same time *)

(** every cache holds nothing or the decoding of its own request's body *)
Definition flight_ok (bodyf : lreq -> value) (st : flight) : Prop :=
  Forall (fun lc => snd lc = None \/ snd lc = Some (bodyf (fst lc))) st.

Lemma read_body_spec bodyf i st :
  flight_ok bodyf st ->
  flight_ok bodyf (snd (read_body bodyf i st)) /\
  map fst (snd (read_body bodyf i st)) = map fst st /\
  fst (read_body bodyf i st) = option_map bodyf (nth_error (map fst st) i).
Proof.
  revert i. induction st as [|[L c] r IH]; intros i H.
  - destruct i; repeat split; constructor.
  - inversion H as [|x l Hx Hr]; subst. destruct i as [|j].
    + cbn [read_body snd fst map nth_error option_map]. repeat split.
      * constructor; [|exact Hr]. cbn [fst snd] in *. right.
        destruct Hx as [Hx|Hx]; rewrite Hx; reflexivity.
      * cbn [fst snd] in Hx. destruct Hx as [Hx|Hx]; rewrite Hx; reflexivity.
    + cbn [read_body]. destruct (read_body bodyf j r) as [v r'] eqn:E.
      destruct (IH j Hr) as (I1 & I2 & I3). rewrite E in I1, I2, I3. cbn [fst snd] in *.
      repeat split.
      * constructor; assumption.
      * cbn [map]. rewrite I2. reflexivity.
      * exact I3.
Qed.

(** C13, over time: whatever other requests are in flight and in whatever order the pipelines read,
    a read of request i's body returns the decoding of request i's own body — at every entry point
    ([bodyf] = the body accessor of that entry point) *)
Theorem body_reads_stable bodyf ops st :
  flight_ok bodyf st ->
  Forall (fun iv => snd iv = option_map bodyf (nth_error (map fst st) (fst iv))) (run_reads bodyf ops st).
Proof.
  revert st. induction ops as [|i r IH]; intros st H; [constructor|].
  cbn [run_reads]. destruct (read_body bodyf i st) as [v st'] eqn:E.
  destruct (read_body_spec bodyf i st H) as (I1 & I2 & I3). rewrite E in I1, I2, I3. cbn [fst snd] in *.
  constructor; [exact I3|]. rewrite <- I2. apply IH. exact I1.
Qed.

Lemma read_body_keys f i st : map fst (snd (read_body f i st)) = map fst st.
Proof.
  revert i. induction st as [|[L c] t IH]; intro i; [destruct i; reflexivity|].
  destruct i as [|j]; cbn [read_body]; [reflexivity|].
  specialize (IH j). destruct (read_body f j t) as [v t']. cbn [snd map fst] in *. rewrite IH. reflexivity.
Qed.

Lemma read_body_ext (f g : lreq -> value) i st :
  (forall L, In L (map fst st) -> f L = g L) -> read_body f i st = read_body g i st.
Proof.
  revert i. induction st as [|[L c] t IH]; intros i H; [destruct i; reflexivity|].
  destruct i as [|j]; cbn [read_body].
  - rewrite (H L (or_introl eq_refl)). reflexivity.
  - rewrite (IH j (fun L0 h => H L0 (or_intror h))). reflexivity.
Qed.

Lemma run_reads_ext (f g : lreq -> value) ops st :
  (forall L, In L (map fst st) -> f L = g L) -> run_reads f ops st = run_reads g ops st.
Proof.
  revert st. induction ops as [|i r IH]; intros st H; [reflexivity|].
  cbn [run_reads]. rewrite (read_body_ext f g i st H).
  pose proof (read_body_keys g i st) as K. destruct (read_body g i st) as [v st']. cbn [snd] in K.
  f_equal. apply IH. rewrite K. exact H.
Qed.

(** with the body accessors of the entry points, outside the body guards (F7, F9 as far as open): the
    same values at the HTTP entry points and under Envoy, for every sequence of reads of the requests
    in flight *)
Corollary body_reads_agree decode fx ops (st : flight) :
  Forall (fun L => wf_lreqb L = true /\ guard_query decode fx SOff [] L QBody = false) (map fst st) ->
  run_reads (fun L => a_body (acc_http decode L)) ops st =
  run_reads (fun L => a_body (acc_envoy decode fx (mk_envoy L))) ops st.
Proof.
  intro H. apply run_reads_ext. intros L HL. rewrite Forall_forall in H. destruct (H L HL) as [W G].
  exact (answer_agree decode fx L SOff [] QBody W G).
Qed.
