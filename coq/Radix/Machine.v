(** Radix/Machine.v — the abstract pattern-map machine (DESIGN Appendix A):
    heimdall's radix tree without node compression.

    State: an association list  pattern -> node (values in insertion order, the
    node's backtracking flag, its wildcard key names); only patterns with at
    least one value are present.

    [lookup] is [findNode] of tree.go: depth-first, static byte first, then the
    single wildcard, then the free wildcard, the flag of a failed node decides
    whether the search may go on.  The children of a tree node are the
    derivatives of the pattern set.  [lookup true] is the PINNED code
    (findings C02-F1 / C03-F2: a free-wildcard node is tried with the parent
    node's key names, without its own capture, and its failure consults the
    parent node's flag); [lookup false] is the code since the fix: commits
    e897fef (C02-F1) and 88da16a (C03-F2), i.e. the code as it is now.

    [add] / [delete] are [Add] / [Delete] of tree.go seen at this level. *)
From HV Require Import Base.Prelude Radix.Spec.

Section Machine.
Variable V : Type.
Notation node := (node V).
Notation db := (db V).
Notation matcher := (matcher V).
Notation found := (found V).

(** ** Derivatives: the children of a node *)

Definition deriv {A} (t : tok) (d : list (pat * A)) : list (pat * A) :=
  flat_map (fun e => match fst e with
                     | t' :: p' => if tok_eqb t t' then [(p', snd e)] else []
                     | [] => []
                     end) d.

(** the entries that end here *)
Definition heres {A} (d : list (pat * A)) : list A :=
  flat_map (fun e => match fst e with [] => [snd e] | _ => [] end) d.

Definition here {A} (d : list (pat * A)) : option A :=
  match heres d with a :: _ => Some a | [] => None end.

(** ** Lookup *)

Inductive res :=
| RFound (v : V) (ks : list str) (caps : list str)
| RNotFound (backtrack : bool)
| ROutOfFuel.

(** flag and key names of the node the search stands on, as [findNode] reads
    them in its free-wildcard branch: a node without values has its flag forced
    to true (addNode / delNode) and no key names *)
Definition parent_flag (d : db) : bool :=
  match here d with
  | Some n => match vals n with [] => true | _ => flag n end
  | None => true
  end.

Definition parent_keys (d : db) : list str :=
  match here d with Some n => keys n | None => [] end.

Fixpoint lookup (faithful : bool) (fuel : nat) (m : matcher) (d : db) (path : str) (caps : list str) : res :=
  match fuel with
  | O => ROutOfFuel
  | S fuel' =>
    match path with
    | [] =>
      match here d with
      | Some n =>
        match vals n with
        | [] => RNotFound true
        | _ => match find (fun v => m v (keys n) caps) (vals n) with
               | Some v => RFound v (keys n) caps
               | None => RNotFound (flag n)
               end
        end
      | None => RNotFound true
      end
    | c :: rest =>
      let r1 := let d1 := deriv (L c) d in
                if is_nil d1 then RNotFound true else lookup faithful fuel' m d1 rest caps in
      match r1 with
      | RNotFound true =>
        let r2 := let dw := deriv W d in
                  if is_nil dw then RNotFound true
                  else let (seg, rest') := take_seg path in
                       match seg with
                       | [] => RNotFound true
                       | _ => lookup faithful fuel' m dw rest' (caps ++ [seg])
                       end in
        match r2 with
        | RNotFound true =>
          match here (deriv C d) with
          | Some n =>
            let caps' := caps ++ [path] in
            let accepts v := if faithful then m v (parent_keys d) caps else m v (keys n) caps' in
            match find accepts (vals n) with
            | Some v => RFound v (keys n) caps'
            | None => RNotFound (if faithful then parent_flag d else flag n)
            end
          | None => RNotFound true
          end
        | _ => r2
        end
      | _ => r1
      end
    end
  end.

(** [Find] *)
Definition find_res (faithful : bool) (d : db) (path : str) (m : matcher) : res :=
  lookup faithful (S (length path)) m d path [].

Definition to_found (r : res) : found :=
  match r with RFound v ks caps => Found v ks caps | _ => NoMatch end.

Definition find_in (faithful : bool) (d : db) (path : str) (m : matcher) : found :=
  to_found (find_res faithful d path m).

(** ** Add *)

Inductive aresult := AOk (d : db) | AInvalidPath | AConstraint.

Variable can_add : list V -> V -> bool.

Definition ends_catchall (p : pat) : bool :=
  match rev p with C :: _ => true | _ => false end.

Definition last_key (ks : list str) : str := last ks [].

Definition str_eqb : str -> str -> bool := list_eqb Ascii.eqb.
Definition keys_eqb : list str -> list str -> bool := list_eqb str_eqb.

(** the node an [Add] of (p, ks) ends at already exists with node [n]: the key
    name checks of addNode and the new key names *)
Definition merge_keys (p : pat) (n : node) (ks : list str) : option (list str) :=
  if ends_catchall p then
    (* "free wildcard name doesn't match", then (since fix 20f92b3, C03-F3) "wildcard keys
       differ" as for a leaf: the key names of a free-wildcard node are no longer overwritten *)
    if str_eqb (last_key ks) (last_key (keys n)) && (is_nil (keys n) || keys_eqb (keys n) ks)
    then Some ks else None
  else
    match ks with
    | [] => Some (keys n)
    | _ => if is_nil (keys n) || keys_eqb (keys n) ks then Some ks else None
    end.

Fixpoint add (d : db) (p : pat) (ks : list str) (v : V) (bt : bool) : aresult :=
  match d with
  | [] => if can_add [] v then AOk [(p, {| vals := [v]; flag := bt; keys := ks |})] else AConstraint
  | (q, n) :: r =>
    if pat_eqb p q then
      match merge_keys p n ks with
      | None => AInvalidPath
      | Some ks' =>
        if can_add (vals n) v
        then AOk ((q, {| vals := vals n ++ [v]; flag := bt; keys := ks' |}) :: r)
        else AConstraint
      end
    else
      match add r p ks v bt with
      | AOk r' => AOk ((q, n) :: r')
      | e => e
      end
  end.

Definition add_expr (d : db) (e : str) (v : V) (bt : bool) : aresult :=
  match parse_expr e with
  | Some (p, ks) => add d p ks v bt
  | None => AInvalidPath
  end.

(** ** Delete *)

Inductive dresult := DOk (d : db) | DFailed.

Fixpoint delete (d : db) (p : pat) (f : V -> bool) : dresult :=
  match d with
  | [] => DFailed
  | (q, n) :: r =>
    if pat_eqb p q then
      let vs := filter (fun v => negb (f v)) (vals n) in
      if Nat.eqb (length vs) (length (vals n)) then DFailed
      else match vs with
           | [] => DOk r
           | _ => DOk ((q, {| vals := vs; flag := flag n; keys := keys n |}) :: r)
           end
    else
      match delete r p f with
      | DOk r' => DOk ((q, n) :: r')
      | DFailed => DFailed
      end
  end.

(** *** Finding C06-F3 at this level.  [delNode] interprets ':' , '*' and
    backslash escapes at every node boundary, [addNode] only at the start of a
    segment.  The compressed tree has a node boundary inside a literal segment of
    [p] exactly where another loaded pattern ends or branches off.  If the rest
    of the segment starts there with ':' or '*', or with an escape sequence, the
    deletion of [p] fails. *)

Fixpoint lcp (p q : pat) : nat :=
  match p, q with
  | a :: p', b :: q' => if tok_eqb a b then S (lcp p' q') else 0
  | _, _ => 0
  end.

Definition is_lit (t : tok) (c : ascii) : bool :=
  match t with L x => Ascii.eqb x c | _ => false end.

Definition is_special_tok (t : tok) : bool :=
  match t with L x => is_special x | _ => false end.

(** the rest [r] of a pattern, taken at a node boundary inside a segment, is
    misread by delNode *)
Definition misread (r : pat) : bool :=
  match r with
  | t :: r' =>
    is_lit t ch_colon || is_lit t ch_star ||
    (is_lit t ch_bslash && match r' with t2 :: _ => is_special_tok t2 | [] => false end)
  | [] => false
  end.

(** positions (token indices) inside a segment of [p] at which delNode would misread;
    [prev_slash] = the previous token is '/' or there is none or it is a wildcard *)
Fixpoint trouble_from (i : nat) (seg_start : bool) (p : pat) : list nat :=
  match p with
  | [] => []
  | t :: r =>
    (if negb seg_start && misread p then [i] else []) ++
    trouble_from (S i) (match t with L c => Ascii.eqb c ch_slash | _ => false end) r
  end.

Definition trouble (p : pat) : list nat := trouble_from 0 true p.

Definition boundary_at (d : db) (p : pat) (i : nat) : bool :=
  existsb (fun e => negb (pat_eqb (fst e) p) && Nat.eqb (lcp p (fst e)) i) d.

Definition blocked (d : db) (p : pat) : bool :=
  existsb (boundary_at d p) (trouble p).

Definition delete_expr (d : db) (e : str) (f : V -> bool) : dresult :=
  match parse_expr e with
  | Some (p, _) => if blocked d p then DFailed else delete d p f
  | None => DFailed
  end.

End Machine.

Arguments RFound {V}.
Arguments RNotFound {V}.
Arguments ROutOfFuel {V}.
Arguments AOk {V}.
Arguments AInvalidPath {V}.
Arguments AConstraint {V}.
Arguments DOk {V}.
Arguments DFailed {V}.
Arguments deriv {A}.
Arguments heres {A}.
Arguments here {A}.
Arguments parent_flag {V}.
Arguments parent_keys {V}.
Arguments lookup {V}.
Arguments find_res {V}.
Arguments to_found {V}.
Arguments find_in {V}.
Arguments merge_keys {V}.
Arguments add {V}.
Arguments add_expr {V}.
Arguments delete {V}.
Arguments boundary_at {V}.
Arguments blocked {V}.
Arguments delete_expr {V}.
