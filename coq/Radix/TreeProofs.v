(** Radix/TreeProofs.v — stage 2, lookup side: on every tree that satisfies the shape
    invariant [wfb], [find_node] (the transcription of tree.go's findNode) is the
    search of the pattern-map machine on the abstraction of the tree:

      [find_refines]    to_res (find_node fx fx true m t path caps)
                        = lookup (negb fx) (S (length path)) m (abs t) path caps

    and, for conditions that do not look at captures, the capture-handling switches
    (C03-F2, C03-F5) do not change the value found ([find_node_cond_only]).
    Hence every stage-1 theorem about [lookup] holds of the compressed tree. *)
From HV Require Import Base.Prelude Radix.Spec Radix.SpecProofs Radix.Machine Radix.MachineProofs
  Radix.Load Radix.LoadProofs Radix.Tree.

(** ** an induction principle that reaches the children *)

Section TreeInd.
Variable V : Type.
Variable P : tree V -> Prop.
Definition opt_P (o : option (tree V)) : Prop := match o with Some w => P w | None => True end.
Hypothesis step : forall path statics wild catch vals keys bt,
  Forall (fun x => P (snd x)) statics -> opt_P wild -> opt_P catch ->
  P (Node path statics wild catch vals keys bt).

Fixpoint tree_ind' (t : tree V) : P t :=
  match t with
  | Node path statics wild catch vals keys bt =>
    step path statics wild catch vals keys bt
      ((fix go (l : list (ascii * tree V)) : Forall (fun x => P (snd x)) l :=
          match l with
          | [] => Forall_nil _
          | x :: r => Forall_cons x (tree_ind' (snd x)) (go r)
          end) statics)
      (match wild as o return opt_P o with
       | Some w => tree_ind' w
       | None => I
       end)
      (match catch as o return opt_P o with
       | Some c => tree_ind' c
       | None => I
       end)
  end.
End TreeInd.

(** ** the machine on composed indexes *)

Section MachineFacts.
Variable V : Type.
Notation node := (node V).
Notation db := (db V).
Notation matcher := (matcher V).
Variable m : matcher.

Lemma lookup_nil fa f path caps : lookup fa (S f) m (@nil (pat * node)) path caps = RNotFound true.
Proof. destruct path; reflexivity. Qed.

Lemma lookup_cons fa f (d : db) c rest caps :
  lookup fa (S f) m d (c :: rest) caps =
  let path := c :: rest in
  let r1 := let d1 := deriv (L c) d in
            if is_nil d1 then RNotFound true else lookup fa f m d1 rest caps in
  match r1 with
  | RNotFound true =>
    let r2 := let dw := deriv W d in
              if is_nil dw then RNotFound true
              else let (seg, rest') := take_seg path in
                   match seg with
                   | [] => RNotFound true
                   | _ => lookup fa f m dw rest' (caps ++ [seg])
                   end in
    match r2 with
    | RNotFound true =>
      match here (deriv C d) with
      | Some n =>
        let caps' := caps ++ [path] in
        let accepts v := if fa then m v (parent_keys d) caps else m v (keys n) caps' in
        match find accepts (vals n) with
        | Some v => RFound v (keys n) caps'
        | None => RNotFound (if fa then parent_flag d else flag n)
        end
      | None => RNotFound true
      end
    | _ => r2
    end
  | _ => r1
  end.
Proof. reflexivity. Qed.

Lemma lookup_nilpath fa f (d : db) caps :
  lookup fa (S f) m d [] caps =
  match here d with
  | Some n => match vals n with
              | [] => RNotFound true
              | _ => match find (fun v => m v (keys n) caps) (vals n) with
                     | Some v => RFound v (keys n) caps
                     | None => RNotFound (flag n)
                     end
              end
  | None => RNotFound true
  end.
Proof. reflexivity. Qed.

Lemma lookup_or_nil fa f (d : db) path caps :
  (if is_nil d then RNotFound true else lookup fa (S f) m d path caps) = lookup fa (S f) m d path caps.
Proof. destruct d; [rewrite lookup_nil|]; reflexivity. Qed.

(** enough fuel is enough *)
Lemma lookup_fuel_irrel fa : forall f1 f2 (d : db) path caps,
  length path < f1 -> length path < f2 ->
  lookup fa f1 m d path caps = lookup fa f2 m d path caps.
Proof.
  induction f1 as [|f1 IH]; intros f2 d path caps H1 H2; [lia|].
  destruct f2 as [|f2]; [lia|].
  destruct path as [|c rest]; [reflexivity|]. cbn [lookup]. simpl in H1, H2.
  rewrite (IH f2 (deriv (L c) d) rest caps) by lia.
  pose proof (take_seg_length_lt (c :: rest)) as Hl.
  destruct (take_seg (c :: rest)) as [seg rest']. cbn [fst snd] in Hl.
  destruct seg as [|x seg]; [reflexivity|].
  assert (length rest' < length (c :: rest)) by (apply Hl; discriminate). simpl in H.
  rewrite (IH f2 (deriv W d) rest' _) by lia. reflexivity.
Qed.

Lemma deriv_app {A} t (l1 l2 : list (pat * A)) : deriv t (l1 ++ l2) = deriv t l1 ++ deriv t l2.
Proof. unfold deriv. apply flat_map_app. Qed.

Lemma heres_app {A} (l1 l2 : list (pat * A)) : heres (l1 ++ l2) = heres l1 ++ heres l2.
Proof. unfold heres. apply flat_map_app. Qed.

Lemma pre_nil (D : db) : map (pre []) D = D.
Proof. induction D as [|[p a] D IH]; [reflexivity|]. simpl. rewrite IH. reflexivity. Qed.

Lemma deriv_pre_cons t t' q (D : db) :
  deriv t (map (pre (t' :: q)) D) = if tok_eqb t t' then map (pre q) D else [].
Proof.
  induction D as [|[p a] D IH]; [destruct (tok_eqb t t'); reflexivity|].
  cbn [map]. unfold pre at 1. cbn [fst snd app]. rewrite deriv_cons, IH.
  destruct (tok_eqb t t'); reflexivity.
Qed.

Lemma heres_pre_cons t q (D : db) : heres (map (pre (t :: q)) D) = [].
Proof.
  induction D as [|[p a] D IH]; [reflexivity|]. cbn [map]. unfold pre at 1. cbn [fst snd app].
  rewrite heres_cons. exact IH.
Qed.

Lemma here_nil {A} : here (@nil (pat * A)) = None.
Proof. reflexivity. Qed.

(** a literal prefix in front of every expression: the search walks along it *)
Lemma lookup_lits fa s : forall (D : db) path caps f, length path < f ->
  lookup fa f m (map (pre (lits s)) D) path caps =
  if is_prefix s path then lookup fa f m D (skipn (length s) path) caps else RNotFound true.
Proof.
  induction s as [|c s IH]; intros D path caps f Hf.
  - cbn [lits map]. rewrite pre_nil. reflexivity.
  - destruct f as [|f]; [lia|]. cbn [lits map]. destruct path as [|c0 rest].
    + cbn [lookup is_prefix]. unfold here. rewrite heres_pre_cons. reflexivity.
    + cbn [is_prefix length skipn].
      remember (lookup fa (S f) m D (skipn (length s) rest) caps) as R eqn:HR.
      cbn [lookup]. rewrite !deriv_pre_cons. cbn [tok_eqb is_nil].
      rewrite (Ascii.eqb_sym c c0). destruct (Ascii.eqb c0 c) eqn:E; cbn [andb].
      * simpl in Hf.
        assert (R1 : (if is_nil (map (pre (lits s)) D) then RNotFound true
                     else lookup fa f m (map (pre (lits s)) D) rest caps)
                    = if is_prefix s rest then R else RNotFound true).
        { destruct f as [|f']; [lia|]. rewrite lookup_or_nil. rewrite IH by lia.
          destruct (is_prefix s rest); [|reflexivity]. subst R.
          apply lookup_fuel_irrel; [|]; pose proof (skipn_length (length s) rest); lia. }
        change (map (pre (map L s)) D) with (map (pre (lits s)) D). rewrite R1.
        destruct (is_prefix s rest); [|reflexivity].
        destruct R as [| [|] |]; reflexivity.
      * reflexivity.
Qed.

End MachineFacts.

(** ** the abstraction, piece by piece *)

Section Refine.
Variable V : Type.
Notation tree := (tree V).
Notation node := (node V).
Notation db := (db V).
Notation matcher := (matcher V).
Variable m : matcher.

Definition abs_statics (l : list (ascii * tree)) : db :=
  flat_map (fun x => map (pre (lits (t_path (snd x)))) (abs (snd x))) l.

Definition abs_wild (o : option tree) : db := match o with Some w => map (pre [W]) (abs w) | None => [] end.
Definition abs_catch (o : option tree) : db := match o with Some c => map (pre [C]) (here_entry c) | None => [] end.

Lemma abs_unfold (n : tree) :
  abs n = here_entry n ++ abs_statics (t_statics n) ++ abs_wild (t_wild n) ++ abs_catch (t_catch n).
Proof.
  destruct n as [p st w c vs ks b]. cbn [abs t_statics t_wild t_catch]. f_equal. f_equal.
  induction st as [|[d ch] r IH]; [reflexivity|]. cbn [abs_statics flat_map snd]. rewrite IH. reflexivity.
Qed.

Definition wf_statics (l : list (ascii * tree)) : bool :=
  forallb (fun x => starts_with (fst x) (t_path (snd x)) && wfb (snd x)) l.

Definition wf_wild (o : option tree) : bool := match o with Some w => wfb w | None => true end.
Definition wf_catch (n : tree) : bool :=
  match t_catch n with
  | Some c => is_leaf V c && negb (is_nil (t_vals c)) && str_eqb (last_key (t_keys c)) (t_path c)
              && (negb (is_nil (t_vals n)) || t_bt n)
  | None => true
  end.

Lemma wfb_unfold (n : tree) :
  wfb n = indices_distinct V (t_statics n) && (negb (is_nil (t_vals n)) || is_nil (t_keys n))
          && wf_statics (t_statics n) && wf_wild (t_wild n) && wf_catch n.
Proof.
  destruct n as [p st w c vs ks b]. unfold wf_catch. cbn [wfb t_statics t_wild t_catch t_vals t_keys t_bt].
  f_equal. f_equal. f_equal.
  induction st as [|[d ch] r IH]; [reflexivity|]. cbn [wf_statics forallb fst snd]. rewrite IH. reflexivity.
Qed.

Lemma deriv_here_entry t (n : tree) : deriv t (here_entry n) = [].
Proof. unfold here_entry. destruct (t_vals n); reflexivity. Qed.

Lemma starts_with_cons c s : starts_with c s = true -> exists r, s = c :: r.
Proof.
  destruct s as [|x r]; [discriminate|]. simpl. intro H. apply Ascii.eqb_eq in H. subst. eauto.
Qed.

Lemma heres_statics l : wf_statics l = true -> heres (abs_statics l) = [].
Proof.
  induction l as [|[d ch] r IH]; [reflexivity|]. cbn [wf_statics forallb fst snd]. intro H.
  apply andb_true_iff in H as [H Hr]. apply andb_true_iff in H as [Hs _].
  apply starts_with_cons in Hs as [p Hp]. cbn [abs_statics flat_map snd]. rewrite heres_app, Hp.
  cbn [lits map]. rewrite heres_pre_cons. apply IH. exact Hr.
Qed.

Lemma deriv_statics_nolit t l : (forall c, t <> L c) -> wf_statics l = true -> deriv t (abs_statics l) = [].
Proof.
  intro Ht. induction l as [|[d ch] r IH]; [reflexivity|]. cbn [wf_statics forallb fst snd]. intro H.
  apply andb_true_iff in H as [H Hr]. apply andb_true_iff in H as [Hs _].
  apply starts_with_cons in Hs as [p Hp]. cbn [abs_statics flat_map snd]. rewrite deriv_app, Hp.
  cbn [lits map]. rewrite deriv_pre_cons.
  assert (E : tok_eqb t (L d) = false).
  { destruct (tok_eqb t (L d)) eqn:E; [|reflexivity]. apply tok_eqb_eq in E. exfalso. eapply Ht. eassumption. }
  rewrite E. apply IH. exact Hr.
Qed.

Lemma deriv_statics_other c l :
  existsb (fun x : ascii * tree => Ascii.eqb c (fst x)) l = false -> wf_statics l = true ->
  deriv (L c) (abs_statics l) = [].
Proof.
  induction l as [|[d ch] r IH]; [reflexivity|]. cbn [existsb wf_statics forallb fst snd]. intros He H.
  apply orb_false_iff in He as [Hd He].
  apply andb_true_iff in H as [H Hr]. apply andb_true_iff in H as [Hs _].
  apply starts_with_cons in Hs as [p Hp]. cbn [abs_statics flat_map snd]. rewrite deriv_app, Hp.
  cbn [lits map]. rewrite deriv_pre_cons. cbn [tok_eqb]. rewrite Hd. apply IH; assumption.
Qed.

Lemma deriv_statics_lit c l :
  indices_distinct V l = true -> wf_statics l = true ->
  deriv (L c) (abs_statics l) =
  match find_static c l with
  | Some ch => map (pre (lits (tl (t_path ch)))) (abs ch)
  | None => []
  end.
Proof.
  induction l as [|[d ch] r IH]; [reflexivity|].
  cbn [indices_distinct wf_statics forallb fst snd find_static]. intros Hi H.
  apply andb_true_iff in Hi as [Hn Hi]. apply negb_true_iff in Hn.
  pose proof H as H0. apply andb_true_iff in H as [H Hr]. apply andb_true_iff in H as [Hs _].
  apply starts_with_cons in Hs as [p Hp]. cbn [abs_statics flat_map snd]. rewrite deriv_app, Hp.
  cbn [lits map tl]. rewrite deriv_pre_cons. cbn [tok_eqb].
  destruct (Ascii.eqb c d) eqn:E.
  - apply Ascii.eqb_eq in E. subst d. fold (abs_statics r). rewrite (deriv_statics_other c r Hn Hr).
    rewrite app_nil_r. rewrite Hp. reflexivity.
  - cbn [app]. apply IH; assumption.
Qed.

Lemma deriv_pre1 t t' (D : db) : deriv t (map (pre [t']) D) = if tok_eqb t t' then D else [].
Proof. rewrite deriv_pre_cons. rewrite pre_nil. reflexivity. Qed.

Lemma heres_pre1 t (D : db) : heres (map (pre [t]) D) = [].
Proof. apply heres_pre_cons. Qed.

Lemma abs_wild_deriv t o : deriv t (abs_wild o) = match t with W => match o with Some w => abs w | None => [] end | _ => [] end.
Proof. destruct o as [w|]; cbn [abs_wild]; [|destruct t; reflexivity]. rewrite deriv_pre1. destruct t; reflexivity. Qed.

Lemma abs_catch_deriv t o :
  deriv t (abs_catch o) = match t with C => match o with Some c => here_entry c | None => [] end | _ => [] end.
Proof. destruct o as [c|]; cbn [abs_catch]; [|destruct t; reflexivity]. rewrite deriv_pre1. destruct t; reflexivity. Qed.

Lemma heres_abs_wild o : heres (abs_wild o) = [].
Proof. destruct o; [apply heres_pre1 | reflexivity]. Qed.

Lemma heres_abs_catch o : heres (abs_catch o) = [].
Proof. destruct o; [apply heres_pre1 | reflexivity]. Qed.

(** the four derivatives of a well-formed node *)
Lemma here_abs (n : tree) : wf_statics (t_statics n) = true ->
  here (abs n) = match t_vals n with
                 | [] => None
                 | _ => Some {| vals := t_vals n; flag := t_bt n; keys := t_keys n |}
                 end.
Proof.
  intro H. unfold here. rewrite abs_unfold, !heres_app, (heres_statics _ H), heres_abs_wild, heres_abs_catch.
  unfold here_entry. destruct (t_vals n); reflexivity.
Qed.

Lemma deriv_L_abs c (n : tree) :
  indices_distinct V (t_statics n) = true -> wf_statics (t_statics n) = true ->
  deriv (L c) (abs n) = match find_static c (t_statics n) with
                        | Some ch => map (pre (lits (tl (t_path ch)))) (abs ch)
                        | None => []
                        end.
Proof.
  intros Hi H. rewrite abs_unfold, !deriv_app, deriv_here_entry, (deriv_statics_lit c _ Hi H),
    abs_wild_deriv, abs_catch_deriv. cbn [app]. rewrite !app_nil_r. reflexivity.
Qed.

Lemma deriv_W_abs (n : tree) : wf_statics (t_statics n) = true ->
  deriv W (abs n) = match t_wild n with Some w => abs w | None => [] end.
Proof.
  intro H. rewrite abs_unfold, !deriv_app, deriv_here_entry, (deriv_statics_nolit W _ ltac:(discriminate) H),
    abs_wild_deriv, abs_catch_deriv. cbn [app]. rewrite app_nil_r. reflexivity.
Qed.

Lemma deriv_C_abs (n : tree) : wf_statics (t_statics n) = true ->
  deriv C (abs n) = match t_catch n with Some c => here_entry c | None => [] end.
Proof.
  intro H. rewrite abs_unfold, !deriv_app, deriv_here_entry, (deriv_statics_nolit C _ ltac:(discriminate) H),
    abs_wild_deriv, abs_catch_deriv. reflexivity.
Qed.


(** ** findNode is the machine's search *)

Definition to_res (r : fres V) : res V :=
  match r with FFound v ks caps => RFound v ks caps | FNot _ bt => RNotFound bt end.

Lemma go_static fx1 fx2 fx5 (l : list (ascii * tree)) first path caps :
  (fix go (l : list (ascii * tree)) : fres V :=
     match l with
     | [] => FNot caps true
     | (d, child) :: r =>
       if Ascii.eqb first d then
         if is_prefix (t_path child) path
         then find_node fx1 fx2 fx5 m child (skipn (length (t_path child)) path) caps
         else FNot caps true
       else go r
     end) l
  = match find_static first l with
    | Some child => if is_prefix (t_path child) path
                    then find_node fx1 fx2 fx5 m child (skipn (length (t_path child)) path) caps
                    else FNot caps true
    | None => FNot caps true
    end.
Proof.
  induction l as [|[d ch] r IH]; [reflexivity|]. cbn [find_static]. destruct (Ascii.eqb first d); [reflexivity | exact IH].
Qed.

Lemma find_static_in c (l : list (ascii * tree)) ch : find_static c l = Some ch -> In (c, ch) l.
Proof.
  induction l as [|[d x] r IH]; cbn [find_static]; [discriminate|].
  destruct (Ascii.eqb c d) eqn:E; [|intro H; right; auto].
  apply Ascii.eqb_eq in E. subst d. intro H. inversion H. left. reflexivity.
Qed.

(** one step of [find_node] at a non-empty path, with the static child looked up *)
Lemma find_node_cons fx1 fx2 fx5 (n : tree) c rest caps :
  find_node fx1 fx2 fx5 m n (c :: rest) caps =
  let path := c :: rest in
  let st := match find_static c (t_statics n) with
            | Some child => if is_prefix (t_path child) path
                            then find_node fx1 fx2 fx5 m child (skipn (length (t_path child)) path) caps
                            else FNot caps true
            | None => FNot caps true
            end in
  match st with
  | FNot caps1 true =>
    let wl :=
      match t_wild n with
      | None => None
      | Some w =>
        let (seg, rest') := take_seg path in
        match seg with
        | [] => None
        | _ => match find_node fx1 fx2 fx5 m w rest' (caps1 ++ [seg]) with
               | FNot _ true => None
               | FNot _ false => Some (FNot [] false)
               | r => Some r
               end
        end
      end in
    match wl with
    | Some r => r
    | None =>
      match t_catch n with
      | None => FNot caps1 true
      | Some cc =>
        let accepts v := if fx2 then m v (t_keys cc) (caps1 ++ [path]) else m v (t_keys n) caps1 in
        match find accepts (t_vals cc) with
        | Some v => FFound v (t_keys cc) (caps1 ++ [path])
        | None => FNot caps1 (if fx1 then t_bt cc else t_bt n)
        end
      end
    end
  | r => r
  end.
Proof. destruct n as [p st w cc vs ks b]. cbn [find_node t_statics]. rewrite go_static. reflexivity. Qed.

Lemma find_node_nil fx1 fx2 fx5 (n : tree) caps :
  find_node fx1 fx2 fx5 m n [] caps =
  match t_vals n with
  | [] => FNot (if fx5 then caps else []) true
  | _ => match find (fun v => m v (t_keys n) caps) (t_vals n) with
         | Some v => FFound v (t_keys n) caps
         | None => FNot (if fx5 then caps else []) (t_bt n)
         end
  end.
Proof. destruct n. reflexivity. Qed.

Lemma parent_of_abs (n : tree) : wf_statics (t_statics n) = true ->
  (negb (is_nil (t_vals n)) || is_nil (t_keys n)) = true ->
  parent_keys (abs n) = t_keys n.
Proof.
  intros H Hk. unfold parent_keys. rewrite (here_abs n H). destruct (t_vals n); [|reflexivity].
  cbn in Hk. destruct (t_keys n); [reflexivity | discriminate].
Qed.

Lemma parent_flag_of_abs (n : tree) : wf_statics (t_statics n) = true ->
  (negb (is_nil (t_vals n)) || t_bt n) = true ->
  parent_flag (abs n) = t_bt n.
Proof.
  intros H Hb. unfold parent_flag. rewrite (here_abs n H). destruct (t_vals n); [|reflexivity].
  cbn in Hb. symmetry. exact Hb.
Qed.

Lemma here_here_entry (c : tree) : t_vals c <> [] ->
  here (here_entry c) = Some {| vals := t_vals c; flag := t_bt c; keys := t_keys c |}.
Proof. unfold here_entry. destruct (t_vals c); [congruence | reflexivity]. Qed.

Definition refines_at (fx : bool) (n : tree) : Prop :=
  forall path caps,
    to_res (find_node fx fx true m n path caps) = lookup (negb fx) (S (length path)) m (abs n) path caps
    /\ (forall caps', find_node fx fx true m n path caps = FNot caps' true -> caps' = caps).

Theorem find_refines fx : forall n : tree, wfb n = true -> refines_at fx n.
Proof.
  intro n. pattern n. apply tree_ind'. clear n.
  intros p st w cc vs ks b IHst IHw IHc Hwf path caps.
  set (n := Node p st w cc vs ks b) in *.
  rewrite wfb_unfold in Hwf. cbn [n t_statics t_wild t_vals t_keys] in Hwf.
  apply andb_true_iff in Hwf as [Hwf Hcc]. apply andb_true_iff in Hwf as [Hwf Hww].
  apply andb_true_iff in Hwf as [Hwf Hs]. apply andb_true_iff in Hwf as [Hi Hk].
  destruct path as [|c rest].
  - (* the path ends here *)
    rewrite find_node_nil. cbn [length]. rewrite lookup_nilpath. rewrite (here_abs n Hs). cbn [n t_vals t_keys t_bt vals keys flag].
    destruct vs as [|v0 vs']; [split; [reflexivity | intros caps' H; inversion H; reflexivity]|].
    cbn [vals keys flag].
    destruct (find _ (v0 :: vs')); [split; [reflexivity | discriminate]|].
    split; [reflexivity | intros caps' H; inversion H; reflexivity].
  - rewrite find_node_cons. cbn [length]. rewrite lookup_cons. cbv zeta.
    rewrite (deriv_L_abs c n Hi Hs), (deriv_W_abs n Hs), (deriv_C_abs n Hs).
    cbn [n t_statics t_wild t_catch t_vals t_keys t_bt].
    (* static child *)
    set (st_res := match find_static c st with
                   | Some child => if is_prefix (t_path child) (c :: rest)
                                   then find_node fx fx true m child (skipn (length (t_path child)) (c :: rest)) caps
                                   else FNot caps true
                   | None => FNot caps true
                   end).
    set (d1 := match find_static c st with
               | Some ch => map (pre (lits (tl (t_path ch)))) (abs ch)
               | None => []
               end).
    assert (HA : to_res st_res = (if is_nil d1 then RNotFound true else lookup (negb fx) (S (length rest)) m d1 rest caps)
                 /\ (forall caps', st_res = FNot caps' true -> caps' = caps)).
    { subst st_res d1. destruct (find_static c st) as [ch|] eqn:Ef;
        [|split; [reflexivity | intros caps' H; inversion H; reflexivity]].
      apply find_static_in in Ef.
      assert (IHch : wfb ch = true -> refines_at fx ch).
      { rewrite Forall_forall in IHst. apply (IHst (c, ch) Ef). }
      unfold wf_statics in Hs. rewrite forallb_forall in Hs. specialize (Hs (c, ch) Ef). cbn [fst snd] in Hs.
      apply andb_true_iff in Hs as [Hsw Hwch]. apply starts_with_cons in Hsw as [p' Hp'].
      specialize (IHch Hwch). rewrite Hp'. cbn [tl is_prefix length skipn]. rewrite Ascii.eqb_refl. cbn [andb].
      rewrite lookup_or_nil. rewrite lookup_lits by lia.
      destruct (is_prefix p' rest); [|split; [reflexivity | intros caps' H; inversion H; reflexivity]].
      destruct (IHch (skipn (length p') rest) caps) as [H1 H2]. split; [|exact H2].
      rewrite H1. apply lookup_fuel_irrel; pose proof (skipn_length (length p') rest); lia. }
    destruct HA as [HA HB]. rewrite <- HA. clear HA.
    destruct st_res as [v ks' caps'' | caps1 [|]]; cbn [to_res];
      [split; [reflexivity | discriminate] | | split; [reflexivity | discriminate]].
    specialize (HB caps1 eq_refl). subst caps1.
    (* single wildcard *)
    pose proof (take_seg_length_lt (c :: rest)) as Hl.
    destruct (take_seg (c :: rest)) as [seg rest'] eqn:Hts. cbn [fst snd] in Hl.
    set (wl := match w with
               | Some w0 => match seg with
                            | [] => None
                            | _ :: _ => match find_node fx fx true m w0 rest' (caps ++ [seg]) with
                                        | FNot _ true => None
                                        | FNot _ false => Some (FNot [] false)
                                        | r => Some r
                                        end
                            end
               | None => None
               end).
    fold wl.
    set (r2 := if is_nil match w with Some w0 => abs w0 | None => [] end then RNotFound true else _).
    assert (HW : match wl with Some r => r2 = to_res r /\ r2 <> RNotFound true | None => r2 = RNotFound true end).
    { subst wl r2. destruct w as [w0|]; [|reflexivity]. cbn [opt_P] in IHw. cbn [wf_wild] in Hww.
      destruct seg as [|x seg']; [destruct (is_nil (abs w0)); reflexivity|].
      rewrite lookup_or_nil.
      assert (Hlen : length rest' < length (c :: rest)) by (apply Hl; discriminate). cbn [length] in Hlen.
      destruct (IHw Hww rest' (caps ++ [x :: seg'])) as [H1 _].
      rewrite (lookup_fuel_irrel V m (negb fx) (S (length rest)) (S (length rest'))) by lia.
      set (R := lookup _ _ _ (abs w0) rest' _) in *. clearbody R. subst R.
      destruct (find_node fx fx true m w0 rest' _) as [v ks' caps''|caps'' [|]]; cbn [to_res].
      - split; [reflexivity | discriminate].
      - reflexivity.
      - split; [reflexivity | discriminate]. }
    clearbody wl r2.
    destruct wl as [r|].
    { destruct HW as [HW1 HW2]. rewrite HW1.
      destruct r as [v ks' caps''|caps'' [|]]; cbn [to_res] in *; [split; [reflexivity|discriminate] | congruence | split; [reflexivity|discriminate]]. }
    rewrite HW.
    (* free wildcard *)
    destruct cc as [cn|]; [|rewrite here_nil; split; [reflexivity | intros caps' H; inversion H; reflexivity]].
    unfold wf_catch in Hcc. cbn [n t_catch t_vals t_bt] in Hcc.
    apply andb_true_iff in Hcc as [Hcc Hfl]. apply andb_true_iff in Hcc as [Hcc _]. apply andb_true_iff in Hcc as [_ Hcv].
    assert (Hne : t_vals cn <> []) by (destruct (t_vals cn); [discriminate | discriminate]).
    rewrite (here_here_entry cn Hne). cbn [vals keys flag].
    rewrite (parent_of_abs n Hs Hk), (parent_flag_of_abs n Hs Hfl). cbn [n t_keys t_bt].
    assert (Hacc : forall v, (if fx then m v (t_keys cn) (caps ++ [c :: rest]) else m v ks caps)
                            = (if negb fx then m v ks caps else m v (t_keys cn) (caps ++ [c :: rest])))
      by (intro v; destruct fx; reflexivity).
    rewrite (find_ext _ _ (t_vals cn) Hacc).
    destruct (find _ (t_vals cn)); [split; [reflexivity | discriminate]|].
    split; [destruct fx; reflexivity | intros caps' H; inversion H; reflexivity].
Qed.

(** [Find] on a well-formed tree is the machine's [Find] on its abstraction *)
Corollary tree_find_refines fx (t : tree) path : wfb t = true ->
  tree_find fx fx true m t path = find_in (negb fx) (abs t) path m.
Proof.
  intro H. unfold tree_find, find_in, find_res. destruct (find_refines fx t H path []) as [H1 _].
  rewrite <- H1. destruct (find_node fx fx true m t path []); reflexivity.
Qed.

(** ** conditions that do not look at captures: the capture switches are invisible *)

Definition strip (r : fres V) : fres V :=
  match r with FFound v ks _ => FFound v ks [] | FNot _ b => FNot [] b end.

Hypothesis m_cond : cond_only m.

Definition caps_blind_at (fx1 fx2 fx5 fx2' fx5' : bool) (n : tree) : Prop :=
  forall path caps1 caps2,
    strip (find_node fx1 fx2 fx5 m n path caps1) = strip (find_node fx1 fx2' fx5' m n path caps2).

Lemma strip_found_inv r v ks caps : strip r = strip (FFound v ks caps) -> exists caps', r = FFound v ks caps'.
Proof. destruct r; simpl; intro H; inversion H; eauto. Qed.

Lemma strip_not_inv r caps b : strip r = strip (FNot caps b) -> exists caps', r = FNot caps' b.
Proof. destruct r; simpl; intro H; inversion H; eauto. Qed.

Theorem find_node_caps_blind fx1 fx2 fx5 fx2' fx5' : forall n : tree, caps_blind_at fx1 fx2 fx5 fx2' fx5' n.
Proof.
  intro n. pattern n. apply tree_ind'. clear n.
  intros p st w cc vs ks b IHst IHw IHc path caps1 caps2.
  set (n := Node p st w cc vs ks b) in *.
  destruct path as [|c rest].
  - rewrite !find_node_nil. cbn [n t_vals t_keys t_bt]. destruct vs as [|v0 vs']; [reflexivity|].
    rewrite (find_ext (fun v => m v ks caps1) (fun v => m v ks caps2)) by (intro v; apply m_cond).
    destruct (find _ (v0 :: vs')); reflexivity.
  - rewrite !find_node_cons. cbv zeta. cbn [n t_statics t_wild t_catch t_keys t_bt].
    (* static child *)
    set (s1 := match find_static c st with
               | Some child => if is_prefix (t_path child) (c :: rest)
                               then find_node fx1 fx2 fx5 m child (skipn (length (t_path child)) (c :: rest)) caps1
                               else FNot caps1 true
               | None => FNot caps1 true
               end).
    set (s2 := match find_static c st with
               | Some child => if is_prefix (t_path child) (c :: rest)
                               then find_node fx1 fx2' fx5' m child (skipn (length (t_path child)) (c :: rest)) caps2
                               else FNot caps2 true
               | None => FNot caps2 true
               end).
    assert (HS : strip s1 = strip s2).
    { subst s1 s2. destruct (find_static c st) as [ch|] eqn:Ef; [|reflexivity].
      apply find_static_in in Ef. rewrite Forall_forall in IHst. specialize (IHst (c, ch) Ef). cbn [snd] in IHst.
      destruct (is_prefix (t_path ch) (c :: rest)); [apply IHst | reflexivity]. }
    clearbody s1 s2.
    destruct s2 as [v2 ks2 cp2 | cp2 b2].
    { apply strip_found_inv in HS as [cp1 ->]. reflexivity. }
    apply strip_not_inv in HS as [cp1 ->]. destruct b2; [|reflexivity].
    (* single wildcard *)
    destruct (take_seg (c :: rest)) as [seg rest'].
    set (w1 := match w with
               | Some w0 => match seg with
                            | [] => None
                            | _ :: _ => match find_node fx1 fx2 fx5 m w0 rest' (cp1 ++ [seg]) with
                                        | FNot _ true => None
                                        | FNot _ false => Some (FNot [] false)
                                        | r => Some r
                                        end
                            end
               | None => None
               end).
    set (w2 := match w with
               | Some w0 => match seg with
                            | [] => None
                            | _ :: _ => match find_node fx1 fx2' fx5' m w0 rest' (cp2 ++ [seg]) with
                                        | FNot _ true => None
                                        | FNot _ false => Some (FNot [] false)
                                        | r => Some r
                                        end
                            end
               | None => None
               end).
    assert (HW : option_map strip w1 = option_map strip w2).
    { subst w1 w2. destruct w as [w0|]; [|reflexivity]. destruct seg as [|x seg']; [reflexivity|].
      cbn [opt_P] in IHw. specialize (IHw rest' (cp1 ++ [x :: seg']) (cp2 ++ [x :: seg'])).
      destruct (find_node fx1 fx2' fx5' m w0 rest' _) as [v2 ks2 cq2 | cq2 b2];
        destruct (find_node fx1 fx2 fx5 m w0 rest' _) as [v1 ks1 cq1 | cq1 b1];
        cbn [strip] in IHw; inversion IHw; subst; [reflexivity|]. destruct b2; reflexivity. }
    fold w1. fold w2. clearbody w1 w2.
    destruct w2 as [r2|]; destruct w1 as [r1|]; try discriminate; [cbn [option_map] in HW; inversion HW; reflexivity|].
    (* free wildcard *)
    destruct cc as [cn|]; [|reflexivity].
    rewrite (find_ext (fun v => if fx2 then m v (t_keys cn) (cp1 ++ [c :: rest]) else m v ks cp1)
                      (fun v => if fx2' then m v (t_keys cn) (cp2 ++ [c :: rest]) else m v ks cp2))
      by (intro v; destruct fx2, fx2'; apply m_cond).
    destruct (find _ (t_vals cn)); reflexivity.
Qed.

(** the pinned tree (no repair at all: before e897fef / 88da16a / 16cf34b) finds the value the
    pinned machine ([find_in true]) finds *)
Definition found_strip (f : found V) : option (V * list str) :=
  match f with Found v ks _ => Some (v, ks) | NoMatch => None end.

Theorem tree_as_is_refines (fx1 : bool) (t : tree) path : wfb t = true ->
  found_strip (tree_find fx1 false false m t path) = found_strip (find_in (negb fx1) (abs t) path m).
Proof.
  intro H. rewrite <- (tree_find_refines fx1 t path H). unfold tree_find.
  pose proof (find_node_caps_blind fx1 false false fx1 true t path [] []) as HB.
  destruct (find_node fx1 fx1 true m t path []) as [v ks cp | cp b].
  - apply strip_found_inv in HB as [cp' ->]. reflexivity.
  - apply strip_not_inv in HB as [cp' ->]. reflexivity.
Qed.

(** ** the abstraction of a well-formed tree is a machine state: one entry per
    expression, no empty entry *)

Lemma NoDup_app_intro {A} (l1 l2 : list A) :
  NoDup l1 -> NoDup l2 -> (forall x, In x l1 -> In x l2 -> False) -> NoDup (l1 ++ l2).
Proof.
  intros H1 H2 H. induction H1 as [|x r Hx Hr IH]; [exact H2|]. simpl. constructor.
  - intro Hin. apply in_app_or in Hin as [Hin|Hin]; [auto|]. apply (H x); [left; reflexivity | assumption].
  - apply IH. intros y Hy. apply H. right. assumption.
Qed.

Definition hd_tok (p : pat) : option tok := match p with [] => None | t :: _ => Some t end.

Lemma fst_pre q (D : db) : map fst (map (pre q) D) = map (app q) (map fst D).
Proof. rewrite !map_map. apply map_ext. intros [p a]. reflexivity. Qed.

Lemma NoDup_map_app (q : pat) (l : list pat) : NoDup l -> NoDup (map (app q) l).
Proof.
  intro H. apply FinFun.Injective_map_NoDup; [|exact H]. intros x y E. eapply app_inv_head. exact E.
Qed.

Lemma in_abs_statics_hd l e : wf_statics l = true -> In e (abs_statics l) ->
  exists d, hd_tok (fst e) = Some (L d) /\ existsb (fun x : ascii * tree => Ascii.eqb d (fst x)) l = true.
Proof.
  induction l as [|[d ch] r IH]; [intros _ []|]. cbn [wf_statics forallb fst snd]. intros H Hin.
  apply andb_true_iff in H as [H Hr]. apply andb_true_iff in H as [Hs _].
  apply starts_with_cons in Hs as [p' Hp]. cbn [abs_statics flat_map snd] in Hin.
  apply in_app_or in Hin as [Hin|Hin].
  - apply in_map_iff in Hin as ([q a] & <- & _). rewrite Hp. exists d. split; [reflexivity|].
    cbn [existsb fst]. rewrite Ascii.eqb_refl. reflexivity.
  - destruct (IH Hr Hin) as (d' & H1 & H2). exists d'. split; [assumption|]. cbn [existsb]. rewrite H2. apply orb_true_r.
Qed.

Lemma abs_statics_NoDup l :
  indices_distinct V l = true -> wf_statics l = true ->
  Forall (fun x => wfb (snd x) = true -> NoDup (map fst (abs (snd x)))) l ->
  NoDup (map fst (abs_statics l)).
Proof.
  induction l as [|[d ch] r IH]; [constructor|].
  cbn [indices_distinct wf_statics forallb fst snd]. intros Hi H HF.
  apply andb_true_iff in Hi as [Hn Hi]. apply negb_true_iff in Hn.
  apply andb_true_iff in H as [H Hr]. apply andb_true_iff in H as [Hs Hw].
  inversion HF as [|x l' Hch HFr]; subst. cbn [snd] in Hch.
  cbn [abs_statics flat_map snd]. rewrite map_app. apply NoDup_app_intro.
  - rewrite fst_pre. apply NoDup_map_app. auto.
  - apply IH; assumption.
  - intros q Hq1 Hq2. apply starts_with_cons in Hs as [p' Hp].
    apply in_map_iff in Hq1 as (e1 & <- & He1). apply in_map_iff in He1 as ([q1 a1] & <- & _).
    apply in_map_iff in Hq2 as (e2 & Heq & He2).
    destruct (in_abs_statics_hd r e2 Hr He2) as (d' & Hh & Hex).
    rewrite Heq in Hh. unfold pre in Hh. cbn [fst] in Hh. rewrite Hp in Hh. cbn in Hh. inversion Hh; subst d'.
    congruence.
Qed.

Lemma here_entry_NoDup (n : tree) : NoDup (map fst (here_entry n)).
Proof. unfold here_entry. destruct (t_vals n); simpl; repeat constructor. auto. Qed.

Lemma in_here_entry (n : tree) e : In e (here_entry n) -> fst e = [].
Proof. unfold here_entry. destruct (t_vals n); [intros [] | intros [<-|[]]; reflexivity]. Qed.

Theorem abs_NoDup : forall n : tree, wfb n = true -> NoDup (map fst (abs n)).
Proof.
  intro n. pattern n. apply tree_ind'. clear n.
  intros p st w cc vs ks b IHst IHw IHc Hwf.
  set (n := Node p st w cc vs ks b) in *.
  rewrite wfb_unfold in Hwf. cbn [n t_statics t_wild t_vals t_keys] in Hwf.
  apply andb_true_iff in Hwf as [Hwf Hcc]. apply andb_true_iff in Hwf as [Hwf Hww].
  apply andb_true_iff in Hwf as [Hwf Hs]. apply andb_true_iff in Hwf as [Hi Hk].
  rewrite abs_unfold. cbn [n t_statics t_wild t_catch]. rewrite !map_app.
  assert (Hhd_w : forall q, In q (map fst (abs_wild w)) -> hd_tok q = Some W).
  { intros q Hq. destruct w as [w0|]; [|destruct Hq]. cbn [abs_wild] in Hq. rewrite fst_pre in Hq.
    apply in_map_iff in Hq as (q' & <- & _). reflexivity. }
  assert (Hhd_c : forall q, In q (map fst (abs_catch cc)) -> hd_tok q = Some C).
  { intros q Hq. destruct cc as [c0|]; [|destruct Hq]. cbn [abs_catch] in Hq. rewrite fst_pre in Hq.
    apply in_map_iff in Hq as (q' & <- & _). reflexivity. }
  assert (Hhd_s : forall q, In q (map fst (abs_statics st)) -> exists d, hd_tok q = Some (L d)).
  { intros q Hq. apply in_map_iff in Hq as (e & <- & He). destruct (in_abs_statics_hd st e Hs He) as (d & H1 & _). eauto. }
  apply NoDup_app_intro; [apply here_entry_NoDup | |].
  - apply NoDup_app_intro; [apply abs_statics_NoDup; assumption | |].
    + apply NoDup_app_intro.
      * destruct w as [w0|]; [|constructor]. cbn [abs_wild]. rewrite fst_pre. apply NoDup_map_app. apply IHw. exact Hww.
      * destruct cc as [c0|]; [|constructor]. cbn [abs_catch]. rewrite fst_pre. apply NoDup_map_app. apply here_entry_NoDup.
      * intros q H1 H2. apply Hhd_w in H1. apply Hhd_c in H2. congruence.
    + intros q H1 H2. apply Hhd_s in H1 as [d H1]. apply in_app_or in H2 as [H2|H2];
        [apply Hhd_w in H2 | apply Hhd_c in H2]; congruence.
  - intros q H1 H2. apply in_map_iff in H1 as (e & <- & He). apply in_here_entry in He. rewrite He in H2.
    apply in_app_or in H2 as [H2|H2]; [apply Hhd_s in H2 as [d H2]; discriminate|].
    apply in_app_or in H2 as [H2|H2]; [apply Hhd_w in H2 | apply Hhd_c in H2]; discriminate.
Qed.

Lemma nonempty_pre q (D : db) : nonempty_db V D -> nonempty_db V (map (pre q) D).
Proof. unfold nonempty_db. intro H. apply Forall_map. eapply Forall_impl; [|exact H]. intros [p' a] Ha. exact Ha. Qed.

Lemma here_entry_nonempty (n : tree) : nonempty_db V (here_entry n).
Proof. unfold here_entry, nonempty_db. destruct (t_vals n) eqn:E; constructor; [|constructor]. cbn [snd vals]. discriminate. Qed.

Theorem abs_nonempty : forall n : tree, nonempty_db V (abs n).
Proof.
  intro n. pattern n. apply tree_ind'. clear n.
  intros p st w cc vs ks b IHst IHw IHc. rewrite abs_unfold. cbn [t_statics t_wild t_catch].
  unfold nonempty_db. apply Forall_app; split; [apply here_entry_nonempty|].
  apply Forall_app; split.
  - induction IHst as [|x r Hx Hr IH]; [constructor|]. cbn [abs_statics flat_map]. apply Forall_app; split; [|exact IH].
    apply nonempty_pre. exact Hx.
  - apply Forall_app; split.
    + destruct w as [w0|]; [|constructor]. apply nonempty_pre. exact IHw.
    + destruct cc as [c0|]; [|constructor]. apply nonempty_pre. apply here_entry_nonempty.
Qed.

End Refine.
