(** Radix/Load.v — what surrounds a lookup (C02, C06):

    - [load]: a sequence of [Add]s applied to the empty index (a failed [Add]
      leaves the index unchanged);
    - [group_node]: the node an expression ends up with, computed from the
      [Add]s of THAT expression alone (used to state order independence);
    - [guard_F1]: the inputs on which finding C02-F1 can show;
    - [cond_only]: matchers that do not look at key names / captures
      (scheme, method and host conditions; path_params conditions are C03's).

    Definitions only; the proofs are in Radix/LoadProofs.v. *)
From HV Require Import Base.Prelude Radix.Spec Radix.Machine.

Section Load.
Variable V : Type.
Variable can_add : list V -> V -> bool.
Notation node := (node V).
Notation db := (db V).
Notation matcher := (matcher V).

(** one [Add]: the expression as written, the value, the WithBacktracking option *)
Record addop := { ao_expr : str; ao_val : V; ao_bt : bool }.

Definition step (d : db) (a : addop) : db :=
  match add_expr can_add d (ao_expr a) (ao_val a) (ao_bt a) with
  | AOk d' => d'
  | _ => d
  end.

Definition load_from (d : db) (l : list addop) : db := fold_left step l d.
Definition load (l : list addop) : db := load_from [] l.

(** the results of the [Add]s, for the correspondence check *)
Fixpoint load_results (d : db) (l : list addop) : list (aresult V) :=
  match l with
  | [] => []
  | a :: r =>
    let res := add_expr can_add d (ao_expr a) (ao_val a) (ao_bt a) in
    res :: load_results (step d a) r
  end.

(** the entry of an expression *)
Fixpoint assoc {A} (p : pat) (d : list (pat * A)) : option A :=
  match d with
  | [] => None
  | (q, a) :: r => if pat_eqb p q then Some a else assoc p r
  end.

(** ** The node of one expression, from its own [Add]s.
    [upd o ks v bt]: what an [Add] ending at pattern [p] with key names [ks]
    does to that expression's node ([None] = not loaded). *)
Definition upd (p : pat) (o : option node) (ks : list str) (v : V) (bt : bool) : option node :=
  match o with
  | None => if can_add [] v then Some {| vals := [v]; flag := bt; keys := ks |} else None
  | Some n =>
    match merge_keys p n ks with
    | None => Some n
    | Some ks' => if can_add (vals n) v
                  then Some {| vals := vals n ++ [v]; flag := bt; keys := ks' |}
                  else Some n
    end
  end.

(** the [Add]s that end at pattern [p] *)
Definition targets (p : pat) (a : addop) : bool :=
  match parse_expr (ao_expr a) with
  | Some (q, _) => pat_eqb p q
  | None => false
  end.

Definition upd_op (p : pat) (o : option node) (a : addop) : option node :=
  match parse_expr (ao_expr a) with
  | Some (_, ks) => upd p o ks (ao_val a) (ao_bt a)
  | None => o
  end.

Definition group_node (p : pat) (l : list addop) : option node :=
  fold_left (upd_op p) (filter (targets p) l) None.

(** two sequences of [Add]s that differ only in how the [Add]s of different
    expressions are interleaved *)
Definition same_groups (l l' : list addop) : Prop :=
  forall p, filter (targets p) l = filter (targets p) l'.

(** ** Matchers that only look at the value *)
Definition cond_only (m : matcher) : Prop :=
  forall v ks cs ks' cs', m v ks cs = m v ks' cs'.

(** ** Finding C02-F1.  When no value of a free-wildcard expression  q/**  is
    acceptable, [findNode] decides whether the search may go on with the flag
    of the PARENT node (the node of expression  q/ ): that node's own flag if it
    holds values, [true] otherwise.  The finding can show only if some loaded
    free-wildcard expression matches the path, none of its values is
    acceptable, and its flag differs from that parent flag. *)

Fixpoint ends_C (p : pat) : bool :=
  match p with
  | [] => false
  | C :: [] => true
  | _ :: r => ends_C r
  end.

Fixpoint butlast (p : pat) : pat :=
  match p with
  | [] => []
  | _ :: [] => []
  | t :: r => t :: butlast r
  end.

(** the flag [findNode] reads at the node of expression [q] *)
Definition pflag (d : db) (q : pat) : bool :=
  match assoc q d with
  | Some n => match vals n with [] => true | _ => flag n end
  | None => true
  end.

Definition none_ok (m : matcher) (n : node) : bool :=
  forallb (fun v => negb (m v [] [])) (vals n).

Definition guard_F1_entry (m : matcher) (d : db) (path : str) (e : pat * node) : bool :=
  ends_C (fst e) && matchesb (fst e) path && none_ok m (snd e)
  && negb (Bool.eqb (flag (snd e)) (pflag d (butlast (fst e)))).

Definition guard_F1 (d : db) (path : str) (m : matcher) : bool :=
  existsb (guard_F1_entry m d path) d.

End Load.

Arguments ao_expr {V}.
Arguments ao_val {V}.
Arguments ao_bt {V}.
Arguments step {V}.
Arguments load_from {V}.
Arguments load {V}.
Arguments load_results {V}.
Arguments assoc {A}.
Arguments upd {V}.
Arguments targets {V}.
Arguments upd_op {V}.
Arguments group_node {V}.
Arguments same_groups {V}.
Arguments cond_only {V}.
Arguments pflag {V}.
Arguments none_ok {V}.
Arguments guard_F1_entry {V}.
Arguments guard_F1 {V}.

(** ** The backtracking flag of an expression, as the property states it.

    Every rule carries its own  backtracking_enabled ; several rules (of one rule set) may
    share a path expression.  "A less specific expression is tried only if backtracking is
    enabled for the failed one": when the expression fails, EVERY rule on it has failed, and
    "a less specific rule [that] fails to match and does not permit backtracking" stops the
    search (regular_rule.adoc).  So the flag of an expression is the conjunction of the flags
    of its values.  The index keeps ONE flag per node, the one of the last Add (finding
    C02-F2 = C06-F2 seen from C02). *)

Section SpecFlag.
Variable V : Type.
Variable vflag : V -> bool.        (* the backtracking_enabled of the rule a value belongs to *)
Notation node := (node V).
Notation db := (db V).
Notation matcher := (matcher V).

Definition spec_flag (n : node) : bool := forallb vflag (vals n).

Definition respec_node (n : node) : node := {| vals := vals n; flag := spec_flag n; keys := keys n |}.

(** the index content with every expression's flag as the property states it *)
Definition respec (d : db) : db := map (fun e => (fst e, respec_node (snd e))) d.

(** the expression matches the path and none of its values is acceptable *)
Definition fails_at (m : matcher) (path : str) (e : pat * node) : bool :=
  match match_pat (fst e) path with
  | Some caps => forallb (fun v => negb (m v (keys (snd e)) caps)) (vals (snd e))
  | None => false
  end.

(** finding C02-F2 can show only if some loaded expression matches the path, none of its
    values is acceptable, and the node's flag is not the conjunction of its values' flags *)
Definition guard_F2_entry (m : matcher) (path : str) (e : pat * node) : bool :=
  fails_at m path e && negb (Bool.eqb (flag (snd e)) (spec_flag (snd e))).

Definition guard_F2 (d : db) (path : str) (m : matcher) : bool :=
  existsb (guard_F2_entry m path) d.

(** every Add passes the flag of its value's rule (repository.addRulesTo) *)
Definition flags_from_values (l : list (addop V)) : Prop :=
  forall a, In a l -> ao_bt a = vflag (ao_val a).

Definition last_opt (l : list V) : option V :=
  match rev l with v :: _ => Some v | [] => None end.

End SpecFlag.

Arguments spec_flag {V}.
Arguments respec_node {V}.
Arguments respec {V}.
Arguments fails_at {V}.
Arguments guard_F2_entry {V}.
Arguments guard_F2 {V}.
Arguments flags_from_values {V}.
Arguments last_opt {V}.
