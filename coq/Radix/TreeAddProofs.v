(** Radix/TreeAddProofs.v — stage 2, Add side: [add_node] (the transcription of
    tree.go's addNode + splitCommonPrefix + Add) preserves the shape invariant [wfb]
    and does, on the abstraction of the tree, exactly what the pattern-map machine's
    [add] does with the parsed expression:

      [tree_add_refines]   results of the same kind; on success [wfb] is preserved and
                           [abs] of the new tree has the entries of the machine's new index
      [tload_refines]      hence, for every sequence of Adds, the tree built by the
                           compressed-tree code and the machine's index hold the same entries *)
From HV Require Import Base.Prelude Radix.Spec Radix.SpecProofs Radix.Machine Radix.MachineProofs
  Radix.Load Radix.LoadProofs Radix.Tree Radix.TreeProofs.
From Coq Require Import Permutation.

(** ** strings *)

Lemma is_prefix_app a b : is_prefix a b = true -> b = a ++ skipn (length a) b.
Proof.
  revert b. induction a as [|x r IH]; intros b H; [reflexivity|].
  destruct b as [|y s]; [discriminate|]. simpl in H. apply andb_true_iff in H as [H1 H2].
  apply Ascii.eqb_eq in H1. subst y. simpl. f_equal. apply IH. exact H2.
Qed.

Lemma is_prefix_refl_app a b : is_prefix a (a ++ b) = true.
Proof. induction a as [|x r IH]; [reflexivity|]. simpl. rewrite Ascii.eqb_refl. exact IH. Qed.

Lemma skipn_app_exact {A} (a b : list A) : skipn (length a) (a ++ b) = b.
Proof. induction a; [reflexivity | assumption]. Qed.

Lemma firstn_app_exact {A} (a b : list A) : firstn (length a) (a ++ b) = a.
Proof. induction a as [|x r IH]; [reflexivity|]. simpl. rewrite IH. reflexivity. Qed.

(** the common prefix of two strings *)
Lemma common_prefix_spec a : forall b,
  let i := common_prefix_len a b in
  firstn i a = firstn i b /\
  match skipn i a, skipn i b with
  | x :: _, y :: _ => Ascii.eqb x y = false
  | _, _ => True
  end.
Proof.
  induction a as [|x r IH]; intro b; [split; [destruct b; reflexivity | exact I]|].
  destruct b as [|y s]; [split; [reflexivity | exact I]|].
  simpl. destruct (Ascii.eqb x y) eqn:E.
  - apply Ascii.eqb_eq in E. subst y. destruct (IH s) as [H1 H2]. simpl. split; [f_equal; exact H1 | exact H2].
  - simpl. split; [reflexivity | exact E].
Qed.

Lemma common_prefix_le a : forall b, common_prefix_len a b <= length a /\ common_prefix_len a b <= length b.
Proof.
  induction a as [|x r IH]; intro b; [simpl; lia|]. destruct b as [|y s]; [simpl; lia|].
  simpl. destruct (Ascii.eqb x y); [|simpl; lia]. destruct (IH s). simpl. lia.
Qed.

Lemma common_prefix_pos x r s : 1 <= common_prefix_len (x :: r) (x :: s).
Proof. simpl. rewrite Ascii.eqb_refl. lia. Qed.

(** not a prefix: the common prefix is shorter than the first string *)
Lemma not_prefix_common a : forall b, is_prefix a b = false -> common_prefix_len a b < length a.
Proof.
  induction a as [|x r IH]; intros b H; [discriminate|]. destruct b as [|y s]; [simpl; lia|].
  simpl in *. destruct (Ascii.eqb x y); [|lia]. simpl in H. specialize (IH s H). lia.
Qed.

(** ** the first token of a path, as addNode cuts it *)

Lemma index_slash_take_seg s :
  let k := match index_slash s with Some k => k | None => length s end in
  firstn k s = fst (take_seg s) /\ skipn k s = snd (take_seg s).
Proof.
  induction s as [|c r IH]; [split; reflexivity|].
  simpl. destruct (Ascii.eqb c ch_slash) eqn:E; [split; reflexivity|].
  destruct (index_slash r) as [k|]; simpl in *; destruct (take_seg r) as [a b]; simpl in *;
    destruct IH as [H1 H2]; split; congruence.
Qed.

Lemma index_slash_none s : index_slash s = None <-> has_slash s = false.
Proof.
  induction s as [|c r IH]; [simpl; tauto|]. simpl. destruct (Ascii.eqb c ch_slash); simpl.
  - split; discriminate.
  - destruct (index_slash r); simpl; [split; [discriminate | intro H; apply IH in H; discriminate] | tauto].
Qed.

Lemma has_slash_app a b : has_slash (a ++ b) = has_slash a || has_slash b.
Proof. induction a as [|x r IH]; [reflexivity|]. simpl. rewrite IH. apply orb_assoc. Qed.

(** ** [parse_go], token-wise *)

Definition parse2 (md : pmode) (s : str) : option (pat * list str) :=
  match parse_go md s with Some (p, _, ks) => Some (p, ks) | None => None end.

Definition on_parse (f : pat -> pat) (g : list str -> list str) (o : option (pat * list str)) : option (pat * list str) :=
  match o with Some (p, ks) => Some (f p, g ks) | None => None end.

Lemma parse2_nil md : parse2 md [] = Some ([], []).
Proof. reflexivity. Qed.

Lemma parse2_slash md r : parse2 md (ch_slash :: r) = on_parse (cons (L ch_slash)) (fun ks => ks) (parse2 SegStart r).
Proof. unfold parse2. cbn [parse_go]. change (Ascii.eqb ch_slash ch_slash) with true. cbv iota.
  destruct (parse_go SegStart r) as [[[p c] ks]|]; reflexivity. Qed.

(** literal bytes inside a segment *)
Lemma parse2_inseg a : forall b, has_slash a = false ->
  parse2 InSeg (a ++ b) = on_parse (app (lits a)) (fun ks => ks) (parse2 InSeg b).
Proof.
  induction a as [|x r IH]; intros b H.
  - simpl. destruct (parse2 InSeg b) as [[p ks]|]; reflexivity.
  - simpl in H. apply orb_false_iff in H as [Hx Hr]. unfold parse2 in *. cbn [app parse_go]. rewrite Hx.
    specialize (IH b Hr). destruct (parse_go InSeg (r ++ b)) as [[[p c] ks]|];
      destruct (parse_go InSeg b) as [[[p' c'] ks']|]; simpl in *; try discriminate; try reflexivity.
    inversion IH; subst. reflexivity.
Qed.

(** in [InSeg] mode a leading '/' or the end behave as everywhere *)
Lemma parse2_inseg_segstart_end b : seg_end b -> parse2 InSeg b = parse2 SegStart b.
Proof. intros [->|[r ->]]; [reflexivity|]. rewrite !parse2_slash. reflexivity. Qed.

(** a segment that starts with an ordinary byte *)
Lemma parse2_segstart_plain c s :
  Ascii.eqb c ch_slash = false -> Ascii.eqb c ch_star = false -> Ascii.eqb c ch_colon = false ->
  (Ascii.eqb c ch_bslash = false \/ match s with c2 :: _ => is_special c2 = false | [] => True end) ->
  parse2 SegStart (c :: s) = parse2 InSeg (c :: s).
Proof.
  intros H1 H2 H3 H4. unfold parse2. cbn [parse_go]. rewrite H1, H2, H3.
  destruct (Ascii.eqb c ch_bslash) eqn:Eb; [|reflexivity].
  destruct H4 as [H4|H4]; [discriminate|]. destruct s as [|c2 s2]; [reflexivity|]. rewrite H4. reflexivity.
Qed.

(** an escaped first byte *)
Lemma parse2_segstart_escape c2 s : is_special c2 = true ->
  parse2 SegStart (ch_bslash :: c2 :: s) = on_parse (cons (L c2)) (fun ks => ks) (parse2 InSeg s).
Proof.
  intro H. unfold parse2. cbn [parse_go]. change (Ascii.eqb ch_bslash ch_slash) with false. cbv iota.
  change (Ascii.eqb ch_bslash ch_star) with false. change (Ascii.eqb ch_bslash ch_colon) with false.
  rewrite Ascii.eqb_refl, H. destruct (parse_go InSeg s) as [[[p c] ks]|]; reflexivity.
Qed.

(** a wildcard name *)
Lemma parse_go_inname name : forall rest, has_slash name = false -> seg_end rest ->
  parse_go InName (name ++ rest) =
  match parse_go SegStart rest with Some (p, _, ks) => Some (p, name, ks) | None => None end.
Proof.
  induction name as [|x r IH]; intros rest H He.
  - simpl. destruct He as [->|[r' ->]]; [reflexivity|].
    cbn [parse_go]. change (Ascii.eqb ch_slash ch_slash) with true. cbv iota.
    destruct (parse_go SegStart r') as [[[p c] ks]|]; reflexivity.
  - simpl in H. apply orb_false_iff in H as [Hx Hr]. cbn [app parse_go]. rewrite Hx. rewrite (IH rest Hr He).
    destruct (parse_go SegStart rest) as [[[p c] ks]|]; reflexivity.
Qed.

Lemma parse2_segstart_colon name rest : has_slash name = false -> seg_end rest ->
  parse2 SegStart (ch_colon :: name ++ rest) = on_parse (cons W) (cons name) (parse2 SegStart rest).
Proof.
  intros H He. unfold parse2. cbn [parse_go]. change (Ascii.eqb ch_colon ch_slash) with false. cbv iota.
  change (Ascii.eqb ch_colon ch_star) with false. rewrite Ascii.eqb_refl. rewrite (parse_go_inname name rest H He).
  destruct (parse_go SegStart rest) as [[[p c] ks]|]; reflexivity.
Qed.

Lemma parse2_segstart_star r :
  parse2 SegStart (ch_star :: r) = if has_slash r then None else Some ([C], [r]).
Proof.
  unfold parse2. cbn [parse_go]. change (Ascii.eqb ch_star ch_slash) with false. cbv iota.
  rewrite Ascii.eqb_refl. destruct (has_slash r); reflexivity.
Qed.

(** ** entries of composed indexes *)

Section Assoc.
Variable V : Type.
Notation node := (node V).
Notation db := (db V).

Fixpoint strip_prefix (q r : pat) : option pat :=
  match q, r with
  | [], _ => Some r
  | a :: q', b :: r' => if tok_eqb a b then strip_prefix q' r' else None
  | _ :: _, [] => None
  end.

Lemma tok_eqb_sym_ a b : tok_eqb a b = tok_eqb b a.
Proof. destruct a, b; simpl; try reflexivity. apply Ascii.eqb_sym. Qed.

Lemma pat_eqb_app_strip q : forall r p,
  pat_eqb r (q ++ p) = match strip_prefix q r with Some r' => pat_eqb r' p | None => false end.
Proof.
  induction q as [|a q IH]; intros r p; [reflexivity|]. destruct r as [|b r]; [reflexivity|].
  cbn [app strip_prefix]. rewrite pat_eqb_cons. rewrite (tok_eqb_sym_ b a). destruct (tok_eqb a b); [apply IH | reflexivity].
Qed.

Lemma assoc_app {A} r (l1 l2 : list (pat * A)) :
  assoc r (l1 ++ l2) = match assoc r l1 with Some a => Some a | None => assoc r l2 end.
Proof.
  induction l1 as [|[p a] l1 IH]; [reflexivity|]. cbn [app assoc]. destruct (pat_eqb r p); [reflexivity | exact IH].
Qed.

Lemma assoc_pre q (D : db) r :
  assoc r (map (pre q) D) = match strip_prefix q r with Some r' => assoc r' D | None => None end.
Proof.
  induction D as [|[p a] D IH]; [destruct (strip_prefix q r); reflexivity|].
  cbn [map assoc]. unfold pre at 1. cbn [fst snd]. rewrite pat_eqb_app_strip, IH.
  destruct (strip_prefix q r); reflexivity.
Qed.

(** [d'] is [d] with the entry of [q] replaced by [x] *)
Definition updated (d d' : db) (q : pat) (x : option node) : Prop :=
  forall r, assoc r d' = if pat_eqb r q then x else assoc r d.

Definition same_entries (d d' : db) : Prop := forall r, assoc r d = assoc r d'.

Lemma updated_nil (d d' : db) x :
  here d' = x -> (forall t, same_entries (deriv t d) (deriv t d')) -> updated d d' [] x.
Proof.
  intros Hh Hd r. destruct r as [|t r]; [rewrite assoc_nil_here; exact Hh|].
  change (pat_eqb (t :: r) []) with false. rewrite <- !assoc_deriv. symmetry. apply Hd.
Qed.

Lemma updated_cons (d d' : db) t q x :
  here d' = here d ->
  (forall t', tok_eqb t' t = false -> same_entries (deriv t' d) (deriv t' d')) ->
  updated (deriv t d) (deriv t d') q x ->
  updated d d' (t :: q) x.
Proof.
  intros Hh Hd Hu r. destruct r as [|t0 r]; [rewrite !assoc_nil_here; exact Hh|].
  rewrite pat_eqb_cons, <- !assoc_deriv. destruct (tok_eqb t0 t) eqn:E; cbn [andb].
  - apply tok_eqb_eq in E. subst t0. apply Hu.
  - symmetry. apply Hd. exact E.
Qed.

Lemma updated_pre s (D D' : db) q x :
  updated D D' q x -> updated (map (pre s) D) (map (pre s) D') (s ++ q) x.
Proof.
  intros H r. rewrite !assoc_pre, pat_eqb_app_strip. destruct (strip_prefix s r) as [r'|]; [apply H | reflexivity].
Qed.

Lemma same_entries_refl (d : db) : same_entries d d.
Proof. intro r. reflexivity. Qed.

Lemma updated_same_l (d1 d2 d' : db) q x : same_entries d1 d2 -> updated d2 d' q x -> updated d1 d' q x.
Proof. intros H Hu r. rewrite (Hu r), (H r). reflexivity. Qed.

End Assoc.

(** ** what the machine's [add] does, by cases *)

Section Kinds.
Variable V : Type.
Variable can_add : list V -> V -> bool.
Notation node := (node V).
Notation db := (db V).

Definition merge_keys' (isc : bool) (n : node) (ks : list str) : option (list str) :=
  if isc then
    if str_eqb (last_key ks) (last_key (keys n)) && (is_nil (keys n) || keys_eqb (keys n) ks)
    then Some ks else None
  else
    match ks with
    | [] => Some (keys n)
    | _ => if is_nil (keys n) || keys_eqb (keys n) ks then Some ks else None
    end.

Definition upd' (isc : bool) (o : option node) (ks : list str) (v : V) (bt : bool) : option node :=
  match o with
  | None => if can_add [] v then Some {| vals := [v]; flag := bt; keys := ks |} else None
  | Some n =>
    match merge_keys' isc n ks with
    | None => Some n
    | Some ks' => if can_add (vals n) v
                  then Some {| vals := vals n ++ [v]; flag := bt; keys := ks' |}
                  else Some n
    end
  end.

Lemma upd_eq p o ks v bt : upd can_add p o ks v bt = upd' (ends_catchall p) o ks v bt.
Proof. reflexivity. Qed.

Inductive kind := KOk | KInvalid | KConstraint.

Definition add_kind (isc : bool) (o : option node) (ks : list str) (v : V) : kind :=
  match o with
  | None => if can_add [] v then KOk else KConstraint
  | Some n =>
    match merge_keys' isc n ks with
    | None => KInvalid
    | Some _ => if can_add (vals n) v then KOk else KConstraint
    end
  end.

Definition akind (r : aresult V) : kind :=
  match r with AOk _ => KOk | AInvalidPath => KInvalid | AConstraint => KConstraint end.

Lemma add_kind_machine (d : db) p ks v bt :
  akind (add can_add d p ks v bt) = add_kind (ends_catchall p) (assoc p d) ks v.
Proof.
  induction d as [|[q n] r IH]; cbn [add assoc].
  - unfold add_kind. destruct (can_add [] v); reflexivity.
  - destruct (pat_eqb p q).
    + unfold add_kind. change (merge_keys p n ks) with (merge_keys' (ends_catchall p) n ks).
      destruct (merge_keys' (ends_catchall p) n ks); [|reflexivity]. destruct (can_add (vals n) v); reflexivity.
    + rewrite <- IH. destruct (add can_add r p ks v bt); reflexivity.
Qed.

Lemma ends_C_snoc p t : ends_C (p ++ [t]) = match t with C => true | _ => false end.
Proof.
  induction p as [|a p IH]; [destruct t; reflexivity|].
  cbn [app]. destruct p as [|b p']; [destruct a, t; reflexivity|].
  change (ends_C (a :: (b :: p') ++ [t])) with (match a with C => ends_C ((b :: p') ++ [t]) | _ => ends_C ((b :: p') ++ [t]) end).
  destruct a; exact IH.
Qed.

Lemma ends_catchall_C p : ends_catchall p = ends_C p.
Proof.
  destruct p as [|a p] using rev_ind; [reflexivity|]. unfold ends_catchall. rewrite rev_app_distr, ends_C_snoc.
  destruct a; reflexivity.
Qed.

Lemma ends_C_cons_notC t q : t <> C -> ends_C (t :: q) = ends_C q.
Proof. intro H. destruct t; [| |congruence]; destruct q; reflexivity. Qed.

End Kinds.

(** ** static children *)

Section Statics.
Variable V : Type.
Notation tree := (tree V).

Lemma find_static_replace c0 c (t' : tree) l :
  find_static c0 (replace_static V c t' l) =
  if Ascii.eqb c0 c then match find_static c l with Some _ => Some t' | None => None end
  else find_static c0 l.
Proof.
  induction l as [|[d x] r IH]; [destruct (Ascii.eqb c0 c); reflexivity|].
  cbn [replace_static find_static]. destruct (Ascii.eqb c d) eqn:Ecd.
  - apply Ascii.eqb_eq in Ecd. subst d. cbn [find_static]. destruct (Ascii.eqb c0 c); reflexivity.
  - cbn [find_static]. destruct (Ascii.eqb c0 d) eqn:E0d.
    + apply Ascii.eqb_eq in E0d. subst d. rewrite (Ascii.eqb_sym c0 c), Ecd. reflexivity.
    + exact IH.
Qed.

Lemma map_fst_replace c (t' : tree) l : map fst (replace_static V c t' l) = map fst l.
Proof.
  induction l as [|[d x] r IH]; [reflexivity|]. cbn [replace_static]. destruct (Ascii.eqb c d); cbn [map fst]; [reflexivity|].
  rewrite IH. reflexivity.
Qed.

Fixpoint idx_distinct (l : list ascii) : bool :=
  match l with
  | [] => true
  | c :: r => negb (existsb (Ascii.eqb c) r) && idx_distinct r
  end.

Lemma indices_distinct_idx (l : list (ascii * tree)) : indices_distinct V l = idx_distinct (map fst l).
Proof.
  induction l as [|[d x] r IH]; [reflexivity|]. cbn [indices_distinct map fst idx_distinct]. rewrite IH. f_equal. f_equal.
  clear. induction r as [|[e y] r IH]; [reflexivity|]. cbn [existsb map fst]. rewrite IH. reflexivity.
Qed.

Lemma indices_distinct_replace c (t' : tree) l : indices_distinct V (replace_static V c t' l) = indices_distinct V l.
Proof. rewrite !indices_distinct_idx, map_fst_replace. reflexivity. Qed.

Lemma wf_statics_replace c (t' : tree) l :
  wf_statics V l = true -> starts_with c (t_path t') = true -> wfb t' = true ->
  wf_statics V (replace_static V c t' l) = true.
Proof.
  intros H Hs Hw. induction l as [|[d x] r IH]; [reflexivity|]. cbn [wf_statics forallb fst snd] in H.
  apply andb_true_iff in H as [H Hr]. cbn [replace_static]. destruct (Ascii.eqb c d) eqn:E.
  - apply Ascii.eqb_eq in E. subst d. cbn [wf_statics forallb fst snd]. rewrite Hs, Hw. exact Hr.
  - cbn [wf_statics forallb fst snd]. rewrite H. apply IH. exact Hr.
Qed.

Lemma find_static_app c (l1 l2 : list (ascii * tree)) :
  find_static c (l1 ++ l2) = match find_static c l1 with Some t => Some t | None => find_static c l2 end.
Proof.
  induction l1 as [|[d x] r IH]; [reflexivity|]. cbn [app find_static]. destruct (Ascii.eqb c d); [reflexivity | exact IH].
Qed.

Lemma find_static_none_exists c (l : list (ascii * tree)) :
  find_static c l = None -> existsb (Ascii.eqb c) (map fst l) = false.
Proof.
  induction l as [|[d x] r IH]; [reflexivity|]. cbn [find_static map fst existsb].
  destruct (Ascii.eqb c d); [discriminate|]. exact IH.
Qed.

Lemma idx_distinct_snoc l c : idx_distinct l = true -> existsb (Ascii.eqb c) l = false -> idx_distinct (l ++ [c]) = true.
Proof.
  induction l as [|d r IH]; [reflexivity|]. cbn [idx_distinct existsb app]. intros H He.
  apply andb_true_iff in H as [H1 H2]. apply orb_false_iff in He as [He1 He2].
  rewrite existsb_app. cbn [existsb]. apply negb_true_iff in H1. rewrite H1. rewrite (Ascii.eqb_sym d c), He1. cbn.
  apply IH; assumption.
Qed.

Lemma indices_distinct_snoc (l : list (ascii * tree)) c t' :
  indices_distinct V l = true -> find_static c l = None -> indices_distinct V (l ++ [(c, t')]) = true.
Proof.
  intros H Hf. rewrite indices_distinct_idx in *. rewrite map_app. cbn [map fst].
  apply idx_distinct_snoc; [assumption | apply find_static_none_exists; assumption].
Qed.

Lemma wf_statics_snoc (l : list (ascii * tree)) c t' :
  wf_statics V l = true -> starts_with c (t_path t') = true -> wfb t' = true -> wf_statics V (l ++ [(c, t')]) = true.
Proof.
  intros H Hs Hw. unfold wf_statics in *. rewrite forallb_app, H. cbn [forallb fst snd]. rewrite Hs, Hw. reflexivity.
Qed.

End Statics.

(** ** one node: invariant in parts, and how a change below a node shows in its abstraction *)

Section Lift.
Variable V : Type.
Notation tree := (tree V).
Notation node := (node V).
Notation db := (db V).

Lemma wfb_parts (n : tree) : wfb n = true ->
  indices_distinct V (t_statics n) = true /\
  (negb (is_nil (t_vals n)) || is_nil (t_keys n)) = true /\
  wf_statics V (t_statics n) = true /\ wf_wild V (t_wild n) = true /\ wf_catch V n = true.
Proof.
  rewrite wfb_unfold. intro H.
  apply andb_true_iff in H as [H H5]. apply andb_true_iff in H as [H H4].
  apply andb_true_iff in H as [H H3]. apply andb_true_iff in H as [H1 H2]. auto.
Qed.

Lemma wfb_build (n : tree) :
  indices_distinct V (t_statics n) = true ->
  (negb (is_nil (t_vals n)) || is_nil (t_keys n)) = true ->
  wf_statics V (t_statics n) = true -> wf_wild V (t_wild n) = true -> wf_catch V n = true ->
  wfb n = true.
Proof. intros H1 H2 H3 H4 H5. rewrite wfb_unfold, H1, H2, H3, H4, H5. reflexivity. Qed.

Definition node_of (n : tree) : node := {| vals := t_vals n; flag := t_bt n; keys := t_keys n |}.

Lemma here_abs' (n : tree) : wf_statics V (t_statics n) = true ->
  here (abs n) = match t_vals n with [] => None | _ => Some (node_of n) end.
Proof. apply here_abs. Qed.

(** creating a child under a node does not change its abstraction *)
Lemma abs_child_created (n : tree) : abs (child_created V n) = abs n.
Proof.
  rewrite !abs_unfold. destruct n as [p st w c vs ks b]. cbn [child_created t_statics t_wild t_catch]. f_equal.
  unfold here_entry. cbn [t_vals t_bt t_keys]. destruct vs; reflexivity.
Qed.

Lemma wfb_child_created (n : tree) : wfb n = true -> wfb (child_created V n) = true.
Proof.
  intro H. apply wfb_parts in H as (H1 & H2 & H3 & H4 & H5). destruct n as [p st w c vs ks b].
  apply wfb_build; cbn [child_created t_statics t_wild t_catch t_vals t_keys t_bt] in *; try assumption.
  unfold wf_catch in *. cbn [child_created t_catch t_vals t_bt] in *. destruct c as [c0|]; [|reflexivity].
  apply andb_true_iff in H5 as [H5 H6]. rewrite H5. destruct vs; [reflexivity | exact H6].
Qed.

Lemma child_created_flag (n : tree) : (negb (is_nil (t_vals (child_created V n))) || t_bt (child_created V n)) = true.
Proof. destruct n as [p st w c vs ks b]. cbn. destruct vs; reflexivity. Qed.

Lemma same_entries_nil_here_entry r (c : tree) : r <> [] -> assoc r (here_entry c) = None.
Proof.
  intro H. unfold here_entry. destruct (t_vals c); [reflexivity|]. cbn [assoc]. destruct r; [congruence | reflexivity].
Qed.

(** *** below the single-wildcard child *)
Lemma lift_wild (n : tree) (w w' : tree) q x :
  wfb n = true ->
  match t_wild n with Some w0 => w = w0 | None => abs w = [] end ->
  wfb w' = true -> updated V (abs w) (abs w') q x ->
  wfb (set_wild V n w') = true /\ updated V (abs n) (abs (set_wild V n w')) (W :: q) x.
Proof.
  intros Hwf Hw Hwf' Hu. pose proof Hwf as Hp. apply wfb_parts in Hp as (H1 & H2 & H3 & H4 & H5).
  assert (Hwf2 : wfb (set_wild V n w') = true).
  { destruct n as [p st w0 c vs ks b]. apply wfb_build; cbn [set_wild t_statics t_wild t_catch t_vals t_keys t_bt] in *; assumption. }
  split; [exact Hwf2|].
  assert (Hs' : wf_statics V (t_statics (set_wild V n w')) = true) by (destruct n; exact H3).
  assert (Hi' : indices_distinct V (t_statics (set_wild V n w')) = true) by (destruct n; exact H1).
  apply updated_cons.
  - rewrite (here_abs' _ Hs'), (here_abs' _ H3). destruct n; reflexivity.
  - intros t' Ht r. destruct t' as [c0| |]; [| discriminate |].
    + rewrite (deriv_L_abs V c0 _ H1 H3), (deriv_L_abs V c0 _ Hi' Hs'). destruct n; reflexivity.
    + rewrite (deriv_C_abs V _ H3), (deriv_C_abs V _ Hs'). destruct n; reflexivity.
  - rewrite (deriv_W_abs V _ H3), (deriv_W_abs V _ Hs').
    replace (match t_wild (set_wild V n w') with Some w1 => abs w1 | None => [] end) with (abs w') by (destruct n; reflexivity).
    destruct (t_wild n) as [w0|]; [subst w0; exact Hu|]. rewrite Hw in Hu. exact Hu.
Qed.

(** *** at the free-wildcard child *)
Lemma lift_catch (n : tree) (c' : tree) :
  wfb n = true ->
  is_leaf V c' = true -> t_vals c' <> [] -> str_eqb (last_key (t_keys c')) (t_path c') = true ->
  (negb (is_nil (t_vals n)) || t_bt n) = true ->
  wfb (set_catch V n c') = true /\ updated V (abs n) (abs (set_catch V n c')) [C] (Some (node_of c')).
Proof.
  intros Hwf Hl Hv Hk Hfl. pose proof Hwf as Hp. apply wfb_parts in Hp as (H1 & H2 & H3 & H4 & H5).
  assert (Hwf2 : wfb (set_catch V n c') = true).
  { destruct n as [p st w0 c vs ks b]. apply wfb_build; cbn [set_catch t_statics t_wild t_catch t_vals t_keys t_bt] in *; try assumption.
    unfold wf_catch. cbn [set_catch t_catch t_vals t_bt]. rewrite Hl, Hk, Hfl. destruct (t_vals c'); [congruence | reflexivity]. }
  split; [exact Hwf2|].
  assert (Hs' : wf_statics V (t_statics (set_catch V n c')) = true) by (destruct n; exact H3).
  assert (Hi' : indices_distinct V (t_statics (set_catch V n c')) = true) by (destruct n; exact H1).
  apply updated_cons.
  - rewrite (here_abs' _ Hs'), (here_abs' _ H3). destruct n; reflexivity.
  - intros t' Ht r. destruct t' as [c0| |]; [| | discriminate].
    + rewrite (deriv_L_abs V c0 _ H1 H3), (deriv_L_abs V c0 _ Hi' Hs'). destruct n; reflexivity.
    + rewrite (deriv_W_abs V _ H3), (deriv_W_abs V _ Hs'). destruct n; reflexivity.
  - rewrite (deriv_C_abs V _ H3), (deriv_C_abs V _ Hs').
    destruct n as [p st w0 c0 vs ks b]. cbn [set_catch t_catch].
    intro r. destruct r as [|t r].
    + change (pat_eqb [] []) with true. cbv iota. unfold here_entry. destruct (t_vals c') eqn:E; [congruence|].
      cbn [assoc]. change (pat_eqb [] []) with true. cbv iota. unfold node_of. rewrite E. reflexivity.
    + change (pat_eqb (t :: r) []) with false. cbv iota. rewrite same_entries_nil_here_entry by discriminate.
      destruct c0; [rewrite same_entries_nil_here_entry by discriminate|]; reflexivity.
Qed.

(** *** at the node itself *)
Definition with_value (n : tree) (vs : list V) (ks : list str) (b : bool) : tree :=
  {| t_path := t_path n; t_statics := t_statics n; t_wild := t_wild n; t_catch := t_catch n;
     t_vals := vs; t_keys := ks; t_bt := b |}.

Lemma lift_here (n : tree) vs ks b :
  wfb n = true -> vs <> [] ->
  wfb (with_value n vs ks b) = true /\
  updated V (abs n) (abs (with_value n vs ks b)) [] (Some {| vals := vs; flag := b; keys := ks |}).
Proof.
  intros Hwf Hv. pose proof Hwf as Hp. apply wfb_parts in Hp as (H1 & H2 & H3 & H4 & H5).
  assert (Hwf2 : wfb (with_value n vs ks b) = true).
  { apply wfb_build; cbn [with_value t_statics t_wild t_catch t_vals t_keys t_bt]; try assumption.
    - destruct vs; [congruence | reflexivity].
    - unfold wf_catch in *. cbn [with_value t_catch t_vals t_bt]. destruct (t_catch n) as [c0|]; [|reflexivity].
      apply andb_true_iff in H5 as [H5 _]. rewrite H5. destruct vs; [congruence | reflexivity]. }
  split; [exact Hwf2|].
  assert (Hs' : wf_statics V (t_statics (with_value n vs ks b)) = true) by exact H3.
  assert (Hi' : indices_distinct V (t_statics (with_value n vs ks b)) = true) by exact H1.
  apply updated_nil.
  - rewrite (here_abs' _ Hs'). cbn [with_value t_vals]. destruct vs; [congruence | reflexivity].
  - intros t r. destruct t as [c0| |].
    + rewrite (deriv_L_abs V c0 _ H1 H3), (deriv_L_abs V c0 _ Hi' Hs'). reflexivity.
    + rewrite (deriv_W_abs V _ H3), (deriv_W_abs V _ Hs'). reflexivity.
    + rewrite (deriv_C_abs V _ H3), (deriv_C_abs V _ Hs'). reflexivity.
Qed.

(** *** below a static child *)
Lemma tok_eqb_L_false c0 c : tok_eqb (L c0) (L c) = false -> Ascii.eqb c0 c = false.
Proof. intro H. exact H. Qed.

Lemma lift_static_replace (n : tree) c (child child2 : tree) cp' a' (D1 : db) q x :
  wfb n = true -> find_static c (t_statics n) = Some child -> t_path child = c :: cp' ->
  wfb child2 = true -> t_path child2 = c :: a' ->
  same_entries V (map (pre (lits cp')) (abs child)) (map (pre (lits a')) D1) ->
  updated V D1 (abs child2) q x ->
  wfb (set_statics V n (replace_static V c child2 (t_statics n))) = true /\
  updated V (abs n) (abs (set_statics V n (replace_static V c child2 (t_statics n)))) (L c :: lits a' ++ q) x.
Proof.
  intros Hwf Hf Hcp Hwf2 Hp2 Hsame Hu. pose proof Hwf as Hp. apply wfb_parts in Hp as (H1 & H2 & H3 & H4 & H5).
  set (n' := set_statics V n (replace_static V c child2 (t_statics n))).
  assert (Hst : t_statics n' = replace_static V c child2 (t_statics n)) by (destruct n; reflexivity).
  assert (Hi' : indices_distinct V (t_statics n') = true) by (rewrite Hst, indices_distinct_replace; exact H1).
  assert (Hs' : wf_statics V (t_statics n') = true).
  { rewrite Hst. apply wf_statics_replace; [exact H3 | rewrite Hp2; cbn; apply Ascii.eqb_refl | exact Hwf2]. }
  assert (Hwf' : wfb n' = true).
  { apply wfb_build; try assumption; destruct n; assumption. }
  split; [exact Hwf'|].
  apply updated_cons.
  - rewrite (here_abs' _ Hs'), (here_abs' _ H3). destruct n; reflexivity.
  - intros t' Ht r. destruct t' as [c0| |].
    + apply tok_eqb_L_false in Ht. rewrite (deriv_L_abs V c0 _ H1 H3), (deriv_L_abs V c0 _ Hi' Hs'), Hst.
      rewrite find_static_replace, Ht. reflexivity.
    + rewrite (deriv_W_abs V _ H3), (deriv_W_abs V _ Hs'). destruct n; reflexivity.
    + rewrite (deriv_C_abs V _ H3), (deriv_C_abs V _ Hs'). destruct n; reflexivity.
  - rewrite (deriv_L_abs V c _ H1 H3), (deriv_L_abs V c _ Hi' Hs'), Hst, find_static_replace, Ascii.eqb_refl, Hf, Hcp, Hp2.
    cbn [tl]. eapply updated_same_l; [exact Hsame|]. apply updated_pre. exact Hu.
Qed.

Lemma lift_static_new (n : tree) c (child' : tree) a' q x :
  wfb n = true -> find_static c (t_statics n) = None ->
  wfb child' = true -> t_path child' = c :: a' ->
  updated V [] (abs child') q x ->
  wfb (set_statics V n (t_statics n ++ [(c, child')])) = true /\
  updated V (abs n) (abs (set_statics V n (t_statics n ++ [(c, child')]))) (L c :: lits a' ++ q) x.
Proof.
  intros Hwf Hf Hwf2 Hp2 Hu. pose proof Hwf as Hp. apply wfb_parts in Hp as (H1 & H2 & H3 & H4 & H5).
  set (n' := set_statics V n (t_statics n ++ [(c, child')])).
  assert (Hst : t_statics n' = t_statics n ++ [(c, child')]) by (destruct n; reflexivity).
  assert (Hi' : indices_distinct V (t_statics n') = true) by (rewrite Hst; apply indices_distinct_snoc; assumption).
  assert (Hs' : wf_statics V (t_statics n') = true).
  { rewrite Hst. apply wf_statics_snoc; [exact H3 | rewrite Hp2; cbn; apply Ascii.eqb_refl | exact Hwf2]. }
  assert (Hwf' : wfb n' = true).
  { apply wfb_build; try assumption; destruct n; assumption. }
  split; [exact Hwf'|].
  apply updated_cons.
  - rewrite (here_abs' _ Hs'), (here_abs' _ H3). destruct n; reflexivity.
  - intros t' Ht r. destruct t' as [c0| |].
    + apply tok_eqb_L_false in Ht. rewrite (deriv_L_abs V c0 _ H1 H3), (deriv_L_abs V c0 _ Hi' Hs'), Hst.
      rewrite find_static_app. destruct (find_static c0 (t_statics n)); [reflexivity|].
      cbn [find_static]. rewrite Ht. reflexivity.
    + rewrite (deriv_W_abs V _ H3), (deriv_W_abs V _ Hs'). destruct n; reflexivity.
    + rewrite (deriv_C_abs V _ H3), (deriv_C_abs V _ Hs'). destruct n; reflexivity.
  - rewrite (deriv_L_abs V c _ H1 H3), (deriv_L_abs V c _ Hi' Hs'), Hst, find_static_app, Hf.
    cbn [find_static]. rewrite Ascii.eqb_refl, Hp2. cbn [tl].
    change (@nil (pat * node)) with (map (pre (lits a')) (@nil (pat * node))). apply updated_pre. exact Hu.
Qed.

End Lift.

(** ** splitCommonPrefix *)

Section Split.
Variable V : Type.
Notation tree := (tree V).
Notation node := (node V).
Notation db := (db V).

Lemma abs_set_path (n : tree) p : abs (set_path V n p) = abs n.
Proof. destruct n. reflexivity. Qed.

Lemma wfb_set_path (n : tree) p : wfb (set_path V n p) = wfb n.
Proof. destruct n. reflexivity. Qed.

Lemma map_pre_pre a b (D : db) : map (pre a) (map (pre b) D) = map (pre (a ++ b)) D.
Proof. rewrite map_map. apply map_ext. intros [p x]. unfold pre. cbn [fst snd]. rewrite app_assoc. reflexivity. Qed.

Lemma lits_app a b : lits (a ++ b) = lits a ++ lits b.
Proof. apply map_app. Qed.

Lemma firstn_skipn_split {A} i (l : list A) : l = firstn i l ++ skipn i l.
Proof. symmetry. apply firstn_skipn. Qed.

(** the child to descend into consumes a non-empty prefix [c :: a'] of the token, is
    well-formed, and stands for the same entries as the old child *)
Lemma split_common_prefix_spec (child : tree) c cp' tt' :
  t_path child = c :: cp' -> wfb child = true ->
  exists a' b child1,
    split_common_prefix V child (c :: tt') = (child1, S (length a')) /\
    tt' = a' ++ b /\ t_path child1 = c :: a' /\ wfb child1 = true /\
    map (pre (lits cp')) (abs child) = map (pre (lits a')) (abs child1).
Proof.
  intros Hp Hwf. unfold split_common_prefix. rewrite Hp.
  destruct (is_prefix (c :: cp') (c :: tt')) eqn:Epre.
  - (* the child's whole path is a prefix of the token *)
    cbn [is_prefix] in Epre. rewrite Ascii.eqb_refl in Epre. cbn [andb] in Epre.
    exists cp', (skipn (length cp') tt'), child. cbn [length]. repeat split; try assumption.
    apply is_prefix_app. exact Epre.
  - (* split *)
    pose proof (not_prefix_common _ _ Epre) as Hlt.
    pose proof (common_prefix_spec (c :: cp') (c :: tt')) as [Hf Hd].
    pose proof (common_prefix_pos c cp' tt') as Hpos.
    pose proof (common_prefix_le (c :: cp') (c :: tt')) as [Hle1 Hle2].
    set (i := common_prefix_len (c :: cp') (c :: tt')) in *.
    destruct i as [|j]; [lia|]. cbn [firstn skipn length] in *.
    destruct (skipn j cp') as [|x rest] eqn:Er.
    { exfalso. pose proof (firstn_skipn j cp') as E. rewrite Er, app_nil_r in E.
      assert (length (firstn j cp') = j) by (apply firstn_length_le; lia). rewrite E in H. lia. }
    inversion Hf as [Hf'].
    exists (firstn j tt'), (skipn j tt').
    eexists. split; [rewrite firstn_length_le by lia; reflexivity|].
    split; [apply firstn_skipn_split|]. split; [cbn [t_path]; congruence|]. split.
    + (* the new intermediate node is well-formed *)
      apply wfb_build; cbn [t_statics t_wild t_catch t_vals t_keys t_bt]; try reflexivity.
      cbn [wf_statics forallb fst snd set_path]. rewrite wfb_set_path, Hwf.
      replace (t_path (set_path V child (x :: rest))) with (x :: rest) by (destruct child; reflexivity).
      cbn [starts_with]. rewrite Ascii.eqb_refl. reflexivity.
    + match goal with |- _ = map _ (abs ?t) => rewrite (abs_unfold V t) end.
      cbn [t_statics t_wild t_catch here_entry t_vals abs_wild abs_catch abs_statics flat_map snd app].
      rewrite !app_nil_r. rewrite abs_set_path.
      replace (t_path (set_path V child (x :: rest))) with (x :: rest) by (destruct child; reflexivity).
      rewrite map_pre_pre, <- lits_app, <- Hf', <- Er, firstn_skipn. reflexivity.
Qed.

End Split.

(** ** addNode does what the machine's add does *)

Section AddSpec.
Variable V : Type.
Variable can_add : list V -> V -> bool.
Variable v : V.
Variable flag : bool.
Notation tree := (tree V).
Notation node := (node V).
Notation db := (db V).

Definition mode (ins : bool) : pmode := if ins then InSeg else SegStart.

Definition tkind (r : tres V) : option kind :=
  match r with TOk _ => Some KOk | TInvalid => Some KInvalid | TConstraint => Some KConstraint | TFuel => None end.

Definition add_spec (fuel : nat) (n : tree) (path : str) (wk : list str) (ins : bool) : Prop :=
  match parse2 (mode ins) path with
  | None => add_node can_add fuel n path wk ins v flag = TInvalid
  | Some (q, ks) =>
    let x := assoc q (abs n) in
    tkind (add_node can_add fuel n path wk ins v flag) = Some (add_kind V can_add (ends_C q) x (wk ++ ks) v) /\
    forall n', add_node can_add fuel n path wk ins v flag = TOk n' ->
      wfb n' = true /\ t_path n' = t_path n /\
      updated V (abs n) (abs n') q (upd' V can_add (ends_C q) x (wk ++ ks) v flag)
  end.

Definition spec_at (f : nat) : Prop :=
  forall n path wk ins, wfb n = true -> length path < f -> add_spec f n path wk ins.

Lemma put_value_eq (n : tree) :
  put_value V can_add v flag n =
  if can_add (t_vals n) v then TOk (with_value V n (t_vals n ++ [v]) (t_keys n) flag) else TConstraint.
Proof. reflexivity. Qed.

Lemma assoc_nil_abs (n : tree) : wfb n = true ->
  assoc [] (abs n) = match t_vals n with [] => None | _ => Some (node_of V n) end.
Proof. intro H. apply wfb_parts in H as (_ & _ & H3 & _). rewrite assoc_nil_here. apply here_abs'. exact H3. Qed.

Lemma with_value_set_keys (n : tree) ks vs ks' b : with_value V (set_keys V n ks) vs ks' b = with_value V n vs ks' b.
Proof. destruct n. reflexivity. Qed.

(** the expression ends at this node *)
Lemma add_spec_nil f (n : tree) wk ins : wfb n = true -> add_spec (S f) n [] wk ins.
Proof.
  intro Hwf. unfold add_spec. rewrite parse2_nil. cbv zeta. rewrite app_nil_r, (assoc_nil_abs n Hwf).
  change (ends_C []) with false. cbn [add_node].
  pose proof Hwf as Hp. apply wfb_parts in Hp as (_ & H2 & _).
  assert (Hput : forall ks', (t_vals n = [] -> ks' = wk) ->
            (t_vals n <> [] -> merge_keys' V false (node_of V n) wk = Some ks') ->
            let r := if can_add (t_vals n) v then TOk (with_value V n (t_vals n ++ [v]) ks' flag) else TConstraint in
            tkind r = Some (add_kind V can_add false match t_vals n with [] => None | _ => Some (node_of V n) end wk v) /\
            forall n', r = TOk n' -> wfb n' = true /\ t_path n' = t_path n /\
              updated V (abs n) (abs n') [] (upd' V can_add false match t_vals n with [] => None | _ => Some (node_of V n) end wk v flag)).
  { intros ks' Hk1 Hk2. cbv zeta. destruct (t_vals n) as [|v0 vs] eqn:Ev.
    - specialize (Hk1 eq_refl). subst ks'. unfold add_kind, upd'. destruct (can_add [] v); [|split; [reflexivity | discriminate]].
      split; [reflexivity|]. intros n' Hn'. inversion Hn'; subst n'.
      destruct (lift_here V n ([] ++ [v]) wk flag Hwf ltac:(discriminate)) as [Hw Hu].
      split; [exact Hw|]. split; [reflexivity | exact Hu].
    - specialize (Hk2 ltac:(discriminate)). unfold add_kind, upd'. rewrite Hk2. cbn [node_of vals]. rewrite Ev.
      destruct (can_add (v0 :: vs) v); [|split; [reflexivity | discriminate]].
      split; [reflexivity|]. intros n' Hn'. inversion Hn'; subst n'.
      destruct (lift_here V n ((v0 :: vs) ++ [v]) ks' flag Hwf ltac:(discriminate)) as [Hw Hu].
      split; [exact Hw|]. split; [reflexivity | exact Hu]. }
  destruct wk as [|k0 wk'].
  - (* no wildcard on the way *)
    cbn [is_nil]. rewrite put_value_eq. apply Hput.
    + intro Ev. rewrite Ev in H2. cbn in H2. destruct (t_keys n); [reflexivity | discriminate].
    + intros _. reflexivity.
  - cbn [is_nil].
    destruct (negb (is_nil (t_keys n)) && negb (keys_eqb (t_keys n) (k0 :: wk'))) eqn:Ebad.
    + (* key names differ *)
      apply andb_true_iff in Ebad as [E1 E2]. apply negb_true_iff in E1. apply negb_true_iff in E2.
      destruct (t_vals n) as [|v0 vs] eqn:Ev.
      { cbn in H2. rewrite H2 in E1. discriminate. }
      unfold add_kind, merge_keys'. cbn [node_of keys]. rewrite E1, E2. cbn [orb]. split; [reflexivity | discriminate].
    + rewrite put_value_eq.
      replace (t_vals (set_keys V n (k0 :: wk'))) with (t_vals n) by (destruct n; reflexivity).
      replace (t_keys (set_keys V n (k0 :: wk'))) with (k0 :: wk') by (destruct n; reflexivity).
      rewrite with_value_set_keys. apply Hput.
      * intros _. reflexivity.
      * intros _. unfold merge_keys'. cbn [node_of keys].
        destruct (is_nil (t_keys n)); cbn [negb andb orb] in *; [reflexivity|].
        apply negb_false_iff in Ebad. rewrite Ebad. reflexivity.
Qed.

Lemma strip_prefix_app s q : strip_prefix s (s ++ q) = Some q.
Proof. induction s as [|a s IH]; [reflexivity|]. cbn [app strip_prefix]. rewrite tok_eqb_refl. exact IH. Qed.

Lemma ends_C_lits_app s q : ends_C (lits s ++ q) = ends_C q.
Proof.
  induction s as [|a s IH]; [reflexivity|]. cbn [lits map app]. rewrite ends_C_cons_notC by discriminate. exact IH.
Qed.

Lemma wfb_leaf p : wfb (leaf (V:=V) p) = true.
Proof. reflexivity. Qed.

Lemma abs_leaf p : abs (leaf (V:=V) p) = [].
Proof. reflexivity. Qed.

Lemma wf_statics_child (n : tree) c child : wfb n = true -> find_static c (t_statics n) = Some child ->
  (exists cp', t_path child = c :: cp') /\ wfb child = true.
Proof.
  intros Hwf Hf. apply wfb_parts in Hwf as (_ & _ & H3 & _). apply find_static_in in Hf.
  unfold wf_statics in H3. rewrite forallb_forall in H3. specialize (H3 _ Hf). cbn [fst snd] in H3.
  apply andb_true_iff in H3 as [Hs Hw]. split; [apply starts_with_cons; exact Hs | exact Hw].
Qed.

Lemma t_path_set_statics (n : tree) l : t_path (set_statics V n l) = t_path n.
Proof. destruct n. reflexivity. Qed.

Lemma t_path_child_created (n : tree) : t_path (child_created V n) = t_path n.
Proof. destruct n. reflexivity. Qed.

Lemma t_statics_child_created (n : tree) : t_statics (child_created V n) = t_statics n.
Proof. destruct n. reflexivity. Qed.

(** the static branch of addNode, for a token [tt] (first byte [c]) followed by [remaining];
    [P split] is the path handed to the child after [split] bytes of the token *)
Definition static_R (f : nat) (n : tree) (wk : list str) (c : ascii) (tt remaining : str) (ins' : bool) (P : nat -> str) : tres V :=
  match find_static c (t_statics n) with
  | Some child =>
    let '(child1, split) := split_common_prefix V child tt in
    match add_node can_add f child1 (P split) wk ins' v flag with
    | TOk child2 => TOk (set_statics V n (replace_static V c child2 (t_statics n)))
    | e => e
    end
  | None =>
    let n1 := child_created V n in
    match add_node can_add f (leaf tt) remaining wk ins' v flag with
    | TOk child' => TOk (set_statics V n1 (t_statics n ++ [(c, child')]))
    | e => e
    end
  end.

Lemma static_step f (n : tree) wk c tt' remaining ins' (P : nat -> str) :
  spec_at f -> wfb n = true ->
  (forall a' b, tt' = a' ++ b -> length (b ++ remaining) < f) ->
  (forall a' b, tt' = a' ++ b ->
     parse2 (mode ins') (b ++ remaining) = on_parse (app (lits b)) (fun ks => ks) (parse2 (mode ins') remaining)) ->
  (forall a' b, tt' = a' ++ b -> P (S (length a')) = b ++ remaining) ->
  let R := static_R f n wk c (c :: tt') remaining ins' P in
  match parse2 (mode ins') remaining with
  | None => R = TInvalid
  | Some (q_rem, ks) =>
    let q := lits (c :: tt') ++ q_rem in
    let x := assoc q (abs n) in
    tkind R = Some (add_kind V can_add (ends_C q) x (wk ++ ks) v) /\
    forall n', R = TOk n' ->
      wfb n' = true /\ t_path n' = t_path n /\
      updated V (abs n) (abs n') q (upd' V can_add (ends_C q) x (wk ++ ks) v flag)
  end.
Proof.
  intros IH Hwf Hlen Hparse HP R. subst R. unfold static_R.
  pose proof Hwf as Hparts. apply wfb_parts in Hparts as (H1 & H2 & H3 & H4 & H5).
  destruct (find_static c (t_statics n)) as [child|] eqn:Ef.
  - (* an existing child *)
    destruct (wf_statics_child n c child Hwf Ef) as [[cp' Hcp] Hwch].
    destruct (split_common_prefix_spec V child c cp' tt' Hcp Hwch) as (a' & b & child1 & Hsp & Htt & Hp1 & Hw1 & Eabs).
    rewrite Hsp. rewrite (HP a' b Htt).
    pose proof (IH child1 (b ++ remaining) wk ins' Hw1 (Hlen a' b Htt)) as Hc. unfold add_spec in Hc.
    rewrite (Hparse a' b Htt) in Hc.
    destruct (parse2 (mode ins') remaining) as [[q_rem ks]|]; cbn [on_parse] in Hc.
    2:{ rewrite Hc. reflexivity. }
    cbv zeta in Hc. destruct Hc as [Hk Hok]. cbv zeta.
    assert (Eq : lits (c :: tt') ++ q_rem = L c :: lits a' ++ (lits b ++ q_rem)).
    { rewrite Htt. cbn [lits map app]. change (map L (a' ++ b)) with (lits (a' ++ b)). rewrite lits_app, <- app_assoc. reflexivity. }
    rewrite Eq.
    assert (Eends : ends_C (L c :: lits a' ++ (lits b ++ q_rem)) = ends_C (lits b ++ q_rem)).
    { rewrite ends_C_cons_notC by discriminate. apply ends_C_lits_app. }
    assert (Eassoc : assoc (L c :: lits a' ++ (lits b ++ q_rem)) (abs n) = assoc (lits b ++ q_rem) (abs child1)).
    { rewrite <- assoc_deriv, (deriv_L_abs V c n H1 H3), Ef, Hcp. cbn [tl]. rewrite Eabs, assoc_pre, strip_prefix_app. reflexivity. }
    rewrite Eends, Eassoc. split.
    + rewrite <- Hk. destruct (add_node can_add f child1 (b ++ remaining) wk ins' v flag); reflexivity.
    + intros n' Hn'. destruct (add_node can_add f child1 (b ++ remaining) wk ins' v flag) as [child2| | |] eqn:Ea; try discriminate.
      inversion Hn'; subst n'. destruct (Hok child2 eq_refl) as (Hw2 & Hp2 & Hu2). rewrite Hp1 in Hp2.
      destruct (lift_static_replace V n c child child2 cp' a' (abs child1) (lits b ++ q_rem) _ Hwf Ef Hcp Hw2 Hp2
                  ltac:(intro r; rewrite Eabs; reflexivity) Hu2) as [Hw' Hu'].
      split; [exact Hw'|]. split; [apply t_path_set_statics | exact Hu'].
  - (* a new child *)
    assert (Htt : tt' = tt' ++ []) by (rewrite app_nil_r; reflexivity).
    pose proof (IH (leaf (c :: tt')) remaining wk ins' (wfb_leaf _) (Hlen tt' [] Htt)) as Hc. unfold add_spec in Hc.
    destruct (parse2 (mode ins') remaining) as [[q_rem ks]|].
    2:{ rewrite Hc. reflexivity. }
    cbv zeta in Hc. rewrite abs_leaf in Hc. cbn [assoc] in Hc. destruct Hc as [Hk Hok]. cbv zeta.
    assert (Eends : ends_C (lits (c :: tt') ++ q_rem) = ends_C q_rem) by apply ends_C_lits_app.
    assert (Eassoc : assoc (lits (c :: tt') ++ q_rem) (abs n) = None).
    { cbn [lits map app]. rewrite <- assoc_deriv, (deriv_L_abs V c n H1 H3), Ef. reflexivity. }
    rewrite Eends, Eassoc. split.
    + rewrite <- Hk. destruct (add_node can_add f (leaf (c :: tt')) remaining wk ins' v flag); reflexivity.
    + intros n' Hn'. destruct (add_node can_add f (leaf (c :: tt')) remaining wk ins' v flag) as [child'| | |] eqn:Ea; try discriminate.
      inversion Hn'; subst n'. destruct (Hok child' eq_refl) as (Hw2 & Hp2 & Hu2). cbn [leaf t_path] in Hp2.
      try rewrite abs_leaf in Hu2.
      pose proof (wfb_child_created V n Hwf) as Hwc.
      assert (Efc : find_static c (t_statics (child_created V n)) = None) by (rewrite t_statics_child_created; exact Ef).
      destruct (lift_static_new V (child_created V n) c child' tt' q_rem _ Hwc Efc Hw2 Hp2 Hu2) as [Hw' Hu'].
      rewrite t_statics_child_created in Hw', Hu'. rewrite abs_child_created in Hu'.
      split; [exact Hw'|]. split; [rewrite t_path_set_statics; apply t_path_child_created | exact Hu'].
Qed.

(** addNode at a non-empty path, with the static branch named *)
Lemma add_node_cons f (n : tree) token rest0 wk ins :
  add_node can_add (S f) n (token :: rest0) wk ins v flag =
  let path := token :: rest0 in
  let next_slash := index_slash path in
  let tok_end := if Ascii.eqb token ch_slash then 1 else
                 match next_slash with Some k => k | None => length path end in
  let this_token := firstn tok_end path in
  let remaining := skipn tok_end path in
  if negb ins && Ascii.eqb token ch_star then
    let name := skipn 1 this_token in
    match next_slash with
    | Some _ => TInvalid
    | None =>
      let '(n1, c) := match t_catch n with
                      | Some c => (n, c)
                      | None => (child_created V n, leaf name)
                      end in
      if negb (str_eqb (skipn 1 path) (t_path c)) then TInvalid else
      if negb (is_nil (t_keys c)) && negb (keys_eqb (t_keys c) (wk ++ [name])) then TInvalid else
      match put_value V can_add v flag (set_keys V c (wk ++ [name])) with
      | TOk c' => TOk (set_catch V n1 c')
      | e => e
      end
    end
  else if negb ins && Ascii.eqb token ch_colon then
    let '(n1, w) := match t_wild n with
                    | Some w => (n, w)
                    | None => (child_created V n, leaf (list_ascii_of_string "wildcard"))
                    end in
    match add_node can_add f w remaining (wk ++ [skipn 1 this_token]) false v flag with
    | TOk w' => TOk (set_wild V n1 w')
    | e => e
    end
  else
    let esc := negb ins &&
               match this_token with
               | c1 :: c2 :: _ => Ascii.eqb c1 ch_bslash && is_special c2
               | _ => false
               end in
    let token' := if esc then match this_token with _ :: c2 :: _ => c2 | _ => token end else token in
    let this_token' := if esc then skipn 1 this_token else this_token in
    static_R f n wk token' this_token' remaining (negb (Ascii.eqb token' ch_slash))
             (fun split => skipn (if esc then S split else split) path).
Proof. reflexivity. Qed.

Lemma on_parse_id (o : option (pat * list str)) : on_parse (app (lits [])) (fun ks => ks) o = o.
Proof. destruct o as [[p ks]|]; reflexivity. Qed.

Lemma take_seg_cons_noslash c r : Ascii.eqb c ch_slash = false ->
  take_seg (c :: r) = (c :: fst (take_seg r), snd (take_seg r)).
Proof. intro H. cbn [take_seg]. rewrite H. destruct (take_seg r). reflexivity. Qed.

(** the token addNode cuts off a path that does not start with '/' *)
Lemma token_cut token rest0 : Ascii.eqb token ch_slash = false ->
  let path := token :: rest0 in
  let k := match index_slash path with Some k => k | None => length path end in
  firstn k path = token :: fst (take_seg rest0) /\ skipn k path = snd (take_seg rest0) /\
  path = (token :: fst (take_seg rest0)) ++ snd (take_seg rest0) /\
  has_slash (fst (take_seg rest0)) = false /\ seg_end (snd (take_seg rest0)) /\
  (index_slash path = None <-> snd (take_seg rest0) = []).
Proof.
  intro H. cbv zeta. destruct (index_slash_take_seg (token :: rest0)) as [H1 H2].
  rewrite (take_seg_cons_noslash token rest0 H) in H1, H2. cbn [fst snd] in H1, H2.
  split; [exact H1|]. split; [exact H2|].
  split; [cbn [app]; f_equal; apply take_seg_app|].
  split; [apply take_seg_noslash|]. split; [apply take_seg_rest|].
  rewrite index_slash_none. cbn [has_slash]. rewrite H. cbn [orb].
  pose proof (take_seg_app rest0) as Ha. pose proof (take_seg_noslash rest0) as Hn. pose proof (take_seg_rest rest0) as Hr.
  split.
  - intro Hs. destruct Hr as [Hr|[r' Hr]]; [exact Hr|]. rewrite Ha, has_slash_app, Hr in Hs. cbn [has_slash] in Hs.
    rewrite Ascii.eqb_refl in Hs. rewrite orb_true_r in Hs. discriminate.
  - intro He. rewrite Ha, He, app_nil_r. exact Hn.
Qed.

(** *** the path goes on with '/' *)
Lemma add_spec_cons_slash f (n : tree) rest0 wk ins :
  spec_at f -> wfb n = true -> length rest0 < f -> add_spec (S f) n (ch_slash :: rest0) wk ins.
Proof.
  intros IH Hwf Hlen. unfold add_spec. rewrite add_node_cons. cbv zeta.
  change (Ascii.eqb ch_slash ch_slash) with true. cbv iota. cbn [firstn skipn].
  change (Ascii.eqb ch_slash ch_star) with false. change (Ascii.eqb ch_slash ch_colon) with false.
  rewrite !andb_false_r. cbv iota.
  rewrite parse2_slash.
  assert (H0 : forall a' b : str, [] = a' ++ b -> a' = [] /\ b = []).
  { intros a' b H. symmetry in H. apply app_eq_nil in H. exact H. }
  pose proof (static_step f n wk ch_slash [] rest0 false (fun split => skipn split (ch_slash :: rest0)) IH Hwf) as HS.
  cbv zeta in HS. cbn [mode] in HS.
  assert (HS' := HS
    ltac:(intros a' b H; destruct (H0 a' b H) as [-> ->]; exact Hlen)
    ltac:(intros a' b H; destruct (H0 a' b H) as [-> ->]; cbn [app]; rewrite on_parse_id; reflexivity)
    ltac:(intros a' b H; destruct (H0 a' b H) as [-> ->]; reflexivity)).
  clear HS. destruct (parse2 SegStart rest0) as [[q_rem ks]|]; cbn [on_parse]; exact HS'.
Qed.

(** *** a single wildcard *)
Lemma add_spec_cons_colon f (n : tree) rest0 wk :
  spec_at f -> wfb n = true -> length rest0 < f -> add_spec (S f) n (ch_colon :: rest0) wk false.
Proof.
  intros IH Hwf Hlen. unfold add_spec. rewrite add_node_cons. cbv zeta.
  change (Ascii.eqb ch_colon ch_slash) with false. cbv iota.
  change (Ascii.eqb ch_colon ch_star) with false. rewrite andb_false_r. cbv iota.
  rewrite Ascii.eqb_refl. cbn [negb andb].
  destruct (token_cut ch_colon rest0 eq_refl) as (Hft & Hsk & Hpath & Hns & Hse & _). cbv zeta in Hft, Hsk.
  rewrite Hft, Hsk. cbn [skipn].
  set (name := fst (take_seg rest0)) in *. set (remaining := snd (take_seg rest0)) in *.
  assert (Hrest : rest0 = name ++ remaining) by apply take_seg_app.
  cbn [mode]. replace (parse2 SegStart (ch_colon :: rest0)) with (parse2 SegStart (ch_colon :: name ++ remaining))
    by (f_equal; f_equal; symmetry; exact Hrest).
  rewrite (parse2_segstart_colon name remaining Hns Hse).
  assert (Hlen' : length remaining < f).
  { rewrite Hrest, app_length in Hlen. lia. }
  pose proof Hwf as Hparts. apply wfb_parts in Hparts as (H1 & H2 & H3 & H4 & H5).
  (* the child below which the rest goes *)
  set (w := match t_wild n with Some w0 => w0 | None => leaf (list_ascii_of_string "wildcard") end).
  set (n1 := match t_wild n with Some _ => n | None => child_created V n end).
  assert (Epair : match t_wild n with
                  | Some w0 => (n, w0)
                  | None => (child_created V n, leaf (list_ascii_of_string "wildcard"))
                  end = (n1, w)) by (subst n1 w; destruct (t_wild n); reflexivity).
  rewrite Epair.
  assert (Hww : wfb w = true) by (subst w; destruct (t_wild n); [exact H4 | reflexivity]).
  assert (Hwn1 : wfb n1 = true) by (subst n1; destruct (t_wild n); [exact Hwf | apply wfb_child_created; exact Hwf]).
  assert (Habs1 : abs n1 = abs n) by (subst n1; destruct (t_wild n); [reflexivity | apply abs_child_created]).
  assert (Hpath1 : t_path n1 = t_path n) by (subst n1; destruct (t_wild n); [reflexivity | apply t_path_child_created]).
  assert (Hw1 : match t_wild n1 with Some w0 => w = w0 | None => abs w = [] end).
  { subst n1 w. destruct (t_wild n) eqn:E; [rewrite E; reflexivity|].
    replace (t_wild (child_created V n)) with (t_wild n) by (destruct n; reflexivity). rewrite E. reflexivity. }
  assert (Hdw : forall q', assoc (W :: q') (abs n) = assoc q' (abs w)).
  { intro q'. rewrite <- assoc_deriv, (deriv_W_abs V n H3). subst w. destruct (t_wild n); reflexivity. }
  pose proof (IH w remaining (wk ++ [name]) false Hww Hlen') as Hc. unfold add_spec in Hc. cbn [mode] in Hc.
  set (A := add_node can_add f w remaining _ false v flag) in *.
  destruct (parse2 SegStart remaining) as [[q' ks']|]; cbn [on_parse].
  2:{ rewrite Hc. reflexivity. }
  cbv zeta in Hc. destruct Hc as [Hk Hok]. cbv zeta.
  rewrite (ends_C_cons_notC W q' ltac:(discriminate)), Hdw.
  replace (wk ++ name :: ks') with ((wk ++ [name]) ++ ks') by (rewrite <- app_assoc; reflexivity).
  split.
  - rewrite <- Hk. destruct A; reflexivity.
  - intros n' Hn'. destruct A as [w'| | |] eqn:Ea; try discriminate.
    inversion Hn'; subst n'. destruct (Hok w' eq_refl) as (Hw2 & _ & Hu2).
    destruct (lift_wild V n1 w w' q' _ Hwn1 Hw1 Hw2 Hu2) as [Hw' Hu']. rewrite Habs1 in Hu'.
    split; [exact Hw'|]. split; [|exact Hu']. rewrite <- Hpath1. destruct n1; reflexivity.
Qed.

(** *** a free wildcard *)
Lemma str_eqb_eq a b : str_eqb a b = true <-> a = b.
Proof. apply list_eqb_spec. apply Ascii.eqb_eq. Qed.

Lemma str_eqb_refl a : str_eqb a a = true.
Proof. apply str_eqb_eq. reflexivity. Qed.

Lemma last_key_snoc ks k : last_key (ks ++ [k]) = k.
Proof. unfold last_key. apply last_last. Qed.

Lemma assoc_C_abs (n : tree) : wfb n = true ->
  assoc [C] (abs n) = match t_catch n with Some c => Some (node_of V c) | None => None end.
Proof.
  intro Hwf. apply wfb_parts in Hwf as (_ & _ & H3 & _ & H5). rewrite <- assoc_deriv, (deriv_C_abs V n H3).
  unfold wf_catch in H5. destruct (t_catch n) as [c|]; [|reflexivity].
  apply andb_true_iff in H5 as [H5 _]. apply andb_true_iff in H5 as [H5 _]. apply andb_true_iff in H5 as [_ Hv].
  unfold here_entry. destruct (t_vals c) eqn:E; [discriminate|]. cbn [assoc]. unfold node_of. rewrite E. reflexivity.
Qed.

Lemma is_leaf_with_value (c : tree) vs ks b : is_leaf V (with_value V c vs ks b) = is_leaf V c.
Proof. reflexivity. Qed.

Lemma is_leaf_set_keys (c : tree) ks : is_leaf V (set_keys V c ks) = is_leaf V c.
Proof. destruct c. reflexivity. Qed.

Lemma add_spec_cons_star f (n : tree) rest0 wk : wfb n = true -> add_spec (S f) n (ch_star :: rest0) wk false.
Proof.
  intro Hwf. unfold add_spec. rewrite add_node_cons. cbv zeta.
  change (Ascii.eqb ch_star ch_slash) with false. cbv iota. rewrite Ascii.eqb_refl. cbn [negb andb mode].
  rewrite parse2_segstart_star. cbn [index_slash]. change (Ascii.eqb ch_star ch_slash) with false. cbv iota.
  destruct (index_slash rest0) as [k|] eqn:Ei; cbn [option_map].
  - destruct (has_slash rest0) eqn:Eh; [reflexivity|]. apply index_slash_none in Eh. congruence.
  - pose proof (proj1 (index_slash_none rest0) Ei) as Eh. rewrite Eh.
    rewrite firstn_all. cbn [skipn]. cbv zeta. change (ends_C [C]) with true. rewrite (assoc_C_abs n Hwf).
    pose proof Hwf as Hparts. apply wfb_parts in Hparts as (H1 & H2 & H3 & H4 & H5).
    destruct (t_catch n) as [c|] eqn:Ec.
    + (* the free-wildcard child exists *)
      unfold wf_catch in H5. rewrite Ec in H5.
      apply andb_true_iff in H5 as [H5 Hfl]. apply andb_true_iff in H5 as [H5 Hlk].
      apply andb_true_iff in H5 as [Hleaf Hv]. apply str_eqb_eq in Hlk.
      unfold add_kind, upd', merge_keys'. rewrite last_key_snoc. cbn [node_of keys vals]. rewrite Hlk.
      destruct (str_eqb rest0 (t_path c)) eqn:En; cbn [negb andb]; [|split; [reflexivity | discriminate]].
      apply str_eqb_eq in En.
      rewrite <- negb_orb.
      destruct (is_nil (t_keys c) || keys_eqb (t_keys c) (wk ++ [rest0])); cbn [negb]; [|split; [reflexivity | discriminate]].
      rewrite put_value_eq.
      replace (t_vals (set_keys V c (wk ++ [rest0]))) with (t_vals c) by (destruct c; reflexivity).
      replace (t_keys (set_keys V c (wk ++ [rest0]))) with (wk ++ [rest0]) by (destruct c; reflexivity).
      rewrite with_value_set_keys.
      destruct (can_add (t_vals c) v); [|split; [reflexivity | discriminate]].
      split; [reflexivity|]. intros n' Hn'. inversion Hn'; subst n'.
      set (c' := with_value V c (t_vals c ++ [v]) (wk ++ [rest0]) flag).
      assert (Hv' : t_vals c' <> []) by (cbn [c' with_value t_vals]; destruct (t_vals c); discriminate).
      assert (Hk' : str_eqb (last_key (t_keys c')) (t_path c') = true).
      { cbn [c' with_value t_keys t_path]. rewrite last_key_snoc. apply str_eqb_eq. exact En. }
      destruct (lift_catch V n c' Hwf Hleaf Hv' Hk' Hfl) as [Hw' Hu'].
      split; [exact Hw'|]. split; [destruct n; reflexivity | exact Hu'].
    + (* a new free-wildcard child *)
      rewrite str_eqb_refl. cbn [negb]. rewrite put_value_eq.
      cbn [leaf set_keys t_vals t_keys with_value t_path t_statics t_wild t_catch t_bt].
      unfold add_kind, upd'. destruct (can_add [] v); [|split; [reflexivity | discriminate]].
      split; [reflexivity|]. intros n' Hn'. inversion Hn'; subst n'.
      match goal with |- context [set_catch V _ ?cc] => set (c' := cc) end.
      assert (Hv' : t_vals c' <> []) by (unfold c'; cbn [with_value t_vals]; discriminate).
      assert (Hk' : str_eqb (last_key (t_keys c')) (t_path c') = true).
      { unfold c'. rewrite with_value_set_keys. cbn [with_value leaf t_keys t_path]. rewrite last_key_snoc. apply str_eqb_refl. }
      destruct (lift_catch V (child_created V n) c' (wfb_child_created V n Hwf) eq_refl Hv' Hk' (child_created_flag V n)) as [Hw' Hu'].
      rewrite abs_child_created in Hu'.
      split; [exact Hw'|]. split; [destruct n; reflexivity | exact Hu'].
Qed.

(** *** a static token *)
Lemma is_special_not_slash c : is_special c = true -> Ascii.eqb c ch_slash = false.
Proof.
  unfold is_special. intro H. destruct (Ascii.eqb c ch_slash) eqn:E; [|reflexivity].
  apply Ascii.eqb_eq in E. subst c. discriminate.
Qed.

Lemma on_parse_on_parse a b (o : option (pat * list str)) :
  on_parse (app a) (fun ks => ks) (on_parse (app b) (fun ks => ks) o) = on_parse (app (a ++ b)) (fun ks => ks) o.
Proof. destruct o as [[p ks]|]; [|reflexivity]. cbn [on_parse]. rewrite app_assoc. reflexivity. Qed.

Lemma add_spec_cons_static f (n : tree) token rest0 wk ins :
  spec_at f -> wfb n = true -> length rest0 < f ->
  Ascii.eqb token ch_slash = false ->
  (negb ins && Ascii.eqb token ch_star) = false -> (negb ins && Ascii.eqb token ch_colon) = false ->
  add_spec (S f) n (token :: rest0) wk ins.
Proof.
  intros IH Hwf Hlen Esl Estar Ecolon. unfold add_spec. rewrite add_node_cons. cbv zeta.
  rewrite Esl, Estar, Ecolon. cbv iota.
  destruct (token_cut token rest0 Esl) as (Hft & Hsk & Hpath & Hns & Hse & _). cbv zeta in Hft, Hsk.
  rewrite Hft, Hsk.
  set (seg0 := fst (take_seg rest0)) in *. set (remaining := snd (take_seg rest0)) in *.
  assert (Hrest : rest0 = seg0 ++ remaining) by apply take_seg_app.
  assert (Hinseg : forall b, has_slash b = false ->
            parse2 (mode true) (b ++ remaining) = on_parse (app (lits b)) (fun ks => ks) (parse2 (mode true) remaining))
    by (intros b Hb; apply parse2_inseg; exact Hb).
  destruct (negb ins && match token :: seg0 with
                        | c1 :: c2 :: _ => Ascii.eqb c1 ch_bslash && is_special c2
                        | _ => false
                        end) eqn:Eesc.
  - (* an escaped first byte *)
    apply andb_true_iff in Eesc as [Ei Eesc]. apply negb_true_iff in Ei. subst ins.
    destruct seg0 as [|c2 seg1] eqn:Eseg; [discriminate|].
    apply andb_true_iff in Eesc as [Eb Esp]. apply Ascii.eqb_eq in Eb. subst token.
    cbn [skipn]. rewrite (is_special_not_slash c2 Esp). cbn [negb].
    cbn [has_slash] in Hns. apply orb_false_iff in Hns as [_ Hns1].
    pose proof (static_step f n wk c2 seg1 remaining true (fun split => skipn (S split) (ch_bslash :: rest0)) IH Hwf) as HS.
    cbv zeta in HS.
    assert (HS' := HS
      ltac:(intros a' b H; rewrite Hrest, H in Hlen; cbn [app length] in Hlen; repeat rewrite app_length in Hlen; repeat rewrite app_length; lia)
      ltac:(intros a' b H; apply Hinseg; rewrite H, has_slash_app in Hns1; apply orb_false_iff in Hns1; tauto)
      ltac:(intros a' b H; rewrite Hrest, H; cbn [app skipn]; rewrite <- app_assoc; apply skipn_app_exact)).
    clear HS. cbn [mode].
    replace (parse2 SegStart (ch_bslash :: rest0)) with
      (on_parse (app (lits (c2 :: seg1))) (fun ks => ks) (parse2 InSeg remaining)).
    2:{ rewrite Hrest. cbn [app]. rewrite (parse2_segstart_escape c2 (seg1 ++ remaining) Esp).
        rewrite (parse2_inseg seg1 remaining Hns1). destruct (parse2 InSeg remaining) as [[p ks]|]; reflexivity. }
    cbn [mode] in HS'. destruct (parse2 InSeg remaining) as [[q_rem ks]|]; cbn [on_parse]; exact HS'.
  - (* the token as written *)
    rewrite Esl. cbn [negb].
    pose proof (static_step f n wk token seg0 remaining true (fun split => skipn split (token :: rest0)) IH Hwf) as HS.
    cbv zeta in HS.
    assert (HS' := HS
      ltac:(intros a' b H; rewrite Hrest, H in Hlen; repeat rewrite app_length in Hlen; repeat rewrite app_length; lia)
      ltac:(intros a' b H; apply Hinseg; rewrite H, has_slash_app in Hns; apply orb_false_iff in Hns; tauto)
      ltac:(intros a' b H; rewrite Hrest, H; cbn [skipn]; rewrite <- app_assoc; apply skipn_app_exact)).
    clear HS.
    replace (parse2 (mode ins) (token :: rest0)) with
      (on_parse (app (lits (token :: seg0))) (fun ks => ks) (parse2 InSeg remaining)).
    2:{ assert (Hin : parse2 InSeg (token :: rest0) = on_parse (app (lits (token :: seg0))) (fun ks => ks) (parse2 InSeg remaining)).
        { rewrite Hrest. change (token :: seg0 ++ remaining) with ((token :: seg0) ++ remaining).
          apply parse2_inseg. cbn [has_slash]. rewrite Esl, Hns. reflexivity. }
        rewrite <- Hin. destruct ins; [reflexivity|]. cbn [mode negb andb] in *.
        symmetry. apply parse2_segstart_plain; try assumption.
        destruct (Ascii.eqb token ch_bslash) eqn:Eb; [right | left; reflexivity].
        destruct seg0 as [|c2 seg1] eqn:Eseg.
        - rewrite Hrest. cbn [app]. destruct Hse as [->|[r' ->]]; [exact I | reflexivity].
        - rewrite Hrest. cbn [app]. cbn [andb] in Eesc. exact Eesc. }
    cbn [mode] in HS'. destruct (parse2 InSeg remaining) as [[q_rem ks]|]; cbn [on_parse]; exact HS'.
Qed.

(** *** all cases *)
Theorem add_node_spec : forall f, spec_at f.
Proof.
  induction f as [|f IH]; intros n path wk ins Hwf Hlen; [lia|].
  destruct path as [|token rest0]; [apply add_spec_nil; exact Hwf|].
  cbn [length] in Hlen. assert (Hl : length rest0 < f) by lia.
  destruct (Ascii.eqb token ch_slash) eqn:Esl.
  { apply Ascii.eqb_eq in Esl. subst token. apply add_spec_cons_slash; assumption. }
  destruct (negb ins && Ascii.eqb token ch_star) eqn:Es.
  { apply andb_true_iff in Es as [Ei Es]. apply negb_true_iff in Ei. apply Ascii.eqb_eq in Es. subst ins token.
    apply add_spec_cons_star. exact Hwf. }
  destruct (negb ins && Ascii.eqb token ch_colon) eqn:Ec.
  { apply andb_true_iff in Ec as [Ei Ec]. apply negb_true_iff in Ei. apply Ascii.eqb_eq in Ec. subst ins token.
    apply add_spec_cons_colon; assumption. }
  apply add_spec_cons_static; assumption.
Qed.

End AddSpec.

(** ** Add on the tree and on the machine *)

Section AddRefines.
Variable V : Type.
Variable can_add : list V -> V -> bool.
Notation tree := (tree V).
Notation db := (db V).

(** one Add: same kind of result; on success the invariant is kept and the new tree
    holds the entries of the machine's new index *)
Theorem tree_add_refines (t : tree) (e : str) (v : V) (flag : bool) :
  wfb t = true ->
  tkind V (tree_add can_add t e v flag) = Some (akind V (add_expr can_add (abs t) e v flag)) /\
  forall t', tree_add can_add t e v flag = TOk t' ->
    wfb t' = true /\
    exists d', add_expr can_add (abs t) e v flag = AOk d' /\ same_entries V (abs t') d'.
Proof.
  intro Hwf. unfold tree_add, add_expr.
  pose proof (add_node_spec V can_add v flag (S (S (length e))) t e [] false Hwf ltac:(lia)) as H.
  unfold add_spec in H. cbn [mode] in H. unfold parse_expr. unfold parse2 in H.
  destruct (parse_go SegStart e) as [[[p cur] ks]|].
  2:{ rewrite H. split; [reflexivity | discriminate]. }
  cbv zeta in H. cbn [app] in H. destruct H as [Hk Hok].
  rewrite add_kind_machine, ends_catchall_C. split; [exact Hk|].
  intros t' Ht'. destruct (Hok t' Ht') as (Hw & _ & Hu). split; [exact Hw|].
  pose proof (add_assoc V can_add (abs t) p ks v flag) as Ha.
  pose proof (add_kind_machine V can_add (abs t) p ks v flag) as Hkm.
  rewrite Ht' in Hk. cbn [tkind] in Hk. inversion Hk as [Hk'].
  rewrite ends_catchall_C, <- Hk' in Hkm.
  destruct (add can_add (abs t) p ks v flag) as [d'| |]; try discriminate.
  exists d'. split; [reflexivity|]. intro r. rewrite (Hu r), (Ha r), upd_eq, ends_catchall_C. reflexivity.
Qed.

(** the machine's add only looks at the entries *)
Lemma add_same_entries (d1 d2 : db) p ks v bt :
  same_entries V d1 d2 ->
  akind V (add can_add d1 p ks v bt) = akind V (add can_add d2 p ks v bt) /\
  forall d1' d2', add can_add d1 p ks v bt = AOk d1' -> add can_add d2 p ks v bt = AOk d2' -> same_entries V d1' d2'.
Proof.
  intro H. split.
  - rewrite !add_kind_machine, (H p). reflexivity.
  - intros d1' d2' H1 H2 r.
    pose proof (add_assoc V can_add d1 p ks v bt) as A1. rewrite H1 in A1.
    pose proof (add_assoc V can_add d2 p ks v bt) as A2. rewrite H2 in A2.
    rewrite (A1 r), (A2 r), (H p), (H r). reflexivity.
Qed.

(** a sequence of Adds on the tree (a failed Add leaves it unchanged) *)
Definition tree_step (t : tree) (a : addop V) : tree :=
  match tree_add can_add t (ao_expr a) (ao_val a) (ao_bt a) with TOk t' => t' | _ => t end.

Definition tree_load_from (t : tree) (l : list (addop V)) : tree := fold_left tree_step l t.
Definition tree_load (l : list (addop V)) : tree := tree_load_from empty_tree l.

Lemma step_same_entries (t : tree) (d : db) a :
  wfb t = true -> same_entries V (abs t) d ->
  wfb (tree_step t a) = true /\ same_entries V (abs (tree_step t a)) (step can_add d a).
Proof.
  intros Hwf Hs. unfold tree_step, step.
  destruct (tree_add_refines t (ao_expr a) (ao_val a) (ao_bt a) Hwf) as [Hk Hok].
  unfold add_expr in *. destruct (parse_expr (ao_expr a)) as [[p ks]|].
  - destruct (add_same_entries (abs t) d p ks (ao_val a) (ao_bt a) Hs) as [Hk2 Hs2].
    destruct (tree_add can_add t (ao_expr a) (ao_val a) (ao_bt a)) as [t'| | |] eqn:Et; cbn [tkind] in Hk.
    + destruct (Hok t' eq_refl) as (Hw & d' & Hd' & Hse). split; [exact Hw|].
      rewrite Hd' in Hk2. cbn [akind] in Hk2.
      destruct (add can_add d p ks (ao_val a) (ao_bt a)) as [d2'| |] eqn:Ed; try discriminate.
      intro r. rewrite (Hse r). apply (Hs2 d' d2' Hd' eq_refl).
    + split; [exact Hwf|]. inversion Hk as [Hk']. rewrite <- Hk' in Hk2.
      destruct (add can_add d p ks (ao_val a) (ao_bt a)); try discriminate. exact Hs.
    + split; [exact Hwf|]. inversion Hk as [Hk']. rewrite <- Hk' in Hk2.
      destruct (add can_add d p ks (ao_val a) (ao_bt a)); try discriminate. exact Hs.
    + discriminate.
  - destruct (tree_add can_add t (ao_expr a) (ao_val a) (ao_bt a)) as [t'| | |]; cbn [tkind akind] in Hk; try discriminate.
    split; assumption.
Qed.

Theorem tree_load_from_refines l : forall (t : tree) (d : db),
  wfb t = true -> same_entries V (abs t) d ->
  wfb (tree_load_from t l) = true /\ same_entries V (abs (tree_load_from t l)) (load_from can_add d l).
Proof.
  induction l as [|a r IH]; intros t d Hwf Hs; [split; assumption|].
  cbn [tree_load_from load_from fold_left]. destruct (step_same_entries t d a Hwf Hs) as [Hw' Hs'].
  apply IH; assumption.
Qed.

(** for every sequence of Adds the compressed tree is well-formed and holds exactly
    the entries of the machine's index *)
Theorem tree_load_refines l :
  wfb (tree_load l) = true /\ Permutation (abs (tree_load l)) (load can_add l).
Proof.
  destruct (tree_load_from_refines l empty_tree [] eq_refl ltac:(intro r; reflexivity)) as [Hw Hs].
  split; [exact Hw|]. apply same_assoc_perm; [apply abs_NoDup; exact Hw | apply load_wf | exact Hs].
Qed.

(** hence findNode on the tree built by any sequence of Adds answers like the
    machine on the index built by the same Adds *)
Theorem tree_load_find (m : matcher V) fx l path :
  tree_find fx fx true m (tree_load l) path = find_in (negb fx) (load can_add l) path m.
Proof.
  destruct (tree_load_refines l) as [Hw HP].
  rewrite (tree_find_refines V m fx _ path Hw). apply find_in_perm; [exact HP | apply abs_NoDup; exact Hw].
Qed.

End AddRefines.
