(** Radix/Tree.v — stage 2: the compressed radix tree of internal/x/radixtree/tree.go,
    function by function ([addNode], [splitCommonPrefix], [Add], [findNode], [Find]),
    with one switch per repaired finding ([true] = the code as it is now, [false] =
    the pinned tree before that fix: commit):

      fx1  C02-F1 (e897fef): a failed free-wildcard child answers with ITS OWN flag
      fx2  C03-F2 (88da16a): the free-wildcard child's values are tried with its own key
           names and the captures including the rest of the path
      fx5  C03-F5 (16cf34b): a dead end gives back the captures it was given (not nil)

    Static-child priorities are not modelled (static indices are unique, the order of
    the children is irrelevant for every function here).  [Delete] / [delNode] / [deleteChild]
    are transcribed over this file in C06/TreeDel.v (owner: C06) and used by C02/Reach.v.

    [abs] maps a tree to the content of the pattern-map machine (Radix/Machine.v),
    [wfb] is the (executable) shape invariant under which Radix/TreeProofs.v proves
    that [find_node] is the machine's [lookup] on [abs].  Definitions only. *)
From HV Require Import Base.Prelude Radix.Spec Radix.Machine.

Section Tree.
Variable V : Type.
Notation node := (node V).
Notation db := (db V).
Notation matcher := (matcher V).

Inductive tree := Node {
  t_path : str;                          (* the bytes on the edge leading to this node *)
  t_statics : list (ascii * tree);       (* staticIndices / staticChildren *)
  t_wild : option tree;                  (* wildcardChild *)
  t_catch : option tree;                 (* catchAllChild *)
  t_vals : list V;                       (* values *)
  t_keys : list str;                     (* wildcardKeys *)
  t_bt : bool }.                         (* backtrackingEnabled *)

Definition leaf (p : str) : tree :=
  {| t_path := p; t_statics := []; t_wild := None; t_catch := None; t_vals := []; t_keys := []; t_bt := false |}.

Definition empty_tree : tree := leaf [].

Definition set_keys (n : tree) (k : list str) : tree :=
  {| t_path := t_path n; t_statics := t_statics n; t_wild := t_wild n; t_catch := t_catch n;
     t_vals := t_vals n; t_keys := k; t_bt := t_bt n |}.
Definition set_path (n : tree) (p : str) : tree :=
  {| t_path := p; t_statics := t_statics n; t_wild := t_wild n; t_catch := t_catch n;
     t_vals := t_vals n; t_keys := t_keys n; t_bt := t_bt n |}.
Definition set_statics (n : tree) (l : list (ascii * tree)) : tree :=
  {| t_path := t_path n; t_statics := l; t_wild := t_wild n; t_catch := t_catch n;
     t_vals := t_vals n; t_keys := t_keys n; t_bt := t_bt n |}.
Definition set_wild (n : tree) (w : tree) : tree :=
  {| t_path := t_path n; t_statics := t_statics n; t_wild := Some w; t_catch := t_catch n;
     t_vals := t_vals n; t_keys := t_keys n; t_bt := t_bt n |}.
Definition set_catch (n : tree) (c : tree) : tree :=
  {| t_path := t_path n; t_statics := t_statics n; t_wild := t_wild n; t_catch := Some c;
     t_vals := t_vals n; t_keys := t_keys n; t_bt := t_bt n |}.

(** "if len(n.values) == 0 { n.backtrackingEnabled = true }" when a child is created *)
Definition child_created (n : tree) : tree :=
  {| t_path := t_path n; t_statics := t_statics n; t_wild := t_wild n; t_catch := t_catch n;
     t_vals := t_vals n; t_keys := t_keys n;
     t_bt := if is_nil (t_vals n) then true else t_bt n |}.

(** ** strings *)

Fixpoint is_prefix (a b : str) : bool :=
  match a, b with
  | [], _ => true
  | x :: r, y :: s => Ascii.eqb x y && is_prefix r s
  | _ :: _, [] => false
  end.

Fixpoint common_prefix_len (a b : str) : nat :=
  match a, b with
  | x :: r, y :: s => if Ascii.eqb x y then S (common_prefix_len r s) else O
  | _, _ => O
  end.

Fixpoint find_static (c : ascii) (l : list (ascii * tree)) : option tree :=
  match l with
  | [] => None
  | (d, t) :: r => if Ascii.eqb c d then Some t else find_static c r
  end.

Fixpoint replace_static (c : ascii) (t' : tree) (l : list (ascii * tree)) : list (ascii * tree) :=
  match l with
  | [] => []
  | (d, t) :: r => if Ascii.eqb c d then (d, t') :: r else (d, t) :: replace_static c t' r
  end.

(** ** Add *)

(** splitCommonPrefix: the (possibly new intermediate) child to descend into and
    the number of bytes of [tok] it consumes *)
Definition split_common_prefix (child : tree) (tok : str) : tree * nat :=
  if is_prefix (t_path child) tok then (child, length (t_path child)) else
  let i := common_prefix_len (t_path child) tok in
  let rest := skipn i (t_path child) in
  match rest with
  | [] => (child, i)                      (* unreachable: then the first branch applies *)
  | c :: _ =>
    ({| t_path := firstn i tok; t_statics := [(c, set_path child rest)]; t_wild := None; t_catch := None;
        t_vals := []; t_keys := []; t_bt := false |}, i)
  end.

(** what [Add] does with the node [addNode] returns: constraint, options, append *)
Inductive tres := TOk (t : tree) | TInvalid | TConstraint | TFuel.

Variable can_add : list V -> V -> bool.

Definition put_value (v : V) (flag : bool) (n : tree) : tres :=
  if can_add (t_vals n) v
  then TOk {| t_path := t_path n; t_statics := t_statics n; t_wild := t_wild n; t_catch := t_catch n;
              t_vals := t_vals n ++ [v]; t_keys := t_keys n; t_bt := flag |}
  else TConstraint.

(** index of the first '/' *)
Fixpoint index_slash (s : str) : option nat :=
  match s with
  | [] => None
  | c :: r => if Ascii.eqb c ch_slash then Some O else option_map S (index_slash r)
  end.

(** addNode followed by what Add does at the node reached.  A failed Add leaves the
    tree as it was (the nodes the real addNode has created by then hold no values
    and are invisible to lookups; see docs/notes/C02.md). *)
Fixpoint add_node (fuel : nat) (n : tree) (path : str) (wk : list str) (in_static : bool)
         (v : V) (flag : bool) : tres :=
  match fuel with
  | O => TFuel
  | S f =>
    match path with
    | [] =>
      if is_nil wk then put_value v flag n else
      if negb (is_nil (t_keys n)) && negb (keys_eqb (t_keys n) wk) then TInvalid
      else put_value v flag (set_keys n wk)
    | token :: _ =>
      let next_slash := index_slash path in
      let tok_end := if Ascii.eqb token ch_slash then 1 else
                     match next_slash with Some k => k | None => length path end in
      let this_token := firstn tok_end path in
      let remaining := skipn tok_end path in
      if negb in_static && Ascii.eqb token ch_star then
        let name := skipn 1 this_token in
        match next_slash with
        | Some _ => TInvalid                         (* '/' after a free wildcard *)
        | None =>
          let '(n1, c) := match t_catch n with
                          | Some c => (n, c)
                          | None => (child_created n, leaf name)
                          end in
          if negb (str_eqb (skipn 1 path) (t_path c)) then TInvalid else
          (* fix 20f92b3 (C03-F3): "wildcard keys differ", as for a leaf node *)
          if negb (is_nil (t_keys c)) && negb (keys_eqb (t_keys c) (wk ++ [name])) then TInvalid else
          match put_value v flag (set_keys c (wk ++ [name])) with
          | TOk c' => TOk (set_catch n1 c')
          | e => e
          end
        end
      else if negb in_static && Ascii.eqb token ch_colon then
        let '(n1, w) := match t_wild n with
                        | Some w => (n, w)
                        | None => (child_created n, leaf (list_ascii_of_string "wildcard"))
                        end in
        match add_node f w remaining (wk ++ [skipn 1 this_token]) false v flag with
        | TOk w' => TOk (set_wild n1 w')
        | e => e
        end
      else
        let esc := negb in_static &&
                   match this_token with
                   | c1 :: c2 :: _ => Ascii.eqb c1 ch_bslash && is_special c2
                   | _ => false
                   end in
        let token' := if esc then match this_token with _ :: c2 :: _ => c2 | _ => token end else token in
        let this_token' := if esc then skipn 1 this_token else this_token in
        match find_static token' (t_statics n) with
        | Some child =>
          let '(child1, split) := split_common_prefix child this_token' in
          let split' := if esc then S split else split in
          match add_node f child1 (skipn split' path) wk (negb (Ascii.eqb token' ch_slash)) v flag with
          | TOk child2 => TOk (set_statics n (replace_static token' child2 (t_statics n)))
          | e => e
          end
        | None =>
          let n1 := child_created n in
          match add_node f (leaf this_token') remaining wk (negb (Ascii.eqb token' ch_slash)) v flag with
          | TOk child' => TOk (set_statics n1 (t_statics n ++ [(token', child')]))
          | e => e
          end
        end
    end
  end.

(** Tree.Add(path, value, WithBacktracking(flag)) *)
Definition tree_add (t : tree) (path : str) (v : V) (flag : bool) : tres :=
  add_node (S (S (length path))) t path [] false v flag.

(** ** findNode.  Result: found value with key names and captures, or the captures
    handed back and the backtrack flag *)
Inductive fres := FFound (v : V) (ks : list str) (caps : list str) | FNot (caps : list str) (bt : bool).

Section Find.
Variables fx1 fx2 fx5 : bool.
Variable m : matcher.

Fixpoint find_node (n : tree) (path : str) (caps : list str) {struct n} : fres :=
  match path with
  | [] =>
    match t_vals n with
    | [] => FNot (if fx5 then caps else []) true
    | _ => match find (fun v => m v (t_keys n) caps) (t_vals n) with
           | Some v => FFound v (t_keys n) caps
           | None => FNot (if fx5 then caps else []) (t_bt n)
           end
    end
  | first :: _ =>
    let st :=
      (fix go (l : list (ascii * tree)) : fres :=
         match l with
         | [] => FNot caps true
         | (d, child) :: r =>
           if Ascii.eqb first d then
             if is_prefix (t_path child) path
             then find_node child (skipn (length (t_path child)) path) caps
             else FNot caps true
           else go r
         end) (t_statics n) in
    match st with
    | FNot caps1 true =>
      (* captures is now what the static branch handed back *)
      let wl :=
        match t_wild n with
        | None => None
        | Some w =>
          let (seg, rest) := take_seg path in
          match seg with
          | [] => None
          | _ => match find_node w rest (caps1 ++ [seg]) with
                 | FNot _ true => None
                 | FNot _ false => Some (FNot [] false)
                 | r => Some r
                 end
          end
        end in
      match wl with
      | Some r => r
      | None =>
        match t_catch n with
        | None => FNot caps1 true
        | Some c =>
          let accepts v := if fx2 then m v (t_keys c) (caps1 ++ [path]) else m v (t_keys n) caps1 in
          match find accepts (t_vals c) with
          | Some v => FFound v (t_keys c) (caps1 ++ [path])
          | None => FNot caps1 (if fx1 then t_bt c else t_bt n)
          end
        end
      end
    | r => r
    end
  end.

Definition tree_find (t : tree) (path : str) : found V :=
  match find_node t path [] with
  | FFound v ks caps => Found v ks caps
  | FNot _ _ => NoMatch
  end.

End Find.

(** ** abstraction to the pattern-map machine *)

Definition pre (q : pat) (e : pat * node) : pat * node := (q ++ fst e, snd e).

Definition here_entry (n : tree) : db :=
  match t_vals n with
  | [] => []
  | _ => [([], {| vals := t_vals n; flag := t_bt n; keys := t_keys n |})]
  end.

Fixpoint abs (n : tree) : db :=
  here_entry n
  ++ (fix go (l : list (ascii * tree)) : db :=
        match l with
        | [] => []
        | (_, ch) :: r => map (pre (lits (t_path ch))) (abs ch) ++ go r
        end) (t_statics n)
  ++ match t_wild n with Some w => map (pre [W]) (abs w) | None => [] end
  ++ match t_catch n with Some c => map (pre [C]) (here_entry c) | None => [] end.

(** ** the shape invariant (executable) *)

Fixpoint indices_distinct (l : list (ascii * tree)) : bool :=
  match l with
  | [] => true
  | (c, _) :: r => negb (existsb (fun x => Ascii.eqb c (fst x)) r) && indices_distinct r
  end.

Definition starts_with (c : ascii) (s : str) : bool :=
  match s with x :: _ => Ascii.eqb c x | [] => false end.

Definition is_leaf (n : tree) : bool :=
  is_nil (t_statics n) && match t_wild n with None => true | _ => false end
  && match t_catch n with None => true | _ => false end.

Fixpoint wfb (n : tree) : bool :=
  indices_distinct (t_statics n)
  && (negb (is_nil (t_vals n)) || is_nil (t_keys n))   (* key names are set when a value arrives *)
  && (fix go (l : list (ascii * tree)) : bool :=
        match l with
        | [] => true
        | (c, ch) :: r => starts_with c (t_path ch) && wfb ch && go r
        end) (t_statics n)
  && match t_wild n with Some w => wfb w | None => true end
  && match t_catch n with
     | Some c => is_leaf c && negb (is_nil (t_vals c))
                 && str_eqb (last_key (t_keys c)) (t_path c)   (* the free wildcard's name is its last key name *)
                 && (negb (is_nil (t_vals n)) || t_bt n)   (* a node without values that has children allows backtracking *)
     | None => true
     end.

End Tree.

Arguments Node {V}.
Arguments t_path {V}.
Arguments t_statics {V}.
Arguments t_wild {V}.
Arguments t_catch {V}.
Arguments t_vals {V}.
Arguments t_keys {V}.
Arguments t_bt {V}.
Arguments leaf {V}.
Arguments empty_tree {V}.
Arguments find_static {V}.
Arguments TOk {V}.
Arguments TInvalid {V}.
Arguments TConstraint {V}.
Arguments TFuel {V}.
Arguments add_node {V}.
Arguments tree_add {V}.
Arguments FFound {V}.
Arguments FNot {V}.
Arguments find_node {V}.
Arguments tree_find {V}.
Arguments pre {V}.
Arguments here_entry {V}.
Arguments abs {V}.
Arguments wfb {V}.
