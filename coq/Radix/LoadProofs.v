(** Radix/LoadProofs.v — proofs about Radix/Load.v:

    - [lookup_faithful_eq]: outside [guard_F1] the pinned code before fix e897fef
      ([lookup true]) and the code as it is now ([lookup false]) agree, for matchers
      that only look at the value;
    - [lookup_perm]: the search does not depend on the order of the entries;
    - invariants of [add] / [load]: one entry per expression, no empty entry,
      well-formed patterns;
    - [load_assoc]: the node of an expression is determined by the [Add]s of that
      expression alone, hence [load_order_independent]. *)
From HV Require Import Base.Prelude Radix.Spec Radix.SpecProofs Radix.Machine Radix.MachineProofs Radix.Load.
From Coq Require Import Permutation Sorted.

(** ** small facts *)

Lemma find_ext {A} (f g : A -> bool) l : (forall x, f x = g x) -> find f l = find g l.
Proof. intro H. induction l as [|x r IH]; simpl; [reflexivity|]. rewrite H, IH. reflexivity. Qed.

Lemma find_none_forallb {A} (f : A -> bool) l : find f l = None <-> forallb (fun x => negb (f x)) l = true.
Proof.
  induction l as [|x r IH]; simpl; [tauto|]. destruct (f x); simpl; [split; discriminate | exact IH].
Qed.

Lemma pat_eqb_cons t q t' q' : pat_eqb (t :: q) (t' :: q') = tok_eqb t t' && pat_eqb q q'.
Proof. reflexivity. Qed.

Lemma pat_eqb_sym p q : pat_eqb p q = pat_eqb q p.
Proof.
  destruct (pat_eqb p q) eqn:E1, (pat_eqb q p) eqn:E2; try reflexivity.
  - apply pat_eqb_eq in E1. subst. rewrite pat_eqb_refl in E2. discriminate.
  - apply pat_eqb_eq in E2. subst. rewrite pat_eqb_refl in E1. discriminate.
Qed.

Lemma NoDup_snoc {A} (l : list A) x : ~ In x l -> NoDup l -> NoDup (l ++ [x]).
Proof.
  intros Hn Hnd. induction Hnd as [|y r Hy Hr IH]; simpl; [constructor; [auto | constructor]|].
  constructor.
  - intro Hin. apply in_app_or in Hin as [Hin|[Hin|[]]]; [auto|]. subst. apply Hn. left. reflexivity.
  - apply IH. intro Hin. apply Hn. right. assumption.
Qed.

Lemma assoc_deriv {A} t q (d : list (pat * A)) : assoc q (deriv t d) = assoc (t :: q) d.
Proof.
  induction d as [|[p a] d IH]; [reflexivity|]. rewrite deriv_cons. cbn [assoc].
  destruct p as [|t' p']; [exact IH|]. rewrite pat_eqb_cons.
  destruct (tok_eqb t t'); cbn [assoc andb]; [|exact IH]. rewrite IH. reflexivity.
Qed.

Lemma assoc_nil_here {A} (d : list (pat * A)) : assoc [] d = here d.
Proof.
  unfold here. induction d as [|[p a] d IH]; [reflexivity|]. rewrite heres_cons. cbn [assoc].
  destruct p; [reflexivity | exact IH].
Qed.

Lemma here_in {A} (d : list (pat * A)) a : here d = Some a -> In ([], a) d.
Proof.
  unfold here. destruct (heres d) as [|x r] eqn:E; [discriminate|]. intro H. inversion H; subst.
  apply in_heres. rewrite E. left. reflexivity.
Qed.

Lemma ends_C_nonnil p : ends_C p = true -> p <> [].
Proof. destruct p; [discriminate | discriminate]. Qed.

Lemma ends_C_cons t p : p <> [] -> ends_C (t :: p) = ends_C p.
Proof. destruct p as [|x r]; [congruence|]. intros _. destruct t; reflexivity. Qed.

Lemma butlast_cons t p : p <> [] -> butlast (t :: p) = t :: butlast p.
Proof. destruct p; [congruence | reflexivity]. Qed.

Section Faithful.
Variable V : Type.
Notation node := (node V).
Notation db := (db V).
Notation matcher := (matcher V).
Variable m : matcher.
Hypothesis m_cond : cond_only m.

Lemma pflag_deriv t q (d : db) : pflag (deriv t d) q = pflag d (t :: q).
Proof. unfold pflag. rewrite assoc_deriv. reflexivity. Qed.

Lemma pflag_nil (d : db) : pflag d [] = parent_flag d.
Proof. unfold pflag, parent_flag. rewrite assoc_nil_here. reflexivity. Qed.

Lemma guard_false_in (d : db) path e :
  guard_F1 d path m = false -> In e d -> guard_F1_entry m d path e = false.
Proof.
  unfold guard_F1. intros H Hin. destruct (guard_F1_entry m d path e) eqn:E; [|reflexivity].
  assert (existsb (guard_F1_entry m d path) d = true) by (apply existsb_exists; eauto). congruence.
Qed.

(** the guard of a child node, seen from the parent *)
Lemma guard_step t (d : db) path path' :
  (forall p, p <> [] -> matchesb p path' = true -> matchesb (t :: p) path = true) ->
  guard_F1 d path m = false -> guard_F1 (deriv t d) path' m = false.
Proof.
  intros Hm H. destruct (guard_F1 (deriv t d) path' m) eqn:E; [|reflexivity]. exfalso.
  apply existsb_exists in E as ([p n] & Hin & Hc). apply in_deriv in Hin.
  pose proof (guard_false_in d path _ H Hin) as Hf.
  unfold guard_F1_entry in *. cbn [fst snd] in *.
  apply andb_true_iff in Hc as [Hc Hfl]. apply andb_true_iff in Hc as [Hc Hno].
  apply andb_true_iff in Hc as [Hec Hma].
  pose proof (ends_C_nonnil p Hec) as Hnn.
  rewrite (ends_C_cons t p Hnn), Hec, (Hm p Hnn Hma), Hno in Hf.
  rewrite (butlast_cons t p Hnn), <- pflag_deriv, Hfl in Hf. discriminate.
Qed.

Lemma guard_step_L c (d : db) rest :
  guard_F1 d (c :: rest) m = false -> guard_F1 (deriv (L c) d) rest m = false.
Proof.
  apply guard_step. intros p _ H. rewrite matchesb_L, Ascii.eqb_refl. exact H.
Qed.

Lemma guard_step_W (d : db) path x seg rest' :
  take_seg path = (x :: seg, rest') ->
  guard_F1 d path m = false -> guard_F1 (deriv W d) rest' m = false.
Proof.
  intro Hts. apply guard_step. intros p _ H. rewrite (matchesb_W p path _ _ Hts). exact H.
Qed.

(** at a free-wildcard node that fails, the two flags agree *)
Lemma guard_here_C (d : db) c rest n :
  guard_F1 d (c :: rest) m = false -> here (deriv C d) = Some n ->
  find (fun v => m v [] []) (vals n) = None -> flag n = parent_flag d.
Proof.
  intros H Hh Hf. apply here_in in Hh. apply in_deriv in Hh.
  pose proof (guard_false_in d (c :: rest) _ H Hh) as Hg.
  unfold guard_F1_entry in Hg. cbn [fst snd ends_C butlast] in Hg.
  rewrite matchesb_C in Hg. cbn [is_nil andb] in Hg.
  apply find_none_forallb in Hf. unfold none_ok in Hg. rewrite Hf in Hg. cbn [andb] in Hg.
  rewrite pflag_nil in Hg. apply negb_false_iff in Hg. apply Bool.eqb_prop in Hg. exact Hg.
Qed.

Theorem lookup_faithful_eq fuel : forall (d : db) path caps,
  guard_F1 d path m = false ->
  lookup true fuel m d path caps = lookup false fuel m d path caps.
Proof.
  induction fuel as [|f IH]; intros d path caps Hg; [reflexivity|].
  destruct path as [|c rest]; [reflexivity|].
  cbn [lookup].
  assert (H1 : (if is_nil (deriv (L c) d) then RNotFound true else lookup true f m (deriv (L c) d) rest caps)
             = (if is_nil (deriv (L c) d) then RNotFound true else lookup false f m (deriv (L c) d) rest caps)).
  { destruct (is_nil _); [reflexivity|]. apply IH. apply guard_step_L. exact Hg. }
  rewrite H1. clear H1. destruct (if is_nil (deriv (L c) d) then _ else _) as [| [|] |]; try reflexivity.
  destruct (take_seg (c :: rest)) as [seg rest'] eqn:Hts.
  assert (H2 : (if is_nil (deriv W d) then RNotFound true
                else match seg with [] => RNotFound true | _ :: _ => lookup true f m (deriv W d) rest' (caps ++ [seg]) end)
             = (if is_nil (deriv W d) then RNotFound true
                else match seg with [] => RNotFound true | _ :: _ => lookup false f m (deriv W d) rest' (caps ++ [seg]) end)).
  { destruct (is_nil _); [reflexivity|]. destruct seg as [|x seg]; [reflexivity|].
    apply IH. eapply guard_step_W; eassumption. }
  rewrite H2. clear H2. destruct (if is_nil (deriv W d) then _ else _) as [| [|] |]; try reflexivity.
  destruct (here (deriv C d)) as [n|] eqn:Hh; [|reflexivity].
  rewrite (find_ext (fun v => m v (parent_keys d) caps) (fun v => m v (keys n) (caps ++ [c :: rest])))
    by (intro v; apply m_cond).
  destruct (find _ (vals n)) eqn:Hf; [reflexivity|].
  f_equal. symmetry. eapply guard_here_C; [exact Hg | exact Hh|].
  rewrite <- Hf. apply find_ext. intro v. apply m_cond.
Qed.

Corollary find_faithful_eq (d : db) path :
  guard_F1 d path m = false -> find_in true d path m = find_in false d path m.
Proof. intro H. unfold find_in, find_res. rewrite (lookup_faithful_eq _ d path [] H). reflexivity. Qed.

End Faithful.

(** ** The search does not depend on the order of the entries *)

Section Perm.
Variable V : Type.
Notation node := (node V).
Notation db := (db V).
Notation matcher := (matcher V).
Variable m : matcher.

Lemma deriv_perm {A} t (d d' : list (pat * A)) : Permutation d d' -> Permutation (deriv t d) (deriv t d').
Proof. intro H. unfold deriv. apply Permutation_flat_map. exact H. Qed.

Lemma heres_perm {A} (d d' : list (pat * A)) : Permutation d d' -> Permutation (heres d) (heres d').
Proof. intro H. unfold heres. apply Permutation_flat_map. exact H. Qed.

Lemma NoDup_fst_perm {A} (d d' : list (pat * A)) : Permutation d d' -> NoDup (map fst d) -> NoDup (map fst d').
Proof. intros H. apply Permutation_NoDup. apply Permutation_map. assumption. Qed.

Lemma here_perm {A} (d d' : list (pat * A)) : Permutation d d' -> NoDup (map fst d) -> here d = here d'.
Proof.
  intros H Hnd. unfold here. pose proof (heres_perm d d' H) as Hp.
  destruct (heres_le1 d Hnd) as [E|[a E]]; rewrite E in *.
  - apply Permutation_nil in Hp. rewrite Hp. reflexivity.
  - apply Permutation_length_1_inv in Hp. rewrite Hp. reflexivity.
Qed.

Lemma is_nil_perm {A} (l l' : list A) : Permutation l l' -> is_nil l = is_nil l'.
Proof.
  intro H. destruct l as [|x r].
  - apply Permutation_nil in H. subst. reflexivity.
  - destruct l' as [|y r']; [|reflexivity]. apply Permutation_sym, Permutation_nil in H. discriminate.
Qed.

Theorem lookup_perm fa fuel : forall (d d' : db) path caps,
  Permutation d d' -> NoDup (map fst d) ->
  lookup fa fuel m d path caps = lookup fa fuel m d' path caps.
Proof.
  induction fuel as [|f IH]; intros d d' path caps HP Hnd; [reflexivity|].
  destruct path as [|c rest]; cbn [lookup].
  - rewrite (here_perm d d' HP Hnd). reflexivity.
  - rewrite (is_nil_perm _ _ (deriv_perm (L c) d d' HP)).
    rewrite (IH (deriv (L c) d) (deriv (L c) d') rest caps (deriv_perm _ _ _ HP) (NoDup_deriv _ _ Hnd)).
    rewrite (is_nil_perm _ _ (deriv_perm W d d' HP)).
    destruct (take_seg (c :: rest)) as [seg rest'].
    rewrite (IH (deriv W d) (deriv W d') rest' (caps ++ [seg]) (deriv_perm _ _ _ HP) (NoDup_deriv _ _ Hnd)).
    rewrite (here_perm (deriv C d) (deriv C d') (deriv_perm _ _ _ HP) (NoDup_deriv _ _ Hnd)).
    unfold parent_keys, parent_flag. rewrite (here_perm d d' HP Hnd). reflexivity.
Qed.

Corollary find_in_perm fa (d d' : db) path :
  Permutation d d' -> NoDup (map fst d) -> find_in fa d path m = find_in fa d' path m.
Proof. intros HP Hnd. unfold find_in, find_res. rewrite (lookup_perm fa _ d d' path [] HP Hnd). reflexivity. Qed.

End Perm.

(** ** [add], [load]: invariants; the node of an expression depends on the [Add]s of that expression only *)

Section LoadFacts.
Variable V : Type.
Variable can_add : list V -> V -> bool.
Notation node := (node V).
Notation db := (db V).
Notation matcher := (matcher V).
Notation addop := (addop V).

Lemma assoc_in (d : db) p n : assoc p d = Some n -> In (p, n) d.
Proof.
  induction d as [|[q a] d IH]; cbn [assoc]; [discriminate|].
  destruct (pat_eqb p q) eqn:E.
  - apply pat_eqb_eq in E. subst. intro H. inversion H. left. reflexivity.
  - intro H. right. auto.
Qed.

Lemma in_assoc (d : db) p n : NoDup (map fst d) -> In (p, n) d -> assoc p d = Some n.
Proof.
  induction d as [|[q a] d IH]; intros Hnd Hin; [destruct Hin|].
  cbn [map fst] in Hnd. inversion Hnd; subst. cbn [assoc]. destruct Hin as [Hin|Hin].
  - inversion Hin; subst. rewrite pat_eqb_refl. reflexivity.
  - destruct (pat_eqb p q) eqn:E; [|auto]. apply pat_eqb_eq in E. subst q.
    exfalso. apply H1. change p with (fst (p, n)). apply in_map. assumption.
Qed.

Lemma assoc_none (d : db) p : assoc p d = None -> ~ In p (map fst d).
Proof.
  induction d as [|[q a] d IH]; cbn [assoc]; [auto|].
  destruct (pat_eqb p q) eqn:E; [discriminate|]. intros H [Hq|Hin]; [|exact (IH H Hin)].
  simpl in Hq. subst q. rewrite pat_eqb_refl in E. discriminate.
Qed.

(** what one [Add] does, entry by entry *)
Lemma add_assoc (d : db) p ks v bt :
  match add can_add d p ks v bt with
  | AOk d' => forall q, assoc q d' = if pat_eqb q p then upd can_add p (assoc p d) ks v bt else assoc q d
  | _ => upd can_add p (assoc p d) ks v bt = assoc p d
  end.
Proof.
  induction d as [|[q0 n] r IH]; cbn [add assoc].
  - unfold upd. destruct (can_add [] v); [|reflexivity]. intro q. cbn [assoc].
    rewrite (pat_eqb_sym q p). destruct (pat_eqb p q) eqn:E; reflexivity.
  - destruct (pat_eqb p q0) eqn:E.
    + apply pat_eqb_eq in E. subst q0. unfold upd.
      destruct (merge_keys p n ks) as [ks'|]; [|reflexivity].
      destruct (can_add (vals n) v); [|reflexivity]. intro q. cbn [assoc]. destruct (pat_eqb q p); reflexivity.
    + destruct (add can_add r p ks v bt) as [r'| |]; [|exact IH|exact IH].
      intro q. cbn [assoc]. destruct (pat_eqb q q0) eqn:E2; [|apply IH].
      apply pat_eqb_eq in E2. subst q0. rewrite (pat_eqb_sym q p), E. reflexivity.
Qed.

Lemma add_keys (d d' : db) p ks v bt : add can_add d p ks v bt = AOk d' ->
  map fst d' = map fst d \/ (~ In p (map fst d) /\ map fst d' = map fst d ++ [p]).
Proof.
  revert d'. induction d as [|[q0 n] r IH]; intros d'; cbn [add].
  - destruct (can_add [] v); [|discriminate]. intro H. inversion H. right. split; [auto | reflexivity].
  - destruct (pat_eqb p q0) eqn:E.
    + destruct (merge_keys p n ks); [|discriminate]. destruct (can_add (vals n) v); [|discriminate].
      intro H. inversion H. left. reflexivity.
    + destruct (add can_add r p ks v bt) as [r'| |] eqn:Er; try discriminate.
      intro H. inversion H; subst d'. destruct (IH r' eq_refl) as [Hk|[Hn Hk]].
      * left. simpl. rewrite Hk. reflexivity.
      * right. split; [|simpl; rewrite Hk; reflexivity]. intros [Hq|Hin]; [|auto].
        simpl in Hq. subst q0. rewrite pat_eqb_refl in E. discriminate.
Qed.

Lemma add_NoDup (d d' : db) p ks v bt :
  add can_add d p ks v bt = AOk d' -> NoDup (map fst d) -> NoDup (map fst d').
Proof.
  intros H Hnd. destruct (add_keys _ _ _ _ _ _ H) as [Hk|[Hn Hk]]; rewrite Hk; [assumption|].
  apply NoDup_snoc; assumption.
Qed.

Lemma add_nonempty (d d' : db) p ks v bt :
  add can_add d p ks v bt = AOk d' -> nonempty_db V d -> nonempty_db V d'.
Proof.
  unfold nonempty_db. revert d'. induction d as [|[q0 n] r IH]; intros d'; cbn [add].
  - destruct (can_add [] v); [|discriminate]. intros H _. inversion H. constructor; [discriminate | constructor].
  - intros H Hne. inversion Hne as [|x l Hx Hl]; subst. destruct (pat_eqb p q0).
    + destruct (merge_keys p n ks); [|discriminate]. destruct (can_add (vals n) v); [|discriminate].
      inversion H. constructor; [|assumption]. cbn [snd vals]. destruct (vals n); discriminate.
    + destruct (add can_add r p ks v bt) as [r'| |] eqn:Er; try discriminate.
      inversion H; subst d'. constructor; [assumption|]. apply IH; [reflexivity | assumption].
Qed.

Lemma add_wf (d d' : db) p ks v bt :
  add can_add d p ks v bt = AOk d' -> wf_pat p = true ->
  Forall (fun q => wf_pat q = true) (map fst d) -> Forall (fun q => wf_pat q = true) (map fst d').
Proof.
  intros H Hp Hd. destruct (add_keys _ _ _ _ _ _ H) as [Hk|[Hn Hk]]; rewrite Hk; [assumption|].
  apply Forall_app. split; [assumption|]. constructor; [assumption | constructor].
Qed.

(** the state of the index after any sequence of [Add]s *)
Definition wf_db (d : db) : Prop :=
  NoDup (map fst d) /\ nonempty_db V d /\ Forall (fun q => wf_pat q = true) (map fst d).

Lemma wf_db_nil : wf_db [].
Proof. repeat split; constructor. Qed.

Lemma step_wf (d : db) a : wf_db d -> wf_db (step can_add d a).
Proof.
  intros (H1 & H2 & H3). unfold step, add_expr.
  destruct (parse_expr (ao_expr a)) as [[p ks]|] eqn:Ep; [|repeat split; assumption].
  destruct (add can_add d p ks (ao_val a) (ao_bt a)) as [d'| |] eqn:Ea; try (repeat split; assumption).
  repeat split.
  - eapply add_NoDup; eassumption.
  - eapply add_nonempty; eassumption.
  - eapply add_wf; try eassumption. eapply parse_expr_wf. eassumption.
Qed.

Lemma load_from_wf l : forall d : db, wf_db d -> wf_db (load_from can_add d l).
Proof.
  induction l as [|a r IH]; intros d H; [exact H|]. cbn [load_from fold_left]. apply IH. apply step_wf. exact H.
Qed.

Theorem load_wf l : wf_db (load can_add l).
Proof. apply load_from_wf. apply wf_db_nil. Qed.

(** one step, seen from expression [p] *)
Lemma step_assoc (d : db) a p :
  assoc p (step can_add d a) = if targets p a then upd_op can_add p (assoc p d) a else assoc p d.
Proof.
  unfold step, add_expr, targets, upd_op.
  destruct (parse_expr (ao_expr a)) as [[q ks]|]; [|reflexivity].
  pose proof (add_assoc d q ks (ao_val a) (ao_bt a)) as H.
  destruct (add can_add d q ks (ao_val a) (ao_bt a)) as [d'| |].
  - rewrite H. destruct (pat_eqb p q) eqn:E; [|reflexivity]. apply pat_eqb_eq in E. subst q. reflexivity.
  - destruct (pat_eqb p q) eqn:E; [|reflexivity]. apply pat_eqb_eq in E. subst q. symmetry. exact H.
  - destruct (pat_eqb p q) eqn:E; [|reflexivity]. apply pat_eqb_eq in E. subst q. symmetry. exact H.
Qed.

Lemma load_from_assoc l p : forall d : db,
  assoc p (load_from can_add d l) = fold_left (upd_op can_add p) (filter (targets p) l) (assoc p d).
Proof.
  induction l as [|a r IH]; intro d; [reflexivity|].
  cbn [load_from fold_left filter]. fold (load_from can_add (step can_add d a) r).
  rewrite IH, step_assoc. destruct (targets p a); reflexivity.
Qed.

(** the node of an expression is the one its own [Add]s build *)
Theorem load_assoc l p : assoc p (load can_add l) = group_node can_add p l.
Proof. apply load_from_assoc. Qed.

(** two indexes with one entry per expression and the same entries *)
Lemma same_assoc_perm (d d' : db) :
  NoDup (map fst d) -> NoDup (map fst d') -> (forall p, assoc p d = assoc p d') -> Permutation d d'.
Proof.
  intros H1 H2 H. apply NoDup_Permutation.
  - eapply NoDup_map_inv. exact H1.
  - eapply NoDup_map_inv. exact H2.
  - intros [p n]. split; intro Hin.
    + apply assoc_in. rewrite <- H. apply in_assoc; assumption.
    + apply assoc_in. rewrite H. apply in_assoc; assumption.
Qed.

Theorem load_same_groups_perm l l' :
  same_groups l l' -> Permutation (load can_add l) (load can_add l').
Proof.
  intro H. apply same_assoc_perm; try apply load_wf.
  intro p. rewrite !load_assoc. unfold group_node. rewrite (H p). reflexivity.
Qed.

(** order independence: interleaving the [Add]s of different expressions
    differently never changes a lookup (for the code as it is now and for the pinned one) *)
Theorem load_order_independent fa l l' (m : matcher) path :
  same_groups l l' ->
  find_in fa (load can_add l) path m = find_in fa (load can_add l') path m.
Proof.
  intro H. apply find_in_perm; [apply load_same_groups_perm; exact H | apply load_wf].
Qed.

End LoadFacts.

(** ** the flag of an expression as the property states it (finding C02-F2) *)

Section SpecFlagFacts.
Variable V : Type.
Variable vflag : V -> bool.
Notation node := (node V).
Notation db := (db V).
Notation matcher := (matcher V).
Variable m : matcher.

Lemma respec_fst (d : db) : map fst (respec vflag d) = map fst d.
Proof. unfold respec. rewrite map_map. reflexivity. Qed.

Lemma respec_filter (f : pat -> bool) (d : db) :
  filter (fun e => f (fst e)) (respec vflag d) = respec vflag (filter (fun e => f (fst e)) d).
Proof.
  induction d as [|[p n] d IH]; [reflexivity|]. cbn [respec map filter fst]. fold (respec vflag d).
  destruct (f p); cbn [respec map]; rewrite IH; reflexivity.
Qed.

Lemma respec_insert (e : pat * node) (l : db) :
  insert_e (fst e, respec_node vflag (snd e)) (respec vflag l) = respec vflag (insert_e e l).
Proof.
  induction l as [|x r IH]; [reflexivity|]. cbn [respec map insert_e fst]. fold (respec vflag r).
  destruct (more_specific (fst x) (fst e)); cbn [respec map]; [rewrite IH|]; reflexivity.
Qed.

Lemma respec_sort (l : db) : sort_e (respec vflag l) = respec vflag (sort_e l).
Proof.
  induction l as [|x r IH]; [reflexivity|]. cbn [respec map sort_e fold_right]. fold (respec vflag r).
  fold (sort_e (respec vflag r)). fold (sort_e r). rewrite IH. destruct x as [p n]. apply (respec_insert (p, n)).
Qed.

(** outside the guard the flags in force and the flags the property states give the same scan *)
Lemma scan_respec path (l : db) :
  (forall e, In e l -> matchesb (fst e) path = true) ->
  (forall e, In e l -> guard_F2_entry vflag m path e = false) ->
  scan m path l = scan m path (respec vflag l).
Proof.
  induction l as [|[p n] r IH]; intros Hm Hg; [reflexivity|]. cbn [respec map scan fst snd respec_node vals keys flag].
  fold (respec vflag r).
  assert (IH' : scan m path r = scan m path (respec vflag r)).
  { apply IH; intros e He; [apply Hm | apply Hg]; right; exact He. }
  destruct (vals n) eqn:Ev; [exact IH'|]. rewrite <- Ev.
  destruct (find _ (vals n)) eqn:Ef; [reflexivity|].
  specialize (Hg (p, n) (or_introl eq_refl)). specialize (Hm (p, n) (or_introl eq_refl)).
  unfold guard_F2_entry, fails_at in Hg. cbn [fst snd] in *. unfold matchesb in Hm.
  destruct (match_pat p path) as [caps|]; [|discriminate].
  apply find_none_forallb in Ef. rewrite Ef in Hg. cbn [andb] in Hg.
  apply negb_false_iff in Hg. apply Bool.eqb_prop in Hg. rewrite <- Hg. rewrite IH'. reflexivity.
Qed.

Theorem spec_lookup_respec (d : db) path :
  guard_F2 vflag d path m = false -> spec_lookup d path m = spec_lookup (respec vflag d) path m.
Proof.
  intro Hg. unfold spec_lookup.
  rewrite (respec_filter (fun p => matchesb p path) d), respec_sort.
  apply scan_respec.
  - intros e He. eapply Permutation_in in He; [|apply sort_e_perm]. apply filter_In in He as [_ He]. exact He.
  - intros e He. eapply Permutation_in in He; [|apply sort_e_perm]. apply filter_In in He as [He _].
    unfold guard_F2 in Hg. destruct (guard_F2_entry vflag m path e) eqn:E; [|reflexivity].
    assert (existsb (guard_F2_entry vflag m path) d = true) by (apply existsb_exists; eauto). congruence.
Qed.

(** *** the flag in force is the flag of the value added last *)

Variable can_add : list V -> V -> bool.

Definition flag_is_last (n : node) : Prop :=
  match last_opt (vals n) with Some v => flag n = vflag v | None => True end.

Lemma last_opt_snoc (l : list V) v : last_opt (l ++ [v]) = Some v.
Proof. unfold last_opt. rewrite rev_app_distr. reflexivity. Qed.

Lemma add_flag_last (d d' : db) p ks v :
  add can_add d p ks v (vflag v) = AOk d' ->
  Forall (fun e => flag_is_last (snd e)) d -> Forall (fun e => flag_is_last (snd e)) d'.
Proof.
  revert d'. induction d as [|[q n] r IH]; intros d'; cbn [add].
  - destruct (can_add [] v); [|discriminate]. intros H _. inversion H. constructor; [|constructor].
    unfold flag_is_last. cbn [snd vals flag last_opt rev app]. reflexivity.
  - intros H HF. inversion HF as [|x l Hx Hl]; subst. destruct (pat_eqb p q).
    + destruct (merge_keys p n ks); [|discriminate]. destruct (can_add (vals n) v); [|discriminate].
      inversion H. constructor; [|assumption]. unfold flag_is_last. cbn [snd vals flag]. rewrite last_opt_snoc. reflexivity.
    + destruct (add can_add r p ks v (vflag v)) as [r'| |] eqn:Er; try discriminate.
      inversion H; subst d'. constructor; [assumption|]. apply IH; [reflexivity | assumption].
Qed.

Theorem load_flag_last (l : list (addop V)) :
  flags_from_values vflag l -> Forall (fun e => flag_is_last (snd e)) (load can_add l).
Proof.
  unfold load. generalize (@nil (pat * node)) (Forall_nil (fun e : pat * node => flag_is_last (snd e))).
  induction l as [|a r IH]; intros d Hd Hf; [exact Hd|]. cbn [load_from fold_left]. apply IH.
  - unfold step, add_expr. destruct (parse_expr (ao_expr a)) as [[p ks]|]; [|exact Hd].
    destruct (add can_add d p ks (ao_val a) (ao_bt a)) as [d'| |] eqn:Ea; try exact Hd.
    rewrite (Hf a (or_introl eq_refl)) in Ea. eapply add_flag_last; eassumption.
  - intros b Hb. apply Hf. right. exact Hb.
Qed.

End SpecFlagFacts.
