(** Radix/Spec.v — path expressions of heimdall's rule index and their declarative
    meaning (C02, C03, C06, C08).

    - tokens [L c | W | C] (literal byte, single wildcard, free wildcard),
    - [parse_expr] : expression string -> tokens + wildcard key names, with the
      escapes and the static validity rule of tree.go's [addNode],
    - [matches] : the declarative matching relation, [match_pat] its decision
      function (equivalent on well-formed patterns, see Radix/SpecProofs.v),
    - the specificity order and [spec_lookup], the specification of a lookup:
      scan the matching expressions from the most specific one on.

    Nothing in this file refers to the search algorithm. *)
From HV Require Import Base.Prelude.

Definition str := list ascii.

Definition ch_slash : ascii := "/"%char.
Definition ch_colon : ascii := ":"%char.
Definition ch_star : ascii := "*"%char.
Definition ch_bslash : ascii := "\"%char.

Definition is_special (c : ascii) : bool :=
  Ascii.eqb c ch_colon || Ascii.eqb c ch_star || Ascii.eqb c ch_bslash.

(** ** Tokens and patterns *)

Inductive tok := L (c : ascii) | W | C.
Definition pat := list tok.

Definition tok_eqb (a b : tok) : bool :=
  match a, b with
  | L x, L y => Ascii.eqb x y
  | W, W | C, C => true
  | _, _ => false
  end.

Definition pat_eqb : pat -> pat -> bool := list_eqb tok_eqb.

Definition lits (s : str) : pat := map L s.

(** ** Parsing an expression (tree.go addNode, seen from outside)

    A segment is what stands between two '/'.  Only its first byte is special:
    ':' makes the segment a single wildcard (the rest is its key name), '*' a
    free wildcard (the rest is its key name; nothing may follow the segment), a
    backslash followed by ':', '*' or a backslash is dropped and the rest of the
    segment is literal.  Everywhere else every byte (backslashes, ':' and '*'
    included) is literal.  Every '/' is a literal of its own.

    [parse_go md s] returns (tokens, pending key-name prefix, key names). *)

Inductive pmode := SegStart | InSeg | InName.

Fixpoint has_slash (s : str) : bool :=
  match s with
  | [] => false
  | c :: r => Ascii.eqb c ch_slash || has_slash r
  end.

Fixpoint parse_go (md : pmode) (s : str) : option (pat * str * list str) :=
  match s with
  | [] => Some ([], [], [])
  | c :: r =>
    if Ascii.eqb c ch_slash then
      match parse_go SegStart r with
      | Some (p, _, ks) => Some (L c :: p, [], ks)
      | None => None
      end
    else
      match md with
      | InSeg =>
        match parse_go InSeg r with
        | Some (p, _, ks) => Some (L c :: p, [], ks)
        | None => None
        end
      | InName =>
        match parse_go InName r with
        | Some (p, cur, ks) => Some (p, c :: cur, ks)
        | None => None
        end
      | SegStart =>
        if Ascii.eqb c ch_star then
          if has_slash r then None else Some ([C], [], [r])
        else if Ascii.eqb c ch_colon then
          match parse_go InName r with
          | Some (p, cur, ks) => Some (W :: p, [], cur :: ks)
          | None => None
          end
        else
          let lit c' r' :=
            match parse_go InSeg r' with
            | Some (p, _, ks) => Some (L c' :: p, [], ks)
            | None => None
            end in
          if Ascii.eqb c ch_bslash then
            match r with
            | c2 :: r2 => if is_special c2 then lit c2 r2 else lit c r
            | [] => lit c r
            end
          else lit c r
      end
  end.

Definition parse_expr (s : str) : option (pat * list str) :=
  match parse_go SegStart s with
  | Some (p, _, ks) => Some (p, ks)
  | None => None
  end.

(** ** Well-formed patterns: a wildcard covers a whole segment, a free
    wildcard is last.  ([parse_expr] only produces such patterns.) *)

Fixpoint wf_pat (p : pat) : bool :=
  match p with
  | [] => true
  | L _ :: r => wf_pat r
  | W :: r => match r with [] => true | L c :: _ => Ascii.eqb c ch_slash && wf_pat r | _ => false end
  | C :: r => is_nil r
  end.

(** ** Declarative matching.  [matches p path caps]: [path] is an instance of
    [p], [caps] are the byte strings taken by the wildcards, left to right.
    A single wildcard takes a non-empty run of bytes without '/', the free
    wildcard the non-empty rest. *)

Inductive matches : pat -> str -> list str -> Prop :=
| m_nil : matches [] [] []
| m_lit c p s caps : matches p s caps -> matches (L c :: p) (c :: s) caps
| m_wild p seg s caps :
    seg <> [] -> has_slash seg = false -> matches p s caps ->
    matches (W :: p) (seg ++ s) (seg :: caps)
| m_catch s : s <> [] -> matches [C] s [s].

(** the bytes up to the next '/' and the rest *)
Fixpoint take_seg (s : str) : str * str :=
  match s with
  | [] => ([], [])
  | c :: r => if Ascii.eqb c ch_slash then ([], s) else let (a, b) := take_seg r in (c :: a, b)
  end.

(** decision function for [matches] (on well-formed patterns) *)
Fixpoint match_pat (p : pat) (s : str) : option (list str) :=
  match p with
  | [] => match s with [] => Some [] | _ => None end
  | L c :: p' =>
    match s with
    | c' :: s' => if Ascii.eqb c c' then match_pat p' s' else None
    | [] => None
    end
  | W :: p' =>
    let (seg, rest) := take_seg s in
    match seg with
    | [] => None
    | _ => match match_pat p' rest with Some cs => Some (seg :: cs) | None => None end
    end
  | C :: p' =>
    match p', s with
    | [], _ :: _ => Some [s]
    | _, _ => None
    end
  end.

Definition matchesb (p : pat) (s : str) : bool :=
  match match_pat p s with Some _ => true | None => false end.

(** ** Specificity: token by token, literal before single wildcard before free
    wildcard.  (Two literals are ordered by their byte only to make the order
    total; two expressions matching the same path never differ in a pair of
    literals, see [SpecProofs.matching_differ].) *)

Definition tok_cmp (a b : tok) : comparison :=
  match a, b with
  | L x, L y => N.compare (N_of_ascii x) (N_of_ascii y)
  | L _, _ => Lt
  | W, L _ => Gt
  | W, W => Eq
  | W, C => Lt
  | C, C => Eq
  | C, _ => Gt
  end.

Fixpoint pat_cmp (p q : pat) : comparison :=
  match p, q with
  | [], [] => Eq
  | [], _ :: _ => Lt
  | _ :: _, [] => Gt
  | a :: p', b :: q' => match tok_cmp a b with Eq => pat_cmp p' q' | c => c end
  end.

(** [more_specific p q]: [p] is tried before [q] *)
Definition more_specific (p q : pat) : bool :=
  match pat_cmp p q with Lt => true | _ => false end.

(** ** What is loaded: per expression the values in insertion order, the
    expression's backtracking flag and its wildcard key names *)

Section Lookup.
Variable V : Type.

Record node := { vals : list V; flag : bool; keys : list str }.
Definition db := list (pat * node).

(** outcome of a lookup: the value, the key names of its expression and the
    captured byte strings; or nothing *)
Inductive found := Found (v : V) (ks : list str) (caps : list str) | NoMatch.

(** the additional conditions of a value, given the key names and captures *)
Definition matcher := V -> list str -> list str -> bool.

(** insertion sort of entries by specificity of their expression *)
Fixpoint insert_e (e : pat * node) (l : list (pat * node)) : list (pat * node) :=
  match l with
  | [] => [e]
  | x :: r => if more_specific (fst x) (fst e) then x :: insert_e e r else e :: l
  end.

Definition sort_e (l : list (pat * node)) : list (pat * node) := fold_right insert_e [] l.

(** scan the candidates in the given order: at each expression with values the
    first value (insertion order) whose conditions hold is the answer; when none
    holds the next candidate is tried only if the failed expression allows
    backtracking *)
Fixpoint scan (m : matcher) (path : str) (l : list (pat * node)) : found :=
  match l with
  | [] => NoMatch
  | (p, n) :: r =>
    match vals n with
    | [] => scan m path r
    | _ =>
      let caps := match match_pat p path with Some cs => cs | None => [] end in
      match find (fun v => m v (keys n) caps) (vals n) with
      | Some v => Found v (keys n) caps
      | None => if flag n then scan m path r else NoMatch
      end
    end
  end.

Definition spec_lookup (d : db) (path : str) (m : matcher) : found :=
  scan m path (sort_e (filter (fun e => matchesb (fst e) path) d)).

End Lookup.

Arguments Found {V}.
Arguments NoMatch {V}.
Arguments vals {V}.
Arguments flag {V}.
Arguments keys {V}.
Arguments insert_e {V}.
Arguments sort_e {V}.
Arguments scan {V}.
Arguments spec_lookup {V}.
