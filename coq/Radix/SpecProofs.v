(** Radix/SpecProofs.v — facts about the specification vocabulary of Radix/Spec.v:
    segments, [match_pat] decides [matches] on well-formed patterns,
    [parse_expr] produces well-formed patterns, the specificity order is a strict
    total order, sorting by it is canonical. *)
From HV Require Import Base.Prelude Radix.Spec.
From Coq Require Import Permutation Sorted.

(** ** bytes and tokens *)

Lemma ascii_eqb_eq a b : Ascii.eqb a b = true <-> a = b.
Proof. apply Ascii.eqb_eq. Qed.

Lemma tok_eqb_eq a b : tok_eqb a b = true <-> a = b.
Proof.
  destruct a, b; simpl; split; intro H; try congruence; try discriminate.
  - apply Ascii.eqb_eq in H. congruence.
  - inversion H. apply Ascii.eqb_refl.
Qed.

Lemma tok_eqb_refl a : tok_eqb a a = true.
Proof. apply tok_eqb_eq. reflexivity. Qed.

Lemma pat_eqb_eq p q : pat_eqb p q = true <-> p = q.
Proof. apply list_eqb_spec. apply tok_eqb_eq. Qed.

Lemma pat_eqb_refl p : pat_eqb p p = true.
Proof. apply pat_eqb_eq. reflexivity. Qed.

Lemma pat_eqb_neq p q : pat_eqb p q = false <-> p <> q.
Proof.
  split; intro H.
  - intro E. apply pat_eqb_eq in E. congruence.
  - destruct (pat_eqb p q) eqn:E; [|reflexivity]. apply pat_eqb_eq in E. contradiction.
Qed.

(** ** segments *)

Lemma take_seg_app s : s = fst (take_seg s) ++ snd (take_seg s).
Proof.
  induction s as [|c r IH]; simpl; [reflexivity|].
  destruct (Ascii.eqb c ch_slash); simpl; [reflexivity|].
  destruct (take_seg r) as [a b]. simpl in *. congruence.
Qed.

Lemma take_seg_noslash s : has_slash (fst (take_seg s)) = false.
Proof.
  induction s as [|c r IH]; simpl; [reflexivity|].
  destruct (Ascii.eqb c ch_slash) eqn:E; simpl; [reflexivity|].
  destruct (take_seg r) as [a b]. simpl in *. rewrite E. assumption.
Qed.

Definition seg_end (s : str) : Prop := s = [] \/ exists r, s = ch_slash :: r.

Lemma take_seg_rest s : seg_end (snd (take_seg s)).
Proof.
  induction s as [|c r IH]; simpl; [left; reflexivity|].
  destruct (Ascii.eqb c ch_slash) eqn:E; simpl.
  - right. apply Ascii.eqb_eq in E. subst. eexists; reflexivity.
  - destruct (take_seg r) as [a b]. simpl in *. assumption.
Qed.

Lemma take_seg_length s : length (snd (take_seg s)) <= length s.
Proof.
  induction s as [|c r IH]; simpl; [lia|].
  destruct (Ascii.eqb c ch_slash); simpl; [lia|].
  destruct (take_seg r) as [a b]. simpl in *. lia.
Qed.

Lemma take_seg_length_lt s : fst (take_seg s) <> [] -> length (snd (take_seg s)) < length s.
Proof.
  destruct s as [|c r]; simpl; [congruence|].
  destruct (Ascii.eqb c ch_slash); simpl; [congruence|].
  pose proof (take_seg_length r). destruct (take_seg r) as [a b]. simpl in *. lia.
Qed.

Lemma take_seg_max seg rest :
  has_slash seg = false -> seg_end rest -> take_seg (seg ++ rest) = (seg, rest).
Proof.
  intros Hs He. induction seg as [|c r IH]; simpl in *.
  - destruct He as [->|[r' ->]]; reflexivity.
  - apply orb_false_iff in Hs as [Hc Hr]. rewrite Hc. rewrite (IH Hr). reflexivity.
Qed.

(** ** [match_pat] and [matches] *)

Lemma match_pat_sound p : forall s cs, match_pat p s = Some cs -> matches p s cs.
Proof.
  induction p as [|t p IH]; intros s cs H; simpl in H.
  - destruct s; [|discriminate]. inversion H. constructor.
  - destruct t.
    + destruct s as [|c' s']; [discriminate|].
      destruct (Ascii.eqb c c') eqn:E; [|discriminate]. apply Ascii.eqb_eq in E. subst.
      constructor. apply IH. assumption.
    + pose proof (take_seg_app s) as Happ. pose proof (take_seg_noslash s) as Hns.
      destruct (take_seg s) as [seg rest]. simpl in *.
      destruct seg as [|x seg]; [discriminate|].
      destruct (match_pat p rest) as [cs'|] eqn:E; [|discriminate]. inversion H; subst cs.
      rewrite Happ. apply m_wild; [discriminate | assumption | apply IH; assumption].
    + destruct p; [|discriminate]. destruct s; [discriminate|]. inversion H. constructor. discriminate.
Qed.

Lemma matches_seg_end p s cs :
  matches p s cs -> (p = [] \/ exists r, p = L ch_slash :: r) -> seg_end s.
Proof.
  intros H [->|[r ->]]; inversion H; subst.
  - left. reflexivity.
  - right. eexists. reflexivity.
Qed.

Lemma wf_pat_W p : wf_pat (W :: p) = true -> (p = [] \/ exists r, p = L ch_slash :: r) /\ wf_pat p = true.
Proof.
  simpl. destruct p as [|[c| |] r]; try discriminate.
  - intros _. split; [left; reflexivity | reflexivity].
  - intro H. apply andb_true_iff in H as [Hc Hr]. apply Ascii.eqb_eq in Hc. subst.
    split; [right; eexists; reflexivity | assumption].
Qed.

Lemma match_pat_complete p s cs : wf_pat p = true -> matches p s cs -> match_pat p s = Some cs.
Proof.
  intros Hwf H. induction H.
  - reflexivity.
  - simpl. rewrite Ascii.eqb_refl. apply IHmatches. assumption.
  - apply wf_pat_W in Hwf as [Hnext Hwf].
    simpl. rewrite (take_seg_max seg s H0 (matches_seg_end _ _ _ H1 Hnext)).
    destruct seg; [congruence|]. rewrite (IHmatches Hwf). reflexivity.
  - simpl. destruct s; [congruence | reflexivity].
Qed.

Theorem match_pat_iff p s cs : wf_pat p = true -> (match_pat p s = Some cs <-> matches p s cs).
Proof. intro H. split; [apply match_pat_sound | apply match_pat_complete; assumption]. Qed.

(** captures are never empty; a single wildcard's capture has no '/' *)
Lemma matches_caps_nonempty p s cs : matches p s cs -> Forall (fun c => c <> []) cs.
Proof. induction 1; auto. Qed.

(** the path is the pattern with the captures filled in *)
Fixpoint instantiate (p : pat) (cs : list str) : str :=
  match p with
  | [] => []
  | L c :: r => c :: instantiate r cs
  | _ :: r => match cs with x :: cs' => x ++ instantiate r cs' | [] => [] end
  end.

Lemma matches_instantiate p s cs : matches p s cs -> s = instantiate p cs.
Proof.
  induction 1; simpl; try congruence.
  rewrite app_nil_r. reflexivity.
Qed.

(** a pattern without wildcards matches exactly its own bytes *)
Lemma matches_lits s path cs : matches (lits s) path cs <-> path = s /\ cs = [].
Proof.
  revert path cs. induction s as [|c r IH]; intros path cs; simpl; split.
  - intro H. inversion H. auto.
  - intros [-> ->]. constructor.
  - intro H. inversion H; subst. apply IH in H4 as [-> ->]. auto.
  - intros [-> ->]. constructor. apply IH. auto.
Qed.

(** ** [parse_expr] produces well-formed patterns *)

Definition starts_ok (md : pmode) (p : pat) : Prop :=
  match md with
  | InName => p = [] \/ exists r, p = L ch_slash :: r
  | _ => True
  end.

Lemma wf_pat_L c p : wf_pat (L c :: p) = wf_pat p.
Proof. reflexivity. Qed.

Lemma parse_go_wf_n n : forall s md p cur ks, length s <= n ->
  parse_go md s = Some (p, cur, ks) -> wf_pat p = true /\ starts_ok md p.
Proof.
  induction n as [|n IH]; intros s md p cur ks Hlen H.
  - destruct s; [|simpl in Hlen; lia]. simpl in H. inversion H; subst.
    split; [reflexivity|]. destruct md; simpl; auto.
  - destruct s as [|c r]; simpl in H.
    { inversion H; subst. split; [reflexivity|]. destruct md; simpl; auto. }
    simpl in Hlen.
    assert (Hlit : forall md' c' r', length r' <= n ->
              match parse_go InSeg r' with
              | Some (p0, _, ks0) => Some (L c' :: p0, @nil ascii, ks0)
              | None => None
              end = Some (p, cur, ks) -> md' <> InName -> wf_pat p = true /\ starts_ok md' p).
    { intros md' c' r' Hr' H' Hmd.
      destruct (parse_go InSeg r') as [[[p' cur'] ks']|] eqn:E; [|discriminate].
      inversion H'; subst. rewrite wf_pat_L. apply IH in E as [Hw _]; [|assumption].
      split; [assumption|]. destruct md'; simpl; auto. congruence. }
    destruct (Ascii.eqb c ch_slash) eqn:Ec.
    + destruct (parse_go SegStart r) as [[[p' cur'] ks']|] eqn:E; [|discriminate].
      inversion H; subst. apply IH in E as [Hw _]; [|lia]. split; [assumption|].
      apply Ascii.eqb_eq in Ec. subst. destruct md; simpl; auto. right. eexists. reflexivity.
    + destruct md.
      * (* SegStart *)
        destruct (Ascii.eqb c ch_star).
        { destruct (has_slash r); [discriminate|]. inversion H; subst. split; [reflexivity | exact I]. }
        destruct (Ascii.eqb c ch_colon).
        { destruct (parse_go InName r) as [[[p' cur'] ks']|] eqn:E; [|discriminate].
          inversion H; subst. apply IH in E as [Hw Hs]; [|lia]. split; [|exact I].
          simpl in Hs. destruct Hs as [->|[r' ->]]; [reflexivity|].
          simpl. simpl in Hw. rewrite Hw. reflexivity. }
        destruct (Ascii.eqb c ch_bslash).
        { destruct r as [|c2 r2]; [apply (Hlit SegStart c []); [simpl; lia | assumption | discriminate]|].
          destruct (is_special c2).
          - apply (Hlit SegStart c2 r2); [simpl in Hlen; lia | assumption | discriminate].
          - apply (Hlit SegStart c (c2 :: r2)); [lia | assumption | discriminate]. }
        apply (Hlit SegStart c r); [lia | assumption | discriminate].
      * apply (Hlit InSeg c r); [lia | assumption | discriminate].
      * destruct (parse_go InName r) as [[[p' cur'] ks']|] eqn:E; [|discriminate].
        inversion H; subst. apply IH in E; [|lia]. assumption.
Qed.

Theorem parse_expr_wf s p ks : parse_expr s = Some (p, ks) -> wf_pat p = true.
Proof.
  unfold parse_expr. destruct (parse_go SegStart s) as [[[p' cur] ks']|] eqn:E; [|discriminate].
  intro H. inversion H; subst. eapply parse_go_wf_n in E; [apply E | apply le_n].
Qed.

(** ** The specificity order is a strict total order *)

Lemma N_of_ascii_inj a b : N_of_ascii a = N_of_ascii b -> a = b.
Proof. intro H. rewrite <- (ascii_N_embedding a), <- (ascii_N_embedding b). congruence. Qed.

Lemma tok_cmp_eq a b : tok_cmp a b = Eq <-> a = b.
Proof.
  destruct a, b; simpl; split; intro H; try congruence; try discriminate.
  - apply N.compare_eq_iff in H. apply N_of_ascii_inj in H. congruence.
  - inversion H. apply N.compare_refl.
Qed.

Lemma tok_cmp_antisym a b : tok_cmp b a = CompOpp (tok_cmp a b).
Proof. destruct a, b; simpl; try reflexivity. apply N.compare_antisym. Qed.

Lemma tok_cmp_trans a b c : tok_cmp a b = Lt -> tok_cmp b c = Lt -> tok_cmp a c = Lt.
Proof.
  destruct a, b, c; simpl; try congruence; try discriminate.
  rewrite !N.compare_lt_iff. apply N.lt_trans.
Qed.

Lemma pat_cmp_eq p : forall q, pat_cmp p q = Eq <-> p = q.
Proof.
  induction p as [|a p IH]; intros [|b q]; simpl; split; intro H; try congruence; try discriminate.
  - destruct (tok_cmp a b) eqn:E; try discriminate. apply tok_cmp_eq in E. apply IH in H. congruence.
  - inversion H; subst. rewrite (proj2 (tok_cmp_eq b b) eq_refl). apply IH. reflexivity.
Qed.

Lemma pat_cmp_refl p : pat_cmp p p = Eq.
Proof. apply pat_cmp_eq. reflexivity. Qed.

Lemma pat_cmp_antisym p : forall q, pat_cmp q p = CompOpp (pat_cmp p q).
Proof.
  induction p as [|a p IH]; intros [|b q]; simpl; try reflexivity.
  rewrite (tok_cmp_antisym a b). destruct (tok_cmp a b); simpl; auto.
Qed.

Lemma pat_cmp_trans p : forall q r, pat_cmp p q = Lt -> pat_cmp q r = Lt -> pat_cmp p r = Lt.
Proof.
  induction p as [|a p IH]; intros [|b q] [|c r]; simpl; try congruence; try discriminate.
  destruct (tok_cmp a b) eqn:Eab; try discriminate.
  - apply tok_cmp_eq in Eab. subst b. destruct (tok_cmp a c); try congruence. apply IH.
  - intros _. destruct (tok_cmp b c) eqn:Ebc; try discriminate.
    + apply tok_cmp_eq in Ebc. subst c. rewrite Eab. reflexivity.
    + intros _. rewrite (tok_cmp_trans _ _ _ Eab Ebc). reflexivity.
Qed.

Lemma pat_cmp_gt_lt p q : pat_cmp p q = Gt <-> pat_cmp q p = Lt.
Proof. rewrite (pat_cmp_antisym p q). destruct (pat_cmp p q); simpl; split; congruence. Qed.

Lemma pat_cmp_cons t p q : pat_cmp (t :: p) (t :: q) = pat_cmp p q.
Proof. simpl. rewrite (proj2 (tok_cmp_eq t t) eq_refl). reflexivity. Qed.

(** ** Sorting by specificity is canonical *)

Section Sorting.
Context {A : Type}.
Implicit Types (e : pat * A) (l : list (pat * A)).

Definition lt_e e1 e2 : Prop := pat_cmp (fst e1) (fst e2) = Lt.

Lemma lt_e_trans e1 e2 e3 : lt_e e1 e2 -> lt_e e2 e3 -> lt_e e1 e3.
Proof. apply pat_cmp_trans. Qed.

Lemma lt_e_irrefl e : ~ lt_e e e.
Proof. unfold lt_e. rewrite pat_cmp_refl. discriminate. Qed.

Lemma sorted_head_lt e l x : StronglySorted lt_e (e :: l) -> In x l -> lt_e e x.
Proof. intros H Hin. inversion H; subst. rewrite Forall_forall in H3. auto. Qed.

(** two strictly sorted lists with the same elements are equal *)
Lemma sorted_perm_eq l1 : forall l2,
  StronglySorted lt_e l1 -> StronglySorted lt_e l2 -> Permutation l1 l2 -> l1 = l2.
Proof.
  induction l1 as [|x l1 IH]; intros l2 H1 H2 HP.
  - apply Permutation_nil in HP. congruence.
  - destruct l2 as [|y l2]; [apply Permutation_sym, Permutation_nil in HP; discriminate|].
    assert (x = y).
    { assert (Hx : In x (y :: l2)) by (eapply Permutation_in; [exact HP | left; reflexivity]).
      assert (Hy : In y (x :: l1)) by (eapply Permutation_in; [apply Permutation_sym; exact HP | left; reflexivity]).
      destruct Hx as [->|Hx]; [reflexivity|]. destruct Hy as [->|Hy]; [reflexivity|].
      exfalso. apply (lt_e_irrefl x). eapply lt_e_trans.
      - eapply sorted_head_lt; [exact H1 | exact Hy].
      - eapply sorted_head_lt; [exact H2 | exact Hx]. }
    subst y. f_equal. apply IH.
    + inversion H1; assumption.
    + inversion H2; assumption.
    + eapply Permutation_cons_inv. exact HP.
Qed.

Lemma StronglySorted_app l1 l2 :
  StronglySorted lt_e l1 -> StronglySorted lt_e l2 ->
  (forall x y, In x l1 -> In y l2 -> lt_e x y) -> StronglySorted lt_e (l1 ++ l2).
Proof.
  intros H1 H2 H. induction l1 as [|a l1 IH]; simpl; [assumption|].
  inversion H1; subst. constructor.
  - apply IH; [assumption|]. intros x y Hx Hy. apply H; [right|]; assumption.
  - apply Forall_app. split; [assumption|]. apply Forall_forall. intros y Hy. apply H; [left; reflexivity | assumption].
Qed.

Lemma StronglySorted_map_cons t l :
  StronglySorted lt_e l -> StronglySorted lt_e (map (fun e => (t :: fst e, snd e)) l).
Proof.
  induction 1; simpl; constructor; [assumption|].
  rewrite Forall_map. eapply Forall_impl; [|exact H0]. intros x Hx. unfold lt_e in *. cbn [fst].
  rewrite pat_cmp_cons. assumption.
Qed.

End Sorting.

Section SortE.
Variable V : Type.
Implicit Types (e : pat * node V) (l : list (pat * node V)).

Lemma insert_e_perm e l : Permutation (insert_e e l) (e :: l).
Proof.
  induction l as [|x r IH]; simpl; [reflexivity|].
  destruct (more_specific (fst x) (fst e)); [|reflexivity].
  rewrite IH. apply perm_swap.
Qed.

Lemma sort_e_perm l : Permutation (sort_e l) l.
Proof.
  induction l as [|x r IH]; simpl; [reflexivity|].
  rewrite insert_e_perm. constructor. assumption.
Qed.

Lemma insert_e_sorted e l :
  StronglySorted lt_e l -> (forall x, In x l -> fst x <> fst e) -> StronglySorted lt_e (insert_e e l).
Proof.
  intros Hs Hne. induction Hs as [|x r Hr IH Hx]; simpl.
  - constructor; constructor.
  - unfold more_specific. destruct (pat_cmp (fst x) (fst e)) eqn:E.
    + apply pat_cmp_eq in E. exfalso. apply (Hne x); [left; reflexivity | assumption].
    + constructor.
      * apply IH. intros y Hy. apply Hne. right. assumption.
      * apply Forall_forall. intros y Hy.
        eapply Permutation_in in Hy; [|apply insert_e_perm]. destruct Hy as [<-|Hy]; [exact E|].
        rewrite Forall_forall in Hx. auto.
    + apply pat_cmp_gt_lt in E. constructor; [constructor; assumption|].
      constructor; [exact E|]. eapply Forall_impl; [|exact Hx].
      intros y Hy. eapply lt_e_trans; [exact E | exact Hy].
Qed.

Lemma sort_e_sorted l : NoDup (map fst l) -> StronglySorted lt_e (sort_e l).
Proof.
  induction l as [|x r IH]; simpl; intro Hnd; [constructor|].
  inversion Hnd; subst. apply insert_e_sorted; [apply IH; assumption|].
  intros y Hy Heq. apply H1. eapply Permutation_in in Hy; [|apply sort_e_perm].
  rewrite <- Heq. apply in_map. assumption.
Qed.

Theorem sort_e_unique l l' :
  NoDup (map fst l) -> StronglySorted lt_e l' -> Permutation l' l -> sort_e l = l'.
Proof.
  intros Hnd Hs HP. apply sorted_perm_eq.
  - apply sort_e_sorted. assumption.
  - assumption.
  - rewrite sort_e_perm. apply Permutation_sym. assumption.
Qed.

End SortE.
