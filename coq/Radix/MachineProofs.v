(** Radix/MachineProofs.v — the search of Radix/Machine.v finds what the
    specification of Radix/Spec.v says.

    [enum] is the search without short-circuit: all candidates in the order the
    depth-first search meets them.  It lists exactly the matching entries
    ([enum_perm], [enum_caps]), in strictly increasing specificity order
    ([enum_sorted]), and the search is the scan of that list ([lookup_scan]).
    Hence [find_in false = spec_lookup] ([find_is_spec]: the code as it is now, since fix
    e897fef); the pinned code before that fix ([find_in true]) agrees outside the guard of
    C02-F1 for capture-independent conditions (Radix/LoadProofs.v [lookup_faithful_eq]). *)
From HV Require Import Base.Prelude Radix.Spec Radix.SpecProofs Radix.Machine.
From Coq Require Import Permutation Sorted.

(** ** derivatives *)

Section Deriv.
Context {A : Type}.
Implicit Types (d : list (pat * A)).

Lemma deriv_cons t p a d :
  deriv t ((p, a) :: d) =
  match p with
  | t' :: p' => if tok_eqb t t' then (p', a) :: deriv t d else deriv t d
  | [] => deriv t d
  end.
Proof. unfold deriv. simpl. destruct p as [|t' p']; [reflexivity|]. destruct (tok_eqb t t'); reflexivity. Qed.

Lemma heres_cons p (a : A) d :
  heres ((p, a) :: d) = match p with [] => a :: heres d | _ => heres d end.
Proof. unfold heres. simpl. destruct p; reflexivity. Qed.

Lemma in_deriv t d p a : In (p, a) (deriv t d) <-> In (t :: p, a) d.
Proof.
  induction d as [|[q b] d IH]; [simpl; tauto|]. rewrite deriv_cons.
  destruct q as [|t' q'].
  - rewrite IH. simpl. split; [auto|]. intros [H|H]; [discriminate | assumption].
  - destruct (tok_eqb t t') eqn:E.
    + apply tok_eqb_eq in E. subst t'. simpl. rewrite IH. split; (intros [H|H]; [left | right; exact H]).
      * inversion H; subst. reflexivity.
      * inversion H; subst. reflexivity.
    + rewrite IH. simpl. split; [auto|]. intros [H|H]; [|assumption].
      inversion H; subst. rewrite tok_eqb_refl in E. discriminate.
Qed.

Lemma in_heres d a : In a (heres d) <-> In ([], a) d.
Proof.
  induction d as [|[q b] d IH]; [simpl; tauto|]. rewrite heres_cons. destruct q as [|t q].
  - simpl. rewrite IH. split; (intros [H|H]; [left | right; exact H]); inversion H; subst; reflexivity.
  - rewrite IH. simpl. split; [auto|]. intros [H|H]; [discriminate | assumption].
Qed.

Lemma NoDup_deriv t d : NoDup (map fst d) -> NoDup (map fst (deriv t d)).
Proof.
  induction d as [|[q b] d IH]; intro H; [constructor|].
  cbn [map fst] in H. inversion H; subst. rewrite deriv_cons. destruct q as [|t' q']; [auto|].
  destruct (tok_eqb t t') eqn:E; [|auto]. apply tok_eqb_eq in E. subst t'.
  simpl. constructor; [|auto]. intro Hin. apply in_map_iff in Hin as ([p x] & Hp & Hin). simpl in Hp. subst p.
  apply in_deriv in Hin. apply H2. change (t :: q') with (fst (t :: q', x)). apply in_map. assumption.
Qed.

Lemma heres_le1 d : NoDup (map fst d) -> heres d = [] \/ exists a, heres d = [a].
Proof.
  induction d as [|[q b] d IH]; intro H; [left; reflexivity|].
  cbn [map fst] in H. inversion H; subst. rewrite heres_cons. destruct q; [|auto].
  right. exists b. f_equal. destruct (heres d) as [|x r] eqn:E; [reflexivity|].
  exfalso. apply H2. assert (Hin : In x (heres d)) by (rewrite E; left; reflexivity).
  apply in_heres in Hin. change (@nil tok) with (fst (@nil tok, x)). apply in_map. assumption.
Qed.

Lemma deriv_nil t : deriv t (@nil (pat * A)) = [].
Proof. reflexivity. Qed.

End Deriv.

(** ** the search without short-circuit *)

Definition cand (A : Type) : Type := pat * A * list str.
Definition strip {A} (x : cand A) : pat * A := fst x.
Definition lift {A} (t : tok) (x : cand A) : cand A := (t :: fst (fst x), snd (fst x), snd x).
Definition liftW {A} (seg : str) (x : cand A) : cand A := (W :: fst (fst x), snd (fst x), seg :: snd x).
Definition consP {A} (t : tok) (e : pat * A) : pat * A := (t :: fst e, snd e).

Fixpoint enum {A} (fuel : nat) (d : list (pat * A)) (path : str) : list (cand A) :=
  match fuel with
  | O => []
  | S f =>
    match path with
    | [] => map (fun a => ([], a, [])) (heres d)
    | c :: rest =>
      map (lift (L c)) (enum f (deriv (L c) d) rest)
      ++ (let (seg, rest') := take_seg path in
          match seg with
          | [] => []
          | _ => map (liftW seg) (enum f (deriv W d) rest')
          end)
      ++ map (fun a => ([C], a, [path])) (heres (deriv C d))
    end
  end.

Lemma enum_nil {A} fuel path : enum fuel (@nil (pat * A)) path = [].
Proof.
  revert path. induction fuel as [|f IH]; intro path; simpl; [reflexivity|].
  destruct path as [|c rest]; [reflexivity|]. rewrite !IH. cbn [map app].
  destruct (take_seg (c :: rest)) as [seg rest']. destruct seg; [reflexivity|]. rewrite IH. reflexivity.
Qed.

(** *** matching, one token at a time *)

Lemma matchesb_nil_cons c rest : matchesb [] (c :: rest) = false.
Proof. reflexivity. Qed.

Lemma matchesb_L c' p c rest :
  matchesb (L c' :: p) (c :: rest) = if Ascii.eqb c' c then matchesb p rest else false.
Proof. unfold matchesb. simpl. destruct (Ascii.eqb c' c); reflexivity. Qed.

Lemma match_pat_W p s seg rest' : take_seg s = (seg, rest') ->
  match_pat (W :: p) s =
  match seg with
  | [] => None
  | _ => match match_pat p rest' with Some cs => Some (seg :: cs) | None => None end
  end.
Proof. intro H. cbn [match_pat]. rewrite H. reflexivity. Qed.

Lemma matchesb_W p s seg rest' : take_seg s = (seg, rest') ->
  matchesb (W :: p) s = match seg with [] => false | _ => matchesb p rest' end.
Proof.
  intro H. unfold matchesb. rewrite (match_pat_W p s seg rest' H).
  destruct seg; [reflexivity|]. destruct (match_pat p rest'); reflexivity.
Qed.

Lemma matchesb_C p c rest : matchesb (C :: p) (c :: rest) = is_nil p.
Proof. unfold matchesb. simpl. destruct p; reflexivity. Qed.

(** the matching entries of [d], split by their first token *)
Lemma filter_partition {A} (d : list (pat * A)) c rest seg rest' :
  take_seg (c :: rest) = (seg, rest') ->
  Permutation (filter (fun e => matchesb (fst e) (c :: rest)) d)
    (map (consP (L c)) (filter (fun e => matchesb (fst e) rest) (deriv (L c) d))
     ++ match seg with
        | [] => []
        | _ => map (consP W) (filter (fun e => matchesb (fst e) rest') (deriv W d))
        end
     ++ map (fun a => ([C], a)) (heres (deriv C d))).
Proof.
  intro Hts. induction d as [|[p a] d IH]; [destruct seg; reflexivity|].
  rewrite !deriv_cons. cbn [filter fst].
  destruct p as [|t p].
  - rewrite matchesb_nil_cons. exact IH.
  - destruct t as [c'| |]; cbn [tok_eqb].
    + rewrite matchesb_L. rewrite (Ascii.eqb_sym c c'). destruct (Ascii.eqb c' c) eqn:Ec; [|exact IH].
      apply Ascii.eqb_eq in Ec. subst c'. cbn [filter fst].
      destruct (matchesb p rest); [|exact IH]. cbn [map app]. unfold consP at 1. cbn [fst snd].
      constructor. exact IH.
    + rewrite (matchesb_W p _ _ _ Hts). destruct seg as [|x seg]; [exact IH|].
      cbn [filter fst]. destruct (matchesb p rest'); [|exact IH].
      cbn [map]. unfold consP at 2. cbn [fst snd]. apply Permutation_cons_app. exact IH.
    + rewrite matchesb_C. rewrite heres_cons. destruct p as [|t p]; cbn [is_nil]; [|exact IH].
      cbn [map]. rewrite app_assoc. apply Permutation_cons_app. rewrite <- app_assoc. exact IH.
Qed.

Lemma strip_lift {A} t (l : list (cand A)) : map strip (map (lift t) l) = map (consP t) (map strip l).
Proof. rewrite !map_map. apply map_ext. intros [[p a] cs]. reflexivity. Qed.

Lemma strip_liftW {A} seg (l : list (cand A)) : map strip (map (liftW seg) l) = map (consP W) (map strip l).
Proof. rewrite !map_map. apply map_ext. intros [[p a] cs]. reflexivity. Qed.

(** (b) [enum] lists exactly the matching entries *)
Lemma enum_perm {A} fuel : forall (d : list (pat * A)) path, length path < fuel ->
  Permutation (map strip (enum fuel d path)) (filter (fun e => matchesb (fst e) path) d).
Proof.
  induction fuel as [|f IH]; intros d path Hlen; [lia|].
  destruct path as [|c rest].
  - simpl. clear. induction d as [|[p a] d IH]; [reflexivity|].
    rewrite heres_cons. cbn [filter fst]. destruct p as [|t p'].
    + simpl. apply perm_skip. exact IH.
    + assert (E : matchesb (t :: p') [] = false) by (destruct t as [c| |]; [reflexivity | reflexivity | destruct p'; reflexivity]).
      rewrite E. exact IH.
  - cbn [enum]. destruct (take_seg (c :: rest)) as [seg rest'] eqn:Hts.
    rewrite (filter_partition d c rest seg rest' Hts).
    rewrite !map_app. apply Permutation_app; [|apply Permutation_app].
    + rewrite strip_lift. apply Permutation_map. apply IH. simpl in Hlen. lia.
    + destruct seg as [|x seg]; [reflexivity|]. rewrite strip_liftW. apply Permutation_map. apply IH.
      pose proof (take_seg_length_lt (c :: rest)) as Hl. rewrite Hts in Hl. simpl fst in Hl. simpl snd in Hl.
      assert (length rest' < length (c :: rest)) by (apply Hl; discriminate). lia.
    + rewrite map_map. reflexivity.
Qed.

(** ... with the captures [match_pat] computes *)
Lemma enum_caps {A} fuel : forall (d : list (pat * A)) path,
  Forall (fun x => match_pat (fst (fst x)) path = Some (snd x)) (enum fuel d path).
Proof.
  induction fuel as [|f IH]; intros d path; [constructor|].
  destruct path as [|c rest].
  - simpl. apply Forall_map. apply Forall_forall. intros a _. reflexivity.
  - cbn [enum]. destruct (take_seg (c :: rest)) as [seg rest'] eqn:Hts.
    apply Forall_app; split; [|apply Forall_app; split].
    + apply Forall_map. eapply Forall_impl; [|apply IH]. intros [[p a] cs] H. simpl in *.
      rewrite Ascii.eqb_refl. exact H.
    + destruct seg as [|x seg]; [constructor|]. apply Forall_map. eapply Forall_impl; [|apply IH].
      intros [[p a] cs] H. cbn [liftW fst snd] in *. rewrite (match_pat_W p _ _ _ Hts). rewrite H. reflexivity.
    + apply Forall_map. apply Forall_forall. intros a _. reflexivity.
Qed.

(** (c) ... in strictly increasing specificity order *)
Lemma enum_sorted {A} fuel : forall (d : list (pat * A)) path, NoDup (map fst d) ->
  StronglySorted lt_e (map strip (enum fuel d path)).
Proof.
  induction fuel as [|f IH]; intros d path Hnd; [constructor|].
  destruct path as [|c rest].
  - simpl. destruct (heres_le1 d Hnd) as [->|[a ->]]; simpl; repeat constructor.
  - cbn [enum]. rewrite !map_app.
    assert (H3 : forall l : list (cand A), StronglySorted lt_e (map strip l) ->
                 forall t, StronglySorted lt_e (map (consP t) (map strip l))).
    { intros l Hl t. apply (StronglySorted_map_cons t) in Hl. exact Hl. }
    apply StronglySorted_app; [|apply StronglySorted_app|].
    + rewrite strip_lift. apply H3. apply IH. apply NoDup_deriv. assumption.
    + destruct (take_seg (c :: rest)) as [seg rest']. destruct seg; [constructor|].
      rewrite strip_liftW. apply H3. apply IH. apply NoDup_deriv. assumption.
    + rewrite map_map. destruct (heres_le1 (deriv C d) (NoDup_deriv C d Hnd)) as [->|[a ->]]; simpl; repeat constructor.
    + intros x y Hx Hy. destruct (take_seg (c :: rest)) as [seg rest']. destruct seg; [destruct Hx|].
      rewrite strip_liftW in Hx. apply in_map_iff in Hx as (x' & <- & _).
      rewrite map_map in Hy. apply in_map_iff in Hy as (y' & <- & _). reflexivity.
    + intros x y Hx Hy. rewrite strip_lift in Hx. apply in_map_iff in Hx as (x' & <- & _).
      apply in_app_or in Hy as [Hy|Hy].
      * destruct (take_seg (c :: rest)) as [seg rest']. destruct seg; [destruct Hy|].
        rewrite strip_liftW in Hy. apply in_map_iff in Hy as (y' & <- & _). reflexivity.
      * rewrite map_map in Hy. apply in_map_iff in Hy as (y' & <- & _). reflexivity.
Qed.

(** ** the search is the scan of the enumeration *)

Section Search.
Variable V : Type.
Notation node := (node V).
Notation db := (db V).
Notation matcher := (matcher V).
Notation res := (res V).
Variable m : matcher.

Fixpoint scan_res (caps : list str) (l : list (cand node)) : res :=
  match l with
  | [] => RNotFound true
  | x :: r =>
    let n := snd (fst x) in
    match vals n with
    | [] => scan_res caps r
    | _ => match find (fun v => m v (keys n) (caps ++ snd x)) (vals n) with
           | Some v => RFound v (keys n) (caps ++ snd x)
           | None => if flag n then scan_res caps r else RNotFound false
           end
    end
  end.

Lemma scan_res_app caps l1 l2 :
  scan_res caps (l1 ++ l2) =
  match scan_res caps l1 with RNotFound true => scan_res caps l2 | r => r end.
Proof.
  induction l1 as [|x r IH]; simpl; [reflexivity|].
  destruct (vals (snd (fst x))); [exact IH|].
  destruct (find _ _); [reflexivity|]. destruct (flag _); [exact IH | reflexivity].
Qed.

Lemma scan_res_lift caps t l : scan_res caps (map (lift t) l) = scan_res caps l.
Proof.
  induction l as [|x r IH]; simpl; [reflexivity|]. rewrite IH. reflexivity.
Qed.

Lemma scan_res_liftW caps seg l : scan_res caps (map (liftW seg) l) = scan_res (caps ++ [seg]) l.
Proof.
  induction l as [|x r IH]; simpl; [reflexivity|]. rewrite IH.
  replace (caps ++ seg :: snd x) with ((caps ++ [seg]) ++ snd x) by (rewrite <- app_assoc; reflexivity).
  reflexivity.
Qed.

Lemma here_heres {A} (d : list (pat * A)) : here d = match heres d with a :: _ => Some a | [] => None end.
Proof. reflexivity. Qed.

(** the state of the machine holds only expressions with at least one value *)
Definition nonempty_db (d : db) : Prop := Forall (fun e => vals (snd e) <> []) d.

Lemma nonempty_deriv t (d : db) : nonempty_db d -> nonempty_db (deriv t d).
Proof.
  unfold nonempty_db. rewrite !Forall_forall. intros H [p n] Hin. apply in_deriv in Hin. apply (H _ Hin).
Qed.

Lemma nonempty_heres (d : db) n : nonempty_db d -> In n (heres d) -> vals n <> [].
Proof.
  unfold nonempty_db. rewrite Forall_forall. intros H Hin. apply in_heres in Hin. apply (H _ Hin).
Qed.

Lemma lookup_scan fuel : forall (d : db) path caps, NoDup (map fst d) -> nonempty_db d -> length path < fuel ->
  lookup false fuel m d path caps = scan_res caps (enum fuel d path).
Proof.
  induction fuel as [|f IH]; intros d path caps Hnd Hne Hlen; [lia|].
  destruct path as [|c rest].
  - cbn [lookup enum]. rewrite here_heres.
    destruct (heres_le1 d Hnd) as [->|[n ->]]; simpl; [reflexivity|].
    rewrite app_nil_r. destruct (vals n); [reflexivity|].
    destruct (find _ _); [reflexivity|]. destruct (flag n); reflexivity.
  - cbn [lookup enum]. rewrite !scan_res_app. rewrite scan_res_lift.
    assert (H1 : (if is_nil (deriv (L c) d) then RNotFound true
                  else lookup false f m (deriv (L c) d) rest caps)
                 = scan_res caps (enum f (deriv (L c) d) rest)).
    { destruct (deriv (L c) d) eqn:E; [rewrite enum_nil; reflexivity|]. cbn [is_nil]. rewrite <- E.
      apply IH; [apply NoDup_deriv; assumption | apply nonempty_deriv; assumption | simpl in Hlen; lia]. }
    rewrite H1. destruct (scan_res caps (enum f (deriv (L c) d) rest)) as [| [|] |]; try reflexivity.
    pose proof (take_seg_length_lt (c :: rest)) as Hl.
    destruct (take_seg (c :: rest)) as [seg rest'].
    assert (H2 : (if is_nil (deriv W d) then RNotFound true
                  else match seg with
                       | [] => RNotFound true
                       | _ :: _ => lookup false f m (deriv W d) rest' (caps ++ [seg])
                       end)
                 = scan_res caps match seg with
                                 | [] => []
                                 | _ :: _ => map (liftW seg) (enum f (deriv W d) rest')
                                 end).
    { destruct seg as [|x seg]; [destruct (is_nil (deriv W d)); reflexivity|]. rewrite scan_res_liftW.
      destruct (deriv W d) eqn:E; [rewrite enum_nil; reflexivity|]. cbn [is_nil]. rewrite <- E.
      apply IH; [apply NoDup_deriv; assumption | apply nonempty_deriv; assumption |].
      simpl fst in Hl. simpl snd in Hl. assert (length rest' < length (c :: rest)) by (apply Hl; discriminate). lia. }
    rewrite H2. destruct (scan_res caps _) as [| [|] |]; try reflexivity.
    rewrite here_heres.
    destruct (heres_le1 (deriv C d) (NoDup_deriv C d Hnd)) as [E|[n E]]; rewrite E; simpl; [reflexivity|].
    assert (Hv : vals n <> []).
    { apply (nonempty_heres (deriv C d)); [apply nonempty_deriv; assumption | rewrite E; left; reflexivity]. }
    destruct (vals n) eqn:Ev; [congruence|].
    destruct (find _ _); [reflexivity|]. destruct (flag n); reflexivity.
Qed.

(** relation with the specification's [scan] *)
Lemma scan_res_scan path (l : list (cand node)) :
  Forall (fun x => match_pat (fst (fst x)) path = Some (snd x)) l ->
  to_found (scan_res [] l) = scan m path (map strip l).
Proof.
  induction 1 as [|x r Hx Hr IH]; simpl; [reflexivity|].
  destruct x as [[p n] cs]. simpl in *. rewrite Hx.
  destruct (vals n); [exact IH|]. destruct (find _ _); [reflexivity|].
  destruct (flag n); [exact IH | reflexivity].
Qed.

Lemma NoDup_filter_fst {A B} (f : A * B -> bool) (l : list (A * B)) :
  NoDup (map fst l) -> NoDup (map fst (filter f l)).
Proof.
  induction l as [|x r IH]; simpl; intro H; [constructor|]. inversion H; subst.
  destruct (f x); simpl; [|auto]. constructor; [|auto].
  intro Hin. apply H2. apply in_map_iff in Hin as (y & Hy & Hin). apply filter_In in Hin as [Hin _].
  rewrite <- Hy. apply in_map. assumption.
Qed.

(** the search as it is now ([find_in false], since fix e897fef) is the specification *)
Theorem find_is_spec (d : db) path : NoDup (map fst d) -> nonempty_db d ->
  find_in false d path m = spec_lookup d path m.
Proof.
  intros Hnd Hne. unfold find_in, find_res, spec_lookup.
  rewrite (lookup_scan _ d path [] Hnd Hne (Nat.lt_succ_diag_r _)).
  rewrite (scan_res_scan path); [|apply enum_caps].
  f_equal. symmetry. apply sort_e_unique.
  - apply NoDup_filter_fst. assumption.
  - apply enum_sorted. assumption.
  - apply enum_perm. apply Nat.lt_succ_diag_r.
Qed.

(** the fuel is never exhausted *)
Theorem lookup_fuel fa fuel : forall (d : db) path caps, length path < fuel ->
  lookup fa fuel m d path caps <> ROutOfFuel.
Proof.
  induction fuel as [|f IH]; intros d path caps Hlen; [lia|].
  destruct path as [|c rest]; cbn [lookup].
  - destruct (here d) as [n|]; [|discriminate]. destruct (vals n); [discriminate|].
    destruct (find _ _); discriminate.
  - assert (H1 : (if is_nil (deriv (L c) d) then RNotFound true
                  else lookup fa f m (deriv (L c) d) rest caps) <> ROutOfFuel).
    { destruct (is_nil _); [discriminate|]. apply IH. simpl in Hlen. lia. }
    destruct (if is_nil (deriv (L c) d) then _ else _) as [| [|] |]; try discriminate; try congruence.
    pose proof (take_seg_length_lt (c :: rest)) as Hl.
    destruct (take_seg (c :: rest)) as [seg rest'].
    assert (H2 : (if is_nil (deriv W d) then RNotFound true
                  else match seg with
                       | [] => RNotFound true
                       | _ :: _ => lookup fa f m (deriv W d) rest' (caps ++ [seg])
                       end) <> ROutOfFuel).
    { destruct (is_nil _); [discriminate|]. destruct seg; [discriminate|]. apply IH.
      simpl fst in Hl. simpl snd in Hl. assert (length rest' < length (c :: rest)) by (apply Hl; discriminate). lia. }
    destruct (if is_nil (deriv W d) then _ else _) as [| [|] |]; try discriminate; try congruence.
    destruct (here (deriv C d)) as [n|]; [|discriminate]. destruct (find _ _); discriminate.
Qed.

Theorem find_res_total fa (d : db) path : find_res fa d path m <> ROutOfFuel.
Proof. apply lookup_fuel. apply Nat.lt_succ_diag_r. Qed.

End Search.
