(** GENERATED on every run by harness/tools/schema: the finite statement over the regenerated tables. *)
From HV Require Import Base.Prelude C20.SchemaModel Gen.SchemaTables.

(** the tables agree row by row except on the recorded disagreements (C20-F1) of the groups not repaired yet *)
Example tables_agree : tables_ok fixed_F1a fixed_F1b schema_tbl loader_tbl = true.
Proof. vm_compute. reflexivity. Qed.

(** ... and, the syntax of duration values (C20-F6) apart, without any wildcard or excused row *)
Example tables_strict : strict_ok (erase_classes (mech_only schema_tbl)) (erase_classes (mech_only loader_tbl)) = true.
Proof. vm_compute. reflexivity. Qed.
