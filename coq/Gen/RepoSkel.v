(* GENERATED on every check run by harness/tools/skel from internal/rules/repository_impl.go (type repository) - do not edit.
   locks: 0 = knownRulesMutex (sync.Mutex)  1 = rulesTreeMutex (sync.RWMutex)  
   fields: 0 = dr (plain)  1 = knownRules (plain)  2 = index (pointer)  
   methods of the pointed-to type, mutating their receiver: Add=true Clone=false Delete=true Empty=false Find=false addNode=true cloneInto=false delEdge=true delNode=true deleteChild=true findNode=false nextSeparator=false sortStaticChildren=true splitCommonPrefix=true *)
From HV Require Import Base.Prelude Base.Locks C07.Model.

(* FindRule; locals: 0=&index *)
Definition repo_m_FindRule : list stmt :=
  [SEv (ERLock 1);
   SDefer (ERUnlock 1);
   SEv (ELoad 0 2);
   SEv (EObjRead 0);
   SIf [SEv (ERead 0);
     SIf [SEv (ERead 0);
       SReturn]
        [];
     SReturn]
      [];
   SReturn].

(* AddRuleSet; locals: 0=&index 1=tmp *)
Definition repo_m_AddRuleSet : list stmt :=
  [SEv (ELock 0);
   SDefer (EUnlock 0);
   SEv (ELoad 0 2);
   SEv (EClone 1 0);
   SCall [SLoop [SLoop [SEv (EObjWrite 1);
         SIf [SReturn]
            []]];
     SReturn];
   SIf [SReturn]
      [];
   SEv (ERead 1);
   SEv (EWrite 1);
   SEv (ELock 1);
   SEv (EStore 2 1);
   SEv (EUnlock 1);
   SReturn].

(* UpdateRuleSet; locals: 0=&index 1=tmp *)
Definition repo_m_UpdateRuleSet : list stmt :=
  [SEv (ELock 0);
   SDefer (EUnlock 0);
   SEv (ERead 1);
   SEv (ELoad 0 2);
   SEv (EClone 1 0);
   SCall [SLoop [SLoop [SEv (EObjWrite 1);
         SIf [SReturn]
            []]];
     SReturn];
   SIf [SReturn]
      [];
   SCall [SLoop [SLoop [SEv (EObjWrite 1);
         SIf [SReturn]
            []]];
     SReturn];
   SIf [SReturn]
      [];
   SEv (ERead 1);
   SEv (EWrite 1);
   SEv (EWrite 1);
   SEv (ERead 1);
   SEv (EWrite 1);
   SEv (ELock 1);
   SEv (EStore 2 1);
   SEv (EUnlock 1);
   SReturn].

(* DeleteRuleSet; locals: 0=&index 1=tmp *)
Definition repo_m_DeleteRuleSet : list stmt :=
  [SEv (ELock 0);
   SDefer (EUnlock 0);
   SEv (ERead 1);
   SEv (ELoad 0 2);
   SEv (EClone 1 0);
   SCall [SLoop [SLoop [SEv (EObjWrite 1);
         SIf [SReturn]
            []]];
     SReturn];
   SIf [SReturn]
      [];
   SEv (ERead 1);
   SEv (EWrite 1);
   SEv (EWrite 1);
   SEv (ELock 1);
   SEv (EStore 2 1);
   SEv (EUnlock 1);
   SReturn].

Definition repo_method_names : list string := ["FindRule"%string; "AddRuleSet"%string; "UpdateRuleSet"%string; "DeleteRuleSet"%string].

Definition repo_prog : list (list stmt) := [repo_m_FindRule; repo_m_AddRuleSet; repo_m_UpdateRuleSet; repo_m_DeleteRuleSet].

Definition repo_rank (m : lock) : nat :=
  match m with
  | 0 => 1
  | 1 => 2
  | _ => 0
  end.

Definition repo_skel : skel :=
  {| sk_meths := map method_paths repo_prog; sk_rank := repo_rank; sk_bound := 2 |}.

(* the lock that serialises the writers *)
Definition repo_wlock : lock := 0.

Example repo_skel_wf : wf_skel repo_wlock repo_skel = true.
Proof. vm_compute. reflexivity. Qed.
