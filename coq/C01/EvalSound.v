(** C01 — the evaluator's hypotheses and property predicate against the theorems:
    the executable hypotheses imply the theorems' hypotheses, and the property
    predicate [prop] (which is built from the specification and never mentions
    [serve]) holds on every case on which the implementation agrees EXACTLY with the
    model ([corr_exact]) — i.e. it demands nothing the theorems do not give.  The
    check's correspondence is coarser ([corr]: projection), so [prop] decides on its own
    about exact statuses of positive answers and hit counts. *)
From HV Require Import Base.Prelude Base.ErrChain C12.Model C12.Proofs C01.Model C01.Proofs Run.Eval_C01.
Local Open Scope Z_scope.

Lemma negb_success_like z : negb (success_like z) = true -> success_like z = false.
Proof. destruct (success_like z); [discriminate | reflexivity]. Qed.

Lemma overrides_not_success_b_sound c : overrides_not_success_b c = true -> overrides_not_success c.
Proof.
  unfold overrides_not_success_b, overrides_not_success. rewrite !andb_true_iff.
  intros [[[[[A B] C] D] E] F]. repeat split; apply negb_success_like; assumption.
Qed.

Lemma good_err_b_sound e : good_err_b e = true -> good_err e.
Proof.
  unfold good_err_b, good_err, redirects_not_success. rewrite forallb_forall.
  intros H z Hz. apply negb_success_like. auto.
Qed.

Lemma good_panic_b_sound v : good_panic_b v = true -> good_panic v.
Proof. destruct v; simpl; [apply good_err_b_sound | auto]. Qed.

Lemma good_outcome_b_sound o : good_outcome_b o = true -> good_outcome o.
Proof. destruct o; simpl; [auto | apply good_err_b_sound | apply good_panic_b_sound]. Qed.

Lemma good_cond_b_sound c : good_cond_b c = true -> good_cond c.
Proof.
  destruct c as [[b|e|v]|]; simpl; auto; [apply good_err_b_sound | apply good_panic_b_sound].
Qed.

Lemma good_step_b_sound s : good_step_b s = true -> good_step s.
Proof.
  unfold good_step_b, good_step. rewrite andb_true_iff. intros [A B].
  split; [apply good_cond_b_sound | apply good_outcome_b_sound]; assumption.
Qed.

Lemma good_eh_b_sound h : good_eh_b h = true -> good_eh h.
Proof.
  unfold good_eh_b, good_eh. rewrite andb_true_iff. intros [A B].
  split; [apply good_cond_b_sound; exact A|].
  destruct (e_kind h) as [[|code to|realm]|e|v| |f]; auto; try discriminate.
  - apply negb_success_like. exact B.
  - apply good_err_b_sound. exact B.
  - apply good_panic_b_sound. exact B.
Qed.

Lemma forallb_Forall {A} (f : A -> bool) (P : A -> Prop) l :
  (forall x, f x = true -> P x) -> forallb f l = true -> Forall P l.
Proof.
  intros H. rewrite forallb_forall, Forall_forall. auto.
Qed.

Lemma sane_b_sound c r : sane_b c r = true -> sane c r.
Proof.
  unfold sane_b, sane, redirects_ok_b, redirects_ok, handlers_record, handlers_record_b.
  rewrite !andb_true_iff. intros [[[A [[[B1 B2] B3] B4]] C] D].
  split; [apply overrides_not_success_b_sound; exact A|]. split; [|split].
  - repeat split.
    + eapply forallb_Forall; [|exact B1]. intros a. apply good_outcome_b_sound.
    + eapply forallb_Forall; [|exact B2]. apply good_step_b_sound.
    + eapply forallb_Forall; [|exact B3]. apply good_step_b_sound.
    + eapply forallb_Forall; [|exact B4]. apply good_eh_b_sound.
  - destruct (sc r); [discriminate | discriminate].
  - eapply forallb_Forall; [|exact D]. intros h H. cbv beta in H. unfold handler_records.
    destruct (e_kind h); try exact I; discriminate.
Qed.

Lemma ogc_is_GOk_neq g o : ogc_is g o = true -> g <> GOk -> ogc_is GOk o = false.
Proof.
  destruct o as [g'|s]; simpl; [|reflexivity]. intros H N.
  destruct g, g'; simpl in *; try discriminate; try reflexivity; contradiction.
Qed.

Lemma match_non_success a o : ans_match a o = true -> non_success a -> non_success_b o = true.
Proof.
  destruct a, o; simpl; try discriminate.
  - intros M [S H]. apply andb_true_iff in M as [E1 E2]. apply Z.eqb_eq in E1. apply Nat.eqb_eq in E2.
    subst. rewrite S. reflexivity.
  - intros M H. subst. rewrite Nat.eqb_sym. exact M.
  - intros _ [].
  - intros M [N S]. apply andb_true_iff in M as [M E3]. apply andb_true_iff in M as [E1 E2].
    apply Z.eqb_eq in E2. subst. rewrite (ogc_is_GOk_neq _ _ E1 N), S, E3. reflexivity.
  - intros M N. apply andb_true_iff in M as [E1 E2]. rewrite (ogc_is_GOk_neq _ _ E1 N), E2. reflexivity.
Qed.

Lemma non_success_b_not_positive en c o :
  (en = Decision -> success_like (accepted_code c) = true) -> non_success_b o = true -> positive_b en c o = false.
Proof.
  intros HA. destruct en, o; simpl; try reflexivity; try discriminate; intro B;
    try (apply andb_true_iff in B as [S H]); try (apply Nat.eqb_eq in B; subst; reflexivity);
    try (apply Nat.eqb_eq in H; subst; reflexivity).
  destruct (status =? accepted_code c) eqn:E; [|reflexivity].
  apply Z.eqb_eq in E. subst. rewrite (HA eq_refl) in S. discriminate.
Qed.

Lemma match_positive_shape en c a o :
  ans_match a o = true -> positive_shape en c a -> positive_shape_b en c o = true.
Proof.
  destruct en; simpl.
  - intros M ->. destruct o; simpl in *; try discriminate.
    apply andb_true_iff in M as [E1 E2]. rewrite Z.eqb_sym, E1. destruct hits; [reflexivity | discriminate].
  - destruct a, o; simpl; try discriminate; intros M H; subst.
    + apply andb_true_iff in M as [_ E]. rewrite Nat.eqb_sym. exact E.
    + rewrite Nat.eqb_sym. exact M.
  - intros M ->. destruct o; simpl in *; try discriminate. exact M.
Qed.

Lemma match_hits_ok en c l q o :
  overrides_not_success (c_respond c) -> (forall r, applied l r -> sane c r) ->
  ans_match (serve en c l q) o = true -> hits_ok en o = true.
Proof.
  intros HO HS M.
  assert (O : match o with OOther _ => false | _ => true end = true)
    by (destruct (serve en c l q), o; simpl in M; try discriminate; reflexivity).
  unfold hits_ok. rewrite O, andb_true_r.
  destruct (answer_dichotomy en c l q HS HO) as [N|(r & _ & _ & P)].
  - pose proof (match_non_success _ _ M N) as B.
    assert (Z0 : ohits o = 0%nat).
    { destruct o; simpl in B |- *; try discriminate;
        repeat (apply andb_true_iff in B as [B ?]); try (apply Nat.eqb_eq; assumption). }
    rewrite Z0. destruct en; reflexivity.
  - pose proof (match_positive_shape en c _ o M P) as B.
    destruct en, o; simpl in B |- *; try discriminate;
      repeat (apply andb_true_iff in B as [B ?]); try assumption;
      try (apply Nat.eqb_eq in B; rewrite B; reflexivity);
      try (apply Nat.eqb_eq in H; rewrite H; reflexivity).
Qed.

Lemma applied_rule_applied l r : applied_rule l = Some r -> applied l r.
Proof. destruct l; simpl; intro H; inversion H; subst; [left | right]; reflexivity. Qed.

Lemma applied_unique l r r' : applied l r -> applied l r' -> r = r'.
Proof. intros [-> | ->] [H|H]; inversion H; reflexivity. Qed.

Theorem prop_entry_of_exact en k o :
  ans_match (serve en (k_cfg k) (k_l k) (k_q k)) o = true -> hyps_b en k = true -> prop_entry en k o = true.
Proof.
  intros M H. unfold prop_entry. rewrite H. unfold hyps_b in H.
  apply andb_true_iff in H as [H HA]. apply andb_true_iff in H as [HO HS].
  apply overrides_not_success_b_sound in HO.
  assert (ACC : en = Decision -> success_like (accepted_code (k_cfg k)) = true)
    by (intros ->; exact HA).
  assert (ALL : forall r, applied (k_l k) r -> sane (k_cfg k) r).
  { intros r Ap. destruct (applied_rule (k_l k)) as [r'|] eqn:AR.
    - rewrite (applied_unique _ _ _ Ap (applied_rule_applied _ _ AR)). apply sane_b_sound. exact HS.
    - destruct Ap as [E|E]; rewrite E in AR; discriminate. }
  rewrite (match_hits_ok en (k_cfg k) (k_l k) (k_q k) o HO ALL M). simpl.
  destruct (applied_rule (k_l k)) as [r|] eqn:AR.
  - pose proof (applied_rule_applied _ _ AR) as Ap.
    destruct (completed_b r) eqn:CB.
    + destruct (answer_dichotomy en (k_cfg k) (k_l k) (k_q k) ALL HO) as [N|(r' & _ & _ & P)].
      * rewrite (match_non_success _ _ M N). reflexivity.
      * rewrite (match_positive_shape en (k_cfg k) _ o M P). apply orb_true_r.
    + assert (NS : non_success (serve en (k_cfg k) (k_l k) (k_q k))).
      { apply failed_never_reaches_upstream; [exact ALL | exact HO|].
        intros r' Ap' P. rewrite <- (applied_unique _ _ _ Ap Ap') in P.
        apply completed_b_spec in P. congruence. }
      pose proof (match_non_success _ _ M NS) as B. rewrite B.
      rewrite (non_success_b_not_positive en (k_cfg k) o ACC B). reflexivity.
  - assert (NS : non_success (serve en (k_cfg k) (k_l k) (k_q k))).
    { apply failed_never_reaches_upstream; [exact ALL | exact HO|].
      intros r [E|E]; rewrite E in AR; discriminate. }
    pose proof (match_non_success _ _ M NS) as B. rewrite B.
    rewrite (non_success_b_not_positive en (k_cfg k) o ACC B). reflexivity.
Qed.
