(** C01 — the evaluator's property predicate follows from the theorems: whenever
    the implementation's observations agree with the model ([corr]), the
    property predicate evaluated on these observations ([prop]) holds.  So a
    property failure reported by the check always comes with a model/
    implementation difference on that very input (DESIGN §4, row 3 cannot occur). *)
From HV Require Import Base.Prelude Base.ErrChain C12.Model C12.Proofs C01.Model C01.Proofs Run.Eval_C01.
Local Open Scope Z_scope.

Lemma negb_success_like z : negb (success_like z) = true -> success_like z = false.
Proof. destruct (success_like z); [discriminate | reflexivity]. Qed.

Lemma overrides_not_success_b_sound c : overrides_not_success_b c = true -> overrides_not_success c.
Proof.
  unfold overrides_not_success_b, overrides_not_success. rewrite !andb_true_iff.
  intros [[[[[A B] C] D] E] F]. repeat split; apply negb_success_like; assumption.
Qed.

Lemma good_err_b_sound e : good_err_b e = true -> good_err e.
Proof.
  unfold good_err_b, good_err, redirects_not_success. rewrite forallb_forall.
  intros H z Hz. apply negb_success_like. auto.
Qed.

Lemma good_panic_b_sound v : good_panic_b v = true -> good_panic v.
Proof. destruct v; simpl; [apply good_err_b_sound | auto]. Qed.

Lemma good_outcome_b_sound o : good_outcome_b o = true -> good_outcome o.
Proof. destruct o; simpl; [auto | apply good_err_b_sound | apply good_panic_b_sound]. Qed.

Lemma good_cond_b_sound c : good_cond_b c = true -> good_cond c.
Proof.
  destruct c as [[b|e|v]|]; simpl; auto; [apply good_err_b_sound | apply good_panic_b_sound].
Qed.

Lemma good_step_b_sound s : good_step_b s = true -> good_step s.
Proof.
  unfold good_step_b, good_step. rewrite andb_true_iff. intros [A B].
  split; [apply good_cond_b_sound | apply good_outcome_b_sound]; assumption.
Qed.

Lemma good_eh_b_sound h : good_eh_b h = true -> good_eh h.
Proof.
  unfold good_eh_b, good_eh. rewrite andb_true_iff. intros [A B].
  split; [apply good_cond_b_sound; exact A|].
  destruct (e_kind h) as [[|code to|realm]|e|v|]; auto.
  - apply negb_success_like. exact B.
  - apply good_err_b_sound. exact B.
  - apply good_panic_b_sound. exact B.
Qed.

Lemma forallb_Forall {A} (f : A -> bool) (P : A -> Prop) l :
  (forall x, f x = true -> P x) -> forallb f l = true -> Forall P l.
Proof.
  intros H. rewrite forallb_forall, Forall_forall. auto.
Qed.

Lemma sane_b_sound c r : sane_b c r = true -> sane c r.
Proof.
  unfold sane_b, sane, redirects_ok_b, redirects_ok, loaded, real_handlers, real_handlers_b.
  rewrite !andb_true_iff. intros [[[A [[[B1 B2] B3] B4]] C] D].
  split; [apply overrides_not_success_b_sound; exact A|]. split; [|split].
  - repeat split.
    + eapply forallb_Forall; [|exact B1]. intros a. apply good_outcome_b_sound.
    + eapply forallb_Forall; [|exact B2]. apply good_step_b_sound.
    + eapply forallb_Forall; [|exact B3]. apply good_step_b_sound.
    + eapply forallb_Forall; [|exact B4]. apply good_eh_b_sound.
  - destruct (sc r); [discriminate | discriminate].
  - eapply forallb_Forall; [|exact D]. intros h H E. cbv beta in H. rewrite E in H. discriminate.
Qed.

Lemma step_quiet_b_sound s : step_quiet_b s = true -> step_quiet s.
Proof.
  unfold step_quiet_b, step_quiet, cond_true.
  destruct (s_if s) as [[[|]|e|v]|]; intro H; try discriminate; split; try discriminate;
    try (intros [E|E]; discriminate); intros _ v' E; rewrite E in H; discriminate.
Qed.

Lemma quiet_b_sound r : quiet_b r = true -> quiet r.
Proof.
  unfold quiet_b, quiet. rewrite andb_true_iff. intros [A B].
  split; eapply forallb_Forall; eauto using step_quiet_b_sound.
Qed.

Lemma ogc_is_GOk_neq g o : ogc_is g o = true -> g <> GOk -> ogc_is GOk o = false.
Proof.
  destruct o as [g'|s]; simpl; [|reflexivity]. intros H N.
  destruct g, g'; simpl in *; try discriminate; try reflexivity; contradiction.
Qed.

Lemma match_non_success a o : ans_match a o = true -> non_success a -> non_success_b o = true.
Proof.
  destruct a, o; simpl; try discriminate.
  - intros M [S H]. apply andb_true_iff in M as [E1 E2]. apply Z.eqb_eq in E1. apply Nat.eqb_eq in E2.
    subst. rewrite S. reflexivity.
  - auto.
  - intros _ [].
  - intros M [N S]. apply andb_true_iff in M as [M E3]. apply andb_true_iff in M as [E1 E2].
    apply Z.eqb_eq in E2. subst. rewrite (ogc_is_GOk_neq _ _ E1 N), S, E3. reflexivity.
  - intros M N. apply andb_true_iff in M as [E1 E2]. rewrite (ogc_is_GOk_neq _ _ E1 N), E2. reflexivity.
Qed.

Lemma non_success_b_not_positive en c o :
  success_like (accepted_code c) = true -> non_success_b o = true -> positive_b en c o = false.
Proof.
  intros HA. destruct en, o; simpl; try reflexivity; try discriminate; intro B; apply andb_true_iff in B as [S H].
  - destruct (status =? accepted_code c) eqn:E; [|reflexivity].
    apply Z.eqb_eq in E. subst. rewrite HA in S. discriminate.
  - apply Nat.eqb_eq in H. subst. reflexivity.
Qed.

Lemma match_positive_answer en c o :
  ans_match (match en with
             | Decision => AHttp (accepted_code c) 0
             | Proxy => AHttp upstream_status 1
             | Envoy => AEnvoyOk
             end) o = true -> is_positive_answer en c o = true.
Proof.
  destruct en, o; simpl; try discriminate; intro M; apply andb_true_iff in M as [E1 E2];
    apply andb_true_iff; split; try assumption.
  - rewrite Z.eqb_sym. exact E1.
  - rewrite Nat.eqb_sym. exact E2.
  - rewrite Z.eqb_sym. exact E1.
  - rewrite Nat.eqb_sym. exact E2.
Qed.

Lemma applied_rule_applied l r : applied_rule l = Some r -> applied l r.
Proof. destruct l; simpl; intro H; inversion H; subst; [left | right]; reflexivity. Qed.

Lemma applied_unique l r r' : applied l r -> applied l r' -> r = r'.
Proof. intros [-> | ->] [H|H]; inversion H; reflexivity. Qed.

Theorem prop_entry_of_match en k o :
  ans_match (serve en (k_cfg k) (k_l k) (k_q k)) o = true -> prop_entry en k o = true.
Proof.
  intro M. unfold prop_entry.
  destruct (applied_rule (k_l k)) as [r|] eqn:AR.
  - destruct (sane_b (k_cfg k) r && success_like (accepted_code (k_cfg k))) eqn:H; [|reflexivity].
    apply andb_true_iff in H as [HS HA]. apply sane_b_sound in HS.
    pose proof (applied_rule_applied _ _ AR) as Ap.
    assert (ALL : forall r', applied (k_l k) r' -> sane (k_cfg k) r')
      by (intros r' Ap'; rewrite <- (applied_unique _ _ _ Ap Ap'); exact HS).
    destruct (succeeded_b r) eqn:SB.
    + match goal with |- (if ?b then _ else _) = true => destruct b eqn:SIDE end; [|reflexivity].
      apply andb_true_iff in SIDE as [SIDE S3]. apply andb_true_iff in SIDE as [S1 S2].
      apply succeeded_b_spec in SB. apply quiet_b_sound in S1. apply negb_true_iff in S2.
      destruct (success_is_positive en (k_cfg k) (k_l k) r (k_q k) Ap SB S1 S2) as [E _].
      * intros ->. exact S3.
      * intros ->. exact S3.
      * rewrite E in M. apply match_positive_answer. exact M.
    + assert (NS : non_success (serve en (k_cfg k) (k_l k) (k_q k))).
      { apply failed_never_reaches_upstream; [exact ALL | exact (proj1 HS)|].
        intros r' Ap' P. rewrite <- (applied_unique _ _ _ Ap Ap') in P.
        apply succeeded_b_spec in P. congruence. }
      pose proof (match_non_success _ _ M NS) as B. rewrite B.
      rewrite (non_success_b_not_positive en (k_cfg k) o HA B). reflexivity.
  - destruct (overrides_not_success_b (c_respond (k_cfg k))) eqn:HO; [|reflexivity].
    apply overrides_not_success_b_sound in HO.
    eapply match_non_success; [exact M|].
    apply failed_never_reaches_upstream; [|exact HO|].
    + intros r [E|E]; rewrite E in AR; discriminate.
    + intros r [E|E]; rewrite E in AR; discriminate.
Qed.

Theorem check_sound k : v_corr (check k) = true -> v_prop (check k) = true.
Proof.
  simpl. unfold corr, prop. rewrite !andb_true_iff. intros [[A B] C].
  repeat split; apply prop_entry_of_match; assumption.
Qed.
